(* C02 — only valid metrics are forwarded; every rejection is counted and reported. *)
From CRNG Require Import Base.ListX Base.Bytes Lib.Regex Model.Fields Model.Validate Model.Matcher Model.Table
  Proofs.ValidateProofs Proofs.TableProofs.

(* rejected => counted invalid once, forwarded nowhere (no route, no destination,
   no aggregation), reported under its key with the reason; the order map is untouched *)
Theorem C02_rejected_not_forwarded :
  forall (search : rx -> bytes -> bool) t om buf v s ts e,
    snd (validate_packet buf (t_ll t) (t_lm t) v s) = Some e ->
    let '(om', o) := dispatch search t om buf v s ts in
    om' = om /\ o_invalid o = true /\ o_routes o = [] /\ o_dests o = [] /\ o_agg_consumed o = [] /\
    o_out_of_order o = false /\ o_blacklisted o = false /\ o_unroutable o = false /\
    o_bad o = Some (fst (validate_packet buf (t_ll t) (t_lm t) v s), BadInvalid e).
Proof. exact dispatch_invalid. Qed.
Print Assumptions C02_rejected_not_forwarded.

(* forwarded anywhere => it passed validation (with C01_routes_exact: iff) *)
Theorem C02_forwarded_only_if_valid :
  forall (search : rx -> bytes -> bool) t om buf v s ts,
    let o := snd (dispatch search t om buf v s ts) in
    (o_routes o <> [] \/ o_agg_consumed o <> [] \/ o_dests o <> []) ->
    snd (validate_packet buf (t_ll t) (t_lm t) v s) = None /\ o_invalid o = false.
Proof.
  intros search t om buf v s ts o H.
  destruct (snd (validate_packet buf (t_ll t) (t_lm t) v s)) as [e|] eqn:E.
  - pose proof (dispatch_invalid search t om buf v s ts e E) as D. subst o.
    destruct (dispatch search t om buf v s ts) as [om' o']. simpl in *.
    destruct D as [_ [_ [R [Dd [A _]]]]]. rewrite R, Dd, A in H. destruct H as [H|[H|H]]; contradiction.
  - split; [reflexivity|]. subst o. unfold dispatch.
    destruct (validate_packet buf (t_ll t) (t_lm t) v s) as [key [e|]]; [discriminate|].
    destruct (if t_order t then ordered om key ts else (om, true)) as [om' fresh].
    destruct (negb fresh); [reflexivity|].
    destruct (fields buf) as [|f0 [|f1 [|f2 [|? ?]]]]; try reflexivity.
    destruct (existsb _ _); [reflexivity|].
    destruct (agg_loop _ _ _ _) as [c d]. destruct d; [reflexivity|].
    destruct (route_loop _ _ _ _ _); reflexivity.
Qed.
Print Assumptions C02_forwarded_only_if_valid.

(* valid = three fields, acceptable name at the configured levels, numeric value and timestamp *)
Theorem C02_valid_iff :
  forall buf ll lm v s,
    snd (validate_packet buf ll lm v s) = None <->
    exists f0 f1 f2, fields buf = [f0; f1; f2] /\ key_ok ll lm f0 /\ v = true /\ s = true.
Proof. exact validate_packet_valid_iff. Qed.
Print Assumptions C02_valid_iff.

(* the legacy name rules are the documented grammar: strict = [A-Za-z0-9_.-]* without "..",
   medium = no NUL / 8-bit bytes, tag appendix = (;key=value)+ *)
Theorem C02_name_grammar :
  forall id lv, validate_key_legacy id lv = None <-> name_ok lv id.
Proof. exact validate_key_legacy_grammar. Qed.
Print Assumptions C02_name_grammar.

Theorem C02_tag_appendix_grammar :
  forall s, tag_appendix (S (length s)) s = true <-> appendix_ok s.
Proof. exact tag_appendix_correct. Qed.
Print Assumptions C02_tag_appendix_grammar.

(* the level names of the configuration file *)
Theorem C02_levels :
  forall t,
    (forall l, parse_level_legacy t = Some l <->
       (t = str_strict /\ l = StrictLegacy) \/ (t = str_medium /\ l = MediumLegacy) \/ (t = str_none /\ l = NoneLegacy)) /\
    (forall l, parse_level_m20 t = Some l <-> (t = str_medium /\ l = MediumM20) \/ (t = str_none /\ l = NoneM20)).
Proof. intros t. split; intros l; [apply parse_level_legacy_spec | apply parse_level_m20_spec]. Qed.
Print Assumptions C02_levels.

(* the report holds, per name, the last rejected record *)
Theorem C02_bad_last_wins :
  forall (R : Type) (l : list (bytes * R)) m k,
    bad_get R (fold_left (fun m kr => bad_add R m (fst kr) (snd kr)) l m) k =
    match last_for R l k with Some r => Some r | None => bad_get R m k end.
Proof. exact bad_last_wins. Qed.
Print Assumptions C02_bad_last_wins.

Example C02_nonvacuous :
  snd (validate_packet [102;111;111;46;98;59;107;61;118;32;49;32;50] StrictLegacy MediumM20 true true) = None /\
  snd (validate_packet [102;111;111;46;46;98;32;49;32;50] StrictLegacy MediumM20 true true) = Some ErrEmptyNode /\
  snd (validate_packet [97;46;102;59;107;61;32;49;32;50] MediumLegacy MediumM20 true true) = Some ErrInvalidTagAppendix.
Proof. vm_compute. auto. Qed.
