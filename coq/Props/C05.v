(* C05 — a healthy carbon connection carries the lines in order, once, unbroken. *)
From CRNG Require Import Base.ListX Base.Bytes Model.BufWriter Model.DiskQueue Proofs.BufWriterProofs.
Local Open Scope nat_scope.

(* The buffered writer, for every capacity, every write size and every behaviour of the underlying
   writer: the bytes a Write reports as taken are appended to (accepted ++ buffered), nothing else
   changes, the buffer never exceeds its capacity, and no error means everything was taken. *)
Theorem C05_writer_stream :
  forall fuel b p nn b' nn' e,
    length (bw_buf b) <= bw_cap b ->
    bw_write fuel b p nn = Some (b', nn', e) ->
    nn <= nn' /\ nn' - nn <= length p /\
    stream b' = stream b ++ firstn (nn' - nn) p /\
    bw_cap b' = bw_cap b /\ length (bw_buf b') <= bw_cap b' /\
    (e = false -> nn' - nn = length p /\ bw_err b' = false) /\ (e = true -> bw_err b' = true).
Proof. exact write_spec. Qed.
Print Assumptions C05_writer_stream.

(* Write's loop terminates whenever the underlying writer honours the io.Writer contract
   (fewer bytes than offered only together with an error); two rounds are enough *)
Theorem C05_write_terminates :
  forall fuel b p nn, contract (bw_script b) -> bw_write (S (S fuel)) b p nn <> None.
Proof. exact write_terminates. Qed.
Print Assumptions C05_write_terminates.

(* a healthy connection, any interleaving of lines and flushes, any buffer size and line lengths:
   what the endpoint has received plus what is still buffered is exactly the lines in hand-off
   order, each once, each followed by one newline; a flush leaves nothing behind *)
Theorem C05_conn_stream :
  forall ops b b',
    healthy (bw_script b) -> bw_err b = false -> length (bw_buf b) <= bw_cap b ->
    conn_run b ops = Some b' -> stream b' = stream b ++ lines_of ops.
Proof. exact conn_stream. Qed.
Print Assumptions C05_conn_stream.

Theorem C05_flush_empties :
  forall b b' e, healthy (bw_script b) -> bw_err b = false -> bw_flush b = (b', e) -> bw_buf b' = [] /\ bw_out b' = stream b.
Proof. exact flush_empties. Qed.
Print Assumptions C05_flush_empties.

(* the bounded hand-off queue: for every interleaving of offers and takes, what was taken plus what is
   queued is a subsequence (same order) of what was offered, and the difference is exactly the drop counter *)
Theorem C05_drop_accounting :
  forall evs cap,
    let s' := q_run {| q_items := []; q_cap := cap; q_dropped := 0; q_taken := [] |} evs in
    subseq (q_taken s' ++ q_items s') (offered evs) /\
    length (offered evs) = length (q_taken s' ++ q_items s') + q_dropped s'.
Proof.
  intros evs cap.
  exact (queue_accounting evs {| q_items := []; q_cap := cap; q_dropped := 0; q_taken := [] |} [] ss_nil eq_refl).
Qed.
Print Assumptions C05_drop_accounting.

(* pickle mode: any sequence of payloads below 4 GiB, each behind its 4-byte big-endian length, parses back
   into exactly those payloads, in order *)
Theorem C05_pickle_frames :
  forall ps, (forall p, In p ps -> (N.of_nat (length p) < 4294967296)%N) ->
    parse_frames (length ps) (concat (map frame ps)) = Some ps.
Proof. exact frames_roundtrip. Qed.
Print Assumptions C05_pickle_frames.
