(* C03 — filters mean exactly the documented conjunction, evaluated on the metric name. *)
From CRNG Require Import Base.ListX Base.Bytes Lib.Regex Model.Matcher Model.Table Proofs.MatcherProofs Proofs.PrefixSound Proofs.TableProofs.

(* Match = the conjunction of the six documented tests, for every regex oracle
   for which the static prefix derived from the pattern text is sound.  The
   hypothesis is discharged below (C03_match_is_conjunction) for the regex engine
   and every regex passing the boolean check prefix_ok, which the run evaluates
   for every generated regex. *)
Theorem C03_match_is_conjunction_given_sound_prefix :
  forall (search : rx -> bytes -> bool) m s,
    opt_sound search (m_regex m) -> opt_sound search (m_notRegex m) ->
    matcher_match search m s = spec_accept search m s.
Proof. exact match_is_conjunction. Qed.
Print Assumptions C03_match_is_conjunction_given_sound_prefix.

(* Every string that an anchored regex matches starts with the literal prefix read off its syntax tree
   (literals, \., groups; one-or-more and counted repetitions contribute the prefix of their body, anything
   optional or alternative ends it) — by induction over the syntax tree, for the backtracking engine. *)
Theorem C03_ast_prefix_sound :
  forall r s, re_search r s = true -> has_prefix (ast_prefix r) s = true.
Proof. exact ast_prefix_sound. Qed.
Print Assumptions C03_ast_prefix_sound.

(* hence the prefix that regexToPrefix scans from the pattern text is sound whenever it is an initial part of
   the tree's prefix (prefix_ok, a boolean the run evaluates for every regex it generates) ... *)
Theorem C03_text_prefix_sound :
  forall r, prefix_ok r = true ->
    forall s, rx_search r s = true -> has_prefix (regex_to_prefix (rx_src r)) s = true.
Proof. exact text_prefix_sound. Qed.
Print Assumptions C03_text_prefix_sound.

(* ... and Match is exactly the documented conjunction, with no hypothesis left but that boolean *)
Theorem C03_match_is_conjunction :
  forall m s, opt_prefix_ok (m_regex m) = true -> opt_prefix_ok (m_notRegex m) = true ->
    matcher_match rx_search m s = spec_accept rx_search m s.
Proof.
  intros m s H1 H2. apply match_is_conjunction.
  - destruct (m_regex m) as [r|]; [|exact I]. intros x Hx. apply text_prefix_sound; assumption.
  - destruct (m_notRegex m) as [r|]; [|exact I]. intros x Hx. apply text_prefix_sound; assumption.
Qed.
Print Assumptions C03_match_is_conjunction.

(* pre-matching never rejects a name the filter accepts *)
Theorem C03_prematch_necessary :
  forall (search : rx -> bytes -> bool) m s,
    opt_sound search (m_regex m) ->
    pre_match m s = false -> spec_accept search m s = false.
Proof. exact prematch_necessary. Qed.
Print Assumptions C03_prematch_necessary.

(* the match cache: in every history of lookups and expiry sweeps (any subset
   of entries deleted at any time) each lookup returns the uncached result *)
Theorem C03_cache_transparent :
  forall (A : Type) (f : bytes -> A) ops c,
    cache_inv A f c -> crun A f c ops = map (spec_out A f) ops.
Proof. intros A f ops c. apply cache_run_transparent. Qed.
Print Assumptions C03_cache_transparent.

(* the sites: destination selection and aggregate routing look at the name only *)
Theorem C03_sites_name_only :
  forall search ds rs l l', name_of l = name_of l' ->
    send_all search ds 0 l = send_all search ds 0 l' /\
    send_first search ds 0 l = send_first search ds 0 l' /\
    map fst (o_routes (dispatch_aggregate search rs l)) = map fst (o_routes (dispatch_aggregate search rs l')).
Proof.
  intros. repeat split; [apply send_all_name_only | apply send_first_name_only | apply aggregate_routes_name_only]; assumption.
Qed.
Print Assumptions C03_sites_name_only.

(* an aggregation takes a point only if its complete filter (all six options) accepts the name *)
Theorem C03_aggregation_filter :
  forall search a name r,
    m_regex (a_matcher a) = Some r ->
    (forall s, search r s = true -> has_prefix (regex_to_prefix (rx_src r)) s = true) ->
    agg_takes search a name = spec_accept search (a_matcher a) name.
Proof. exact agg_takes_spec. Qed.
Print Assumptions C03_aggregation_filter.

(* the shortcut as it was before the repair is unsound: ^ab?c matches "ac",
   which does not start with "ab" (kept so that a revert is recognised) *)
Definition old_prefix_scan_ab_opt_c : bytes := [97; 98].   (* what the old scan returned for ^ab?c *)
Example C03_old_shortcut_refuted :
  rx_search {| rx_src := [94;97;98;63;99]; rx_ast := Cat Bol (Cat (Chr 97) (Cat (Opt true (Chr 98)) (Chr 99))) |} [97; 99] = true
  /\ has_prefix old_prefix_scan_ab_opt_c [97; 99] = false
  /\ has_prefix (regex_to_prefix [94;97;98;63;99]) [97; 99] = true.
Proof. vm_compute. auto. Qed.

Example C03_nonvacuous :
  opt_sound rx_search (Some {| rx_src := [94;97;98]; rx_ast := Cat Bol (Cat (Chr 97) (Chr 98)) |}) -> True.
Proof. auto. Qed.
