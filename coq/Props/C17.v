(* C17 — grafana.net route: retry until acknowledged, series order kept, shutdown drains. *)
From CRNG Require Import Base.ListX Base.Bytes Model.GrafanaNet Proofs.GrafanaNetProofs Proofs.ShardProofs.
Local Open Scope nat_scope.

(* a flush posts the same body until the first 2xx: the attempts are failures followed by exactly one
   acknowledgement, the unused part of the fault sequence is left for later *)
Theorem C17_retry_until_ack :
  forall faults used rest,
    retry faults = Some (used, rest) ->
    faults = used ++ rest /\ exists fails, used = fails ++ [Ok2xx] /\ forallb (fun o => negb (is_ok o)) fails = true.
Proof. exact retry_spec. Qed.
Print Assumptions C17_retry_until_ack.

(* fairness hypothesis made explicit: whenever the endpoint eventually answers 2xx the flush completes *)
Theorem C17_ack_reached : forall faults, In Ok2xx faults -> retry faults <> None.
Proof. exact retry_total. Qed.
Print Assumptions C17_ack_reached.

(* no batch is skipped or altered between attempts *)
Theorem C17_same_body_until_ack :
  forall A (w w' : wstate A),
    do_flush A w = Some w' ->
    total A w' = total A w /\ w_batch A w' = [] /\ w_queue A w' = w_queue A w /\ w_done A w' = w_done A w /\
    exists attempts, w_posts A w' = w_posts A w ++ map (fun o => (w_batch A w, o)) attempts /\
                     (w_batch A w = [] -> attempts = []) /\
                     (w_batch A w <> [] -> exists fails, attempts = fails ++ [Ok2xx] /\ forallb (fun o => negb (is_ok o)) fails = true).
Proof. exact do_flush_spec. Qed.
Print Assumptions C17_same_body_until_ack.

(* for every sequence of worker events and every fault sequence: acknowledged ++ batch ++ queue is exactly what the
   shard received, in order — so what was acknowledged is a prefix of it, and one series (one shard) keeps its order *)
Theorem C17_series_order :
  forall A flush_max (w : wstate A) e w', wstep A flush_max w e = Some w' -> total A w' = total A w.
Proof. exact step_total. Qed.
Print Assumptions C17_series_order.

(* a full shard buffer: non-blocking mode drops (and says so), blocking mode waits and drops nothing *)
Theorem C17_buffer_full :
  forall A blocking cap (q : list A) m,
    (cap <= length q -> enqueue A blocking cap q m = if blocking then None else Some (q, true)) /\
    (length q < cap -> enqueue A blocking cap q m = Some (q ++ [m], false)).
Proof. intros. split; [apply buffer_full|apply buffer_room]. Qed.
Print Assumptions C17_buffer_full.

(* shutdown: every worker takes in what is still queued for it, flushes, and reports done *)
Theorem C17_shutdown_drains :
  forall A flush_max (w w' : wstate A),
    w_done A w = false -> wstep A flush_max w WShutdown = Some w' ->
    w_done A w' = true /\ w_queue A w' = [] /\ w_batch A w' = [] /\ acked A w' = total A w.
Proof. exact shutdown_drains. Qed.
Print Assumptions C17_shutdown_drains.

Local Open Scope N_scope.
(* "The points of one series": a series is a name plus a SET of tags.  Dispatch (as repaired, 5b94d75) picks the worker from the
   sum of the fnv32a hashes of the name and of each tag, so the same series, its tags listed in any order, is queued to the same
   worker — whose queue, batches and posts keep the order (C17_series_order).  For a name without tags it is the fnv32a hash of
   the name, as before.  (It used to be the hash of the text as sent: with a concurrency that is not a power of two the same
   series could be spread over several workers and its points acknowledged out of order.) *)
Theorem C17_shard_independent_of_tag_order :
  forall conc name tags tags',
    no_sep name -> Forall no_sep tags -> Permutation.Permutation tags tags' ->
    shard_of conc (join [59] (name :: tags)) = shard_of conc (join [59] (name :: tags')).
Proof. exact shard_tag_order. Qed.
Print Assumptions C17_shard_independent_of_tag_order.

Theorem C17_shard_of_untagged_name :
  forall conc name, no_sep name -> shard_of conc name = (Lib.Fnv.fnv32a name mod conc).
Proof. exact shard_untagged. Qed.
Print Assumptions C17_shard_of_untagged_name.

Example C17_shard_example :
  (* a.b;x=1;y=2 and a.b;y=2;x=1 with the default concurrency of 100 *)
  shard_of 100 [97;46;98;59;120;61;49;59;121;61;50] = shard_of 100 [97;46;98;59;121;61;50;59;120;61;49]
  /\ Lib.Fnv.fnv32a [97;46;98;59;120;61;49;59;121;61;50] mod 100 <> Lib.Fnv.fnv32a [97;46;98;59;121;61;50;59;120;61;49] mod 100.
Proof. vm_compute. split; [reflexivity | discriminate]. Qed.
