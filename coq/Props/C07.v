(* C07 — with spooling on, an endpoint outage loses nothing that is not counted. *)
From CRNG Require Import Base.Bytes Model.Relay Model.Spooling Proofs.RelayProofs Proofs.SpoolingProofs.
Local Open Scope N_scope.

(* For every schedule of hand-offs, conn moves, deliveries, breaks (noticed late or at once), recoveries,
   keepSafe rotations and ticks: every handed-off line is, at every moment, received, or still in conn.In,
   keepSafe or the spool, or counted in slow_conn / slow_spool.  (keepSafe forgets only received lines: the
   code's retention assumption, as the enabling condition of SForget.) *)
Theorem C07_no_uncounted_loss :
  forall evs s, srun sinit evs = Some s ->
    forall id, In id (s_handed s) ->
      In id (s_recv s) \/ In id (s_q s) \/ In id (s_keep s) \/ In id (s_spool s) \/ In id (s_slow s) \/ In id (s_slowspool s).
Proof. intros evs s H. exact (run_safe evs _ _ H init_safe). Qed.
Print Assumptions C07_no_uncounted_loss.

(* hence, once everything has drained, the distinct lines never received number at most slow_conn + slow_spool *)
Theorem C07_missing_bounded :
  forall evs s missing, srun sinit evs = Some s -> drained s -> NoDup missing ->
    (forall x, In x missing -> In x (s_handed s) /\ ~ In x (s_recv s)) ->
    (length missing <= length (s_slow s) + length (s_slowspool s))%nat.
Proof. intros evs s missing H. apply missing_bounded. exact (run_safe evs _ _ H init_safe). Qed.
Print Assumptions C07_missing_bounded.

(* lines in flight when the outage is noticed (in conn.In or keepSafe) are replayed through the spool *)
Theorem C07_redo_replays :
  forall s s', sstep s SNotice = Some s' -> forall x, In x (s_q s) \/ In x (s_keep s) -> In x (s_spool s').
Proof. exact notice_replays. Qed.
Print Assumptions C07_redo_replays.

(* while the endpoint stays up and the conn is not slow, each of unspool / take / deliver is enabled as long
   as its queue is non-empty, and shortens the backlog *)
Theorem C07_drain_progress :
  forall s, s_conn s = true -> s_alive s = true -> s_now s = false -> s_last s = false ->
  (s_spool s <> [] -> exists s', sstep s (SUnspool true) = Some s' /\ (backlog s' <= backlog s)%nat /\ length (s_spool s') = pred (length (s_spool s))) /\
  (s_q s <> [] -> exists s', sstep s STake = Some s' /\ (backlog s' < backlog s)%nat) /\
  (s_wire s <> [] -> exists s', sstep s SDeliver = Some s' /\ (backlog s' < backlog s)%nat).
Proof. exact drain_progress. Qed.
Print Assumptions C07_drain_progress.

(* the relay loop only unspools through a live conn that was not slow in this or the last period *)
Theorem C07_unspool_gate :
  forall s room s' outs, rstep s (EvUnspool room) = Some (s', outs) ->
    r_conn s = true /\ r_spool s = true /\ r_slow_now s = false /\ r_slow_last s = false.
Proof. exact unspool_gate. Qed.
Print Assumptions C07_unspool_gate.

Example C07_nonvacuous :
  match srun sinit [SConnUp; SIn 1 true; STake; SDeliver; SIn 2 true; STake; SBreak; SIn 3 true; SNotice; SIn 4 true;
                    SConnUp; SUnspool true; STake; SBreak; SNotice; SConnUp;
                    SUnspool true; SUnspool true; SUnspool true; SUnspool true; STake; STake; STake; STake;
                    SDeliver; SDeliver; SDeliver; SDeliver; SForget] with
  | Some s => (s_q s, s_spool s, s_keep s, s_slow s, forallb (fun x => memb x (s_recv s)) [1;2;3;4])
  | None => ([], [], [], [], false)
  end = ([], [], [], [], true).
Proof. exact spooling_example. Qed.
