(* C01 — every accepted metric reaches exactly the matching routes and destinations.
   Statements only; the regex search is an arbitrary function (oracle). *)
From CRNG Require Import Base.ListX Base.Bytes Lib.Regex Model.Fields Model.Validate Model.Matcher Model.Rewriter
  Model.Hashing Model.Table Proofs.TableProofs.
Local Open Scope nat_scope.

(* A valid, in-order, non-blacklisted, non-consumed line is handed, with the same
   final text, to exactly the routes whose filter accepts the rewritten name —
   each once, in table order — and inside each such route to exactly what that
   route type selects; it is counted unroutable iff no route accepts it. *)
Theorem C01_routes_exact :
  forall (search : rx -> bytes -> bool) t om buf v s ts f0 f1 f2,
    validate_packet buf (t_ll t) (t_lm t) v s = (strip_dot f0, None) ->
    fields buf = [f0; f1; f2] ->
    (t_order t = true -> snd (ordered om (strip_dot f0) ts) = true) ->
    existsb (fun m => mmatch search m f0) (t_blacklist t) = false ->
    snd (agg_loop search (t_aggs t) 0 (rewrite_all (t_rewriters t) f0)) = false ->
    let name := rewrite_all (t_rewriters t) f0 in
    let final := name ++ [32%N] ++ f1 ++ [32%N] ++ f2 in
    let o := snd (dispatch search t om buf v s ts) in
    o_routes o = map (fun j => (j, final)) (accepting (route_accepts search name) (t_routes t) 0) /\
    o_dests o = flat_map (fun jr => map (fun d => (fst jr, d, final)) (route_dispatch search (snd jr) final))
                         (accepting_el (route_accepts search name) (t_routes t) 0) /\
    (o_unroutable o = true <-> accepting (route_accepts search name) (t_routes t) 0 = []) /\
    o_invalid o = false /\ o_out_of_order o = false /\ o_blacklisted o = false /\ o_bad o = None.
Proof. exact dispatch_routes_exact. Qed.
Print Assumptions C01_routes_exact.

(* "exactly once": the list of accepting indices has no duplicates and contains
   precisely the indices of accepting entries *)
Theorem C01_exactly_once :
  forall A (f : A -> bool) l j,
    NoDup (accepting f l 0) /\
    (In j (accepting f l 0) <-> exists x, nth_error l j = Some x /\ f x = true).
Proof.
  intros A f l j. split; [apply accepting_nodup|].
  rewrite accepting_spec, Nat.sub_0_r. split; [tauto|intros H; split; [lia|exact H]].
Qed.
Print Assumptions C01_exactly_once.

Theorem C01_blacklisted :
  forall (search : rx -> bytes -> bool) t om buf v s ts f0 f1 f2,
    validate_packet buf (t_ll t) (t_lm t) v s = (strip_dot f0, None) ->
    fields buf = [f0; f1; f2] ->
    (t_order t = true -> snd (ordered om (strip_dot f0) ts) = true) ->
    existsb (fun m => mmatch search m f0) (t_blacklist t) = true ->
    let o := snd (dispatch search t om buf v s ts) in
    o_blacklisted o = true /\ o_routes o = [] /\ o_dests o = [] /\ o_agg_consumed o = [] /\
    o_unroutable o = false /\ o_invalid o = false /\ o_bad o = None.
Proof. exact dispatch_blacklisted. Qed.
Print Assumptions C01_blacklisted.

(* send-all-match: every accepting destination; send-first-match: the first one only *)
Theorem C01_send_all :
  forall search ds line,
    send_all search ds 0 line = accepting (fun d => mmatch search (d_matcher d) (name_of line)) ds 0.
Proof. intros; apply send_all_spec. Qed.
Print Assumptions C01_send_all.

Theorem C01_send_first :
  forall search ds line,
    send_first search ds 0 line = firstn 1 (accepting (fun d => mmatch search (d_matcher d) (name_of line)) ds 0).
Proof. intros; apply send_first_spec. Qed.
Print Assumptions C01_send_first.

Theorem C01_hashing_at_most_one :
  forall ds line, length (send_hash ds line) <= 1.
Proof. exact send_hash_at_most_one. Qed.
Print Assumptions C01_hashing_at_most_one.
