(* C10 — aggregations emit exactly one correct point per bucket, once, in order. (being extended) *)
From CRNG Require Import Base.ListX Base.Bytes Model.Aggregator.

Theorem C10_placeholder_flush_nil : forall F P (pf : P -> list (bytes * F)) c, flush F P pf [] c = ([], []).
Proof. reflexivity. Qed.
Print Assumptions C10_placeholder_flush_nil.
