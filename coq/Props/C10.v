(* C10 — aggregations emit exactly one correct point per bucket, once, in order.
   F is an arbitrary float type with arbitrary operations: no floating-point law is assumed. *)
From CRNG Require Import Base.ListX Base.Bytes Model.Aggregator
  Proofs.AggregatorProofs Proofs.AggregatorSpec Proofs.AggregatorOnce.

(* 1. On every history of points and ticks the aggregator (running Avg/Count/.../Percentiles
      processors) emits exactly what the specification aggregator emits, whose per-(bucket,key)
      state is simply the list of contributed (value, timestamp) pairs in arrival order. *)
Theorem C10_refines_spec :
  forall F (fadd fsub fmul fdiv : F -> F -> F) (fsqrt : F -> F) (flt : F -> F -> bool) (of_N : N -> F) (f : fn)
         interval wait (evs : list (aevent F)),
    run1 F (proc F) (proc_new F f) (proc_add F fadd flt) (proc_flush F fadd fsub fmul fdiv fsqrt flt of_N)
         interval wait (a_init (proc F)) evs =
    run2 F (contrib F) (c_new F) (c_add F) (c_flush F fadd fsub fmul fdiv fsqrt flt of_N f)
         interval wait (a_init (contrib F)) evs.
Proof. intros. apply refines_spec. Qed.
Print Assumptions C10_refines_spec.

(* 2. What is reported for a list of contributed values: the configured function as a plain fold
      (avg = sum/count, delta = max-min, derive over oldest/newest timestamp with no output when
      they coincide, stdev, NIST R6 percentiles p25..p99 with the clamps, ...) *)
Theorem C10_value :
  forall F (fadd fsub fmul fdiv : F -> F -> F) (fsqrt : F -> F) (flt : F -> F -> bool) (of_N : N -> F) (f : fn) c,
    c_flush F fadd fsub fmul fdiv fsqrt flt of_N f c = fun_spec F fadd fsub fmul fdiv fsqrt flt of_N f c.
Proof. intros. apply value_spec. Qed.
Print Assumptions C10_value.

(* 3. A point touches exactly its own (bucket, key): it is appended there if the pair exists,
      creates it if the bucket is still open (quantized > now - wait), is dropped (too old)
      otherwise; every other (bucket, key) is unchanged. *)
Theorem C10_contributes_once :
  forall F wait (st : astate (contrib F)) key ts q v now,
    bsorted (contrib F) (a_buckets (contrib F) st) ->
    let st' := add_or_create F (contrib F) (c_new F) (c_add F) wait st key ts q v now in
    (forall q' k', (q' <> q \/ k' <> key) -> lookup (contrib F) st' q' k' = lookup (contrib F) st q' k') /\
    lookup (contrib F) st' q key =
      match lookup (contrib F) st q key with
      | Some c => Some (c_add F c v ts)
      | None => if usub now wait <? q then Some (c_new F v ts) else None
      end /\
    bsorted (contrib F) (a_buckets (contrib F) st').
Proof. intros. apply point_local. assumption. Qed.
Print Assumptions C10_contributes_once.

(* 4. A tick reports exactly the buckets whose start is at or before t - wait, in ascending order
      of bucket start, one entry per bucket carrying one line per key (six for percentiles), and removes them. *)
Theorem C10_emission :
  forall F P pnew padd pflush interval wait (st : astate P) t,
    bsorted P (a_buckets P st) ->
    astep F P pnew padd pflush interval wait st (ATick F t) =
    ({| a_buckets := filter (fun b => cutoff_of wait t <? fst b) (a_buckets P st); a_too_old := a_too_old P st |},
     map (fun b => (fst b, emit_bucket F P pflush (snd b))) (filter (fun b => fst b <=? cutoff_of wait t) (a_buckets P st))).
Proof. intros. apply tick_emits. assumption. Qed.
Print Assumptions C10_emission.

Theorem C10_reachable_sorted :
  forall F P pnew padd pflush interval wait evs,
    bsorted P (a_buckets P (run_state F P pnew padd pflush interval wait (a_init P) evs)).
Proof. intros. apply reachable_sorted. constructor. Qed.
Print Assumptions C10_reachable_sorted.

(* 5. Never twice: in every history in which no clock reading is behind an earlier tick (and
      readings are >= wait, so Go's unsigned subtraction does not wrap), no (bucket start, key)
      pair is reported more than once — late points for a closed bucket change no output. *)
Theorem C10_never_twice :
  forall F P pnew padd pflush interval wait (evs : list (aevent F)),
    clock_ok F wait 0 evs ->
    NoDup (run_pairs F P pnew padd pflush interval wait (a_init P) evs).
Proof. intros. apply never_twice. assumption. Qed.
Print Assumptions C10_never_twice.

(* non-vacuity: a concrete history under the clock hypothesis, on N as a toy "float" *)
Example C10_nonvacuous :
  let evs := [APoint N [97] 5 1003 1004; APoint N [97] 7 1009 1004; ATick N 1015; APoint N [97] 9 1003 1016; ATick N 1030] in
  clock_ok N 5 0 evs /\
  run2 N (contrib N) (c_new N) (c_add N) (c_flush N N.add N.sub N.mul N.div N.sqrt N.ltb (fun n => n) FSum) 10 5 (a_init (contrib N)) evs
  = [[]; []; [(1000, [([97], 12)])]; []; [(1000, [])]].   (* the late point leaves an empty bucket: no line *)
Proof. vm_compute. repeat split; try reflexivity; try discriminate; try (intro H; discriminate H). Qed.
