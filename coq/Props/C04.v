(* C04 — forwarded line = rewritten name + untouched value/timestamp; buffers isolated. *)
From CRNG Require Import Base.ListX Base.Bytes Lib.Regex Model.Fields Model.Validate Model.Matcher Model.Rewriter
  Model.Hashing Model.Table Proofs.TableProofs Proofs.RewriterProofs.
Local Open Scope nat_scope.

(* Every route that receives the line receives exactly
      rewrite_all rewriters name ++ " " ++ value ++ " " ++ timestamp
   where value and timestamp are the second and third white-space separated
   tokens of the input, byte for byte (whatever the white-space layout and
   the numeric spelling: the tokens are never re-formatted), and every
   recipient receives the same text. *)
Theorem C04_line_shape :
  forall (search : rx -> bytes -> bool) t om buf v s ts f0 f1 f2,
    validate_packet buf (t_ll t) (t_lm t) v s = (strip_dot f0, None) ->
    fields buf = [f0; f1; f2] ->
    (t_order t = true -> snd (ordered om (strip_dot f0) ts) = true) ->
    existsb (fun m => mmatch search m f0) (t_blacklist t) = false ->
    snd (agg_loop search (t_aggs t) 0 (rewrite_all (t_rewriters t) f0)) = false ->
    let final := rewrite_all (t_rewriters t) f0 ++ [32%N] ++ f1 ++ [32%N] ++ f2 in
    let o := snd (dispatch search t om buf v s ts) in
    (forall j l, In (j, l) (o_routes o) -> l = final) /\
    (forall j d l, In (j, d, l) (o_dests o) -> l = final).
Proof.
  intros search t om buf v s ts f0 f1 f2 Hv Hf Ho Hb Ha final o.
  destruct (dispatch_routes_exact search t om buf v s ts f0 f1 f2 Hv Hf Ho Hb Ha) as [HR [HD _]].
  fold final in HR, HD. fold o in HR, HD. split.
  - intros j l H. rewrite HR in H. apply in_map_iff in H as [j' [E _]]. inversion E; reflexivity.
  - intros j d l H. rewrite HD in H. apply in_flat_map in H as [jr [_ H]].
    apply in_map_iff in H as [d' [E _]]. inversion E; reflexivity.
Qed.
Print Assumptions C04_line_shape.

(* the value and timestamp tokens are non-empty and contain no space: the
   delivered line has exactly two single separating spaces after the name *)
Theorem C04_tokens_clean :
  forall buf tok, In tok (fields buf) -> tok <> [] /\ ~ In 32%N tok.
Proof. exact fields_tokens. Qed.
Print Assumptions C04_tokens_clean.

(* rewriters apply in configured order *)
Theorem C04_rewrite_order :
  forall rs1 rs2 n, rewrite_all (rs1 ++ rs2) n = rewrite_all rs2 (rewrite_all rs1 n).
Proof. exact rewrite_all_app. Qed.
Print Assumptions C04_rewrite_order.

(* a rule whose not-clause (substring or /regex/) matches is skipped *)
Theorem C04_not_skips :
  forall r buf,
    (match rw_notre r with
     | Some nr => re_search nr buf
     | None => nonempty (rw_not r) && contains (rw_not r) buf
     end) = true -> rw_do r buf = buf.
Proof. exact rw_not_skips. Qed.
Print Assumptions C04_not_skips.

(* literal rules: max = 0 replaces nothing, an absent pattern replaces nothing,
   and with max <> 0 the leftmost occurrence is replaced first *)
Theorem C04_literal_max :
  forall fuel s old new n,
    replace_n fuel s old new 0 = s /\
    (contains old s = false -> replace_n fuel s old new n = s) /\
    ((n <> 0)%Z -> has_prefix old s = true -> s <> [] ->
     replace_n (S fuel) s old new n =
     new ++ replace_n fuel (skipn (length old) s) old new (if (n <? 0)%Z then n else n - 1)%Z).
Proof.
  intros. split; [apply replace_n_zero|]. split; [apply replace_n_absent|apply replace_n_first].
Qed.
Print Assumptions C04_literal_max.

Local Open Scope N_scope.
Example C04_nonvacuous :
  rw_do {| rw_old := [97]; rw_new := [98; 98]; rw_not := []; rw_max := 2; rw_re := None; rw_notre := None |}
        [97; 120; 97; 97] = [98; 98; 120; 98; 98; 97] /\
  re_replace_all (Cat (Grp 1 (Plus true (Cls false [(97, 122)]))) (Chr 46)) [102;111;111;46;98;97;114;46;120]
                 [36;123;49;125;95] = [102;111;111;95;98;97;114;95;120].
Proof. vm_compute. auto. Qed.
