(* C14 — nothing received from the network or the admin port can crash the relay. *)
From CRNG Require Import Base.Bytes Model.Params Proofs.ParamsProofs.
Local Open Scope Z_scope.

(* The accepted-then-crash class.  For every aggregation (any regex flag, interval and wait written as
   digits), every carbon route (any number of destinations, each with any flush / reconn / connbuf / iobuf /
   spool... values written as digits) and every grafanaNet route (any concurrency / bufSize / flushMaxNum /
   flushMaxWait / timeout / orgId / errBackoffMin written as digits) that the constructors accept, every later operation that depends on
   those values — the aligned ticker's modulo, the three time.NewTicker calls, the buffered writer's and the
   channels' allocations, the hash ring's modulo, grafanaNet's shard modulo and per-shard buffers — runs with a value for which it does not panic.
   Durations are computed with wrapping int64 arithmetic, as in Go. *)
Theorem C14_accepted_parameters_cannot_crash_later :
  forall p, accepts p = true -> runs_ok p = true.
Proof. exact accepted_runs. Qed.
Print Assumptions C14_accepted_parameters_cannot_crash_later.

(* non-vacuity on both sides: the defaults are accepted; the values that crashed the relay before the
   repairs are exactly values for which the later operation panics (and are rejected now) *)
Example C14_nonvacuous :
  accepts (PAgg true 10 20) = true
  /\ runs_ok (PAgg true 0 0) = false /\ accepts (PAgg true 0 0) = false
  /\ runs_ok (PAgg true 36028797018963968 0) = false /\ accepts (PAgg true 36028797018963968 0) = false
  /\ accepts (PAgg false 10 0) = false.
Proof. vm_compute. repeat split. Qed.
