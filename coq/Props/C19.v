(* C19 — order validation accepts a point only if it is newer than all accepted before. *)
From CRNG Require Import Base.ListX Base.Bytes Lib.Fnv Lib.Regex Model.Fields Model.Validate Model.Matcher Model.Table
  Proofs.TableProofs Proofs.OrderedProofs Check.Common Check.TableCheck Check.C19check Proofs.OrderedConc.

(* For every history of calls (= every linearisation: the real step runs entirely
   under one global mutex) over a set of names on which FNV-1a-64 does not collide,
   each call is accepted iff its timestamp exceeds the register of its name, i.e.
   iff it is positive and greater than every timestamp previously accepted for that name. *)
Theorem C19_max_register :
  forall (U : bytes -> Prop),
    (forall a b, U a -> U b -> fnv64a a = fnv64a b -> a = b) ->
    forall h, (forall n t, In (n, t) h -> U n) ->
    orun [] h = spec_run [] h.
Proof. intros U NC h Hu. apply (max_register U NC h [] []); [apply inv_init | exact Hu]. Qed.
Print Assumptions C19_max_register.

Theorem C19_accept_rule :
  forall acc n t, (maxts acc n <? t) = true <-> (0 < t /\ forall t', In (n, t') acc -> t' < t).
Proof. exact spec_accept_iff. Qed.
Print Assumptions C19_accept_rule.

(* accepted timestamps of one name are strictly increasing in acceptance order (so never repeat) *)
Theorem C19_strictly_increasing :
  forall h, increasing (spec_acc [] h).
Proof. intros h. apply accepted_increasing. constructor. Qed.
Print Assumptions C19_strictly_increasing.

(* a rejected point is counted out-of-order, reported under its name, forwarded nowhere, and leaves the registers alone *)
Theorem C19_reject_effects :
  forall (search : rx -> bytes -> bool) t om buf v s ts key,
    validate_packet buf (t_ll t) (t_lm t) v s = (key, None) ->
    t_order t = true -> snd (ordered om key ts) = false ->
    let o := snd (dispatch search t om buf v s ts) in
    o_out_of_order o = true /\ o_bad o = Some (key, BadOutOfOrder) /\ o_routes o = [] /\ o_dests o = [] /\
    o_agg_consumed o = [] /\ o_invalid o = false /\ o_unroutable o = false /\ fst (dispatch search t om buf v s ts) = om.
Proof. exact dispatch_out_of_order. Qed.
Print Assumptions C19_reject_effects.

(* names differing only by a leading dot share one register: the key is the name without it *)
Theorem C19_leading_dot :
  forall buf ll lm v s key,
    validate_packet buf ll lm v s = (key, None) -> exists f0 f1 f2, fields buf = [f0; f1; f2] /\ key = strip_dot f0.
Proof. intros. eapply validate_three_fields; eauto. Qed.
Print Assumptions C19_leading_dot.

Example C19_nonvacuous :
  orun [] [([97], 5); ([97], 5); ([97], 7); ([98], 0); ([97], 6); ([98], 1)] = [true; false; true; false; false; true].
Proof. vm_compute. reflexivity. Qed.

(* Concurrency.  The locked section of validate.Ordered runs atomically; model: the calls of all dispatchers
   run in some global order sigma (any interleaving of any number of threads, names and timestamps), each
   accepted iff its timestamp exceeds everything accepted before for its name.  The histories the threads
   observe (thread by thread, in program order) pass, call by call, every condition that the acceptor hist_ok
   of the correspondence check tests — so the acceptor never rejects a run of correct code, whatever the
   schedule.  (Its remaining clause compares the out-of-order counter with the number of rejected calls.) *)
Theorem C19_acceptor_sound_for_every_interleaving :
  forall (sigma : list gev) (T : nat),
    (forall e, In e sigma -> (fst e < T)%nat) ->
    let h := history (annot sigma [] (fun _ => O)) T in
    forallb (call_ok (coords h)) (coords h) = true.
Proof. exact hist_ok_accepts_every_interleaving. Qed.
Print Assumptions C19_acceptor_sound_for_every_interleaving.
