(* C18 — runtime table changes are atomic with respect to traffic. *)
From CRNG Require Import Base.ListX Base.Bytes Model.GoSlice Proofs.GoSliceProofs Check.C18check.
Local Open Scope nat_scope.

(* Readers load the configuration without a lock, so atomicity reduces to: no writer step changes what a
   previously published slice header shows.  For every history of additions (Go's append: in place when the
   capacity allows) and deletions done copy-on-delete, every header ever published keeps its contents for ever:
   a dispatcher that loaded the configuration before or after a change works on exactly that complete list. *)
Theorem C18_snapshot_immutable :
  forall (A : Type) (filler : A) ops (w : wstate A),
    Inv A w -> forall p, In p (w_published A w) ->
    view A (w_heap A (wrun A filler w ops)) p = view A (w_heap A w) p.
Proof. intros A filler ops w. apply snapshots_immutable. Qed.
Print Assumptions C18_snapshot_immutable.

(* the current view follows the list semantics: append adds at the end, delete removes exactly that index *)
Theorem C18_view_append :
  forall (A : Type) (filler : A) h s x, valid A h s ->
    view A (fst (go_append A h s x filler)) (snd (go_append A h s x filler)) = view A h s ++ [x].
Proof. intros. apply view_append. assumption. Qed.
Print Assumptions C18_view_append.

Theorem C18_view_delete :
  forall (A : Type) h s i, valid A h s -> i < h_len s ->
    view A (fst (del_copy A h s i)) (snd (del_copy A h s i)) = firstn i (view A h s) ++ skipn (S i) (view A h s).
Proof. intros. apply view_del_copy; assumption. Qed.
Print Assumptions C18_view_delete.

(* deleting by index removes that entry only: every other entry keeps its relative position *)
Theorem C18_delete_exact :
  forall (A : Type) (l : list A) i j,
    nth_error (del_nth i l) j = if Nat.ltb j i then nth_error l j else nth_error l (S j).
Proof.
  intros A l i j. unfold del_nth. destruct (Nat.ltb j i) eqn:E.
  - apply Nat.ltb_lt in E. destruct (Nat.ltb_spec j (length (firstn i l))) as [L|L].
    + rewrite nth_error_app1 by exact L. apply nth_error_firstn. exact E.
    + rewrite firstn_length in L. assert (length l <= j) by lia.
      rewrite nth_error_app2 by (rewrite firstn_length; lia).
      rewrite (proj2 (nth_error_None l j)) by lia. apply nth_error_None. rewrite skipn_length, firstn_length. lia.
  - apply Nat.ltb_ge in E. destruct (Nat.ltb_spec i (length l)) as [L|L].
    + rewrite nth_error_app2 by (rewrite firstn_length; lia). rewrite firstn_length, Nat.min_l by lia.
      rewrite nth_error_skipn. f_equal. lia.
    + rewrite firstn_all2, skipn_all2 by lia. rewrite app_nil_r.
      rewrite (proj2 (nth_error_None l j)) by lia. symmetry. apply nth_error_None. lia.
Qed.
Print Assumptions C18_delete_exact.

(* an index beyond the end is rejected and leaves the table unchanged; deleting an unknown route is a no-op *)
Theorem C18_bad_index_and_unknown_route :
  forall v i k,
    (length (v_black v) <= i -> admin_step v (DelBlack i) = (v, true)) /\
    (length (v_rw v) <= i -> admin_step v (DelRw i) = (v, true)) /\
    (length (v_aggs v) <= i -> admin_step v (DelAgg i) = (v, true)) /\
    ((forall ds, ~ In (k, ds) (v_routes v)) -> v_routes (fst (admin_step v (DelRoute k))) = v_routes v /\ snd (admin_step v (DelRoute k)) = false).
Proof.
  intros v i k. repeat split.
  - intros H. simpl. apply Nat.ltb_ge in H. rewrite H. reflexivity.
  - intros H. simpl. apply Nat.ltb_ge in H. rewrite H. reflexivity.
  - intros H. simpl. apply Nat.ltb_ge in H. rewrite H. reflexivity.
  - simpl. induction (v_routes v) as [|[k' ds] rs IH]; simpl; [reflexivity|].
    destruct (beqb k k') eqn:E; [apply beqb_eq in E; subst; exfalso; apply (H ds); left; reflexivity|].
    f_equal. apply IH. intros ds' Hi. apply (H ds'). right; exact Hi.
Qed.
Print Assumptions C18_bad_index_and_unknown_route.

(* modRoute / modDest: an update one of whose options is not acceptable changes nothing and reports an error; an accepted update
   changes the filter of the named route or destination only — the lists themselves are what they were *)
Theorem C18_rejected_modification_changes_nothing :
  forall v k i upd,
    admin_step v (ModRoute k upd false) = (v, true) /\ admin_step v (ModDest k i upd false) = (v, true).
Proof.
  intros v k i upd. split; cbn [admin_step]; destruct (route_dests (v_routes v) k); try reflexivity.
  rewrite Bool.andb_false_r. reflexivity.
Qed.
Print Assumptions C18_rejected_modification_changes_nothing.

Theorem C18_modification_touches_filters_only :
  forall v k i upd valid o, o = ModRoute k upd valid \/ o = ModDest k i upd valid ->
    let v' := fst (admin_step v o) in
    v_black v' = v_black v /\ v_rw v' = v_rw v /\ v_aggs v' = v_aggs v /\ v_routes v' = v_routes v.
Proof.
  intros v k i upd valid o [-> | ->]; cbn [admin_step]; destruct (route_dests (v_routes v) k); cbv zeta; cbn [fst]; auto.
  - destruct valid; cbn [fst with_filters v_black v_rw v_aggs v_routes]; auto.
  - destruct (Nat.ltb i (length l) && valid); cbn [fst with_filters v_black v_rw v_aggs v_routes]; auto.
Qed.
Print Assumptions C18_modification_touches_filters_only.

(* the delete as it was before the repair (shift inside the shared array) is not atomic: the old header changes *)
Example C18_delete_aliasing_refuted :
  let h0 : heap N := [[1; 2; 3]%N] in
  let s0 := {| h_arr := 0; h_len := 3 |} in
  let '(h1, s1) := del_inplace N h0 s0 0 in
  view N h0 s0 = [1; 2; 3]%N /\ view N h1 s1 = [2; 3]%N /\ view N h1 s0 = [2; 3; 3]%N.
Proof. exact inplace_delete_refuted. Qed.
