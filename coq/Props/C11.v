(* C11 — aggregation output bypasses the pipeline, cannot loop; drop-raw is exact. *)
From CRNG Require Import Base.ListX Base.Bytes Lib.Regex Model.Fields Model.Validate Model.Matcher Model.Rewriter
  Model.Hashing Model.Table Model.Aggregator Proofs.TableProofs Proofs.RouteUpdate Proofs.DropRawProofs Proofs.AggregatorProofs Proofs.AggregatorBound.
Local Open Scope nat_scope.

(* aggregate output is looked at by the routes only: it goes to every route whose filter accepts its
   name, is counted unroutable iff there is none, and is never validated, blacklisted, rewritten (the
   text handed on is the text received) or fed to an aggregation *)
Theorem C11_bypass :
  forall (search : rx -> bytes -> bool) rs buf,
    let o := dispatch_aggregate search rs buf in
    o_routes o = map (fun j => (j, buf)) (accepting (route_accepts search (name_of buf)) rs 0) /\
    o_agg_consumed o = [] /\ o_invalid o = false /\ o_blacklisted o = false /\ o_bad o = None /\
    (o_unroutable o = true <-> accepting (route_accepts search (name_of buf)) rs 0 = []).
Proof. exact dispatch_aggregate_routes. Qed.
Print Assumptions C11_bypass.

(* a route filter changed at run time (modRoute: route ri gets the filter m, in place) decides the very next aggregate line:
   route j receives it iff its CURRENT filter accepts the name - the new filter for j = ri, its own unchanged filter otherwise -
   whatever was routed before the change (the aggregate path keeps no memory of earlier verdicts) *)
Theorem C11_aggregate_routing_follows_route_updates :
  forall (search : rx -> bytes -> bool) rs ri m buf j,
    In (j, buf) (o_routes (dispatch_aggregate search (set_nth_route rs ri m) buf)) <->
    exists r, nth_error rs j = Some r /\
              mmatch search (if Nat.eqb j ri then m else r_matcher r) (name_of buf) = true.
Proof. exact aggregate_routing_follows_update. Qed.
Print Assumptions C11_aggregate_routing_follows_route_updates.

(* no loop, no amplification: whatever the rules (self-matching, chained), once raw input stops an
   aggregator emits at most the lines its open buckets hold, however many ticks follow *)
Theorem C11_no_amplification :
  forall F P pnew padd pflush interval wait ts (st : astate P),
    tick_run F P pnew padd pflush interval wait st ts <= capacity F P pflush (a_buckets P st).
Proof. intros. apply ticks_bounded. Qed.
Print Assumptions C11_no_amplification.

(* drop-raw, case 1: the first drop-raw aggregation whose complete filter takes the (rewritten) name
   stops the line; it and the plain takers before it are fed, no aggregation after it is *)
Theorem C11_dropraw_first_taker :
  forall search pre a post name,
    (forall b, In b pre -> a_dropraw b = true -> agg_takes search b name = false) ->
    a_dropraw a = true -> agg_takes search a name = true ->
    agg_loop search (pre ++ a :: post) 0 name =
    (accepting (fun b => agg_takes search b name) pre 0 ++ [length pre], true).
Proof. intros. rewrite (agg_loop_drop search pre a post 0 name); auto. Qed.
Print Assumptions C11_dropraw_first_taker.

(* ... and the dropped line reaches no route and no counter *)
Theorem C11_dropped_goes_nowhere :
  forall search t om buf v s ts f0 f1 f2,
    validate_packet buf (t_ll t) (t_lm t) v s = (strip_dot f0, None) ->
    fields buf = [f0; f1; f2] ->
    (t_order t = true -> snd (ordered om (strip_dot f0) ts) = true) ->
    existsb (fun m => mmatch search m f0) (t_blacklist t) = false ->
    snd (agg_loop search (t_aggs t) 0 (rewrite_all (t_rewriters t) f0)) = true ->
    let o := snd (dispatch search t om buf v s ts) in
    o_dropped_raw o = true /\ o_routes o = [] /\ o_dests o = [] /\ o_unroutable o = false /\ o_invalid o = false /\
    o_blacklisted o = false /\ o_agg_consumed o = fst (agg_loop search (t_aggs t) 0 (rewrite_all (t_rewriters t) f0)).
Proof. exact dropped_goes_nowhere. Qed.
Print Assumptions C11_dropped_goes_nowhere.

(* drop-raw, case 2: a metric no drop-raw aggregation takes is treated exactly as in the table with drop-raw switched off *)
Theorem C11_others_unaffected :
  forall search aggs name,
    (forall a, In a aggs -> a_dropraw a = true -> agg_takes search a name = false) ->
    agg_loop search aggs 0 name = agg_loop search (map undrop aggs) 0 name /\
    agg_loop search aggs 0 name = (accepting (fun a => agg_takes search a name) aggs 0, false).
Proof. intros. split; [apply unaffected_by_dropraw | apply agg_loop_no_drop]; assumption. Qed.
Print Assumptions C11_others_unaffected.
