(* C06 — a bad endpoint never stalls ingestion; steady-state losses are all counted. *)
From CRNG Require Import Base.Bytes Model.Relay Proofs.RelayProofs.
Local Open Scope N_scope.

(* In every state of the relay loop that has not been shut down — whatever the endpoint did before: never
   connected, connected and stalled, closed — a line offered on dest.In is taken, and taking it performs no
   operation that waits for another party: it goes to exactly one of conn.In / spool.InRT (select with
   default) or to a drop counter. *)
Theorem C06_hand_off_never_waits :
  forall s room, r_stopped s = false ->
    exists s' o, rstep s (EvIn room) = Some (s', [o]) /\ may_wait o = false /\ n_in s' = n_in s + 1.
Proof. exact hand_off_total. Qed.
Print Assumptions C06_hand_off_never_waits.

(* the only branches that call into a possibly stalled conn are the explicit flush and shutdown requests *)
Theorem C06_only_flush_and_shutdown_wait :
  forall s e s' outs, rstep s e = Some (s', outs) -> existsb may_wait outs = true -> e = EvFlush \/ e = EvShutdown.
Proof. exact only_flush_and_shutdown_wait. Qed.
Print Assumptions C06_only_flush_and_shutdown_wait.

(* conservation, for every event sequence from the start: every line taken (from In or from the spool)
   is in exactly one of: queued to the conn, slow_conn, queued to the spool, slow_spool, conn_down_no_spool *)
Theorem C06_conservation :
  forall spool evs s, rrun (rinit spool) evs = Some s ->
    n_in s + n_unspooled s = n_enq s + n_slow s + n_spooled s + n_slowspool s + n_noconn s.
Proof. intros spool evs s H. exact (run_conserved evs _ _ H (init_conserved spool)). Qed.
Print Assumptions C06_conservation.

(* while the conn stays up (no death detected), spooling off: handed = queued to the conn + slow_conn,
   and conn_down_no_spool does not move *)
Theorem C06_steady_up :
  forall evs s s', r_spool s = false -> r_conn s = true -> existsb is_dead evs = false -> rrun s evs = Some s' ->
    r_conn s' = true /\ n_noconn s' = n_noconn s /\
    n_in s' - n_in s = (n_enq s' - n_enq s) + (n_slow s' - n_slow s) /\
    n_in s <= n_in s' /\ n_enq s <= n_enq s' /\ n_slow s <= n_slow s'.
Proof. exact phase_up. Qed.
Print Assumptions C06_steady_up.

(* while it stays down, spooling off: every line is counted in conn_down_no_spool *)
Theorem C06_steady_down :
  forall evs s s', r_spool s = false -> r_conn s = false -> existsb is_connup evs = false -> rrun s evs = Some s' ->
    r_conn s' = false /\ n_enq s' = n_enq s /\ n_slow s' = n_slow s /\
    n_in s' - n_in s = n_noconn s' - n_noconn s /\ n_in s <= n_in s' /\ n_noconn s <= n_noconn s'.
Proof. exact phase_down. Qed.
Print Assumptions C06_steady_down.

Example C06_nonvacuous :
  rrun (rinit false) [EvUpdStart; EvConnUp; EvUpdEnd; EvIn true; EvIn false; EvTick; EvDead; EvIn true; EvTick; EvTick]
  = Some {| r_conn := false; r_spool := false; r_slow_now := false; r_slow_last := false; r_upd := 0; r_stopped := false;
            n_in := 3; n_unspooled := 0; n_enq := 1; n_slow := 1; n_spooled := 0; n_slowspool := 0; n_noconn := 1 |}.
Proof. exact relay_example. Qed.
