(* C16 — re-encoding a line for pickle, grafana.net or Kafka preserves the datapoint. *)
From CRNG Require Import Base.ListX Base.Bytes Base.Decimal Base.Order Lib.Utf8 Lib.Regex
  Model.Fields Model.Matcher Model.PickleVM Model.Reencode Proofs.ReencodeProofs.
From Coq Require Import Permutation.
Local Open Scope N_scope.

(* The pickle that a pickle-mode destination emits for (name, timestamp, value) is decoded by the
   pickle machine — CPython's reading (py = true) as well as og-rek's own (py = false), with any
   text-float oracle — to exactly [(name, (timestamp, value))]: same name bytes, the integer timestamp,
   the same float64 bits; for every name shorter than 2^32 bytes, every uint32 timestamp (BININT1,
   BININT2, BININT and the decimal 'I' form above 2^31) and every float64. *)
Theorem C16_pickle_roundtrip :
  forall pf py name ts bits,
    N.of_nat (length name) < 4294967296 -> ts < 4294967296 -> bits < 18446744073709551616 ->
    unpickle pf py (og_pickle_dp name ts bits) = RDone (VList [VTuple [VStr name; VTuple [VInt (Z.of_N ts); VFloat bits]]]).
Proof. exact pickle_roundtrip. Qed.
Print Assumptions C16_pickle_roundtrip.

(* the frame is the 4-byte big-endian length of the pickle followed by the pickle *)
Theorem C16_frame_header :
  forall name ts bits,
    N.of_nat (length (og_pickle_dp name ts bits)) < 4294967296 ->
    exists hdr, take 4 (pickle_frame name ts bits) = Some (hdr, og_pickle_dp name ts bits)
                /\ be_num hdr = N.of_nat (length (og_pickle_dp name ts bits)).
Proof. exact frame_header. Qed.
Print Assumptions C16_frame_header.

(* name, value and timestamp are the line's three tokens: the value through ParseFloat, the timestamp a
   plain decimal below 2^32 — and every such line is written, as that frame *)
Theorem C16_datapoint_tokens :
  forall pf line n b ts,
    parse_dp pf line = Some (n, b, ts) <->
    exists v t, fields line = [n; v; t] /\ pf v = Some b /\ dec_parse t = Some ts /\ ts < 4294967296.
Proof.
  intros. split; [apply parse_dp_sound|].
  intros [v [t [H1 [H2 [H3 H4]]]]]. eapply parse_dp_complete; eauto.
Qed.
Print Assumptions C16_datapoint_tokens.

Theorem C16_representable_written :
  forall pf line n v t b ts,
    fields line = [n; v; t] -> pf v = Some b -> dec_parse t = Some ts -> ts < 4294967296 ->
    pickle_write pf line = (pickle_frame n ts b, false).
Proof. exact representable_written. Qed.
Print Assumptions C16_representable_written.

(* a line whose value is not a float, or whose timestamp is not a decimal integer below 2^32 (or that has
   not exactly three fields), is skipped and counted: nothing at all is written for it *)
Theorem C16_unrepresentable_skipped :
  forall pf line,
    (forall n v t, fields line = [n; v; t] ->
       pf v = None \/ dec_parse t = None \/ exists k, dec_parse t = Some k /\ 4294967296 <= k) ->
    pickle_write pf line = ([], true).
Proof. exact unrepresentable_skipped. Qed.
Print Assumptions C16_unrepresentable_skipped.

(* The metric record for grafana.net / Kafka: series name = the text before the first ';' (dots
   canonicalised by the metrictank library: empty nodes removed), tags = the rest, sorted, all valid;
   value, timestamp and org id as given; interval = first retention of the rule selected for the name
   as Graphite presents it (bare name when untagged, name;sorted tags otherwise). *)
Theorem C16_metric_record :
  forall pf search rs org line md,
    parse_metric pf search rs org line = Some md ->
    exists nwt v t i r,
      fields line = [nwt; v; t] /\
      md_name md = eat_dots (hd [] (split_on 59 nwt)) /\
      Permutation (tl (split_on 59 nwt)) (md_tags md) /\ sorted bleb (md_tags md) /\
      forallb valid_tag (md_tags md) = true /\
      pf v = Some (md_val md) /\ dec_parse t = Some (md_time md) /\ md_time md < 4294967296 /\
      md_org md = org /\ org <> 0%Z /\
      select search rs (presented (hd [] (split_on 59 nwt)) (md_tags md)) = Some (i, r) /\
      first_precision (r_ret r) = Some (md_interval md).
Proof. exact metric_record. Qed.
Print Assumptions C16_metric_record.

(* the selected rule is the matching rule of highest priority, the earliest in the file among equals *)
Theorem C16_rule_selection :
  forall search rs key i r,
    N.of_nat (length rs) < 4294967296 ->
    select search rs key = Some (i, r) ->
    nth_error rs i = Some r /\ search (r_rx r) key = true /\
    forall j r', nth_error rs j = Some r' -> search (r_rx r') key = true ->
      (r_prio r' < r_prio r)%Z \/ (r_prio r' = r_prio r /\ (i <= j)%nat).
Proof. exact select_spec. Qed.
Print Assumptions C16_rule_selection.

Theorem C16_some_rule_is_selected :
  forall search rs key,
    select search rs key = None <-> forall j r', nth_error rs j = Some r' -> search (r_rx r') key = false.
Proof. exact select_none. Qed.
Print Assumptions C16_some_rule_is_selected.

(* invalid tags: no record is built (the routes log and skip the line) *)
Theorem C16_invalid_tags_skipped :
  forall pf search rs org nwt v t line,
    fields line = [nwt; v; t] ->
    existsb (fun tg => negb (valid_tag tg)) (tl (split_on 59 nwt)) = true ->
    parse_metric pf search rs org line = None.
Proof. exact invalid_tag_no_record. Qed.
Print Assumptions C16_invalid_tags_skipped.

Example C16_nonvacuous :
  let rs := [ {| r_rx := {| rx_src := [46;42]; rx_ast := Star true Any |}; r_prio := 0; r_ret := [49;48;115;58;49;100] |};
              {| r_rx := {| rx_src := [94;97;36]; rx_ast := Cat Bol (Cat (Chr 97) Eol) |}; r_prio := 1; r_ret := [54;48;58;49;48] |} ] in
  parse_metric (fun _ => Some 4607182418800017408) rx_search rs 1 [97; 32; 49; 32; 53]
  = Some {| md_name := [97]; md_tags := []; md_val := 4607182418800017408; md_time := 5; md_org := 1; md_interval := 60 |}
  /\ unpickle (fun _ => None) true (og_pickle_dp [102;111;111] 2500000000 4607182418800017408)
     = RDone (VList [VTuple [VStr [102;111;111]; VTuple [VInt 2500000000; VFloat 4607182418800017408]]]).
Proof. vm_compute. auto. Qed.
