(* C12 — input framing is independent of how the network chops the stream. *)
From CRNG Require Import Base.ListX Base.Bytes Model.Plain Proofs.PlainProofs.

(* For every script of reads (any cut positions, one-byte reads, empty reads, data together with
   EOF or with a timeout error) on which the scanner ends normally or with the read error, the lines
   handed on are exactly the newline-delimited lines of the concatenated stream, one optional
   trailing CR removed, a final unterminated line included — each once, in order, never a fragment. *)
Theorem C12_chunk_invariance :
  forall script ls st,
    plain script = (ls, st) -> (st = SOk \/ st = SErr) -> ls = spec_lines (data_of script).
Proof. exact plain_chunk_invariance. Qed.
Print Assumptions C12_chunk_invariance.

(* the supported limit: streams whose raw lines (and unterminated tail) stay below 64 KiB are never refused *)
Theorem C12_limits :
  forall script, lines_fit (data_of script) 0 = true -> snd (plain script) <> STooLong.
Proof. intros script H. apply (within_limit_never_too_long script [] 0 H). Qed.
Print Assumptions C12_limits.

(* a UDP datagram is one complete stream *)
Theorem C12_udp :
  forall d ls st, udp d = (ls, st) -> (st = SOk \/ st = SErr) -> ls = spec_lines d.
Proof.
  intros d ls st H Hs. rewrite (plain_chunk_invariance _ _ _ H Hs). simpl. rewrite app_nil_r. reflexivity.
Qed.
Print Assumptions C12_udp.

(* an AMQP body: the same lines, of any length (pieces of an over-long line are put back together);
   the only difference with the TCP path is a CR at the very end of an unterminated last line *)
Theorem C12_amqp :
  forall body, (forall r, snd (split_lines body []) = r -> drop_cr r = r) -> amqp_lines body = spec_lines body.
Proof. exact amqp_matches_plain. Qed.
Print Assumptions C12_amqp.

Example C12_nonvacuous :
  plain [RData [102;111]; RData []; RData [111;32;49;13]; RData [10;98]; RDataErr [97;114]] = ([[102;111;111;32;49]; [98;97;114]], SErr)
  /\ spec_lines [102;111;111;32;49;13;10;98;97;114] = [[102;111;111;32;49]; [98;97;114]].
Proof. vm_compute. auto. Qed.

(* what the correspondence check executes (a linear-time twin) is the model the theorems are about *)
Theorem C12_executable_twin :
  forall script, plain_fast script = plain script.
Proof. intros. apply (plain_fast_eq script [] 0). Qed.
Print Assumptions C12_executable_twin.
