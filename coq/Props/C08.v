(* C08 — the disk spool queue recovers consistently from a crash at any point. *)
From CRNG Require Import Base.ListX Base.Bytes Base.Decimal Model.DiskQueue Proofs.DQBasics.

(* whatever stale bytes a crash left in the metadata .tmp file (it is reopened without
   truncation), the next persisted metadata reads back exactly *)
Theorem C08_meta_robust_to_stale_tmp :
  forall d rf rp wf wp stale, parse_meta (print_meta d rf rp wf wp ++ stale) = Some (d, rf, rp, wf, wp).
Proof. exact meta_roundtrip. Qed.
Print Assumptions C08_meta_robust_to_stale_tmp.

Theorem C08_frame_roundtrip :
  forall m rest, N.of_nat (length m) < 4294967296 ->
    un_be32 (firstn 4 (frame m ++ rest)) = N.of_nat (length m) /\
    firstn (length m) (skipn 4 (frame m ++ rest)) = m /\
    skipn (length m) (skipn 4 (frame m ++ rest)) = rest.
Proof. exact frame_roundtrip. Qed.
Print Assumptions C08_frame_roundtrip.
