(* C08 — the disk spool queue recovers consistently from a crash at any point. *)
From CRNG Require Import Base.ListX Base.Bytes Base.Decimal Model.DiskQueue Proofs.DQBasics Proofs.DQReader Proofs.DQFifo Proofs.DQCrash Proofs.DQFifoSeg Proofs.DQCrashSeg.

(* whatever stale bytes a crash left in the metadata .tmp file (it is reopened without
   truncation), the next persisted metadata reads back exactly *)
Theorem C08_meta_robust_to_stale_tmp :
  forall d rf rp wf wp stale, parse_meta (print_meta d rf rp wf wp ++ stale) = Some (d, rf, rp, wf, wp).
Proof. exact meta_roundtrip. Qed.
Print Assumptions C08_meta_robust_to_stale_tmp.

Theorem C08_frame_roundtrip :
  forall m rest, N.of_nat (length m) < 4294967296 ->
    un_be32 (firstn 4 (frame m ++ rest)) = N.of_nat (length m) /\
    firstn (length m) (skipn 4 (frame m ++ rest)) = m /\
    skipn (length m) (skipn 4 (frame m ++ rest)) = rest.
Proof. exact frame_roundtrip. Qed.
Print Assumptions C08_frame_roundtrip.

(* A crash at any file-system mutation.  For every history of puts, gets and sync ticks that stays within the
   first segment (messages below 2^31 bytes; maxBytesPerFile and syncEvery arbitrary), every file-system state
   the queue's I/O loop passed through — the model records one after each segment write, fsync, metadata temp
   write and metadata rename: these are the crash points — is reopened by NewDiskQueue without panic, and the
   reopened queue, drained completely, delivers a contiguous run E[sr .. sw) of the enqueued messages E, each
   intact and in the original order; the run starts no later than the first message not yet handed to the
   consumer (sr <= kfin <= number delivered at the end of the history; sr and sw are the consumed / written
   counts of the last metadata rename contained in that state, so only the un-synced tail is missing and only
   messages consumed since that sync are delivered again).
   (Superseded by C08_crash_at_any_point_all_segments below; kept as the simpler statement.  Applied to the prefix of the
   history that ends with the operation during which the relay died, the bound reads sr <= the number handed over by then.) *)
Theorem C08_crash_at_any_point_first_segment :
  forall c ops limit,
    fits_nr c 0 ops = true -> (length (puts ops) <= limit)%nat ->
    exists dfin kfin,
      snd (dq_run c (dq_open c fs_empty []) ops) = Some dfin /\ (kfin <= length (puts ops))%nat /\
      forall l f, In (l, f) (trace dfin) ->
        exists sr sw d,
          (sr <= sw)%nat /\ (sw <= length (puts ops))%nat /\ (sr <= kfin)%nat /\
          dq_open c f [] = Some d /\
          dq_drain c limit d = firstn (sw - sr) (skipn sr (puts ops)).
Proof. exact crash_recovery. Qed.
Print Assumptions C08_crash_at_any_point_first_segment.

(* The same at full strength: ANY history of puts, gets, sync ticks and clean restarts (Close + NewDiskQueue) — any maxBytesPerFile (also smaller than one message),
   any syncEvery, messages below 2^31 bytes — so with segment roll-over, messages larger than a segment and removal of
   consumed segments.  Every file-system state the I/O loop passed through (after each segment write, fsync, metadata temp
   write, metadata rename — those of Close included — and segment removal) is reopened by NewDiskQueue without panic, and the
   reopened queue, drained completely, delivers a contiguous run E[sr .. sw) of the enqueued messages, intact and in order, with sr <= the number
   handed to the consumer.  The proof carries, for every recorded state, an image (DQCrashSeg.img): the layout of the
   messages over the segment files that the state's metadata names — closed files complete, the write file possibly longer
   than the metadata says, later files ignored, the depth possibly stale — in one of two modes: the file of the metadata's
   read position is present, or it is gone (removed after its last record was delivered, the metadata not yet rewritten),
   in which case recovery goes through handleReadError to the next file, whose first message is no later than the first
   undelivered one.  A roll-over and a file change of the reader are followed by a sync before anything else happens,
   which is why at most one file can be missing. *)
Theorem C08_crash_at_any_point_all_segments :
  forall c ops limit,
    smallops ops = true -> (length (puts ops) <= limit)%nat ->
    exists dfin kfin,
      snd (dq_run c (dq_open c fs_empty []) ops) = Some dfin /\ (kfin <= length (puts ops))%nat /\
      forall l f, In (l, f) (trace dfin) ->
        exists sr sw d,
          (sr <= sw)%nat /\ (sw <= length (puts ops))%nat /\ (sr <= kfin)%nat /\
          dq_open c f [] = Some d /\
          dq_drain c limit d = firstn (sw - sr) (skipn sr (puts ops)).
Proof. exact crash_recovery_all. Qed.
Print Assumptions C08_crash_at_any_point_all_segments.

(* recovery from any single image, in either mode *)
Theorem C08_recover_image :
  forall c E k W f, img c E k W f ->
    exists d sr sw, dq_open c f [] = Some d /\ (sr <= sw)%nat /\ (sr <= k)%nat /\ (sw <= length E)%nat /\
      forall limit, (sw - sr <= limit)%nat -> dq_drain c limit d = firstn (sw - sr) (skipn sr E).
Proof. exact img_recover. Qed.
Print Assumptions C08_recover_image.

(* non-vacuity: a history with a roll-over, a message larger than a segment and a removed segment; its crash trace
   contains every kind of mutation, a segment removal among them *)
Example C08_all_segments_nonvacuous :
  let c := {| c_max := 10; c_syncevery := 3 |} in
  let ops := [Put [97;97;97]; Put [98;98;98;98;98;98;98;98;98;98;98;98]; Put [99]; Get; CloseReopen; Get; SyncTick; Put [100]; Get; Get] in
  smallops ops = true /\
  match snd (dq_run c (dq_open c fs_empty []) ops) with
  | Some d => existsb (fun e => fst e =? L_seg_remove) (trace d) = true /\ (19 <=? length (trace d))%nat = true /\ 1 <=? readFileNum d = true
  | None => False
  end.
Proof. vm_compute. auto. Qed.

(* recovery from any single crashable state: what the metadata and the segment say is what comes out *)
Theorem C08_recover :
  forall c E f sr sw,
    crashable E f sr sw -> (forall m, In m E -> N.of_nat (length m) < 2147483648) ->
    N.of_nat (pos E (length E)) <= c_max c ->
    exists d, dq_open c f [] = Some d /\ qinv c d (firstn (sw - sr) (skipn sr E)).
Proof. exact recover. Qed.
Print Assumptions C08_recover.

Example C08_nonvacuous :
  let c := {| c_max := 1000; c_syncevery := 2 |} in
  let ops := [Put [97]; Put [98;98]; Get; SyncTick; Put [99]; Get] in
  fits_nr c 0 ops = true /\
  match snd (dq_run c (dq_open c fs_empty []) ops) with
  | Some d => (6 <=? length (trace d))%nat = true
  | None => False
  end.
Proof. vm_compute. auto. Qed.
