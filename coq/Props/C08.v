(* C08 — the disk spool queue recovers consistently from a crash at any point. *)
From CRNG Require Import Base.ListX Base.Bytes Base.Decimal Model.DiskQueue Proofs.DQBasics Proofs.DQReader Proofs.DQFifo Proofs.DQCrash.

(* whatever stale bytes a crash left in the metadata .tmp file (it is reopened without
   truncation), the next persisted metadata reads back exactly *)
Theorem C08_meta_robust_to_stale_tmp :
  forall d rf rp wf wp stale, parse_meta (print_meta d rf rp wf wp ++ stale) = Some (d, rf, rp, wf, wp).
Proof. exact meta_roundtrip. Qed.
Print Assumptions C08_meta_robust_to_stale_tmp.

Theorem C08_frame_roundtrip :
  forall m rest, N.of_nat (length m) < 4294967296 ->
    un_be32 (firstn 4 (frame m ++ rest)) = N.of_nat (length m) /\
    firstn (length m) (skipn 4 (frame m ++ rest)) = m /\
    skipn (length m) (skipn 4 (frame m ++ rest)) = rest.
Proof. exact frame_roundtrip. Qed.
Print Assumptions C08_frame_roundtrip.

(* A crash at any file-system mutation.  For every history of puts, gets and sync ticks that stays within the
   first segment (messages below 2^31 bytes; maxBytesPerFile and syncEvery arbitrary), every file-system state
   the queue's I/O loop passed through — the model records one after each segment write, fsync, metadata temp
   write and metadata rename: these are the crash points — is reopened by NewDiskQueue without panic, and the
   reopened queue, drained completely, delivers a contiguous run E[sr .. sw) of the enqueued messages E, each
   intact and in the original order; the run starts no later than the first message not yet handed to the
   consumer (sr <= kfin <= number delivered at the end of the history; sr and sw are the consumed / written
   counts of the last metadata rename contained in that state, so only the un-synced tail is missing and only
   messages consumed since that sync are delivered again).
   (States with several segments, and the bound on sr at the very moment of the crash, are covered by the
   acceptor recover_ok that every run evaluates on the real recoveries.) *)
Theorem C08_crash_at_any_point_first_segment :
  forall c ops limit,
    fits_nr c 0 ops = true -> (length (puts ops) <= limit)%nat ->
    exists dfin kfin,
      snd (dq_run c (dq_open c fs_empty []) ops) = Some dfin /\ (kfin <= length (puts ops))%nat /\
      forall l f, In (l, f) (trace dfin) ->
        exists sr sw d,
          (sr <= sw)%nat /\ (sw <= length (puts ops))%nat /\ (sr <= kfin)%nat /\
          dq_open c f [] = Some d /\
          dq_drain c limit d = firstn (sw - sr) (skipn sr (puts ops)).
Proof. exact crash_recovery. Qed.
Print Assumptions C08_crash_at_any_point_first_segment.

(* recovery from any single crashable state: what the metadata and the segment say is what comes out *)
Theorem C08_recover :
  forall c E f sr sw,
    crashable E f sr sw -> (forall m, In m E -> N.of_nat (length m) < 2147483648) ->
    N.of_nat (pos E (length E)) <= c_max c ->
    exists d, dq_open c f [] = Some d /\ qinv c d (firstn (sw - sr) (skipn sr E)).
Proof. exact recover. Qed.
Print Assumptions C08_recover.

Example C08_nonvacuous :
  let c := {| c_max := 1000; c_syncevery := 2 |} in
  let ops := [Put [97]; Put [98;98]; Get; SyncTick; Put [99]; Get] in
  fits_nr c 0 ops = true /\
  match snd (dq_run c (dq_open c fs_empty []) ops) with
  | Some d => (6 <=? length (trace d))%nat = true
  | None => False
  end.
Proof. vm_compute. auto. Qed.
