(* C09 — the disk spool queue is an exact persistent FIFO across clean restarts. *)
From CRNG Require Import Base.ListX Base.Bytes Base.Decimal Model.DiskQueue Proofs.DQBasics Proofs.DQReader Proofs.DQFifo Proofs.DQFifoSeg.

(* a record is a 4-byte big-endian length followed by the payload; reading it back from any
   position of a file yields the payload and leaves exactly what followed it *)
Theorem C09_frame_roundtrip :
  forall m rest, N.of_nat (length m) < 4294967296 ->
    un_be32 (firstn 4 (frame m ++ rest)) = N.of_nat (length m) /\
    firstn (length m) (skipn 4 (frame m ++ rest)) = m /\
    skipn (length m) (skipn 4 (frame m ++ rest)) = rest.
Proof. exact frame_roundtrip. Qed.
Print Assumptions C09_frame_roundtrip.

(* the metadata survives a restart: what persistMetaData prints is what retrieveMetaData reads,
   even when stale bytes of an older, longer .tmp file follow (the file is opened without truncation) *)
Theorem C09_meta_roundtrip :
  forall d rf rp wf wp stale, parse_meta (print_meta d rf rp wf wp ++ stale) = Some (d, rf, rp, wf, wp).
Proof. exact meta_roundtrip. Qed.
Print Assumptions C09_meta_roundtrip.

(* The queue is an exact persistent FIFO, through the byte level: for every history of puts, gets, sync ticks
   and clean restarts (Close + NewDiskQueue on the same directory) whose messages are below 2^31 bytes and
   whose total volume stays within the first segment (no roll-over; maxBytesPerFile and syncEvery arbitrary),
   the model of nsqd/diskqueue.go — segment file contents, 4-byte frames, the 4096-byte buffered read handle,
   the read-ahead of one record, the sync counter, the metadata file written and parsed back — produces exactly
   the outputs of the abstract queue: gets deliver the put messages in order, each once; a restart loses nothing,
   duplicates nothing (the record that was read ahead but not delivered is read again) and reports the number
   of undelivered messages as depth.  (Superseded by C09_fifo_all_segments below, kept as the simpler statement.) *)
Theorem C09_fifo_first_segment :
  forall c ops, fits c 0 ops = true ->
    fst (dq_run c (dq_open c fs_empty []) ops) = fifo_run [] ops.
Proof. exact fifo_from_empty. Qed.
Print Assumptions C09_fifo_first_segment.

(* The same, at full strength: every history of puts, gets, sync ticks and clean restarts, any maxBytesPerFile
   (also 0, also smaller than a single message), any syncEvery, any message sizes below 2^31 bytes.  The invariant
   (DQFifoSeg.sinv) lays the undelivered messages out over the segment files readFileNum .. writeFileNum: every
   file but the last was closed by the record that grew it beyond the limit, the reader leaves a file with exactly
   that record (reader and writer agree where a segment ends), a consumed file is removed when its last record is
   delivered, nothing exists beyond the write file, and the record read ahead survives puts, ticks and restarts
   (a record filling a whole segment from position 0 is read twice, with the same result).  Hence roll-over,
   messages larger than a segment and close/reopen between any two operations lose and duplicate nothing, and
   the depth reported at rest is the number of undelivered messages. *)
Theorem C09_fifo_all_segments :
  forall c ops, smallops ops = true ->
    fst (dq_run c (dq_open c fs_empty []) ops) = fifo_run [] ops.
Proof. exact fifo_from_empty_segments. Qed.
Print Assumptions C09_fifo_all_segments.

(* ... and from every state the invariant describes (pre: closed files, w: the open file, off: delivered records of
   the first file) the outputs are those of the abstract queue holding the undelivered messages *)
Theorem C09_fifo_from_any_layout :
  forall c ops d pre w off, sinv c d pre w off -> smallops ops = true ->
    fst (dq_run c (Some d) ops) = fifo_run (undel pre w off) ops.
Proof. exact fifo_refinement_segments. Qed.
Print Assumptions C09_fifo_from_any_layout.

Example C09_all_segments_nonvacuous :
  let c := {| c_max := 10; c_syncevery := 3 |} in
  let ops := [Put [97;97;97]; Put [98;98;98;98;98;98;98;98;98;98;98;98]; Put [99]; Get; CloseReopen; Get; Get; Get] in
  smallops ops = true /\
  (* the history does roll over: the final state writes (and reads) file 1 *)
  match snd (dq_run c (dq_open c fs_empty []) ops) with Some d => writeFileNum d | None => 0 end = 1.
Proof. vm_compute. auto. Qed.

(* the read handle: whatever the state of its buffer, reading n bytes at logical position p of the file
   returns exactly those bytes and leaves the handle consistent at p + n *)
Theorem C09_buffered_read :
  forall fuel content h n acc p,
    hinv content h p -> (p + n <= length content)%nat -> (3 <= fuel)%nat ->
    exists h', bread fuel content h n acc = Some (acc ++ firstn n (skipn p content), h')
               /\ hinv content h' (p + n) /\ h_num h' = h_num h.
Proof. exact bread_spec. Qed.
Print Assumptions C09_buffered_read.

Example C09_fifo_nonvacuous :
  fits {| c_max := 1000; c_syncevery := 2 |} 0 [Put [97]; Put [98;98]; Get; CloseReopen; SyncTick; Get; Get] = true
  /\ fifo_run [] [Put [97]; Put [98;98]; Get; CloseReopen; SyncTick; Get; Get]
     = [OPut; OPut; OGet (Some [97]); OReopen 1; OTick; OGet (Some [98;98]); OGet None].
Proof. vm_compute. auto. Qed.

(* non-vacuity / regression: a concrete history with roll-over, a message larger than a segment and a reopen *)
Example C09_nonvacuous :
  let c := {| c_max := 10; c_syncevery := 3 |} in
  fst (dq_run c (dq_open c fs_empty [])
         [Put [97;97;97]; Put [98;98;98;98;98;98;98;98;98;98;98;98]; Put [99]; Get; CloseReopen; Get; Get; Get])
  = [OPut; OPut; OPut; OGet (Some [97;97;97]); OReopen 2; OGet (Some [98;98;98;98;98;98;98;98;98;98;98;98]); OGet (Some [99]); OGet None].
Proof. vm_compute. reflexivity. Qed.
