(* C09 — the disk spool queue is an exact persistent FIFO across clean restarts. *)
From CRNG Require Import Base.ListX Base.Bytes Base.Decimal Model.DiskQueue Proofs.DQBasics.

(* a record is a 4-byte big-endian length followed by the payload; reading it back from any
   position of a file yields the payload and leaves exactly what followed it *)
Theorem C09_frame_roundtrip :
  forall m rest, N.of_nat (length m) < 4294967296 ->
    un_be32 (firstn 4 (frame m ++ rest)) = N.of_nat (length m) /\
    firstn (length m) (skipn 4 (frame m ++ rest)) = m /\
    skipn (length m) (skipn 4 (frame m ++ rest)) = rest.
Proof. exact frame_roundtrip. Qed.
Print Assumptions C09_frame_roundtrip.

(* the metadata survives a restart: what persistMetaData prints is what retrieveMetaData reads,
   even when stale bytes of an older, longer .tmp file follow (the file is opened without truncation) *)
Theorem C09_meta_roundtrip :
  forall d rf rp wf wp stale, parse_meta (print_meta d rf rp wf wp ++ stale) = Some (d, rf, rp, wf, wp).
Proof. exact meta_roundtrip. Qed.
Print Assumptions C09_meta_roundtrip.

(* non-vacuity / regression: a concrete history with roll-over, a message larger than a segment and a reopen *)
Example C09_nonvacuous :
  let c := {| c_max := 10; c_syncevery := 3 |} in
  fst (dq_run c (dq_open c fs_empty [])
         [Put [97;97;97]; Put [98;98;98;98;98;98;98;98;98;98;98;98]; Put [99]; Get; CloseReopen; Get; Get; Get])
  = [OPut; OPut; OPut; OGet (Some [97;97;97]); OReopen 2; OGet (Some [98;98;98;98;98;98;98;98;98;98;98;98]); OGet (Some [99]); OGet None].
Proof. vm_compute. reflexivity. Qed.
