(* C15 — consistent hashing agrees with Carbon and moves only the keys it must.
   Nothing but statements, closed by `exact`, and their assumptions. *)
From CRNG Require Import Base.ListX Base.Bytes Base.Order Lib.Md5 Model.Hashing
  Proofs.HashingProofs Proofs.CarbonProofs.

(* every name goes to exactly one destination of a non-empty route, and that
   destination is the one whose (host, instance) owns the ring slot *)
Theorem C15_one_dest :
  forall (pos : bytes -> N) (replicas : nat) (ds : list hdest) (name : bytes),
    ds <> [] -> (0 < replicas)%nat ->
    exists i d, dest_index pos replicas ds name = Some i /\ nth_error ds i = Some d /\
                node_for pos replicas ds name = Some (node_of_dest d).
Proof. exact one_dest. Qed.
Print Assumptions C15_one_dest.

(* the choice is a function of the name and of the *set* of (host, instance)
   pairs: any listing order (indeed any two lists with the same node set) *)
Theorem C15_name_and_set_only :
  forall pos replicas (ds ds' : list hdest) name,
    (forall n, In n (map node_of_dest ds) <-> In n (map node_of_dest ds')) ->
    node_for pos replicas ds name = node_for pos replicas ds' name.
Proof. exact node_set_only. Qed.
Print Assumptions C15_name_and_set_only.

(* carbon's ConsistentHashRing (insort per replica, bisect_left on
   (position, None), Python-2 tuple order) picks the same node *)
Theorem C15_agrees_with_carbon :
  forall pos replicas (ds : list hdest) name,
    carbon_get_node pos replicas (map (fun d => cnode_of (node_of_dest d)) ds) name =
    option_map cnode_of (node_for pos replicas ds name).
Proof. exact agrees_with_carbon. Qed.
Print Assumptions C15_agrees_with_carbon.

(* adding a destination moves only keys that land on the new destination *)
Theorem C15_add_minimal :
  forall pos replicas (ds : list hdest) d name,
    ds <> [] -> (0 < replicas)%nat ->
    node_for pos replicas (ds ++ [d]) name <> node_for pos replicas ds name ->
    node_for pos replicas (ds ++ [d]) name = Some (node_of_dest d).
Proof. exact add_minimal. Qed.
Print Assumptions C15_add_minimal.

(* removing destination i moves only the keys it owned *)
Theorem C15_remove_minimal :
  forall pos replicas (ds : list hdest) i name n,
    node_for pos replicas ds name = Some n ->
    (forall d, nth_error ds i = Some d -> node_of_dest d <> n) ->
    node_for pos replicas (firstn i ds ++ skipn (S i) ds) name = Some n.
Proof. exact remove_minimal. Qed.
Print Assumptions C15_remove_minimal.

(* non-vacuity: a concrete three-destination ring under the real MD5 *)
Example C15_nonvacuous :
  let ds := [([49;48;46;48;46;48;46;49;58;50;48;48;51], [97]);
             ([49;48;46;48;46;48;46;50;58;50;48;48;51], []);
             ([49;48;46;48;46;48;46;51;58;50;48;48;51], [98])] in
  ds <> [] /\ dest_index md5_pos 100 ds [102;111;111] = Some 2%nat /\
  dest_index md5_pos 100 ds [102;111;112] = Some 1%nat /\
  dest_index md5_pos 100 (ds ++ [([120], [])]) [102;111;112] = Some 3%nat.
Proof. vm_compute. repeat split; discriminate. Qed.
