(* C13 — pickle input is equivalent to the plain-text input for the same datapoints. *)
From CRNG Require Import Base.ListX Base.Bytes Base.Decimal Model.PickleVM Model.Reencode Model.PickleIn Model.PyPickle
  Proofs.ReencodeProofs Proofs.PickleInProofs Proofs.PickleIn1 Proofs.PickleIn0 Proofs.PickleIn4 Proofs.PickleInLong Proofs.PickleIn4Long.
Local Open Scope N_scope.

(* Decoding (the og-rek machine, any text-float oracle) what CPython's pickler writes in protocol 2 or 3
   for a list of (name, (timestamp, value)) tuples gives back that list: every name below 2^31 bytes,
   integers 0 <= n < 2^31 (BININT1 / BININT2 / BININT) and every float64, any number of items whose
   memo indices fit 32 bits.  (Negative BININTs are excluded: see C13_negative_binint_refuted.) *)
Theorem C13_decode_what_python_encodes :
  forall pf proto ds,
    forallb dp_ok ds = true -> 3 * N.of_nat (length ds) + 1 < 4294967296 ->
    unpickle pf false (py_dumps proto ds)
    = RDone (VList (map (fun d => VTuple [VStr (d_name d); VTuple [num_val (d_ts d); num_val (d_val d)]]) ds)).
Proof. exact unpickle_py_dumps. Qed.
Print Assumptions C13_decode_what_python_encodes.

(* A connection carrying any number of such frames (4-byte big-endian length, then the pickle) hands on
   exactly the equivalent plain-text lines "name value timestamp", in order — integers verbatim, floats
   through %f (value) and %.0f (timestamp) — and ends without error. *)
Theorem C13_frames_become_lines :
  forall pf fmt6 fmt0 (pss : list (N * list pydp)),
    Forall (fun pd => frame_ok (fst pd) (snd pd)) pss ->
    handle_conn pf fmt6 fmt0 (concat (map (fun pd => frame_of (py_dumps (fst pd) (snd pd))) pss))
    = (concat (map (fun pd => map (fun d => EvLine (line_of fmt6 fmt0 d)) (snd pd)) pss), FinOk).
Proof. exact handle_conn_frames. Qed.
Print Assumptions C13_frames_become_lines.

(* protocol 4 (the default since Python 3.8): PROTO 4, FRAME, SHORT_BINUNICODE / BINUNICODE, MEMOIZE, TUPLE2 *)
Theorem C13_decode_what_python_encodes_protocol4 :
  forall pf ds, forallb dp_ok ds = true ->
    unpickle pf false (py_dumps4 ds)
    = RDone (VList (map (fun d => VTuple [VStr (d_name d); VTuple [num_val (d_ts d); num_val (d_val d)]]) ds)).
Proof. exact unpickle_py_dumps4. Qed.
Print Assumptions C13_decode_what_python_encodes_protocol4.

(* protocol 1 (binary opcodes, no PROTO header, tuples as MARK ... TUPLE) *)
Theorem C13_decode_what_python_encodes_protocol1 :
  forall pf ds, forallb dp_ok ds = true -> 3 * N.of_nat (length ds) + 1 < 4294967296 ->
    unpickle pf false (py_dumps1 ds)
    = RDone (VList (map (fun d => VTuple [VStr (d_name d); VTuple [num_val (d_ts d); num_val (d_val d)]]) ds)).
Proof. exact unpickle_py_dumps1. Qed.
Print Assumptions C13_decode_what_python_encodes_protocol1.

(* protocol 0 (text opcodes: MARK LIST PUT, UNICODE, INT, FLOAT, TUPLE, APPEND): names of the characters pickle writes verbatim
   (ASCII without NUL, LF, CR, SUB, backslash), integers 0 <= n < 2^31 as decimal text, floats as their repr().  The float
   text goes through the two oracles of the run: frepr (CPython's repr, by bits) and pf (strconv.ParseFloat); the theorem
   holds for every pair with pf (frepr b) = Some b whose texts contain no line break — both correctly rounded in reality. *)
Theorem C13_decode_what_python_encodes_protocol0 :
  forall pf frepr,
    (forall b, pf (frepr b) = Some b) -> (forall b, ~ In 10 (frepr b) /\ ~ In 13 (frepr b)) ->
    forall ds, forallb dp_ok0 ds = true ->
      unpickle pf false (py_dumps0 frepr ds)
      = RDone (VList (map (fun d => VTuple [VStr (d_name d); VTuple [num_val (d_ts d); num_val (d_val d)]]) ds)).
Proof. exact unpickle_py_dumps0. Qed.
Print Assumptions C13_decode_what_python_encodes_protocol0.

Theorem C13_frame_then_rest_protocol0 :
  forall pf frepr,
    (forall b, pf (frepr b) = Some b) -> (forall b, ~ In 10 (frepr b) /\ ~ In 13 (frepr b)) ->
    forall fmt6 fmt0 f ds rest,
      frame_ok0 frepr ds ->
      handle_stream pf fmt6 fmt0 (S f) (frame_of (py_dumps0 frepr ds) ++ rest)
      = let (evs, fn) := handle_stream pf fmt6 fmt0 f rest in
        (map (fun d => EvLine (line_of fmt6 fmt0 d)) ds ++ evs, fn).
Proof. exact handle_frame0. Qed.
Print Assumptions C13_frame_then_rest_protocol0.

(* one connection, any number of frames, each of protocol 1, 2, 3 or 4 *)
Theorem C13_frames_become_lines_mixed_protocols :
  forall pf fmt6 fmt0 (pss : list (N * list pydp)),
    Forall frame_ok4 pss ->
    handle_conn pf fmt6 fmt0 (concat (map (fun pd => frame_of (payload pd)) pss))
    = (concat (map (fun pd => map (fun d => EvLine (line_of fmt6 fmt0 d)) (snd pd)) pss), FinOk).
Proof. exact handle_conn_frames4. Qed.
Print Assumptions C13_frames_become_lines_mixed_protocols.

(* one connection, any number of frames, each of ANY protocol 0-4 (protocol 0 under the float-text premise) *)
Theorem C13_frames_become_lines_all_protocols :
  forall pf frepr,
    (forall b, pf (frepr b) = Some b) -> (forall b, ~ In 10 (frepr b) /\ ~ In 13 (frepr b)) ->
    forall fmt6 fmt0 (pss : list (N * list pydp)),
      Forall (frame_okr frepr) pss ->
      handle_conn pf fmt6 fmt0 (concat (map (fun pd => frame_of (payload_r frepr pd)) pss))
      = (concat (map (fun pd => map (fun d => EvLine (line_of fmt6 fmt0 d)) (snd pd)) pss), FinOk).
Proof. exact handle_conn_frames_all. Qed.
Print Assumptions C13_frames_become_lines_all_protocols.

(* Integers beyond int32 (protocols 2 and 3): CPython writes LONG1 — a length byte k = (bit_length >> 3) + 1 and the k little-endian
   bytes — and og-rek reads it back as a big integer, for EVERY non-negative integer whose length byte stays within 127
   (n < 2^1015; above that lies the recorded og-rek finding C13:known:huge_long).  py_dumpsL coincides with py_dumps where the
   latter applies (C13_long_model_extends_int32_model), so this statement subsumes C13_decode_what_python_encodes. *)
Theorem C13_decode_what_python_encodes_long :
  forall pf proto ds,
    forallb dp_okL ds = true -> 3 * N.of_nat (length ds) + 1 < 4294967296 ->
    unpickle pf false (py_dumpsL proto ds)
    = RDone (VList (map (fun d => VTuple [VStr (d_name d); VTuple [num_valL (d_ts d); num_valL (d_val d)]]) ds)).
Proof. exact unpickle_py_dumpsL. Qed.
Print Assumptions C13_decode_what_python_encodes_long.

(* ... and the connection hands on the same text as the plain-text input would carry: the integer verbatim in decimal *)
Theorem C13_frames_become_lines_long :
  forall pf fmt6 fmt0 (pss : list (N * list pydp)),
    Forall (fun pd => frame_okL (fst pd) (snd pd)) pss ->
    handle_conn pf fmt6 fmt0 (concat (map (fun pd => frame_of (py_dumpsL (fst pd) (snd pd))) pss))
    = (concat (map (fun pd => map (fun d => EvLine (line_of fmt6 fmt0 d)) (snd pd)) pss), FinOk).
Proof. exact handle_conn_framesL. Qed.
Print Assumptions C13_frames_become_lines_long.

Theorem C13_frame_then_rest_long :
  forall pf fmt6 fmt0 f proto ds rest,
    frame_okL proto ds ->
    handle_stream pf fmt6 fmt0 (S f) (frame_of (py_dumpsL proto ds) ++ rest)
    = let (evs, fn) := handle_stream pf fmt6 fmt0 f rest in
      (map (fun d => EvLine (line_of fmt6 fmt0 d)) ds ++ evs, fn).
Proof. exact handle_frameL. Qed.
Print Assumptions C13_frame_then_rest_long.

(* the same for protocol 4 (FRAME, SHORT_BINUNICODE, MEMOIZE), the default of Python 3.8 and later *)
Theorem C13_decode_what_python_encodes_long_protocol4 :
  forall pf ds, forallb dp_okL ds = true ->
    unpickle pf false (py_dumps4L ds)
    = RDone (VList (map (fun d => VTuple [VStr (d_name d); VTuple [num_valL (d_ts d); num_valL (d_val d)]]) ds)).
Proof. exact unpickle_py_dumps4L. Qed.
Print Assumptions C13_decode_what_python_encodes_long_protocol4.

(* one connection, any number of frames of protocols 2, 3 and 4 mixed, integers of any size up to 2^1015 *)
Theorem C13_frames_become_lines_long_mixed_protocols :
  forall pf fmt6 fmt0 (pss : list (N * list pydp)),
    Forall frame_ok4L pss ->
    handle_conn pf fmt6 fmt0 (concat (map (fun pd => frame_of (payloadL pd)) pss))
    = (concat (map (fun pd => map (fun d => EvLine (line_of fmt6 fmt0 d)) (snd pd)) pss), FinOk).
Proof. exact handle_conn_frames4L. Qed.
Print Assumptions C13_frames_become_lines_long_mixed_protocols.

Theorem C13_long_model_extends_int32_model :
  forall proto ds, forallb dp_ok ds = true -> py_dumpsL proto ds = py_dumps proto ds /\ forallb dp_okL ds = true.
Proof.
  intros proto ds H. split; [exact (py_dumpsL_small proto ds H)|].
  apply forallb_forall. intros d Hd. pose proof (proj1 (forallb_forall _ _) H d Hd) as Hk. unfold dp_ok in Hk. unfold dp_okL.
  apply andb_true_iff in Hk as [Hk Hv]. apply andb_true_iff in Hk as [Hn Ht].
  rewrite Hn, (num_ok_okL _ Ht), (num_ok_okL _ Hv). reflexivity.
Qed.
Print Assumptions C13_long_model_extends_int32_model.

(* the two's-complement reading of the k bytes CPython writes for n > 0 is n itself, for every n *)
Theorem C13_long1_bytes_read_back :
  forall n, 0 < n -> twos (le_bytes (N.to_nat (long_len n)) n) = Z.of_N n.
Proof. exact twos_long. Qed.
Print Assumptions C13_long1_bytes_read_back.

(* one frame followed by anything: its lines come first, whatever the rest of the stream does *)
Theorem C13_frame_then_rest :
  forall pf fmt6 fmt0 f proto ds rest,
    frame_ok proto ds ->
    handle_stream pf fmt6 fmt0 (S f) (frame_of (py_dumps proto ds) ++ rest)
    = let (evs, fn) := handle_stream pf fmt6 fmt0 f rest in
      (map (fun d => EvLine (line_of fmt6 fmt0 d)) ds ++ evs, fn).
Proof. exact handle_frame. Qed.
Print Assumptions C13_frame_then_rest.

(* an item (tuple or list) of a name and a (timestamp, value) pair (tuple or list) becomes the line
   "name value timestamp"; anything else is counted invalid and does not disturb its neighbours
   (handle_stream maps handle_item over the decoded list) *)
Theorem C13_item_line :
  forall fmt6 fmt0 name t v vt tx it d,
    as_seq it = Some [VStr name; d] -> as_seq d = Some [t; v] ->
    value_text fmt6 v = Some vt -> ts_text fmt0 t = Some tx ->
    handle_item fmt6 fmt0 it = EvLine (name ++ [32] ++ vt ++ [32] ++ tx).
Proof.
  intros fmt6 fmt0 name t v vt tx it d H1 H2 H3 H4. unfold handle_item. rewrite H1, H2, H3, H4. reflexivity.
Qed.
Print Assumptions C13_item_line.

Theorem C13_bad_item_counted :
  forall fmt6 fmt0 it, as_seq it = None -> handle_item fmt6 fmt0 it = EvInvalid.
Proof. intros fmt6 fmt0 it H. unfold handle_item. rewrite H. reflexivity. Qed.
Print Assumptions C13_bad_item_counted.

(* The statement is false for negative integers in BININT range: the pinned og-rek reads BININT as
   unsigned.  This is pickle.dumps([('a', (1, -1))], 2), framed: the line says 4294967295.
   (Recorded as a known finding; the check replays it against the implementation on every run.) *)
Example C13_negative_binint_refuted :
  handle_conn (fun _ => None) (fun _ => []) (fun _ => [])
    [0;0;0;28; 128;2;93;113;0;88;1;0;0;0;97;113;1;75;1;74;255;255;255;255;134;113;2;134;113;3;97;46]
  = ([EvLine [97; 32; 52;50;57;52;57;54;55;50;57;53; 32; 49]], FinOk).
Proof. exact negative_binint_refuted. Qed.

Example C13_protocol0_nonvacuous :
  (* pickle.dumps([("a b'", (1, 1.5))], 0), with repr(1.5) = "1.5" *)
  py_dumps0 (fun _ => [49; 46; 53]) [ {| d_name := [97; 32; 98; 39]; d_ts := PyInt 1; d_val := PyFloat 4609434218613702656 |} ]
  = [40;108;112;48;10; 40;86;97;32;98;39;10;112;49;10; 40;73;49;10;70;49;46;53;10;116;112;50;10;116;112;51;10;97;46]
  /\ dp_ok0 {| d_name := [97; 32; 98; 39]; d_ts := PyInt 1; d_val := PyFloat 4609434218613702656 |} = true.
Proof. vm_compute. auto. Qed.

Example C13_nonvacuous :
  frame_ok 2 [ {| d_name := [102;111;111]; d_ts := PyInt 1500000000; d_val := PyFloat 4609434218613702656 |};
               {| d_name := [98]; d_ts := PyInt 7; d_val := PyInt 300 |} ].
Proof. unfold frame_ok. split; [reflexivity|]. split; vm_compute; [reflexivity | discriminate]. Qed.

Example C13_long_nonvacuous :
  (* pickle.dumps([("a", (2**31, 2**64 + 5))], 2) *)
  py_dumpsL 2 [ {| d_name := [97]; d_ts := PyInt 2147483648; d_val := PyInt 18446744073709551621 |} ]
  = [128;2;93;113;0;88;1;0;0;0;97;113;1;138;5;0;0;0;128;0;138;9;5;0;0;0;0;0;0;0;1;134;113;2;134;113;3;97;46]
  /\ frame_okL 2 [ {| d_name := [97]; d_ts := PyInt 2147483648; d_val := PyInt 18446744073709551621 |} ]
  /\ num_okL (PyInt (2 ^ 1015 - 1)) = true /\ num_okL (PyInt (2 ^ 1015)) = false.
Proof. unfold frame_okL. repeat split; vm_compute; try reflexivity; discriminate. Qed.

Example C13_long_protocol4_nonvacuous :
  (* pickle.dumps([("a", (2**31, 2**64 + 5))], 4) *)
  py_dumps4L [ {| d_name := [97]; d_ts := PyInt 2147483648; d_val := PyInt 18446744073709551621 |} ]
  = [128;4;149;30;0;0;0;0;0;0;0;93;148;140;1;97;148;138;5;0;0;0;128;0;138;9;5;0;0;0;0;0;0;0;1;134;148;134;148;97;46]
  /\ frame_ok4L (4, [ {| d_name := [97]; d_ts := PyInt 2147483648; d_val := PyInt 18446744073709551621 |} ]).
Proof. unfold frame_ok4L. repeat split; vm_compute; try reflexivity; discriminate. Qed.
