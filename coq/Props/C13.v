(* C13 — pickle input is equivalent to the plain-text input for the same datapoints. *)
From CRNG Require Import Base.ListX Base.Bytes Base.Decimal Model.PickleVM Model.PickleIn.
Local Open Scope N_scope.

(* an item (tuple or list) of a name and a (timestamp, value) pair (tuple or list) becomes the line
   "name value timestamp" *)
Theorem C13_item_line :
  forall fmt6 fmt0 name t v vt tx it d,
    as_seq it = Some [VStr name; d] -> as_seq d = Some [t; v] ->
    value_text fmt6 v = Some vt -> ts_text fmt0 t = Some tx ->
    handle_item fmt6 fmt0 it = EvLine (name ++ [32] ++ vt ++ [32] ++ tx).
Proof.
  intros fmt6 fmt0 name t v vt tx it d H1 H2 H3 H4. unfold handle_item. rewrite H1, H2, H3, H4. reflexivity.
Qed.
Print Assumptions C13_item_line.
