(* C20 — configuration means what the documentation says, in both syntaxes. *)
From CRNG Require Import Base.ListX Base.Bytes Base.Decimal Model.Config Proofs.ConfigProofs.

(* A destination written as "addr opt=value opt=value ..." (the form used by addRoute commands and by the
   destinations = [...] lists of TOML routes): for every set of options in every order the resulting
   settings are the documented defaults updated by exactly those options — none ignored, none swapped. *)
Theorem C20_destination_is_doc :
  forall d, Forall well_typed (snd d) ->
    read_destination (dest_tokens d) = Some (dest_entry d, []) /\
    forall r, read_destination (dest_tokens d ++ TSep :: r) = Some (dest_entry d, r).
Proof. exact read_destination_spec. Qed.
Print Assumptions C20_destination_is_doc.

(* several destinations of one route: every option is applied to its own destination *)
Theorem C20_destinations_not_mixed :
  forall ds fuel, Forall (fun d => Forall well_typed (snd d)) ds -> (length ds < fuel)%nat ->
    read_destinations fuel (dests_tokens ds) = Some (map dest_entry ds).
Proof. exact read_destinations_spec. Qed.
Print Assumptions C20_destinations_not_mixed.

(* interpolation: a text that refers to none of the documented variables is left exactly as it is
   ($1, ${1}, $$, a trailing "${", ... included) *)
Theorem C20_expand_identity :
  forall vars t, (forall n, In n (refs (S (length t)) t) -> kv_get vars n = None) -> expand vars t = t.
Proof. intros vars t H. unfold expand. apply expand_identity; [lia|exact H]. Qed.
Print Assumptions C20_expand_identity.

(* what os.Expand did to such references before the repair: ${1} lost its braces *)
Example C20_group_references_kept :
  let vars := [([72;79;83;84], [104])] in
  expand vars [36;123;49;125;97;32;36;49;32;36;36;32;36;123] = [36;123;49;125;97;32;36;49;32;36;36;32;36;123] /\
  expand vars [36;72;79;83;84;46;36;123;72;79;83;84;125;36;72;79;83;84;88] = [104;46;104;36;72;79;83;84;88].
Proof. vm_compute. auto. Qed.
