(* C11: drop-raw is exact; aggregate output bypasses everything but the routes. *)
From CRNG Require Import Base.ListX Base.Bytes Lib.Regex Model.Fields Model.Validate Model.Matcher Model.Rewriter
  Model.Hashing Model.Table Proofs.TableProofs.
Local Open Scope nat_scope.

Section DropRaw.
  Variable search : rx -> bytes -> bool.
  Notation takes := (agg_takes search).

  (* non-drop-raw takers among the first n aggregators *)
  Definition plain_takers (aggs : list agg) (i : nat) (name : bytes) : list nat :=
    accepting (fun a => negb (a_dropraw a) && takes a name) aggs i.

  Lemma takes_unfold a name :
    takes a name = mpre (a_matcher a) name &&
      (match m_regex (a_matcher a) with Some r => search r name | None => false end
       && negb (match m_notRegex (a_matcher a) with Some r => search r name | None => false end)).
  Proof. reflexivity. Qed.

  (* no drop-raw aggregation takes the name: nothing is dropped, every taker is fed *)
  Lemma agg_loop_no_drop aggs : forall i name,
    (forall a, In a aggs -> a_dropraw a = true -> takes a name = false) ->
    agg_loop search aggs i name = (accepting (fun a => takes a name) aggs i, false).
  Proof.
    induction aggs as [|a aggs IH]; intros i name H; simpl; [reflexivity|].
    rewrite takes_unfold. destruct (mpre (a_matcher a) name) eqn:P; simpl.
    - set (tk := (match m_regex (a_matcher a) with Some r => search r name | None => false end
                  && negb (match m_notRegex (a_matcher a) with Some r => search r name | None => false end))).
      assert (Htk : takes a name = tk) by (rewrite takes_unfold, P; reflexivity).
      destruct (a_dropraw a) eqn:D.
      + assert (tk = false) as -> by (rewrite <- Htk; apply H; [left; reflexivity|exact D]).
        apply IH. intros a' Ha'. apply H. right; exact Ha'.
      + rewrite (IH (S i) name) by (intros a' Ha'; apply H; right; exact Ha').
        destruct tk; reflexivity.
    - apply IH. intros a' Ha'. apply H. right; exact Ha'.
  Qed.

  (* the first drop-raw aggregation that takes the name stops the line: it and the plain takers before it are fed, nobody after *)
  Lemma agg_loop_drop pre a post : forall i name,
    (forall b, In b pre -> a_dropraw b = true -> takes b name = false) ->
    a_dropraw a = true -> takes a name = true ->
    agg_loop search (pre ++ a :: post) i name = (accepting (fun b => takes b name) pre i ++ [i + length pre], true).
  Proof.
    induction pre as [|b pre IH]; intros i name H Hd Ht; simpl.
    - rewrite takes_unfold in Ht. apply andb_true_iff in Ht as [P T]. rewrite P, Hd. simpl. rewrite T.
      rewrite Nat.add_0_r. reflexivity.
    - rewrite takes_unfold. destruct (mpre (a_matcher b) name) eqn:P; simpl.
      + set (tk := (match m_regex (a_matcher b) with Some r => search r name | None => false end
                    && negb (match m_notRegex (a_matcher b) with Some r => search r name | None => false end))).
        assert (Htk : takes b name = tk) by (rewrite takes_unfold, P; reflexivity).
        destruct (a_dropraw b) eqn:D.
        * assert (tk = false) as -> by (rewrite <- Htk; apply H; [left; reflexivity|exact D]).
          rewrite (IH (S i) name) by (try assumption; intros b' Hb'; apply H; right; exact Hb').
          replace (S i + length pre) with (i + S (length pre)) by lia. reflexivity.
        * rewrite (IH (S i) name) by (try assumption; intros b' Hb'; apply H; right; exact Hb').
          replace (S i + length pre) with (i + S (length pre)) by lia. destruct tk; reflexivity.
      + rewrite (IH (S i) name) by (try assumption; intros b' Hb'; apply H; right; exact Hb').
        replace (S i + length pre) with (i + S (length pre)) by lia. reflexivity.
  Qed.

  (* switching drop-raw off everywhere changes nothing for a name no drop-raw aggregation takes *)
  Definition undrop (a : agg) : agg := {| a_matcher := a_matcher a; a_dropraw := false; a_outfmt := a_outfmt a |}.

  Lemma takes_undrop a name : takes (undrop a) name = takes a name.
  Proof. reflexivity. Qed.

  Lemma accepting_map {A B} (g : A -> B) (f : B -> bool) l i : accepting f (map g l) i = accepting (fun x => f (g x)) l i.
  Proof. revert i; induction l as [|x l IH]; intros i; simpl; [reflexivity|]. rewrite IH. reflexivity. Qed.

  Theorem unaffected_by_dropraw aggs name :
    (forall a, In a aggs -> a_dropraw a = true -> takes a name = false) ->
    agg_loop search aggs 0 name = agg_loop search (map undrop aggs) 0 name.
  Proof.
    intros H. rewrite (agg_loop_no_drop aggs 0 name H).
    rewrite (agg_loop_no_drop (map undrop aggs) 0 name).
    - rewrite accepting_map. reflexivity.
    - intros a Ha D. apply in_map_iff in Ha as [a0 [<- _]]. discriminate D.
  Qed.

  (* a dropped line reaches no route and touches no counter *)
  Theorem dropped_goes_nowhere t om buf v s ts f0 f1 f2 :
    validate_packet buf (t_ll t) (t_lm t) v s = (strip_dot f0, None) ->
    fields buf = [f0; f1; f2] ->
    (t_order t = true -> snd (ordered om (strip_dot f0) ts) = true) ->
    existsb (fun m => mmatch search m f0) (t_blacklist t) = false ->
    snd (agg_loop search (t_aggs t) 0 (rewrite_all (t_rewriters t) f0)) = true ->
    let o := snd (dispatch search t om buf v s ts) in
    o_dropped_raw o = true /\ o_routes o = [] /\ o_dests o = [] /\ o_unroutable o = false /\ o_invalid o = false /\
    o_blacklisted o = false /\ o_agg_consumed o = fst (agg_loop search (t_aggs t) 0 (rewrite_all (t_rewriters t) f0)).
  Proof.
    intros Hv Hf Ho Hb Ha. unfold dispatch. rewrite Hv.
    assert (E : (if t_order t then ordered om (strip_dot f0) ts else (om, true)) =
                ((if t_order t then fst (ordered om (strip_dot f0) ts) else om), true)).
    { destruct (t_order t); [|reflexivity]. specialize (Ho eq_refl).
      destruct (ordered om (strip_dot f0) ts) as [a b]. simpl in *. subst. reflexivity. }
    rewrite E. simpl. rewrite Hf, Hb.
    destruct (agg_loop search (t_aggs t) 0 (rewrite_all (t_rewriters t) f0)) as [c d]. simpl in *. subst d.
    repeat split; reflexivity.
  Qed.
End DropRaw.
