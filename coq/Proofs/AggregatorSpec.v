(* C10: the aggregator refines the obvious specification "every open point is
   appended to the list of its (bucket, key); a flush reports the function of
   that list", and never reports a (bucket, key) twice. *)
From CRNG Require Import Base.ListX Base.Bytes Model.Aggregator Proofs.AggregatorProofs.
From Coq Require Import ZifyN ZifyNat ZifyBool.

(* ---- simulation between two per-key state types ------------------------- *)
Section Sim.
  Variable F P1 P2 : Type.
  Variables (new1 : F -> N -> P1) (add1 : P1 -> F -> N -> P1) (fl1 : P1 -> list (bytes * F)).
  Variables (new2 : F -> N -> P2) (add2 : P2 -> F -> N -> P2) (fl2 : P2 -> list (bytes * F)).
  Variable g : P2 -> P1.
  Hypothesis g_new : forall v t, g (new2 v t) = new1 v t.
  Hypothesis g_add : forall p v t, g (add2 p v t) = add1 (g p) v t.
  Hypothesis g_flush : forall p, fl2 p = fl1 (g p).

  Definition gk (ks : list (bytes * P2)) : list (bytes * P1) := map (fun kp => (fst kp, g (snd kp))) ks.
  Definition gb (bs : list (bucket P2)) : list (bucket P1) := map (fun b => (fst b, gk (snd b))) bs.
  Definition gs (st : astate P2) : astate P1 := {| a_buckets := gb (a_buckets P2 st); a_too_old := a_too_old P2 st |}.

  Lemma gk_key_update ks k v t :
    key_update P1 (gk ks) k (fun p => add1 p v t) = option_map gk (key_update P2 ks k (fun p => add2 p v t)).
  Proof.
    induction ks as [|[k0 p0] ks IH]; simpl; [reflexivity|].
    destruct (beqb k k0); simpl; [rewrite g_add; reflexivity|].
    rewrite IH. destruct (key_update P2 ks k _); reflexivity.
  Qed.

  Lemma gb_bucket_keys bs q : bucket_keys P1 (gb bs) q = option_map gk (bucket_keys P2 bs q).
  Proof. induction bs as [|[q0 ks0] bs IH]; simpl; [reflexivity|]. destruct (q =? q0); [reflexivity|exact IH]. Qed.

  Lemma gb_with_bucket bs q f1 f2 :
    (forall ks, f1 (gk ks) = gk (f2 ks)) -> with_bucket P1 (gb bs) q f1 = gb (with_bucket P2 bs q f2).
  Proof.
    intros Hf. induction bs as [|[q0 ks0] bs IH]; simpl.
    - rewrite <- Hf. reflexivity.
    - destruct (q =? q0); simpl; [rewrite Hf; reflexivity|].
      destruct (q <? q0); simpl; [rewrite <- Hf; reflexivity|]. rewrite IH. reflexivity.
  Qed.

  Lemma gs_add_or_create wait st key ts q v now :
    add_or_create F P1 new1 add1 wait (gs st) key ts q v now = gs (add_or_create F P2 new2 add2 wait st key ts q v now).
  Proof.
    unfold add_or_create, gs. simpl. rewrite gb_bucket_keys.
    assert (E : match option_map gk (bucket_keys P2 (a_buckets P2 st) q) with Some ks => ks | None => [] end =
                gk (match bucket_keys P2 (a_buckets P2 st) q with Some ks => ks | None => [] end)).
    { destruct (bucket_keys P2 (a_buckets P2 st) q); reflexivity. }
    rewrite E, gk_key_update.
    destruct (key_update P2 _ key _) as [ks'|]; simpl.
    - f_equal. apply gb_with_bucket. reflexivity.
    - destruct (usub now wait <? q); simpl; f_equal; apply gb_with_bucket.
      + intros ks. unfold gk. rewrite map_app. simpl. rewrite g_new. reflexivity.
      + reflexivity.
  Qed.

  Lemma gb_split_flush bs c :
    split_flush P1 (gb bs) c = (gb (fst (split_flush P2 bs c)), gb (snd (split_flush P2 bs c))).
  Proof.
    induction bs as [|[q ks] bs IH]; simpl; [reflexivity|].
    destruct (c <? q); simpl; [reflexivity|]. rewrite IH. destruct (split_flush P2 bs c). reflexivity.
  Qed.

  Lemma emit_gk ks : emit_bucket F P1 fl1 (gk ks) = emit_bucket F P2 fl2 ks.
  Proof.
    unfold emit_bucket, gk. rewrite flat_map_concat_map, map_map, <- flat_map_concat_map.
    apply flat_map_ext. intros [k p]. simpl. rewrite g_flush. reflexivity.
  Qed.

  Theorem sim_step interval wait st e :
    astep F P1 new1 add1 fl1 interval wait (gs st) e =
    (gs (fst (astep F P2 new2 add2 fl2 interval wait st e)), snd (astep F P2 new2 add2 fl2 interval wait st e)).
  Proof.
    destruct e as [key v ts now|t]; simpl.
    - rewrite gs_add_or_create. reflexivity.
    - unfold flush. rewrite gb_split_flush. destruct (split_flush P2 (a_buckets P2 st) (cutoff_of wait t)) as [fl rest]. simpl.
      f_equal. unfold gb. rewrite map_map. apply map_ext. intros [q ks]. simpl. rewrite emit_gk. reflexivity.
  Qed.

  (* whole histories: same output, related states *)
  Fixpoint run1 (interval wait : N) (st : astate P1) (evs : list (aevent F)) : list (list (N * list (bytes * F))) :=
    match evs with [] => [] | e :: r => let '(st', o) := astep F P1 new1 add1 fl1 interval wait st e in o :: run1 interval wait st' r end.
  Fixpoint run2 (interval wait : N) (st : astate P2) (evs : list (aevent F)) : list (list (N * list (bytes * F))) :=
    match evs with [] => [] | e :: r => let '(st', o) := astep F P2 new2 add2 fl2 interval wait st e in o :: run2 interval wait st' r end.

  Theorem sim_run interval wait evs : forall st, run1 interval wait (gs st) evs = run2 interval wait st evs.
  Proof.
    induction evs as [|e r IH]; intros st; simpl; [reflexivity|].
    rewrite sim_step. destruct (astep F P2 new2 add2 fl2 interval wait st e) as [st' o]. simpl. rewrite IH. reflexivity.
  Qed.
End Sim.

(* ---- the specification state: the contributed points themselves ---------- *)
Section Spec.
  Variable F : Type.
  Variables (fadd fsub fmul fdiv : F -> F -> F) (fsqrt : F -> F) (flt : F -> F -> bool) (of_N : N -> F).
  Variable f : fn.

  Notation proc := (proc F).
  Notation proc_new := (proc_new F).
  Notation proc_add := (proc_add F fadd flt).
  Notation proc_flush := (proc_flush F fadd fsub fmul fdiv fsqrt flt of_N).

  (* a non-empty list of (value, timestamp), in arrival order *)
  Definition contrib : Type := (F * N) * list (F * N).
  Definition c_new (v : F) (t : N) : contrib := ((v, t), []).
  Definition c_add (c : contrib) (v : F) (t : N) : contrib := (fst c, snd c ++ [(v, t)]).
  Definition c_all (c : contrib) : list (F * N) := fst c :: snd c.

  Definition proc_of (c : contrib) : proc :=
    fold_left (fun p vt => proc_add p (fst vt) (snd vt)) (snd c) (proc_new f (fst (fst c)) (snd (fst c))).

  Lemma proc_of_new v t : proc_of (c_new v t) = proc_new f v t.
  Proof. reflexivity. Qed.
  Lemma proc_of_add c v t : proc_of (c_add c v t) = proc_add (proc_of c) v t.
  Proof. unfold proc_of, c_add. simpl. rewrite fold_left_app. reflexivity. Qed.

  Definition c_flush (c : contrib) : list (bytes * F) := proc_flush (proc_of c).

  (* the real aggregator and the specification aggregator produce the same output on every history *)
  Theorem refines_spec interval wait evs :
    run1 F proc (proc_new f) proc_add proc_flush interval wait (a_init proc) evs =
    run2 F contrib c_new c_add c_flush interval wait (a_init contrib) evs.
  Proof.
    apply (sim_run F proc contrib (proc_new f) proc_add proc_flush c_new c_add c_flush proc_of
                   proc_of_new proc_of_add (fun p => eq_refl) interval wait evs (a_init contrib)).
  Qed.

  (* ---- what each function reports, as a plain fold over the contributed values ---- *)
  Definition vals (c : contrib) : list F := map fst (c_all c).
  Definition fsum (c : contrib) : F := fold_left fadd (map fst (snd c)) (fst (fst c)).
  Definition fmax_ (c : contrib) : F := fold_left (fun m v => if flt m v then v else m) (map fst (snd c)) (fst (fst c)).
  Definition fmin_ (c : contrib) : F := fold_left (fun m v => if flt v m then v else m) (map fst (snd c)) (fst (fst c)).
  Definition flast (c : contrib) : F := last (vals c) (fst (fst c)).
  Definition count_ (c : contrib) : N := N.of_nat (length (c_all c)).
  (* oldest / newest by timestamp, the first of equal timestamps wins *)
  Definition oldest (c : contrib) : F * N := fold_left (fun o vt => if snd vt <? snd o then vt else o) (snd c) (fst c).
  Definition newest (c : contrib) : F * N := fold_left (fun o vt => if snd o <? snd vt then vt else o) (snd c) (fst c).

  Lemma fold_pair {A B C} (fa : A -> C -> A) (fb : B -> C -> B) l a b :
    fold_left (fun ab c => (fa (fst ab) c, fb (snd ab) c)) l (a, b) = (fold_left fa l a, fold_left fb l b).
  Proof. revert a b; induction l as [|x l IH]; intros a b; simpl; [reflexivity|apply IH]. Qed.

  Lemma inv_avg l : forall s c, f = FAvg ->
    fold_left (fun p vt => proc_add p (fst vt) (snd vt)) l (PAvg F s c) =
    PAvg F (fold_left fadd (map fst l) s) (c + N.of_nat (length l)).
  Proof. induction l as [|x l IH]; intros s c Hf; simpl; [f_equal; lia|]. rewrite IH by exact Hf. f_equal. lia. Qed.

  Lemma inv_count l : forall c,
    fold_left (fun p vt => proc_add p (fst vt) (snd vt)) l (PCount F c) = PCount F (c + N.of_nat (length l)).
  Proof. induction l as [|x l IH]; intros c; simpl; [f_equal; lia|]. rewrite IH. f_equal. lia. Qed.

  Lemma inv_sum l : forall s,
    fold_left (fun p vt => proc_add p (fst vt) (snd vt)) l (PSum F s) = PSum F (fold_left fadd (map fst l) s).
  Proof. induction l as [|x l IH]; intros s; simpl; [reflexivity|]. apply IH. Qed.

  Lemma inv_max l : forall m,
    fold_left (fun p vt => proc_add p (fst vt) (snd vt)) l (PMax F m) =
    PMax F (fold_left (fun m v => if flt m v then v else m) (map fst l) m).
  Proof. induction l as [|x l IH]; intros m; simpl; [reflexivity|]. apply IH. Qed.

  Lemma inv_min l : forall m,
    fold_left (fun p vt => proc_add p (fst vt) (snd vt)) l (PMin F m) =
    PMin F (fold_left (fun m v => if flt v m then v else m) (map fst l) m).
  Proof. induction l as [|x l IH]; intros m; simpl; [reflexivity|]. apply IH. Qed.

  Lemma inv_delta l : forall mx mn,
    fold_left (fun p vt => proc_add p (fst vt) (snd vt)) l (PDelta F mx mn) =
    PDelta F (fold_left (fun m v => if flt m v then v else m) (map fst l) mx)
             (fold_left (fun m v => if flt v m then v else m) (map fst l) mn).
  Proof. induction l as [|x l IH]; intros mx mn; simpl; [reflexivity|]. apply IH. Qed.

  Lemma last_default {A} (l : list A) a d1 d2 : last (a :: l) d1 = last (a :: l) d2.
  Proof. revert a; induction l as [|b l IH]; intros a; [reflexivity|]. change (last (b :: l) d1 = last (b :: l) d2). apply IH. Qed.

  Lemma inv_last l : forall v,
    fold_left (fun p vt => proc_add p (fst vt) (snd vt)) l (PLast F v) = PLast F (last (map fst l) v).
  Proof.
    induction l as [|x l IH]; intros v; [reflexivity|].
    cbn [fold_left proc_add Aggregator.proc_add]. rewrite IH. f_equal.
    destruct l as [|y l]; [reflexivity|]. cbn [map]. 
    change (last (fst y :: map fst l) (fst x) = last (fst x :: fst y :: map fst l) v).
    cbn [last]. apply last_default.
  Qed.

  Lemma inv_stdev l : forall s vs,
    fold_left (fun p vt => proc_add p (fst vt) (snd vt)) l (PStdev F s vs) =
    PStdev F (fold_left fadd (map fst l) s) (vs ++ map fst l).
  Proof.
    induction l as [|x l IH]; intros s vs; simpl; [rewrite app_nil_r; reflexivity|].
    rewrite IH, <- app_assoc. reflexivity.
  Qed.

  Lemma inv_perc l : forall vs,
    fold_left (fun p vt => proc_add p (fst vt) (snd vt)) l (PPerc F vs) = PPerc F (vs ++ map fst l).
  Proof.
    induction l as [|x l IH]; intros vs; simpl; [rewrite app_nil_r; reflexivity|].
    rewrite IH, <- app_assoc. reflexivity.
  Qed.

  Lemma inv_derive l : forall o n,
    fold_left (fun p vt => proc_add p (fst vt) (snd vt)) l (PDerive F (snd o) (snd n) (fst o) (fst n)) =
    let o' := fold_left (fun o vt => if snd vt <? snd o then vt else o) l o in
    let n' := fold_left (fun o vt => if snd o <? snd vt then vt else o) l n in
    PDerive F (snd o') (snd n') (fst o') (fst n').
  Proof.
    induction l as [|[v t] l IH]; intros [ov ot] [nv nt]; simpl; [reflexivity|].
    destruct (nt <? t); destruct (t <? ot); simpl; apply (IH (_, _) (_, _)).
  Qed.

  (* the function of the contributed values, as the property words it *)
  Definition fun_spec (c : contrib) : list (bytes * F) :=
    match f with
    | FAvg => [([], fdiv (fsum c) (of_N (count_ c)))]
    | FCount => [([], of_N (count_ c))]
    | FDelta => [([], fsub (fmax_ c) (fmin_ c))]
    | FDerive =>
        let o := oldest c in let n := newest c in
        if snd n =? snd o then [] else [([], fdiv (fsub (fst n) (fst o)) (of_N (snd n - snd o)))]
    | FLast => [([], flast c)]
    | FMax => [([], fmax_ c)]
    | FMin => [([], fmin_ c)]
    | FStdev =>
        let n := of_N (count_ c) in
        let mean := fdiv (fsum c) n in
        [([], fsqrt (fdiv (fold_left (fun acc t => fadd acc (fmul (fsub t mean) (fsub t mean))) (vals c) (of_N 0)) n))]
    | FPercentiles =>
        map (fun pn => ([112] ++ Decimal.N_to_dec pn,
                        percentile F fadd fsub fmul fdiv flt of_N (fsort F flt (vals c)) pn)) [25; 50; 75; 90; 95; 99]
    | FSum => [([], fsum c)]
    end.

  Lemma count_S (l : list (F * N)) : 1 + N.of_nat (length l) = N.of_nat (S (length l)).
  Proof. lia. Qed.

  Theorem value_spec c : c_flush c = fun_spec c.
  Proof.
    destruct c as [[v0 t0] tl]. unfold c_flush, proc_of, fun_spec, fsum, fmax_, fmin_, flast, count_, vals, c_all, oldest, newest.
    cbn [fst snd]. destruct f eqn:Ef; cbn [Aggregator.proc_new].
    - rewrite inv_avg by exact Ef. cbn [Aggregator.proc_flush]. rewrite count_S. reflexivity.
    - rewrite inv_count. cbn [Aggregator.proc_flush]. rewrite count_S. reflexivity.
    - rewrite inv_delta. reflexivity.
    - pose proof (inv_derive tl (v0, t0) (v0, t0)) as HD. cbn [fst snd] in HD. rewrite HD. reflexivity.
    - rewrite inv_last. cbn [Aggregator.proc_flush map]. f_equal. f_equal.
      destruct tl as [|x tl]; [reflexivity|]. cbn [map]. cbn [last]. apply last_default.
    - rewrite inv_max. reflexivity.
    - rewrite inv_min. reflexivity.
    - rewrite inv_stdev. cbn [Aggregator.proc_flush app map length]. rewrite map_length. reflexivity.
    - rewrite inv_sum. reflexivity.
    - rewrite inv_perc. reflexivity.
  Qed.
End Spec.
