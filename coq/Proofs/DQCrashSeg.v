(* Disk queue: a crash at any file-system mutation, across segment roll-over.  Every file-system state that a
   run of puts, gets and sync ticks passes through — after each segment write, fsync, metadata temp write,
   metadata rename and segment removal, with any maxBytesPerFile and syncEvery — is recovered by NewDiskQueue
   without panic into a queue whose complete drain is a contiguous run of the enqueued messages, intact and
   in order, starting no later than the first message not yet handed to the consumer. *)
From CRNG Require Import Base.ListX Base.Bytes Base.Decimal Model.DiskQueue Proofs.DQBasics Proofs.DQReader Proofs.DQFifo Proofs.DQFifoSeg Proofs.DQCrash.
From Coq Require Import ZifyN ZifyNat ZifyBool.
Local Open Scope N_scope.

(* ---- the segment table is a map: keys strictly increasing ---- *)
Fixpoint sorted_from (lo : N) (l : list (N * bytes)) : Prop :=
  match l with [] => True | (k, _) :: l' => lo <= k /\ sorted_from (k + 1) l' end.

Lemma sorted_weaken lo lo' l : lo' <= lo -> sorted_from lo l -> sorted_from lo' l.
Proof. destruct l as [|[k c] l]; cbn [sorted_from]; [auto|]. intros H [H1 H2]. split; [lia | exact H2]. Qed.

Lemma seg_get_below lo l n : sorted_from lo l -> n < lo -> seg_get l n = None.
Proof.
  revert lo. induction l as [|[k c] l IH]; intros lo Hs Hn; cbn [seg_get]; [reflexivity|].
  cbn [sorted_from] in Hs. destruct Hs as [H1 H2]. replace (n =? k) with false by lia. apply (IH (k + 1)); [exact H2 | lia].
Qed.

Lemma sorted_set lo l n c : sorted_from lo l -> sorted_from (N.min lo n) (seg_set l n c).
Proof.
  revert lo. induction l as [|[k c'] l IH]; intros lo Hs; cbn [seg_set sorted_from].
  - split; [lia | exact I].
  - cbn [sorted_from] in Hs. destruct Hs as [H1 H2].
    destruct (n =? k) eqn:E1; cbn [sorted_from].
    + split; [lia | exact H2].
    + destruct (n <? k) eqn:E2; cbn [sorted_from].
      * split; [lia|]. split; [lia | exact H2].
      * split; [lia|]. specialize (IH (k + 1) H2). apply (sorted_weaken (N.min (k + 1) n)); [lia | exact IH].
Qed.

Lemma sorted_del lo l n : sorted_from lo l -> sorted_from lo (seg_del l n).
Proof.
  revert lo. induction l as [|[k c'] l IH]; intros lo Hs; cbn [seg_del sorted_from]; [exact I|].
  cbn [sorted_from] in Hs. destruct Hs as [H1 H2].
  destruct (n =? k) eqn:E1.
  - apply (sorted_weaken (k + 1)); [lia | exact H2].
  - cbn [sorted_from]. split; [exact H1 | apply IH; exact H2].
Qed.

Lemma seg_get_del_same lo l n : sorted_from lo l -> seg_get (seg_del l n) n = None.
Proof.
  revert lo. induction l as [|[k c'] l IH]; intros lo Hs; cbn [seg_del seg_get]; [reflexivity|].
  cbn [sorted_from] in Hs. destruct Hs as [H1 H2].
  destruct (n =? k) eqn:E1.
  - apply N.eqb_eq in E1. subst k. apply (seg_get_below (n + 1)); [exact H2 | lia].
  - cbn [seg_get]. rewrite E1. apply (IH (k + 1)). exact H2.
Qed.

(* ---- a recovered queue that is only drained: the write file may hold more than the metadata says (junk),
        files beyond it may exist, the depth may be stale ---- *)
Definition hcont (pre : list (list bytes)) (w : list bytes) (junk : bytes) : bytes :=
  match pre with [] => frames w ++ junk | f0 :: _ => frames f0 end.

Record dbody (c : cfg) (rf rp wf wp : N) (segs : list (N * bytes))
             (pre : list (list bytes)) (w : list bytes) (off : nat) (junk : bytes) : Prop := {
  db_nums : wf = rf + N.of_nat (length pre);
  db_closed : forall f, In f pre -> closed c f;
  db_open : N.of_nat (fsize w) <= c_max c;
  db_segs : forall i f, nth_error pre i = Some f -> seg_get segs (rf + N.of_nat i) = Some (frames f);
  db_wseg : seg_get segs wf = Some (frames w ++ junk) \/ (w = [] /\ seg_get segs wf = None);
  db_off : (off <= length (headf pre w))%nat /\ (pre <> [] -> (off < length (headf pre w))%nat);
  db_rpos : rp = N.of_nat (fpos (headf pre w) off);
  db_wpos : wp = N.of_nat (fsize w);
  db_small : forall m, In m (concat pre ++ w) -> small m }.

Definition dhead_ok (c : cfg) (d : dq) (pre : list (list bytes)) (w : list bytes) (off : nat) (junk : bytes) : Prop :=
  match undel pre w off with
  | [] => ready d = false
  | m :: _ => ready d = true /\ pending d = m /\
              if c_max c <? readPos d + 4 + N.of_nat (length m)
              then nextReadFileNum d = readFileNum d + 1 /\ nextReadPos d = 0 /\ rfile d = None
              else nextReadFileNum d = readFileNum d /\ nextReadPos d = readPos d + 4 + N.of_nat (length m) /\
                   handle_okk (hcont pre w junk) (rfile d) (N.to_nat (nextReadPos d)) (readFileNum d) /\ rfile d <> None
  end.

Definition dinv (c : cfg) (d : dq) (pre : list (list bytes)) (w : list bytes) (off : nat) (junk : bytes) : Prop :=
  dbody c (readFileNum d) (readPos d) (writeFileNum d) (writePos d) (f_segs (fs d)) pre w off junk /\
  dhead_ok c d pre w off junk.

Lemma head_seg_d c rf rp wf wp segs pre w off junk :
  dbody c rf rp wf wp segs pre w off junk -> undel pre w off <> [] ->
  seg_get segs rf = Some (hcont pre w junk).
Proof.
  intros B Hne. destruct pre as [|f0 pre']; cbn [hcont].
  - pose proof (db_nums _ _ _ _ _ _ _ _ _ _ B) as Hn. cbn [length] in Hn. rewrite N.add_0_r in Hn. subst wf.
    destruct (db_wseg _ _ _ _ _ _ _ _ _ _ B) as [H|[H _]]; [exact H|]. subst w. cbn [undel] in Hne. rewrite skipn_nil in Hne. contradiction.
  - pose proof (db_segs _ _ _ _ _ _ _ _ _ _ B 0%nat f0 eq_refl) as H. rewrite N.add_0_r in H. exact H.
Qed.

Lemma hcont_skip pre w junk off m r' :
  skipn off (headf pre w) = m :: r' ->
  exists rest, skipn (fpos (headf pre w) off) (hcont pre w junk) = frame m ++ rest.
Proof.
  intros Es. destruct pre as [|f0 pre']; cbn [hcont headf] in *.
  - exists (frames r' ++ junk). rewrite skipn_app_le by apply fpos_le. rewrite skipn_fpos, Es, frames_cons, <- app_assoc. reflexivity.
  - exists (frames r'). rewrite skipn_fpos, Es. reflexivity.
Qed.

(* the loop when nothing is read ahead *)
Lemma loop_fresh_d c d pre w off junk f :
  dbody c (readFileNum d) (readPos d) (writeFileNum d) (writePos d) (f_segs (fs d)) pre w off junk ->
  nextReadPos d = readPos d ->
  handle_okk (hcont pre w junk) (rfile d) (N.to_nat (readPos d)) (readFileNum d) ->
  exists d', loop_top c (S f) d = Some d' /\ dinv c d' pre w off junk.
Proof.
  intros B Hnp Hh. rewrite loop_top_unfold. cbv zeta.
  pose proof (presync_fields c d) as P. cbv zeta in P.
  set (d2 := presync c d) in *.
  destruct P as [P1 [P2 [P3 [P4 [P5 [P6 [P7 [P8 [P9 [P10 P11]]]]]]]]]].
  pose proof (db_off _ _ _ _ _ _ _ _ _ _ B) as [Ho1 Ho2].
  pose proof (db_nums _ _ _ _ _ _ _ _ _ _ B) as Hn.
  pose proof (db_rpos _ _ _ _ _ _ _ _ _ _ B) as Hr.
  pose proof (db_wpos _ _ _ _ _ _ _ _ _ _ B) as Hw.
  destruct (undel pre w off) as [|m r] eqn:EU.
  - destruct (undel_nil_inv pre w off Ho1 Ho2 EU) as [-> ->].
    cbn [headf length] in *. rewrite N.add_0_r in Hn. rewrite fpos_all in Hr by lia.
    replace ((readFileNum d2 <? writeFileNum d2) || (readPos d2 <? writePos d2)) with false by (rewrite P1, P2, P3, P4; lia).
    eexists. split; [reflexivity|]. split.
    + cbn [setr readPos writePos readFileNum writeFileNum depth fs]. rewrite P1, P2, P3, P4, P11. exact B.
    + unfold dhead_ok. rewrite EU. reflexivity.
  - destruct (undel_cons_inv pre w off m r Ho1 Ho2 EU) as [r' [Es Hlt]].
    assert (Hreadable : (readFileNum d2 <? writeFileNum d2) || (readPos d2 <? writePos d2) = true).
    { rewrite P1, P2, P3, P4. destruct pre as [|f0 pre']; cbn [headf length] in *.
      - pose proof (fpos_lt_fsize w off Hlt). lia.
      - lia. }
    rewrite Hreadable.
    replace (nextReadPos d2 =? readPos d2) with true by (rewrite P6, P1; lia).
    assert (Hseg : seg_get (f_segs (fs d2)) (readFileNum d) = Some (hcont pre w junk)).
    { rewrite P11. apply (head_seg_d _ _ _ _ _ _ _ _ _ _ B). rewrite EU. discriminate. }
    assert (Hsm : small m).
    { apply (db_small _ _ _ _ _ _ _ _ _ _ B). apply in_head_all. apply (In_skipn off). rewrite Es. left. reflexivity. }
    destruct (hcont_skip pre w junk off m r' Es) as [rest Hrest].
    destruct (read_at_k c d2 (readFileNum d) (hcont pre w junk) m rest (fpos (headf pre w) off)) as [h2 [E [Hi2 Hn2]]].
    + exact P3.
    + exact Hseg.
    + rewrite P1. exact Hr.
    + exact Hrest.
    + exact Hsm.
    + rewrite P8. rewrite Hr, Nat2N.id in Hh. exact Hh.
    + rewrite E. eexists. split; [reflexivity|].
      destruct (c_max c <? readPos d2 + 4 + N.of_nat (length m)) eqn:Eroll.
      * split.
        -- cbn [setr readPos writePos readFileNum writeFileNum depth fs]. rewrite P1, P2, P3, P4, P11. exact B.
        -- unfold dhead_ok. rewrite EU.
           cbn [setr ready pending nextReadPos readPos nextReadFileNum readFileNum rfile]. rewrite Eroll. auto.
      * split.
        -- cbn [setr readPos writePos readFileNum writeFileNum depth fs]. rewrite P1, P2, P3, P4, P11. exact B.
        -- unfold dhead_ok. rewrite EU.
           cbn [setr ready pending nextReadPos readPos nextReadFileNum readFileNum rfile]. rewrite Eroll.
           split; [reflexivity|]. split; [reflexivity|]. split; [reflexivity|]. split; [reflexivity|]. split; [|discriminate].
           cbn [handle_okk]. split; [|rewrite P3; exact Hn2].
           rewrite P1, Hr. replace (N.to_nat (N.of_nat (fpos (headf pre w) off) + 4 + N.of_nat (length m))) with (fpos (headf pre w) off + 4 + length m)%nat by lia.
           exact Hi2.
Qed.

(* moveForward, whatever the depth says: at the tail a stale depth is reset, the positions are the same *)
Lemma move_forward_fields_d d :
  ((nextReadFileNum d <? writeFileNum d) || (nextReadPos d <? writePos d) = true \/
   (nextReadFileNum d = writeFileNum d /\ nextReadPos d = writePos d)) ->
  let r0 := move_forward d in
  readPos r0 = nextReadPos d /\ writePos r0 = writePos d /\ readFileNum r0 = nextReadFileNum d /\ writeFileNum r0 = writeFileNum d /\
  nextReadPos r0 = nextReadPos d /\ nextReadFileNum r0 = nextReadFileNum d /\ rfile r0 = rfile d /\
  f_segs (fs r0) = (if negb (readFileNum d =? nextReadFileNum d) then seg_del (f_segs (fs d)) (readFileNum d) else f_segs (fs d)).
Proof.
  intros H. cbv zeta. unfold move_forward. cbv zeta. unfold check_tail.
  cbn [readPos writePos readFileNum writeFileNum depth nextReadPos nextReadFileNum needSync count rfile wopen pending ready fs trace].
  destruct ((nextReadFileNum d <? writeFileNum d) || (nextReadPos d <? writePos d)) eqn:E.
  - cbn [readPos writePos readFileNum writeFileNum depth nextReadPos nextReadFileNum rfile fs].
    repeat split; try reflexivity. destruct (negb (readFileNum d =? nextReadFileNum d)); reflexivity.
  - destruct H as [H|[H1 H2]]; [discriminate|].
    destruct (depth d - 1 =? 0)%Z;
      cbn [readPos writePos readFileNum writeFileNum depth nextReadPos nextReadFileNum rfile fs];
      rewrite H1, H2, !N.eqb_refl; cbn [negb orb];
      cbn [readPos writePos readFileNum writeFileNum depth nextReadPos nextReadFileNum rfile fs];
      (repeat split; try reflexivity; try (symmetry; assumption));
      destruct (negb (readFileNum d =? writeFileNum d)); reflexivity.
Qed.

Lemma hcont_tail f0 pre' w junk : hcont (f0 :: pre') w junk = frames f0.
Proof. reflexivity. Qed.

Lemma get_step_d c d pre w off junk m r :
  dinv c d pre w off junk -> undel pre w off = m :: r ->
  exists d' pre' off', loop_top c LOOP_FUEL (move_forward d) = Some d' /\ dinv c d' pre' w off' junk /\ undel pre' w off' = r.
Proof.
  intros [B Hhead] EU. unfold dhead_ok in Hhead. rewrite EU in Hhead. destruct Hhead as [Hrdy [Hpend Hif]].
  destruct B as [Hn Hcl Hop Hsg Hws [Ho1 Ho2] Hr Hw Hsm].
  destruct (undel_cons_inv pre w off m r Ho1 Ho2 EU) as [r' [Es Hlt]].
  pose proof (fpos_succ _ _ _ _ Es) as Hnext.
  pose proof (skipn_next _ _ _ _ Es) as Es'.
  unfold LOOP_FUEL.
  destruct (c_max c <? readPos d + 4 + N.of_nat (length m)) eqn:Eroll.
  - destruct Hif as [H1 [H2 H3]].
    destruct pre as [|f0 pre']; cbn [headf] in *.
    { exfalso. pose proof (fpos_le w (S off)). lia. }
    assert (Hlast : S off = length f0).
    { destruct (Nat.eq_dec (S off) (length f0)) as [E|E]; [exact E|]. exfalso.
      destruct (Hcl f0 (or_introl eq_refl)) as [Hc _]. specialize (Hc (S off) ltac:(lia)). lia. }
    assert (Hr'nil : r' = []).
    { assert (L : length (skipn (S off) f0) = 0%nat) by (rewrite skipn_length; lia). rewrite Es' in L. destruct r'; [reflexivity | discriminate]. }
    rewrite Hr'nil in Es, Es'. clear Hr'nil r'. cbn [undel] in EU. rewrite Es in EU. cbn [app] in EU. inversion EU as [Hr0]. clear EU.
    cbn [length] in Hn.
    assert (Hpre : (nextReadFileNum d <? writeFileNum d) || (nextReadPos d <? writePos d) = true \/
                   (nextReadFileNum d = writeFileNum d /\ nextReadPos d = writePos d)).
    { destruct pre' as [|f1 pre''].
      - destruct w as [|m1 w'].
        + right. cbn in Hw. cbn [length] in Hn. split; lia.
        + left. pose proof (frames_pos m1 w'). unfold fsize in Hw. lia.
      - left. cbn [length] in Hn. lia. }
    pose proof (move_forward_fields_d d Hpre) as F. cbv zeta in F.
    set (r0 := move_forward d) in *.
    destruct F as [F1 [F2 [F3 [F4 [F6 [F7 [F8 F9]]]]]]].
    replace (negb (readFileNum d =? nextReadFileNum d)) with true in F9 by (rewrite H1; lia).
    destruct (loop_fresh_d c r0 pre' w 0 junk 63) as [d' [E I]].
    + rewrite F1, F2, F3, F4, F9, H1, H2. constructor.
      * lia.
      * intros f Hf. apply Hcl. right. exact Hf.
      * exact Hop.
      * intros i f Hf. rewrite seg_get_del_other by lia.
        replace (readFileNum d + 1 + N.of_nat i) with (readFileNum d + N.of_nat (S i)) by lia. apply Hsg. exact Hf.
      * rewrite seg_get_del_other by lia. exact Hws.
      * split; [lia|]. intros Hne. destruct pre' as [|f1 pre'']; [contradiction|]. cbn [headf].
        pose proof (closed_nonempty c f1 (Hcl f1 (or_intror (or_introl eq_refl)))) as Hf1. destruct f1; [contradiction | cbn [length]; lia].
      * reflexivity.
      * exact Hw.
      * intros x Hx. apply Hsm. cbn [concat]. rewrite <- app_assoc. apply in_or_app. right. exact Hx.
    + rewrite F6, F1. reflexivity.
    + rewrite F8, H3. exact I.
    + exists d', pre', 0%nat. split; [exact E|]. split; [exact I|]. rewrite undel_zero. first [reflexivity | symmetry; exact Hr0].
  - destruct Hif as [H1 [H2 [H3 H4]]].
    assert (Hsucc : pre <> [] -> (S off < length (headf pre w))%nat).
    { intros Hne. destruct pre as [|f0 pre']; [contradiction|]. cbn [headf] in *.
      destruct (Nat.eq_dec (S off) (length f0)) as [E|E]; [|lia]. exfalso.
      destruct (Hcl f0 (or_introl eq_refl)) as [_ Hc]. rewrite <- (fpos_all f0 (S off)) in Hc by lia. lia. }
    assert (Hund : undel pre w (S off) = r).
    { destruct pre as [|f0 pre']; cbn [undel headf] in *.
      - rewrite Es'. rewrite Es in EU. inversion EU. reflexivity.
      - rewrite Es'. rewrite Es in EU. cbn [app] in EU. inversion EU. reflexivity. }
    assert (Hpre : (nextReadFileNum d <? writeFileNum d) || (nextReadPos d <? writePos d) = true \/
                   (nextReadFileNum d = writeFileNum d /\ nextReadPos d = writePos d)).
    { destruct pre as [|f0 pre']; cbn [headf length] in *.
      - pose proof (fsize_split w (S off)) as Hsp.
        destruct (skipn (S off) w) as [|m1 w1] eqn:Ew.
        + right. change (fsize []) with 0%nat in Hsp. split; lia.
        + left. pose proof (frames_pos m1 w1). unfold fsize in Hsp at 2. lia.
      - left. lia. }
    pose proof (move_forward_fields_d d Hpre) as F. cbv zeta in F.
    set (r0 := move_forward d) in *.
    destruct F as [F1 [F2 [F3 [F4 [F6 [F7 [F8 F9]]]]]]].
    replace (negb (readFileNum d =? nextReadFileNum d)) with false in F9 by (rewrite H1; lia).
    destruct (loop_fresh_d c r0 pre w (S off) junk 63) as [d' [E I]].
    + rewrite F1, F2, F3, F4, F9, H1, H2. constructor; try assumption.
      * split; [lia | exact Hsucc].
      * lia.
    + rewrite F6, F1. reflexivity.
    + rewrite F8, F1, F3, H1. exact H3.
    + exists d', pre, (S off). split; [exact E|]. split; [exact I | exact Hund].
Qed.

(* draining a recovered queue delivers exactly what its layout holds *)
Lemma drain_all_d c junk q : forall d pre w off limit,
  dinv c d pre w off junk -> undel pre w off = q -> (length q <= limit)%nat -> dq_drain c limit d = q.
Proof.
  induction q as [|m q IH]; intros d pre w off limit I EU Hl.
  - destruct I as [_ Hh]. unfold dhead_ok in Hh. rewrite EU in Hh. destruct limit; cbn [dq_drain]; [reflexivity | rewrite Hh; reflexivity].
  - destruct limit as [|limit]; [cbn [length] in Hl; lia|].
    pose proof I as [_ Hh]. unfold dhead_ok in Hh. rewrite EU in Hh. destruct Hh as [Hr [Hp _]].
    destruct (get_step_d c d pre w off junk m q I EU) as [d' [pre' [off' [E [I' U']]]]].
    cbn [dq_drain]. unfold LOOP_FUEL in E. rewrite Hr. unfold LOOP_FUEL. rewrite E, Hp. f_equal.
    apply (IH d' pre' w off' limit I' U'). cbn [length] in Hl. lia.
Qed.

(* ---- recovery ---- *)
Definition metaok (f : fsys) (dep : Z) (mrf mrp wf wp : N) : Prop :=
  (exists stale, f_meta f = Some (print_meta dep mrf mrp wf wp ++ stale)) \/
  (f_meta f = None /\ dep = 0%Z /\ mrf = 0 /\ mrp = 0 /\ wf = 0 /\ wp = 0).

Lemma open_state c f tr dep mrf mrp wf wp :
  metaok f dep mrf mrp wf wp ->
  dq_open c f tr =
  loop_top c LOOP_FUEL {| readPos := mrp; writePos := wp; readFileNum := mrf; writeFileNum := wf; depth := dep;
                          nextReadPos := mrp; nextReadFileNum := mrf; needSync := false; count := 0%Z;
                          rfile := None; wopen := false; pending := []; ready := false; fs := f; trace := tr |}.
Proof.
  intros [[stale H]|[H [-> [-> [-> [-> ->]]]]]]; unfold dq_open; rewrite H; [rewrite meta_roundtrip|]; reflexivity.
Qed.

Lemma recover_present c f dep rf wf pre w off junk :
  metaok f dep rf (N.of_nat (fpos (headf pre w) off)) wf (N.of_nat (fsize w)) ->
  dbody c rf (N.of_nat (fpos (headf pre w) off)) wf (N.of_nat (fsize w)) (f_segs f) pre w off junk ->
  exists d, dq_open c f [] = Some d /\ dinv c d pre w off junk.
Proof.
  intros M B. rewrite (open_state c f [] _ _ _ _ _ M). unfold LOOP_FUEL.
  apply loop_fresh_d; cbn [readPos writePos readFileNum writeFileNum fs nextReadPos rfile]; [exact B | reflexivity | exact I].
Qed.

Lemma handle_read_error_missing d :
  seg_get (f_segs (fs d)) (readFileNum d) = None -> readFileNum d <> writeFileNum d ->
  let x := handle_read_error d in
  readPos x = 0 /\ writePos x = writePos d /\ readFileNum x = readFileNum d + 1 /\ writeFileNum x = writeFileNum d /\
  nextReadPos x = 0 /\ rfile x = rfile d /\ f_segs (fs x) = f_segs (fs d).
Proof.
  intros Hn Hne. cbv zeta. unfold handle_read_error. cbv zeta. rewrite Hn.
  replace (readFileNum d =? writeFileNum d) with false by lia.
  cbn [readPos writePos readFileNum writeFileNum nextReadPos rfile fs]. repeat split.
Qed.

Lemma recover_removed c f dep mrf mrp wf pre w junk :
  metaok f dep mrf mrp wf (N.of_nat (fsize w)) ->
  seg_get (f_segs f) mrf = None -> mrf < wf ->
  dbody c (mrf + 1) 0 wf (N.of_nat (fsize w)) (f_segs f) pre w 0 junk ->
  exists d, dq_open c f [] = Some d /\ dinv c d pre w 0 junk.
Proof.
  intros M Hnone Hlt B. rewrite (open_state c f [] _ _ _ _ _ M). unfold LOOP_FUEL.
  rewrite loop_top_unfold. cbv zeta.
  match goal with |- context [presync c ?x] => set (r := x) end.
  pose proof (presync_fields c r) as P. cbv zeta in P.
  set (d2 := presync c r) in *.
  destruct P as [P1 [P2 [P3 [P4 [P5 [P6 [P7 [P8 [P9 [P10 P11]]]]]]]]]].
  cbn [r readPos writePos readFileNum writeFileNum depth nextReadPos nextReadFileNum rfile pending ready fs] in P1, P2, P3, P4, P5, P6, P7, P8, P9, P10, P11.
  replace ((readFileNum d2 <? writeFileNum d2) || (readPos d2 <? writePos d2)) with true by (rewrite P3, P4; lia).
  rewrite P6, P1, N.eqb_refl.
  assert (Hro : read_one c d2 = RdErr (set_rfile d2 None)).
  { unfold read_one. rewrite P8, P11, P3, Hnone. reflexivity. }
  rewrite Hro.
  set (e := set_rfile d2 None).
  assert (He : seg_get (f_segs (fs e)) (readFileNum e) = None) by (unfold e; cbn [set_rfile fs readFileNum]; rewrite P11, P3; exact Hnone).
  assert (Hne : readFileNum e <> writeFileNum e) by (unfold e; cbn [set_rfile writeFileNum readFileNum]; rewrite P3, P4; lia).
  pose proof (handle_read_error_missing e He Hne) as X. cbv zeta in X.
  destruct X as [X1 [X2 [X3 [X4 [X5 [X6 X7]]]]]].
  unfold e in X2, X3, X4, X6, X7. cbn [set_rfile writePos readFileNum writeFileNum rfile fs] in X2, X3, X4, X6, X7. fold e in X2, X3, X4, X6, X7.
  apply loop_fresh_d.
  - rewrite X1, X2, X3, X4, X7, P2, P3, P4, P11. exact B.
  - rewrite X5, X1. reflexivity.
  - rewrite X6. exact I.
Qed.

(* ---- images: what a crash can leave behind ---- *)
(* E: everything enqueued so far; k: handed to the consumer so far; W: an upper bound on the write file the image's metadata names.
   The image's metadata names a read position that is either where the layout (pre, w, off) starts (in a file that is present)
   or lies in the file before it, which is gone (removed after its last record was delivered, the metadata not yet rewritten). *)
Definition img (c : cfg) (E : list bytes) (k : nat) (W : N) (f : fsys) : Prop :=
  exists rf pre w off junk dep mrf mrp (sr sw : nat),
    metaok f dep mrf mrp (rf + N.of_nat (length pre)) (N.of_nat (fsize w)) /\
    ((mrf = rf /\ mrp = N.of_nat (fpos (headf pre w) off)) \/
     (mrf + 1 = rf /\ seg_get (f_segs f) mrf = None /\ off = 0%nat)) /\
    dbody c rf (N.of_nat (fpos (headf pre w) off)) (rf + N.of_nat (length pre)) (N.of_nat (fsize w)) (f_segs f) pre w off junk /\
    undel pre w off = firstn (sw - sr) (skipn sr E) /\ (sr <= sw)%nat /\ (sr <= k)%nat /\ (sw <= length E)%nat /\
    rf + N.of_nat (length pre) <= W.

Lemma img_recover c E k W f :
  img c E k W f ->
  exists d sr sw, dq_open c f [] = Some d /\ (sr <= sw)%nat /\ (sr <= k)%nat /\ (sw <= length E)%nat /\
    forall limit, (sw - sr <= limit)%nat -> dq_drain c limit d = firstn (sw - sr) (skipn sr E).
Proof.
  intros [rf [pre [w [off [junk [dep [mrf [mrp [sr [sw [M [Hmode [B [U [H1 [H2 [H3 H4]]]]]]]]]]]]]]]]].
  assert (Hrec : exists d, dq_open c f [] = Some d /\ dinv c d pre w off junk).
  { destruct Hmode as [[-> ->]|[Hm [Hnone ->]]].
    - apply (recover_present c f dep rf _ pre w off junk M B).
    - apply (recover_removed c f dep mrf mrp _ pre w junk M Hnone); [lia|].
      replace (mrf + 1) with rf by lia. exact B. }
  destruct Hrec as [d [Eo I]]. exists d, sr, sw. repeat split; try assumption.
  intros limit Hl. apply (drain_all_d c junk _ d pre w off limit I U).
  rewrite firstn_length. lia.
Qed.

Lemma firstn_skipn_grow {A} (E x : list A) sr sw :
  (sw <= length E)%nat -> firstn (sw - sr) (skipn sr (E ++ x)) = firstn (sw - sr) (skipn sr E).
Proof.
  intros H. destruct (Nat.le_gt_cases sr (length E)) as [L|L].
  - rewrite skipn_app. replace (sr - length E)%nat with 0%nat by lia. cbn [skipn].
    rewrite firstn_app. replace (sw - sr - length (skipn sr E))%nat with 0%nat by (rewrite skipn_length; lia).
    cbn [firstn]. apply app_nil_r.
  - replace (sw - sr)%nat with 0%nat by lia. reflexivity.
Qed.

Lemma img_grow c E k W f x k' W' : img c E k W f -> (k <= k')%nat -> W <= W' -> img c (E ++ x) k' W' f.
Proof.
  intros [rf [pre [w [off [junk [dep [mrf [mrp [sr [sw [M [Hmode [B [U [H1 [H2 [H3 H4]]]]]]]]]]]]]]]]] Hk HW.
  exists rf, pre, w, off, junk, dep, mrf, mrp, sr, sw.
  split; [exact M|]. split; [exact Hmode|]. split; [exact B|].
  split; [rewrite firstn_skipn_grow by exact H3; exact U|].
  split; [exact H1|]. split; [lia|]. split; [rewrite app_length; lia | lia].
Qed.

Lemma img_ext c E k W f f' : f_meta f' = f_meta f -> f_segs f' = f_segs f -> img c E k W f -> img c E k W f'.
Proof.
  intros Hm Hs [rf [pre [w [off [junk [dep [mrf [mrp [sr [sw [M [Hmode [B [U H]]]]]]]]]]]]]].
  exists rf, pre, w, off, junk, dep, mrf, mrp, sr, sw. unfold metaok in *. rewrite Hm, Hs. auto.
Qed.

(* appending to a file at or beyond the bound changes no image *)
Lemma img_append c E k W f f' j data :
  img c E k W f -> W <= j -> f_meta f' = f_meta f ->
  (forall n, seg_get (f_segs f') n =
             if n =? j then Some (match seg_get (f_segs f) j with Some x => x | None => [] end ++ data) else seg_get (f_segs f) n) ->
  img c E k W f'.
Proof.
  intros [rf [pre [w [off [junk [dep [mrf [mrp [sr [sw [M [Hmode [B [U [H1 [H2 [H3 H4]]]]]]]]]]]]]]]]] HW Hm Hs.
  destruct B as [Hn Hcl Hop Hsg Hws Hoff Hr Hw Hsm].
  assert (Hidx : forall i f0, nth_error pre i = Some f0 -> (i < length pre)%nat).
  { intros i f0 H. apply nth_error_Some. rewrite H. discriminate. }
  assert (Hjunk : exists junk', seg_get (f_segs f') (rf + N.of_nat (length pre)) = Some (frames w ++ junk') \/
                                (w = [] /\ seg_get (f_segs f') (rf + N.of_nat (length pre)) = None)).
  { rewrite Hs. destruct (rf + N.of_nat (length pre) =? j) eqn:Ej.
    - apply N.eqb_eq in Ej. rewrite <- Ej. destruct Hws as [Hws|[-> Hws]]; rewrite Hws.
      + exists (junk ++ data). left. rewrite app_assoc. reflexivity.
      + exists data. left. reflexivity.
    - exists junk. exact Hws. }
  destruct Hjunk as [junk' Hws'].
  exists rf, pre, w, off, junk', dep, mrf, mrp, sr, sw.
  split; [unfold metaok in *; rewrite Hm; exact M|].
  split.
  { destruct Hmode as [Hmode|[Hm1 [Hnone Ho]]]; [left; exact Hmode | right]. split; [exact Hm1|]. split; [|exact Ho].
    rewrite Hs. replace (mrf =? j) with false by lia. exact Hnone. }
  split.
  { constructor; try assumption.
    intros i f0 Hf. rewrite Hs. specialize (Hidx i f0 Hf). replace (rf + N.of_nat i =? j) with false by lia. apply Hsg. exact Hf. }
  repeat split; assumption.
Qed.

(* ---- the state of a clean run, with the snapshot its metadata file holds ---- *)
(* E = D0 ++ (all messages of the files readFileNum .. writeFileNum); the metadata was written when the write file held ws
   (w = ws ++ wn) and offs records of the first file were consumed; file numbers have not changed since (a change is synced at once) *)
Definition lay (c : cfg) (X : dq) (E : list bytes) (k : nat) (pre : list (list bytes)) (w : list bytes) (off : nat) : Prop :=
  exists D0 ws wn offs dep,
    E = D0 ++ concat pre ++ w /\ k = (length D0 + off)%nat /\
    w = ws ++ wn /\ (offs <= off)%nat /\ (pre = [] -> (offs <= length ws)%nat) /\
    metaok (fs X) dep (readFileNum X) (N.of_nat (fpos (headf pre ws) offs)) (writeFileNum X) (N.of_nat (fsize ws)).

Lemma skipn_layout pre ws wn offs :
  (offs <= length (headf pre ws))%nat ->
  skipn offs (concat pre ++ ws ++ wn) = undel pre ws offs ++ wn.
Proof.
  intros H. destruct pre as [|f0 pre']; cbn [headf undel concat app] in *.
  - apply skipn_app_le. exact H.
  - rewrite <- !app_assoc. rewrite skipn_app_le by exact H. reflexivity.
Qed.

Lemma fsize_app_list a b : fsize (a ++ b) = (fsize a + fsize b)%nat.
Proof. unfold fsize. rewrite frames_app_list. apply app_length. Qed.

Lemma lay_img c X E k pre w off :
  sbody c (readFileNum X) (readPos X) (writeFileNum X) (writePos X) (depth X) (f_segs (fs X)) pre w off ->
  lay c X E k pre w off -> img c E k (writeFileNum X) (fs X).
Proof.
  intros B [D0 [ws [wn [offs [dep [HE [Hk [Hw [Ho [Hoe M]]]]]]]]]].
  destruct B as [Hn Hcl Hop Hsg Hws Hab [Ho1 Ho2] Hr Hwp Hd Hsm].
  assert (Hoffs : (offs <= length (headf pre ws))%nat /\ (pre <> [] -> (offs < length (headf pre ws))%nat)).
  { destruct pre as [|f0 pre']; cbn [headf] in *; [split; [apply Hoe; reflexivity | intros H; contradiction]|].
    specialize (Ho2 ltac:(discriminate)). split; [lia | intros _; lia]. }
  destruct Hoffs as [Hf1 Hf2].
  pose proof (skipn_layout pre ws wn offs Hf1) as Hsk.
  assert (Hlen : (length (concat pre ++ ws ++ wn) - offs = length (undel pre ws offs) + length wn)%nat).
  { rewrite <- skipn_length, Hsk, app_length. reflexivity. }
  exists (readFileNum X), pre, ws, offs, (frames wn), dep, (readFileNum X), (N.of_nat (fpos (headf pre ws) offs)),
         (length D0 + offs)%nat, (length D0 + offs + length (undel pre ws offs))%nat.
  rewrite <- Hn.
  split; [exact M|]. split; [left; auto|]. split.
  { constructor; try assumption.
    - subst w. rewrite fsize_app_list in Hop. lia.
    - destruct Hws as [Hws|[Hw0 Hws]].
      + left. rewrite Hws. subst w. rewrite frames_app_list. reflexivity.
      + right. rewrite Hw in Hw0. apply app_eq_nil in Hw0 as [Hws0 _]. split; [exact Hws0 | exact Hws].
    - split; assumption.
    - reflexivity.
    - reflexivity.
    - intros m Hm. apply Hsm. subst w. rewrite app_assoc. apply in_or_app. left. exact Hm. }
  split.
  { subst E w. rewrite <- skipn_skipn'. rewrite skipn_app, Nat.sub_diag, skipn_all. cbn [app skipn].
    rewrite Hsk. replace (length D0 + offs + length (undel pre ws offs) - (length D0 + offs))%nat with (length (undel pre ws offs)) by lia.
    rewrite firstn_app, Nat.sub_diag, firstn_all. cbn [firstn]. rewrite app_nil_r. reflexivity. }
  split; [lia|]. split; [lia|]. split; [|lia].
  assert (Hhl : (length (headf pre ws) <= length (concat pre ++ ws ++ wn))%nat).
  { destruct pre as [|f0 pre']; cbn [headf concat]; rewrite ?app_length; lia. }
  subst E w. rewrite app_length. lia.
Qed.

(* what a pass through the top of the loop does to the files *)
Lemma presync_cases c X :
  (needSync X = false /\ fs (presync c X) = fs X /\ trace (presync c X) = trace X) \/
  (exists stale,
     let txt := print_meta (depth X) (readFileNum X) (readPos X) (writeFileNum X) (writePos X) ++ stale in
     let f1 := {| f_segs := f_segs (fs X); f_bad := f_bad (fs X); f_meta := f_meta (fs X); f_tmp := Some txt |} in
     let f2 := {| f_segs := f_segs (fs X); f_bad := f_bad (fs X); f_meta := Some txt; f_tmp := None |} in
     fs (presync c X) = f2 /\
     (trace (presync c X) = (L_meta_rename, f2) :: (L_tmp_write, f1) :: (L_seg_fsync, fs X) :: trace X \/
      trace (presync c X) = (L_meta_rename, f2) :: (L_tmp_write, f1) :: trace X)).
Proof.
  unfold presync. cbv zeta.
  match goal with |- context [if needSync ?x then _ else _] => destruct (needSync x) eqn:E end.
  - right. unfold do_sync, persist_meta, set_needsync, mutate.
    cbn [readPos writePos readFileNum writeFileNum depth nextReadPos nextReadFileNum needSync count rfile wopen pending ready fs trace].
    destruct (wopen X) eqn:Ew;
      cbn [readPos writePos readFileNum writeFileNum depth nextReadPos nextReadFileNum needSync count rfile wopen pending ready fs trace];
      rewrite write_at_zero; eexists; cbv zeta; split; try reflexivity; [left | right]; reflexivity.
  - left. cbn [needSync] in E. apply orb_false_iff in E as [E _]. cbn. auto.
Qed.

(* one pass through the top of the loop: the layout stays, the snapshot is either the old one or the present state,
   and every new entry of the crash trace is an image *)
Lemma presync_step c X E k pre w off W :
  sbody c (readFileNum X) (readPos X) (writeFileNum X) (writePos X) (depth X) (f_segs (fs X)) pre w off ->
  W = writeFileNum X ->
  (lay c X E k pre w off \/ (needSync X = true /\ exists D0, E = D0 ++ concat pre ++ w /\ k = (length D0 + off)%nat)) ->
  img c E k W (fs X) ->
  (forall l f, In (l, f) (trace X) -> img c E k W f) ->
  lay c (presync c X) E k pre w off /\
  (forall l f, In (l, f) (trace (presync c X)) -> img c E k W f).
Proof.
  intros B HW Hlay Himg Htr.
  pose proof (presync_fields c X) as P. cbv zeta in P.
  destruct P as [P1 [P2 [P3 [P4 [P5 [P6 [P7 [P8 [P9 [P10 P11]]]]]]]]]].
  destruct (presync_cases c X) as [[Hns [Ef Et]]|[stale H]].
  - destruct Hlay as [Hlay|[Hns' _]]; [|congruence].
    split; [|rewrite Et; exact Htr].
    destruct Hlay as [D0 [ws [wn [offs [dep H]]]]]. exists D0, ws, wn, offs, dep. rewrite Ef, P3, P4. exact H.
  - cbv zeta in H. destruct H as [Ef Et].
    set (txt := print_meta (depth X) (readFileNum X) (readPos X) (writeFileNum X) (writePos X) ++ stale) in *.
    set (f1 := {| f_segs := f_segs (fs X); f_bad := f_bad (fs X); f_meta := f_meta (fs X); f_tmp := Some txt |}) in *.
    set (f2 := {| f_segs := f_segs (fs X); f_bad := f_bad (fs X); f_meta := Some txt; f_tmp := None |}) in *.
    assert (HD : exists D0, E = D0 ++ concat pre ++ w /\ k = (length D0 + off)%nat).
    { destruct Hlay as [[D0 [ws [wn [offs [dep [H1 [H2 _]]]]]]]|[_ H]]; [exists D0; auto | exact H]. }
    destruct HD as [D0 [HE Hk]].
    assert (L2 : lay c (presync c X) E k pre w off).
    { exists D0, w, [], off, (depth X). rewrite app_nil_r. split; [exact HE|]. split; [exact Hk|]. split; [reflexivity|]. split; [lia|].
      split; [intros ->; exact (proj1 (sb_off _ _ _ _ _ _ _ _ _ _ B))|].
      left. exists stale. rewrite Ef, P3, P4. unfold f2. cbn [f_meta]. unfold txt.
      rewrite <- (sb_rpos _ _ _ _ _ _ _ _ _ _ B), <- (sb_wpos _ _ _ _ _ _ _ _ _ _ B). reflexivity. }
    split; [exact L2|].
    assert (B2 : sbody c (readFileNum (presync c X)) (readPos (presync c X)) (writeFileNum (presync c X)) (writePos (presync c X))
                       (depth (presync c X)) (f_segs (fs (presync c X))) pre w off) by (rewrite P1, P2, P3, P4, P5, P11; exact B).
    pose proof (lay_img c (presync c X) E k pre w off B2 L2) as I2. rewrite P4, <- HW, Ef in I2.
    assert (I1 : img c E k W f1) by (apply (img_ext c E k W (fs X) f1); [reflexivity | reflexivity | exact Himg]).
    intros l f Hin. destruct Et as [Et|Et]; rewrite Et in Hin.
    + destruct Hin as [Hin|[Hin|[Hin|Hin]]]; try (inversion Hin; subst l f); [exact I2 | exact I1 | exact Himg | exact (Htr l f Hin)].
    + destruct Hin as [Hin|[Hin|Hin]]; try (inversion Hin; subst l f); [exact I2 | exact I1 | exact (Htr l f Hin)].
Qed.

(* ---- the run invariant ---- *)
Definition cinv (c : cfg) (d : dq) (E : list bytes) (k : nat) : Prop :=
  exists pre w off,
    sinv c d pre w off /\ lay c d E k pre w off /\ sorted_from 0 (f_segs (fs d)) /\
    (forall m, In m E -> small m) /\
    (forall l f, In (l, f) (trace d) -> img c E k (writeFileNum d) f).

Lemma lay_transfer c d' X E k pre w off : same_files d' X -> lay c X E k pre w off -> lay c d' E k pre w off.
Proof.
  intros [S1 [S2 [S3 [S4 _]]]] [D0 [ws [wn [offs [dep H]]]]]. exists D0, ws, wn, offs, dep. rewrite S1, S3, S4. exact H.
Qed.

Lemma sbody_of_same c d' X pre w off :
  same_files d' X ->
  sbody c (readFileNum d') (readPos d') (writeFileNum d') (writePos d') (depth d') (f_segs (fs d')) pre w off ->
  sbody c (readFileNum X) (readPos X) (writeFileNum X) (writePos X) (depth X) (f_segs (fs X)) pre w off.
Proof. intros [S1 [S2 [S3 [S4 [S5 [S6 S7]]]]]]. rewrite S1, S3, S4, S5, S6, S7. auto. Qed.

Lemma sbody_unpresync c X pre w off :
  sbody c (readFileNum (presync c X)) (readPos (presync c X)) (writeFileNum (presync c X)) (writePos (presync c X))
          (depth (presync c X)) (f_segs (fs (presync c X))) pre w off ->
  sbody c (readFileNum X) (readPos X) (writeFileNum X) (writePos X) (depth X) (f_segs (fs X)) pre w off.
Proof.
  pose proof (presync_fields c X) as P. cbv zeta in P.
  destruct P as [P1 [P2 [P3 [P4 [P5 [P6 [P7 [P8 [P9 [P10 P11]]]]]]]]]]. rewrite P1, P2, P3, P4, P5, P11. auto.
Qed.

Lemma lay_decomp c X E k pre w off : lay c X E k pre w off -> exists D0, E = D0 ++ concat pre ++ w /\ k = (length D0 + off)%nat.
Proof. intros [D0 [ws [wn [offs [dep [H1 [H2 _]]]]]]]. exists D0. auto. Qed.

(* ---- Put ---- *)
Lemma do_sync_files X :
  wopen X = true ->
  exists stale,
    let txt := print_meta (depth X) (readFileNum X) (readPos X) (writeFileNum X) (writePos X) ++ stale in
    fs (do_sync X) = {| f_segs := f_segs (fs X); f_bad := f_bad (fs X); f_meta := Some txt; f_tmp := None |} /\
    trace (do_sync X) = (L_meta_rename, fs (do_sync X)) ::
                        (L_tmp_write, {| f_segs := f_segs (fs X); f_bad := f_bad (fs X); f_meta := f_meta (fs X); f_tmp := Some txt |}) ::
                        (L_seg_fsync, fs X) :: trace X.
Proof.
  intros Hw. unfold do_sync, persist_meta, set_needsync, mutate. rewrite Hw.
  cbn [readPos writePos readFileNum writeFileNum depth nextReadPos nextReadFileNum needSync count rfile wopen pending ready fs trace].
  rewrite write_at_zero. eexists. cbv zeta. split; reflexivity.
Qed.

Lemma write_one_files c d m C :
  (seg_get (f_segs (fs d)) (writeFileNum d) = Some C \/ (C = [] /\ seg_get (f_segs (fs d)) (writeFileNum d) = None)) ->
  N.to_nat (writePos d) = length C ->
  let d1 := write_one c d m in
  let fw := with_segs (fs d) (seg_set (f_segs (fs d)) (writeFileNum d) (C ++ frame m)) in
  if c_max c <? writePos d + 4 + N.of_nat (length m) then
    exists stale,
      let txt := print_meta (depth d + 1) (readFileNum d) (readPos d) (writeFileNum d + 1) 0 ++ stale in
      fs d1 = {| f_segs := f_segs fw; f_bad := f_bad fw; f_meta := Some txt; f_tmp := None |} /\
      trace d1 = (L_meta_rename, fs d1) ::
                 (L_tmp_write, {| f_segs := f_segs fw; f_bad := f_bad fw; f_meta := f_meta fw; f_tmp := Some txt |}) ::
                 (L_seg_fsync, fw) :: (L_seg_write, fw) :: trace d
  else fs d1 = fw /\ trace d1 = (L_seg_write, fw) :: trace d.
Proof.
  intros HC Hw. cbv zeta. unfold write_one. cbv zeta.
  assert (Hold : match seg_get (f_segs (fs d)) (writeFileNum d) with Some x => x | None => [] end = C).
  { destruct HC as [->|[-> ->]]; reflexivity. }
  rewrite Hold, Hw, write_at_end.
  destruct (c_max c <? writePos d + 4 + N.of_nat (length m)) eqn:Er.
  - match goal with |- context [do_sync ?x] => set (d2 := x) end.
    destruct (do_sync_files d2 eq_refl) as [stale [Hf Ht]]. cbv zeta in Hf, Ht.
    exists stale. cbv zeta. cbn [fs trace]. split; [exact Hf | exact Ht].
  - cbn [fs trace]. split; reflexivity.
Qed.

Lemma cinv_finish c d' X E k pre w off :
  same_files d' (presync c X) -> sinv c d' pre w off ->
  lay c (presync c X) E k pre w off -> sorted_from 0 (f_segs (fs X)) -> (forall m, In m E -> small m) ->
  (forall l f, In (l, f) (trace (presync c X)) -> img c E k (writeFileNum X) f) ->
  cinv c d' E k.
Proof.
  intros SF I L Hs Hsm Ht.
  pose proof (presync_fields c X) as P. cbv zeta in P.
  destruct P as [P1 [P2 [P3 [P4 [P5 [P6 [P7 [P8 [P9 [P10 P11]]]]]]]]]].
  pose proof SF as [S1 [S2 [S3 [S4 _]]]].
  exists pre, w, off. split; [exact I|]. split; [apply (lay_transfer c d' (presync c X)); assumption|].
  split; [rewrite S1, P11; exact Hs|]. split; [exact Hsm|].
  rewrite S2, S4, P4. exact Ht.
Qed.

Lemma cinv_put c d E k m :
  cinv c d E k -> small m ->
  exists d', loop_top c LOOP_FUEL (write_one c d m) = Some d' /\ cinv c d' (E ++ [m]) k.
Proof.
  intros [pre [w [off [I [L [Hsort [Hsm Htr]]]]]]] Hm.
  pose proof I as [B Hhead].
  destruct (put_stepS c d pre w off m I Hm) as [d' [pre' [w' [E1 [I' [U [Hshape SF]]]]]]].
  exists d'. split; [exact E1|].
  set (d1 := write_one c d m) in *.
  pose proof I' as [B' _].
  assert (B1 : sbody c (readFileNum d1) (readPos d1) (writeFileNum d1) (writePos d1) (depth d1) (f_segs (fs d1)) pre' w' off)
    by (apply sbody_unpresync; apply (sbody_of_same c d' _ pre' w' off SF B')).
  pose proof (sb_wpos _ _ _ _ _ _ _ _ _ _ B) as Hw.
  assert (HC : seg_get (f_segs (fs d)) (writeFileNum d) = Some (frames w) \/
               (frames w = [] /\ seg_get (f_segs (fs d)) (writeFileNum d) = None)).
  { destruct (sb_wseg _ _ _ _ _ _ _ _ _ _ B) as [H|[-> H]]; [left; exact H | right; split; [reflexivity | exact H]]. }
  assert (Hwl : N.to_nat (writePos d) = length (frames w)) by (unfold fsize in Hw; lia).
  pose proof (write_one_files c d m (frames w) HC Hwl) as WF. cbv zeta in WF. fold d1 in WF.
  pose proof (write_one_spec c d m (frames w) HC Hwl) as F. cbv zeta in F. fold d1 in F.
  destruct F as [F1 [F2 [F3 [F4 [F5 [F6 [F7 [F8 [F9 F10]]]]]]]]].
  set (fw := with_segs (fs d) (seg_set (f_segs (fs d)) (writeFileNum d) (frames w ++ frame m))) in *.
  destruct (lay_decomp c d E k pre w off L) as [D0 [HE Hk]].
  assert (Hold : match seg_get (f_segs (fs d)) (writeFileNum d) with Some x => x | None => [] end = frames w).
  { destruct HC as [->|[-> ->]]; reflexivity. }
  assert (Ifw : img c (E ++ [m]) k (writeFileNum d) fw).
  { apply (img_append c (E ++ [m]) k (writeFileNum d) (fs d) fw (writeFileNum d) (frame m)).
    - apply (img_grow c E k (writeFileNum d) (fs d) [m] k (writeFileNum d)); [apply (lay_img c d E k pre w off B L) | lia | lia].
    - lia.
    - reflexivity.
    - intros n. unfold fw, with_segs. cbn [f_segs].
      assert (Hold' : match seg_get (f_segs (fs d)) (writeFileNum d) with Some x => x | None => [] end ++ frame m = frames w ++ frame m)
        by (destruct HC as [->|[-> ->]]; reflexivity).
      rewrite Hold'. destruct (n =? writeFileNum d) eqn:En.
      + apply N.eqb_eq in En. subst n. apply seg_get_set.
      + apply seg_get_set_other. lia. }
  assert (Hsm' : forall x, In x (E ++ [m]) -> small x).
  { intros x Hx. apply in_app_or in Hx as [Hx|[<-|[]]]; [apply Hsm; exact Hx | exact Hm]. }
  assert (Hsort1 : sorted_from 0 (f_segs (fs d1))).
  { assert (Es : f_segs (fs d1) = f_segs fw).
    { destruct (c_max c <? writePos d + 4 + N.of_nat (length m)); [destruct WF as [stale [-> _]] | destruct WF as [-> _]]; reflexivity. }
    rewrite Es. unfold fw, with_segs. cbn [f_segs]. rewrite <- (N.min_0_l (writeFileNum d)). apply sorted_set. exact Hsort. }
  destruct (c_max c <? writePos d + 4 + N.of_nat (length m)) eqn:Eroll.
  - (* roll-over: the sync is part of writeOne *)
    destruct F10 as [G1 G2]. destruct WF as [stale [Wfs Wtr]]. cbv zeta in Wfs, Wtr.
    assert (Hsh : pre' = pre ++ [w ++ [m]] /\ w' = []).
    { destruct Hshape as [[-> ->]|H]; [|exact H]. exfalso.
      pose proof (sb_nums _ _ _ _ _ _ _ _ _ _ B1). pose proof (sb_nums _ _ _ _ _ _ _ _ _ _ B). lia. }
    destruct Hsh as [-> ->].
    assert (L1 : lay c d1 (E ++ [m]) k (pre ++ [w ++ [m]]) [] off).
    { exists D0, [], [], off, (depth d + 1)%Z.
      split; [rewrite HE, concat_app; cbn [concat]; rewrite !app_nil_r, <- !app_assoc; reflexivity|].
      split; [exact Hk|]. split; [reflexivity|]. split; [lia|].
      split; [intros H; apply app_eq_nil in H as [_ H]; discriminate|].
      left. exists stale. rewrite Wfs. cbn [f_meta]. rewrite F2, G1.
      rewrite <- F1. rewrite (sb_rpos _ _ _ _ _ _ _ _ _ _ B1). reflexivity. }
    assert (Ifw' : img c (E ++ [m]) k (writeFileNum d1) fw) by (apply (img_grow c (E ++ [m]) k (writeFileNum d) fw [] k (writeFileNum d1)) in Ifw; [rewrite app_nil_r in Ifw; exact Ifw | lia | lia]).
    assert (I1 : img c (E ++ [m]) k (writeFileNum d1) (fs d1)) by (apply (lay_img c d1 _ k _ _ off B1 L1)).
    assert (T1 : forall l f, In (l, f) (trace d1) -> img c (E ++ [m]) k (writeFileNum d1) f).
    { intros l f Hin. rewrite Wtr in Hin. destruct Hin as [Hin|[Hin|[Hin|[Hin|Hin]]]]; try (inversion Hin; subst l f).
      - first [exact I1 | rewrite <- Wfs; exact I1].
      - apply (img_ext c _ k _ fw); [reflexivity | reflexivity | exact Ifw'].
      - exact Ifw'.
      - exact Ifw'.
      - apply (img_grow c E k (writeFileNum d) f [m] k (writeFileNum d1)); [exact (Htr l f Hin) | lia | lia]. }
    destruct (presync_step c d1 (E ++ [m]) k (pre ++ [w ++ [m]]) [] off (writeFileNum d1) B1 eq_refl (or_introl L1) I1 T1) as [L2 T2].
    apply (cinv_finish c d' d1 (E ++ [m]) k (pre ++ [w ++ [m]]) [] off SF I' L2 Hsort1 Hsm' T2).
  - destruct F10 as [G1 G2]. destruct WF as [Wfs Wtr].
    assert (Hsh : pre' = pre /\ w' = w ++ [m]).
    { destruct Hshape as [H|[-> ->]]; [exact H|]. exfalso.
      pose proof (sb_nums _ _ _ _ _ _ _ _ _ _ B1) as N1. pose proof (sb_nums _ _ _ _ _ _ _ _ _ _ B). rewrite app_length in N1. cbn [length] in N1. lia. }
    destruct Hsh as [-> ->].
    assert (L1 : lay c d1 (E ++ [m]) k pre (w ++ [m]) off).
    { destruct L as [D0' [ws [wn [offs [dep [H1 [H2 [H3 [H4 [H5 H6]]]]]]]]]].
      exists D0', ws, (wn ++ [m]), offs, dep.
      split; [rewrite H1, <- !app_assoc; reflexivity|]. split; [exact H2|].
      split; [rewrite H3, <- app_assoc; reflexivity|]. split; [exact H4|]. split; [exact H5|].
      unfold metaok in *. rewrite Wfs, F2, G1. exact H6. }
    assert (I1 : img c (E ++ [m]) k (writeFileNum d1) (fs d1)) by (rewrite Wfs, G1; exact Ifw).
    assert (T1 : forall l f, In (l, f) (trace d1) -> img c (E ++ [m]) k (writeFileNum d1) f).
    { intros l f Hin. rewrite Wtr in Hin. rewrite G1. destruct Hin as [Hin|Hin]; try (inversion Hin; subst l f).
      - exact Ifw.
      - apply (img_grow c E k (writeFileNum d) f [m] k (writeFileNum d)); [exact (Htr l f Hin) | lia | lia]. }
    destruct (presync_step c d1 (E ++ [m]) k pre (w ++ [m]) off (writeFileNum d1) B1 eq_refl (or_introl L1) I1 T1) as [L2 T2].
    apply (cinv_finish c d' d1 (E ++ [m]) k pre (w ++ [m]) off SF I' L2 Hsort1 Hsm' T2).
Qed.

Lemma img_k c E k W f k' : img c E k W f -> (k <= k')%nat -> img c E k' W f.
Proof. intros H Hk. apply (img_grow c E k W f [] k' W) in H; [rewrite app_nil_r in H; exact H | exact Hk | lia]. Qed.

(* ---- a sync tick ---- *)
Lemma cinv_tick c d E k :
  cinv c d E k -> exists d', loop_top c LOOP_FUEL (set_needsync d true) = Some d' /\ cinv c d' E k.
Proof.
  intros [pre [w [off [I [L [Hsort [Hsm Htr]]]]]]].
  pose proof I as [B _].
  destruct (tick_stepS c d pre w off I) as [d' [E1 [I' SF]]].
  exists d'. split; [exact E1|].
  set (X := set_needsync d true) in *.
  assert (BX : sbody c (readFileNum X) (readPos X) (writeFileNum X) (writePos X) (depth X) (f_segs (fs X)) pre w off) by exact B.
  assert (LX : lay c X E k pre w off) by exact L.
  destruct (presync_step c X E k pre w off (writeFileNum X) BX eq_refl (or_introl LX) (lay_img c X E k pre w off BX LX) Htr) as [L2 T2].
  apply (cinv_finish c d' X E k pre w off SF I' L2 Hsort Hsm T2).
Qed.

(* ---- Get ---- *)
Lemma cinv_get c d E k pre w off m r :
  sinv c d pre w off -> lay c d E k pre w off -> sorted_from 0 (f_segs (fs d)) -> (forall x, In x E -> small x) ->
  (forall l f, In (l, f) (trace d) -> img c E k (writeFileNum d) f) ->
  undel pre w off = m :: r ->
  exists d', loop_top c LOOP_FUEL (move_forward d) = Some d' /\ cinv c d' E (S k).
Proof.
  intros I L Hsort Hsm Htr EU.
  pose proof I as [B _].
  destruct (get_stepS c d pre w off m r I EU) as [d' [pre' [off' [E1 [I' [U [Hshape SF]]]]]]].
  exists d'. split; [exact E1|].
  set (X := move_forward d) in *.
  pose proof I' as [B' _].
  assert (B1 : sbody c (readFileNum X) (readPos X) (writeFileNum X) (writePos X) (depth X) (f_segs (fs X)) pre' w off')
    by (apply sbody_unpresync; apply (sbody_of_same c d' _ pre' w off' SF B')).
  destruct L as [D0 [ws [wn [offs [dep [HE [Hk [Hw [Ho [Hoe M]]]]]]]]]].
  destruct Hshape as [[-> [-> [Xfs [Xtr [Xrf Xwf]]]]]|[[f0 [Hpre Hlast]] [-> [Xfs [Xtr [Xns [Xrf Xwf]]]]]]].
  - (* the next record of the same file *)
    assert (LX : lay c X E (S k) pre w (S off)).
    { exists D0, ws, wn, offs, dep. split; [exact HE|]. split; [lia|]. split; [exact Hw|]. split; [lia|]. split; [exact Hoe|].
      unfold metaok in *. rewrite Xfs, Xrf, Xwf. exact M. }
    assert (T1 : forall l f, In (l, f) (trace X) -> img c E (S k) (writeFileNum X) f).
    { intros l f Hin. rewrite Xtr in Hin. rewrite Xwf. apply (img_k c E k _ f (S k)); [exact (Htr l f Hin) | lia]. }
    destruct (presync_step c X E (S k) pre w (S off) (writeFileNum X) B1 eq_refl (or_introl LX) (lay_img c X E (S k) pre w (S off) B1 LX) T1) as [L2 T2].
    apply (cinv_finish c d' X E (S k) pre w (S off) SF I' L2); [rewrite Xfs; exact Hsort | exact Hsm | exact T2].
  - (* the file is finished: it is removed, the metadata still names it until the sync that follows *)
    subst pre.
    destruct B as [Hn Hcl Hop Hsg Hws Hab [Ho1 Ho2] Hr Hwp Hd Hsmall].
    cbn [headf length] in *.
    assert (Hseg' : forall n, n <> readFileNum d -> seg_get (f_segs (fs X)) n = seg_get (f_segs (fs d)) n).
    { intros n Hn'. rewrite Xfs. unfold with_segs. cbn [f_segs]. apply seg_get_del_other. exact Hn'. }
    assert (Hgone : seg_get (f_segs (fs X)) (readFileNum d) = None).
    { rewrite Xfs. unfold with_segs. cbn [f_segs]. apply (seg_get_del_same 0). exact Hsort. }
    assert (Hf1 : (0 <= length (headf pre' ws))%nat) by lia.
    pose proof (skipn_layout pre' ws wn 0 Hf1) as Hsk. cbn [skipn] in Hsk.
    assert (IX : img c E (S k) (writeFileNum X) (fs X)).
    { exists (readFileNum d + 1), pre', ws, 0%nat, (frames wn), dep, (readFileNum d), (N.of_nat (fpos f0 offs)),
             (length D0 + length f0)%nat, (length D0 + length f0 + length (undel pre' ws 0))%nat.
      split.
      { unfold metaok in *. rewrite Xfs. unfold with_segs. cbn [f_meta].
        replace (readFileNum d + 1 + N.of_nat (length pre')) with (writeFileNum d) by lia. exact M. }
      split; [right; split; [reflexivity|]; split; [exact Hgone | reflexivity]|].
      split.
      { constructor.
        - reflexivity.
        - intros f Hf. apply Hcl. right. exact Hf.
        - subst w. rewrite fsize_app_list in Hop. lia.
        - intros i f Hf. rewrite Hseg' by lia.
          replace (readFileNum d + 1 + N.of_nat i) with (readFileNum d + N.of_nat (S i)) by lia. apply Hsg. exact Hf.
        - replace (readFileNum d + 1 + N.of_nat (length pre')) with (writeFileNum d) by lia. rewrite Hseg' by lia.
          destruct Hws as [Hws|[Hw0 Hws]].
          + left. rewrite Hws. subst w. rewrite frames_app_list. reflexivity.
          + right. rewrite Hw in Hw0. apply app_eq_nil in Hw0 as [Hws0 _]. split; [exact Hws0 | exact Hws].
        - split; [lia|]. intros Hne. destruct pre' as [|f1 pre'']; [contradiction|]. cbn [headf].
          pose proof (closed_nonempty c f1 (Hcl f1 (or_intror (or_introl eq_refl)))) as Hf1'. destruct f1; [contradiction | cbn [length]; lia].
        - reflexivity.
        - reflexivity.
        - intros x Hx. apply Hsmall. subst w. cbn [concat]. rewrite <- !app_assoc. apply in_or_app. right. rewrite app_assoc. apply in_or_app. left. exact Hx. }
      split.
      { subst E w. cbn [concat]. rewrite <- !app_assoc.
        rewrite <- skipn_skipn'. rewrite skipn_app, Nat.sub_diag, skipn_all. cbn [app skipn].
        rewrite skipn_app, Nat.sub_diag, skipn_all. cbn [app skipn].
        rewrite Hsk. replace (length D0 + length f0 + length (undel pre' ws 0) - (length D0 + length f0))%nat with (length (undel pre' ws 0)) by lia.
        rewrite firstn_app, Nat.sub_diag, firstn_all. cbn [firstn]. rewrite app_nil_r. reflexivity. }
      split; [lia|]. split; [lia|]. split; [|rewrite Xwf; lia].
      assert (Hl : length (concat pre' ++ ws ++ wn) = (length (undel pre' ws 0) + length wn)%nat) by (rewrite Hsk, app_length; reflexivity).
      subst E w. cbn [concat]. rewrite !app_length. rewrite !app_length in Hl. lia. }
    assert (T1 : forall l f, In (l, f) (trace X) -> img c E (S k) (writeFileNum X) f).
    { intros l f Hin. rewrite Xtr in Hin. destruct Hin as [Hin|Hin].
      - inversion Hin; subst l f. exact IX.
      - rewrite Xwf. apply (img_k c E k _ f (S k)); [exact (Htr l f Hin) | lia]. }
    assert (HD : exists D0', E = D0' ++ concat pre' ++ w /\ S k = (length D0' + 0)%nat).
    { exists (D0 ++ f0). split; [rewrite HE; cbn [concat]; rewrite <- !app_assoc; reflexivity | rewrite app_length; lia]. }
    destruct (presync_step c X E (S k) pre' w 0 (writeFileNum X) B1 eq_refl (or_intror (conj Xns HD)) IX T1) as [L2 T2].
    apply (cinv_finish c d' X E (S k) pre' w 0 SF I' L2); [|exact Hsm | exact T2].
    rewrite Xfs. unfold with_segs. cbn [f_segs]. apply sorted_del. exact Hsort.
Qed.

(* ---- a clean restart inside the history: Close persists the metadata (two more crash points), NewDiskQueue reads it back ---- *)
Lemma cinv_reopen c d E k :
  cinv c d E k -> exists d', dq_open c (fs (dq_close d)) (trace (dq_close d)) = Some d' /\ cinv c d' E k.
Proof.
  intros [pre [w [off [I [L [Hsort [Hsm Htr]]]]]]].
  pose proof I as [B _].
  pose proof (lay_img c d E k pre w off B L) as Id.
  destruct (lay_decomp c d E k pre w off L) as [D0 [HE Hk]].
  unfold dq_close, persist_meta, mutate.
  cbn [readPos writePos readFileNum writeFileNum depth fs trace f_tmp f_segs f_bad f_meta].
  rewrite write_at_zero.
  unfold dq_open. cbn [f_meta].
  rewrite meta_roundtrip.
  unfold LOOP_FUEL.
  match goal with |- context [loop_top c _ ?x] => set (r := x) end.
  assert (Br : sbody c (readFileNum r) (readPos r) (writeFileNum r) (writePos r) (depth r) (f_segs (fs r)) pre w off) by exact B.
  destruct (loop_fresh c r pre w off 63 Br eq_refl (fun _ => eq_refl) Logic.I) as [d' [E1 [I' SF]]].
  exists d'. split; [exact E1|].
  assert (Lr : lay c r E k pre w off).
  { exists D0, w, [], off, (depth d). rewrite app_nil_r. split; [exact HE|]. split; [exact Hk|]. split; [reflexivity|]. split; [lia|].
    split; [intros ->; exact (proj1 (sb_off _ _ _ _ _ _ _ _ _ _ B))|].
    left. eexists. unfold r. cbn [fs f_meta readFileNum writeFileNum].
    rewrite <- (sb_rpos _ _ _ _ _ _ _ _ _ _ B), <- (sb_wpos _ _ _ _ _ _ _ _ _ _ B). reflexivity. }
  pose proof (lay_img c r E k pre w off Br Lr) as Ir.
  assert (Tr : forall l f, In (l, f) (trace r) -> img c E k (writeFileNum r) f).
  { intros l f Hin. unfold r in Hin. cbn [trace] in Hin. destruct Hin as [Hin|[Hin|Hin]].
    - inversion Hin; subst l f. exact Ir.
    - inversion Hin; subst l f. apply (img_ext c E k _ (fs d)); [reflexivity | reflexivity | exact Id].
    - exact (Htr l f Hin). }
  destruct (presync_step c r E k pre w off (writeFileNum r) Br eq_refl (or_introl Lr) Ir Tr) as [L2 T2].
  apply (cinv_finish c d' r E k pre w off SF I' L2 Hsort Hsm T2).
Qed.

(* ---- runs of puts, gets and sync ticks ---- *)
Fixpoint nr_small (ops : list dop) : bool :=
  match ops with
  | [] => true
  | Put m :: r => (N.of_nat (length m) <? 2147483648) && nr_small r
  | CloseReopen :: _ => false
  | _ :: r => nr_small r
  end.

Lemma nr_small_smallops ops : nr_small ops = true -> smallops ops = true.
Proof.
  induction ops as [|o ops IH]; [reflexivity|]. destruct o; cbn [nr_small smallops]; try exact IH; try discriminate.
  intros H. apply andb_true_iff in H as [H1 H2]. rewrite H1, (IH H2). reflexivity.
Qed.

Theorem run_cinv c ops : forall d E k,
  cinv c d E k -> smallops ops = true ->
  exists d' k', snd (dq_run c (Some d) ops) = Some d' /\ cinv c d' (E ++ puts ops) k'.
Proof.
  induction ops as [|o ops IH]; intros d E k I F.
  - exists d, k. cbn. rewrite app_nil_r. auto.
  - destruct o as [m| | |]; cbn [smallops] in F.
    + apply andb_true_iff in F as [F1 F2].
      destruct (cinv_put c d E k m I ltac:(unfold small; lia)) as [d1 [E1 I1]].
      destruct (IH d1 (E ++ [m]) k I1 F2) as [d' [k' [R I']]].
      exists d', k'. cbn [dq_run dq_step puts]. rewrite E1.
      destruct (dq_run c (Some d1) ops) as [outs dl]. cbn [snd] in *. split; [exact R|].
      rewrite <- app_assoc in I'. exact I'.
    + cbn [dq_run dq_step puts].
      pose proof I as [pre [w [off [Is [L [Hsort [Hsm Htr]]]]]]].
      destruct (undel pre w off) as [|m q] eqn:EU.
      * assert (Hr' : ready d = false) by (destruct Is as [_ Hh]; unfold head_ok in Hh; rewrite EU in Hh; tauto).
        rewrite Hr'. destruct (IH d E k I F) as [d' [k' [R I']]]. exists d', k'.
        destruct (dq_run c (Some d) ops) as [outs dl]. cbn [snd] in *. auto.
      * assert (Hr' : ready d = true) by (destruct Is as [_ Hh]; unfold head_ok in Hh; rewrite EU in Hh; tauto).
        rewrite Hr'.
        destruct (cinv_get c d E k pre w off m q Is L Hsort Hsm Htr EU) as [d1 [E1 I1]]. rewrite E1.
        destruct (IH d1 E (S k) I1 F) as [d' [k' [R I']]]. exists d', k'.
        destruct (dq_run c (Some d1) ops) as [outs dl]. cbn [snd] in *. auto.
    + cbn [dq_run dq_step puts].
      destruct (cinv_tick c d E k I) as [d1 [E1 I1]]. rewrite E1.
      destruct (IH d1 E k I1 F) as [d' [k' [R I']]]. exists d', k'.
      destruct (dq_run c (Some d1) ops) as [outs dl]. cbn [snd] in *. auto.
    + cbn [dq_run dq_step puts]. cbv zeta.
      destruct (cinv_reopen c d E k I) as [d1 [E1 I1]]. rewrite E1.
      destruct (IH d1 E k I1 F) as [d' [k' [R I']]]. exists d', k'.
      destruct (dq_run c (Some d1) ops) as [outs dl]. cbn [snd] in *. auto.
Qed.

(* ---- from a fresh directory ---- *)
Lemma open_cinv c : exists d, dq_open c fs_empty [] = Some d /\ cinv c d [] 0.
Proof.
  destruct (open_emptyS c) as [d [E [I SF]]]. exists d. split; [exact E|].
  pose proof I as [B' _].
  assert (B0 : sbody c (readFileNum fresh_state) (readPos fresh_state) (writeFileNum fresh_state) (writePos fresh_state)
                       (depth fresh_state) (f_segs (fs fresh_state)) [] [] 0)
    by (apply sbody_unpresync; apply (sbody_of_same c d _ [] [] 0%nat SF B')).
  assert (L0 : lay c fresh_state [] 0 [] [] 0).
  { exists [], [], [], 0%nat, 0%Z. repeat split; try reflexivity; try lia. right. repeat split; reflexivity. }
  destruct (presync_step c fresh_state [] 0 [] [] 0 (writeFileNum fresh_state) B0 eq_refl (or_introl L0)
              (lay_img c fresh_state [] 0 [] [] 0 B0 L0)) as [L2 T2].
  - intros l f [].
  - apply (cinv_finish c d fresh_state [] 0 [] [] 0 SF I L2); [exact Logic.I | intros m [] | exact T2].
Qed.

Lemma cinv_k_le c d E k : cinv c d E k -> (k <= length E)%nat.
Proof.
  intros [pre [w [off [[B _] [[D0 [ws [wn [offs [dep [HE [Hk _]]]]]]] _]]]]].
  pose proof (sb_off _ _ _ _ _ _ _ _ _ _ B) as [Ho _].
  assert (Hhl : (length (headf pre w) <= length (concat pre ++ w))%nat).
  { destruct pre as [|f0 pre']; cbn [headf concat]; rewrite ?app_length; lia. }
  subst E. rewrite app_length. lia.
Qed.

(* The theorem.  For every history of puts, gets, sync ticks and clean restarts — any maxBytesPerFile, any syncEvery, messages below 2^31
   bytes — every file system state the queue passed through (after each segment write, fsync, metadata temp write, metadata
   rename, also those of Close, and segment removal) is recovered by NewDiskQueue without panic into a queue whose complete drain is a contiguous
   run E[sr .. sw) of the enqueued messages, intact and in order, where sr does not exceed the number of messages handed
   to the consumer. *)
Theorem crash_recovery_all c ops limit :
  smallops ops = true -> (length (puts ops) <= limit)%nat ->
  exists dfin kfin,
    snd (dq_run c (dq_open c fs_empty []) ops) = Some dfin /\ (kfin <= length (puts ops))%nat /\
    forall l f, In (l, f) (trace dfin) ->
      exists sr sw d,
        (sr <= sw)%nat /\ (sw <= length (puts ops))%nat /\ (sr <= kfin)%nat /\
        dq_open c f [] = Some d /\
        dq_drain c limit d = firstn (sw - sr) (skipn sr (puts ops)).
Proof.
  intros F Hl. destruct (open_cinv c) as [d0 [E0 I0]]. rewrite E0.
  destruct (run_cinv c ops d0 [] 0 I0 F) as [dfin [kfin [R I]]].
  cbn [app] in I. exists dfin, kfin. split; [exact R|]. split; [exact (cinv_k_le c dfin _ kfin I)|].
  intros l f Hin.
  destruct I as [pre [w [off [_ [_ [_ [_ Htr]]]]]]].
  destruct (img_recover c _ kfin _ f (Htr l f Hin)) as [d [sr [sw [Eo [H1 [H2 [H3 Hd]]]]]]].
  exists sr, sw, d. repeat split; try assumption. apply Hd. lia.
Qed.

Theorem crash_recovery_segments c ops limit :
  nr_small ops = true -> (length (puts ops) <= limit)%nat ->
  exists dfin kfin,
    snd (dq_run c (dq_open c fs_empty []) ops) = Some dfin /\ (kfin <= length (puts ops))%nat /\
    forall l f, In (l, f) (trace dfin) ->
      exists sr sw d,
        (sr <= sw)%nat /\ (sw <= length (puts ops))%nat /\ (sr <= kfin)%nat /\
        dq_open c f [] = Some d /\
        dq_drain c limit d = firstn (sw - sr) (skipn sr (puts ops)).
Proof. intros F. apply crash_recovery_all. apply nr_small_smallops. exact F. Qed.
