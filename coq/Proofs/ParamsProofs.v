From CRNG Require Import Base.Bytes Model.Params.
From Coq Require Import ZifyBool.
Ltac Zify.zify_post_hook ::= Z.div_mod_to_equations.
Local Open Scope Z_scope.

Lemma wrap64_small z : - 9223372036854775808 <= z <= 9223372036854775807 -> wrap64 z = z.
Proof. intros H. unfold wrap64. lia. Qed.

Lemma dest_accepts_runs o : dest_accepts o = true -> dest_runs_ok o = true.
Proof.
  unfold dest_accepts, dest_runs_ok, new_ticker_ok, new_writer_ok, make_chan_ok, max_alloc, maxint32.
  intros H. repeat (apply andb_true_iff in H as [H ?]).
  repeat (apply andb_true_iff; split); try lia.
  destruct (o_spool o); cbn [negb orb] in *; [|reflexivity].
  repeat match goal with Hx : _ && _ = true |- _ => apply andb_true_iff in Hx as [Hx ?] end.
  repeat (apply andb_true_iff; split); lia.
Qed.

(* whatever the constructors accept, the operations that later run with those values do not panic *)
Theorem accepted_runs p : accepts p = true -> runs_ok p = true.
Proof.
  destruct p as [r i w|t ds|o]; cbn [accepts runs_ok].
  - intros H. repeat (apply andb_true_iff in H as [H ?]).
    unfold aligned_tick_ok, dur, second. rewrite wrap64_small by (unfold atoi_ok in *; lia).
    apply negb_true_iff. apply Z.eqb_neq. lia.
  - intros H. apply andb_true_iff in H as [Hd Ht]. apply andb_true_iff. split.
    + rewrite forallb_forall in *. intros o Ho. apply dest_accepts_runs. auto.
    + destruct t; try reflexivity. destruct ds; [cbn in Ht; discriminate | reflexivity].
  - intros H. repeat (apply andb_true_iff in H as [H ?]).
    unfold make_chan_ok, max_alloc, maxint32 in *.
    assert (0 <= g_bufsize o / g_concurrency o <= g_bufsize o) by (split; [apply Z.div_pos; lia | apply Z.div_le_upper_bound; nia]).
    repeat (apply andb_true_iff; split); lia.
Qed.

(* the values that used to be accepted, and what they do *)
Example zero_interval_panics : runs_ok (PAgg true 0 0) = false.
Proof. reflexivity. Qed.
Example wrapping_interval_panics : runs_ok (PAgg true 36028797018963968 0) = false.   (* 2^55 s = 0 ns mod 2^64 *)
Proof. vm_compute. reflexivity. Qed.
Example zero_flush_panics :
  dest_runs_ok {| o_flush := 0; o_reconn := 10000; o_connbuf := 30000; o_iobuf := 2000000; o_spool := false; o_spoolbuf := 10000;
                  o_maxbytes := 209715200; o_syncevery := 10000; o_syncperiod := 1000; o_spoolsleep := 500; o_unspoolsleep := 10 |} = false.
Proof. reflexivity. Qed.
Example gn_zero_concurrency_panics :
  runs_ok (PGn {| g_concurrency := 0; g_bufsize := 10000000; g_flushmaxnum := 5000; g_flushmaxwait := 500; g_timeout := 10000;
                  g_orgid := 1; g_backoffmin := 100 |}) = false.
Proof. reflexivity. Qed.
Example defaults_accepted :
  accepts (PRoute RAll [{| o_flush := 1000; o_reconn := 10000; o_connbuf := 30000; o_iobuf := 2000000; o_spool := true; o_spoolbuf := 10000;
                           o_maxbytes := 209715200; o_syncevery := 10000; o_syncperiod := 1000; o_spoolsleep := 500; o_unspoolsleep := 10 |}]) = true
  /\ accepts (PAgg true 10 20) = true.
Proof. vm_compute. auto. Qed.
