(* C02: the executable validator is the documented grammar. *)
From CRNG Require Import Base.ListX Base.Bytes Model.Fields Model.Validate.

Definition key_char (c : N) : bool := negb ((c =? 59) || (c =? 33) || (c =? 61)).   (* not ; ! = *)
Definition val_char (c : N) : bool := negb ((c =? 59) || (c =? 61)).                (* not ; = *)

(* (;key=value)+  with non-empty key over [^;!=] and non-empty value over [^;=] *)
Inductive appendix_ok : bytes -> Prop :=
| ap_last k v : k <> [] -> v <> [] -> forallb key_char k = true -> forallb val_char v = true ->
                appendix_ok (59 :: k ++ 61 :: v)
| ap_more k v rest : k <> [] -> v <> [] -> forallb key_char k = true -> forallb val_char v = true ->
                     appendix_ok rest -> appendix_ok (59 :: k ++ 61 :: v ++ rest).

Lemma appendix_ok_head s : appendix_ok s -> exists r, s = 59 :: r.
Proof. intros [k v|k v rest]; eauto. Qed.

Lemma tag_key_app k v : forallb key_char k = true -> tag_key (k ++ 61 :: v) = Some v.
Proof.
  induction k as [|c k IH]; simpl; [reflexivity|].
  intros H. apply andb_true_iff in H as [Hc Hk]. unfold key_char in Hc.
  destruct (c =? 61); [rewrite !orb_true_r in Hc; discriminate|].
  destruct ((c =? 59) || (c =? 33)); [discriminate|]. auto.
Qed.

Lemma tag_key_inv s v : tag_key s = Some v -> exists k, s = k ++ 61 :: v /\ forallb key_char k = true.
Proof.
  induction s as [|c s IH]; simpl; [discriminate|].
  destruct (c =? 61) eqn:E1.
  - intros H; inversion H; subst. apply N.eqb_eq in E1. subst. exists []. auto.
  - destruct ((c =? 59) || (c =? 33)) eqn:E2; [discriminate|].
    intros H. destruct (IH H) as [k [-> Hk]]. exists (c :: k). split; [reflexivity|].
    simpl. rewrite Hk, andb_true_r. unfold key_char. rewrite E1, E2. reflexivity.
Qed.

Lemma tag_val_all v : forallb val_char v = true -> tag_val v = Some None.
Proof.
  induction v as [|c v IH]; simpl; [reflexivity|].
  intros H. apply andb_true_iff in H as [Hc Hv]. unfold val_char in Hc.
  destruct (c =? 59); [discriminate|]. destruct (c =? 61); [discriminate|]. auto.
Qed.

Lemma tag_val_app v r : forallb val_char v = true -> tag_val (v ++ 59 :: r) = Some (Some (59 :: r)).
Proof.
  induction v as [|c v IH]; simpl; [reflexivity|].
  intros H. apply andb_true_iff in H as [Hc Hv]. unfold val_char in Hc.
  destruct (c =? 59); [discriminate|]. destruct (c =? 61); [discriminate|]. auto.
Qed.

Lemma tag_val_inv_end v : tag_val v = Some None -> forallb val_char v = true.
Proof.
  induction v as [|c v IH]; simpl; [reflexivity|].
  destruct (c =? 59) eqn:E1; [discriminate|]. destruct (c =? 61) eqn:E2; [discriminate|].
  intros H. rewrite (IH H), andb_true_r. unfold val_char. rewrite E1, E2. reflexivity.
Qed.

Lemma tag_val_inv_more v rest :
  tag_val v = Some (Some rest) -> exists v1 r, v = v1 ++ rest /\ rest = 59 :: r /\ forallb val_char v1 = true.
Proof.
  induction v as [|c v IH]; simpl; [discriminate|].
  destruct (c =? 59) eqn:E1.
  - intros H; inversion H; subst. apply N.eqb_eq in E1. subst. exists [], v. auto.
  - destruct (c =? 61) eqn:E2; [discriminate|]. intros H.
    destruct (IH H) as [v1 [r [-> [-> Hv]]]]. exists (c :: v1), r. repeat split.
    simpl. rewrite Hv, andb_true_r. unfold val_char. rewrite E1, E2. reflexivity.
Qed.

Lemma forallb_hd_key k c k' : forallb key_char (c :: k') = true -> k = c :: k' -> (c =? 61) = false.
Proof. simpl. intros H _. apply andb_true_iff in H as [H _]. unfold key_char in H. destruct (c =? 61); [rewrite !orb_true_r in H; discriminate|reflexivity]. Qed.

Lemma tag_appendix_complete s : appendix_ok s -> forall fuel, (length s <= fuel)%nat -> tag_appendix fuel s = true.
Proof.
  induction 1 as [k v Hk Hv Fk Fv|k v rest Hk Hv Fk Fv Hr IH]; intros fuel Hf.
  - destruct fuel as [|f]; [simpl in Hf; lia|]. cbn [tag_appendix].
    destruct k as [|c1 k']; [contradiction|]. destruct v as [|c2 v']; [contradiction|].
    assert (Hlen : Nat.ltb (length (59 :: (c1 :: k') ++ 61 :: c2 :: v')) 4 = false).
    { apply Nat.ltb_ge. simpl. rewrite app_length. simpl. lia. }
    rewrite Hlen. cbn [app]. rewrite (N.eqb_refl 59). cbn [negb].
    rewrite (forallb_hd_key (c1 :: k') c1 k' Fk eq_refl).
    change (c1 :: k' ++ 61 :: c2 :: v') with ((c1 :: k') ++ 61 :: c2 :: v').
    rewrite (tag_key_app _ _ Fk).
    assert (E2 : (c2 =? 59) = false).
    { simpl in Fv. apply andb_true_iff in Fv as [H _]. unfold val_char in H. destruct (c2 =? 59); [discriminate|reflexivity]. }
    rewrite E2, (tag_val_all _ Fv). reflexivity.
  - destruct fuel as [|f]; [simpl in Hf; lia|]. cbn [tag_appendix].
    destruct k as [|c1 k']; [contradiction|]. destruct v as [|c2 v']; [contradiction|].
    assert (Hlen : Nat.ltb (length (59 :: (c1 :: k') ++ 61 :: (c2 :: v') ++ rest)) 4 = false).
    { apply Nat.ltb_ge. simpl. rewrite app_length. simpl. lia. }
    rewrite Hlen. cbn [app]. rewrite (N.eqb_refl 59). cbn [negb].
    rewrite (forallb_hd_key (c1 :: k') c1 k' Fk eq_refl).
    change (c1 :: k' ++ 61 :: c2 :: v' ++ rest) with ((c1 :: k') ++ 61 :: (c2 :: v') ++ rest).
    rewrite (tag_key_app _ _ Fk).
    assert (E2 : (c2 =? 59) = false).
    { simpl in Fv. apply andb_true_iff in Fv as [H _]. unfold val_char in H. destruct (c2 =? 59); [discriminate|reflexivity]. }
    cbn [app]. rewrite E2.
    destruct (appendix_ok_head _ Hr) as [r ->].
    change (c2 :: v' ++ 59 :: r) with ((c2 :: v') ++ 59 :: r).
    rewrite (tag_val_app _ r Fv). apply IH.
    simpl in Hf. rewrite !app_length in Hf. simpl in Hf. rewrite app_length in Hf. simpl in *. lia.
Qed.

Lemma tag_appendix_sound fuel : forall s, tag_appendix fuel s = true -> appendix_ok s.
Proof.
  induction fuel as [|f IH]; intros s; [discriminate|]. cbn [tag_appendix].
  destruct (Nat.ltb (length s) 4); [discriminate|].
  destruct s as [|c rest]; [discriminate|].
  destruct (c =? 59) eqn:E0; [|discriminate]. apply N.eqb_eq in E0. subst c. cbn [negb].
  destruct rest as [|c1 rest']; [discriminate|].
  destruct (c1 =? 61) eqn:E1; [discriminate|].
  destruct (tag_key (c1 :: rest')) as [v|] eqn:TK; [|discriminate].
  apply tag_key_inv in TK as [k [Hs Fk]].
  assert (k <> []) as Hk.
  { intros ->. simpl in Hs. inversion Hs; subst. rewrite N.eqb_refl in E1. discriminate. }
  destruct v as [|c2 v']; [discriminate|].
  destruct (c2 =? 59) eqn:E2; [discriminate|].
  destruct (tag_val (c2 :: v')) as [[rest2|]|] eqn:TV; [| |discriminate].
  - intros H. apply IH in H.
    apply tag_val_inv_more in TV as [v1 [r [Hv [-> Fv]]]].
    assert (v1 <> []) as Hv1.
    { intros ->. simpl in Hv. inversion Hv; subst. rewrite N.eqb_refl in E2. discriminate. }
    rewrite Hs, Hv. apply ap_more; assumption.
  - intros _. apply tag_val_inv_end in TV. rewrite Hs. apply ap_last; try assumption. discriminate.
Qed.

Theorem tag_appendix_correct s : tag_appendix (S (length s)) s = true <-> appendix_ok s.
Proof. split; [apply tag_appendix_sound | intros H; apply tag_appendix_complete; [exact H|lia]]. Qed.

(* ---- the name rules ---------------------------------------------------- *)
Definition ascii_clean (s : bytes) : Prop := forall c, In c s -> c <> 0 /\ c < 128.

Lemma not_null_ascii_spec s i : not_null_ascii s i = None <-> ascii_clean s.
Proof.
  revert i; induction s as [|c s IH]; intros i; simpl.
  - split; [intros _ c []|reflexivity].
  - destruct (c =? 0) eqn:E0.
    + split; [discriminate|]. intros H. apply N.eqb_eq in E0. destruct (H c (or_introl eq_refl)). contradiction.
    + destruct (128 <=? c) eqn:E1.
      * split; [discriminate|]. intros H. apply N.leb_le in E1. destruct (H c (or_introl eq_refl)). lia.
      * rewrite IH. apply N.eqb_neq in E0. apply N.leb_gt in E1. split.
        { intros H x [<-|Hx]; [split; assumption|apply H; exact Hx]. }
        { intros H x Hx. apply H. right; exact Hx. }
Qed.

Lemma first_illegal_spec s : first_illegal s = None <-> forallb sensible s = true.
Proof.
  induction s as [|c s IH]; simpl; [tauto|].
  destruct (sensible c); simpl; [exact IH|]. split; discriminate.
Qed.

(* the documented rules, per level *)
Definition appendix_rule (id : bytes) : Prop :=
  match cut 59 id with
  | (_, None) => True                                   (* no tags *)
  | (key, Some a) => key <> [] /\ appendix_ok (59 :: a)
  end.

Definition name_ok (lv : level_legacy) (id : bytes) : Prop :=
  match lv with
  | NoneLegacy => True
  | MediumLegacy => appendix_rule id /\ ascii_clean id
  | StrictLegacy => appendix_rule id /\ ascii_clean id /\
                    contains [46; 46] (fst (cut 59 id)) = false /\ forallb sensible (fst (cut 59 id)) = true
  end.

Theorem validate_key_legacy_grammar id lv : validate_key_legacy id lv = None <-> name_ok lv id.
Proof.
  unfold validate_key_legacy, name_ok, appendix_rule.
  destruct lv; try tauto; destruct (cut 59 id) as [key [a|]] eqn:EC; cbn [fst].
  - (* strict, tags *)
    destruct key as [|k0 key']; [split; [discriminate|intros [[H _] _]; contradiction]|].
    destruct (tag_appendix (S (length a)) (59 :: a)) eqn:TA; cbv iota.
    + assert (appendix_ok (59 :: a)) as AO by (apply tag_appendix_sound in TA; exact TA).
      destruct (contains [46; 46] (k0 :: key')) eqn:CD; cbv iota; [split; [discriminate|intros [_ [_ [H _]]]; discriminate]|].
      destruct (first_illegal (k0 :: key')) eqn:FI; cbv iota.
      * split; [discriminate|]. intros [_ [_ [_ H]]]. apply first_illegal_spec in H. congruence.
      * rewrite not_null_ascii_spec. apply first_illegal_spec in FI. split.
        { intros H. split; [split; [discriminate|exact AO] | split; [exact H | split; [reflexivity | exact FI]]]. }
        { intros [_ [H _]]; exact H. }
    + split; [discriminate|]. intros [[_ H] _].
      assert (tag_appendix (S (length a)) (59 :: a) = true); [|congruence].
      apply tag_appendix_complete; [exact H|simpl; lia].
  - (* strict, no tags *)
    destruct (contains [46; 46] key) eqn:CD; cbv iota; [split; [discriminate|intros [_ [_ [H _]]]; discriminate]|].
    destruct (first_illegal key) eqn:FI; cbv iota.
    + split; [discriminate|]. intros [_ [_ [_ H]]]. apply first_illegal_spec in H. congruence.
    + rewrite not_null_ascii_spec. apply first_illegal_spec in FI. tauto.
  - (* medium, tags *)
    destruct key as [|k0 key']; [split; [discriminate|intros [[H _] _]; contradiction]|].
    destruct (tag_appendix (S (length a)) (59 :: a)) eqn:TA; cbv iota.
    + assert (appendix_ok (59 :: a)) as AO by (apply tag_appendix_sound in TA; exact TA).
      rewrite not_null_ascii_spec. split; [intros H; split; [split; [discriminate|exact AO]|exact H]|tauto].
    + split; [discriminate|]. intros [[_ H] _].
      assert (tag_appendix (S (length a)) (59 :: a) = true); [|congruence].
      apply tag_appendix_complete; [exact H|simpl; lia].
  - rewrite not_null_ascii_spec. tauto.
Qed.

(* the gate: a line is valid iff three fields, acceptable name, numeric value and timestamp *)
Definition key_ok (ll : level_legacy) (lm : level_m20) (f0 : bytes) : Prop :=
  match get_version f0 with
  | Legacy => validate_key_legacy (strip_dot f0) ll = None
  | M20 => validate_key_m20 (strip_dot f0) lm = None
  | M20NoEquals => validate_key_m20ne (strip_dot f0) lm = None
  end.

Theorem validate_packet_valid_iff buf ll lm v s :
  snd (validate_packet buf ll lm v s) = None <->
  exists f0 f1 f2, fields buf = [f0; f1; f2] /\ key_ok ll lm f0 /\ v = true /\ s = true.
Proof.
  unfold validate_packet, key_ok.
  destruct (fields buf) as [|f0 [|f1 [|f2 [|f3 l]]]]; simpl;
    try (split; [discriminate|intros [a [b [c [H _]]]]; discriminate]).
  destruct (get_version f0) eqn:GV.
  - destruct (validate_key_legacy (strip_dot f0) ll) eqn:E; simpl.
    + split; [discriminate|]. intros [a [b [c [H [K _]]]]]. inversion H; subst. rewrite GV in K. congruence.
    + destruct v, s; simpl; split; try discriminate; try (intros [a [b [c [_ [_ [? ?]]]]]]; discriminate).
      * intros _. exists f0, f1, f2. rewrite GV. auto.
      * reflexivity.
  - destruct (validate_key_m20 (strip_dot f0) lm) eqn:E; simpl.
    + split; [discriminate|]. intros [a [b [c [H [K _]]]]]. inversion H; subst. rewrite GV in K. congruence.
    + destruct v, s; simpl; split; try discriminate; try (intros [a [b [c [_ [_ [? ?]]]]]]; discriminate).
      * intros _. exists f0, f1, f2. rewrite GV. auto.
      * reflexivity.
  - destruct (validate_key_m20ne (strip_dot f0) lm) eqn:E; simpl.
    + split; [discriminate|]. intros [a [b [c [H [K _]]]]]. inversion H; subst. rewrite GV in K. congruence.
    + destruct v, s; simpl; split; try discriminate; try (intros [a [b [c [_ [_ [? ?]]]]]]; discriminate).
      * intros _. exists f0, f1, f2. rewrite GV. auto.
      * reflexivity.
Qed.

(* the level names *)
Theorem parse_level_legacy_spec t l :
  parse_level_legacy t = Some l <->
  (t = str_strict /\ l = StrictLegacy) \/ (t = str_medium /\ l = MediumLegacy) \/ (t = str_none /\ l = NoneLegacy).
Proof.
  unfold parse_level_legacy.
  destruct (beqb t str_strict) eqn:E1; [apply beqb_eq in E1; subst|].
  { split; [intros H; inversion H; auto|]. intros [[_ ->]|[[H _]|[H _]]]; [reflexivity|discriminate|discriminate]. }
  destruct (beqb t str_medium) eqn:E2; [apply beqb_eq in E2; subst|].
  { split; [intros H; inversion H; auto|]. intros [[H _]|[[_ ->]|[H _]]]; [discriminate|reflexivity|discriminate]. }
  destruct (beqb t str_none) eqn:E3; [apply beqb_eq in E3; subst|].
  { split; [intros H; inversion H; auto|]. intros [[H _]|[[H _]|[_ ->]]]; [discriminate|discriminate|reflexivity]. }
  apply beqb_neq in E1, E2, E3. split; [discriminate|]. intros [[H _]|[[H _]|[H _]]]; contradiction.
Qed.

Theorem parse_level_m20_spec t l :
  parse_level_m20 t = Some l <-> (t = str_medium /\ l = MediumM20) \/ (t = str_none /\ l = NoneM20).
Proof.
  unfold parse_level_m20.
  destruct (beqb t str_medium) eqn:E2; [apply beqb_eq in E2; subst|].
  { split; [intros H; inversion H; auto|]. intros [[_ ->]|[H _]]; [reflexivity|discriminate]. }
  destruct (beqb t str_none) eqn:E3; [apply beqb_eq in E3; subst|].
  { split; [intros H; inversion H; auto|]. intros [[H _]|[_ ->]]; [discriminate|reflexivity]. }
  apply beqb_neq in E2, E3. split; [discriminate|]. intros [[H _]|[H _]]; contradiction.
Qed.

(* ---- the bad-metrics report: last record per name wins ------------------ *)
Section Bad.
  Variable R : Type.
  Definition bad_map := list (bytes * R).
  Fixpoint bad_add (m : bad_map) (k : bytes) (r : R) : bad_map :=
    match m with
    | [] => [(k, r)]
    | (k', r') :: m' => if beqb k k' then (k, r) :: m' else (k', r') :: bad_add m' k r
    end.
  Fixpoint bad_get (m : bad_map) (k : bytes) : option R :=
    match m with [] => None | (k', r) :: m' => if beqb k k' then Some r else bad_get m' k end.

  Lemma bad_get_add m k r k' :
    bad_get (bad_add m k r) k' = if beqb k' k then Some r else bad_get m k'.
  Proof.
    induction m as [|[k0 r0] m IH]; simpl.
    - reflexivity.
    - destruct (beqb k k0) eqn:E; simpl.
      + apply beqb_eq in E. subst. destruct (beqb k' k0); reflexivity.
      + destruct (beqb k' k0) eqn:E2.
        * apply beqb_eq in E2. subst. destruct (beqb k0 k) eqn:E3; [apply beqb_eq in E3; subst; rewrite beqb_refl in E; discriminate|reflexivity].
        * exact IH.
  Qed.

  (* after any sequence of rejections, the report shows for each name the last record added under it *)
  Fixpoint last_for (l : list (bytes * R)) (k : bytes) : option R :=
    match l with
    | [] => None
    | (k', r) :: l' => match last_for l' k with Some x => Some x | None => if beqb k k' then Some r else None end
    end.

  Theorem bad_last_wins l : forall m k,
    bad_get (fold_left (fun m kr => bad_add m (fst kr) (snd kr)) l m) k =
    match last_for l k with Some r => Some r | None => bad_get m k end.
  Proof.
    induction l as [|[k0 r0] l IH]; intros m k; simpl; [reflexivity|].
    rewrite IH. destruct (last_for l k); [reflexivity|]. rewrite bad_get_add. simpl. destruct (beqb k k0); reflexivity.
  Qed.
End Bad.
