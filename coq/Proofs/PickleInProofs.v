(* C13: what CPython pickles (protocol 2/3 model) is turned into the equivalent plain-text lines. *)
From CRNG Require Import Base.ListX Base.Bytes Base.Decimal Model.PickleVM Model.Reencode Model.PickleIn Model.PyPickle
  Proofs.ReencodeProofs.
From Coq Require Import ZifyN ZifyNat ZifyBool.
Ltac Zify.zify_post_hook ::= Z.div_mod_to_equations.
Local Open Scope N_scope.

Definition num_val (x : pynum) : pv := match x with PyInt n => VInt (Z.of_N n) | PyFloat b => VFloat b end.
Definition item_val (d : pydp) : pv := VTuple [VStr (d_name d); VTuple [num_val (d_ts d); num_val (d_val d)]].

Lemma take_le_bytes k n rest : take k (le_bytes k n ++ rest) = Some (le_bytes k n, rest).
Proof. rewrite <- (length_le_bytes k n) at 1. apply take_app. Qed.

Section Steps.
  Variable pf : bytes -> option N.
  Notation R := (run pf false).

  Lemma run_put f st mem v i rest b :
    i < 4294967296 ->
    exists mem', R (S f) {| stk := v :: st; memo := mem |} (put i ++ rest) b
                 = R f {| stk := v :: st; memo := mem' |} rest false.
  Proof.
    intros Hi. unfold put. destruct (i <? 256) eqn:E.
    - cbn [app]. rewrite run_step. eexists. reflexivity.
    - cbn [app]. rewrite run_step.
      change (step pf false {| stk := v :: st; memo := mem |} 114 (le_bytes 4 i ++ rest))
        with (with_take 4 (le_bytes 4 i ++ rest) (fun a r =>
                SNext {| stk := v :: st; memo := memo_put (N_to_dec (le_num a)) v mem |} r)).
      unfold with_take. rewrite take_le_bytes. eexists. reflexivity.
  Qed.

  Lemma run_enc_str f st mem s i rest b :
    N.of_nat (length s) < 2147483648 -> i < 4294967296 ->
    exists mem', R (S (S f)) {| stk := st; memo := mem |} (enc_str s i ++ rest) b
                 = R f {| stk := VStr s :: st; memo := mem' |} rest false.
  Proof.
    intros Hl Hi. unfold enc_str. cbn [app]. rewrite run_step, <- !app_assoc.
    change (step pf false {| stk := st; memo := mem |} 88 (le_bytes 4 (N.of_nat (length s)) ++ s ++ put i ++ rest))
      with (with_take 4 (le_bytes 4 (N.of_nat (length s)) ++ s ++ put i ++ rest) (fun a r =>
              if 2147483648 <=? le_num a then SNext (push (VStr []) {| stk := st; memo := mem |}) r
              else with_take_n (le_num a) r (fun b0 r' => SNext (push (VStr b0) {| stk := st; memo := mem |}) r'))).
    unfold with_take. rewrite take_le_bytes, le_num_le_bytes.
    change (256 ^ N.of_nat 4) with 4294967296. rewrite N.mod_small by lia.
    replace (2147483648 <=? N.of_nat (length s)) with false by lia.
    unfold with_take_n. rewrite take_n_app. cbv beta iota. unfold push. cbn [stk memo].
    apply run_put. exact Hi.
  Qed.

  Lemma run_enc_num f st mem x rest b :
    num_ok x = true ->
    R (S f) {| stk := st; memo := mem |} (enc_num x ++ rest) b
    = R f {| stk := num_val x :: st; memo := mem |} rest false.
  Proof.
    intros Hx. destruct x as [n|bits]; cbn [num_ok] in Hx; cbn [enc_num num_val].
    - destruct (n <? 256) eqn:E1.
      { cbn [app]. rewrite run_step.
        change (step pf false {| stk := st; memo := mem |} 75 (n :: rest))
          with (SNext (push (VInt (Z.of_N (le_num [n]))) {| stk := st; memo := mem |}) rest).
        replace (le_num [n]) with n by (cbn; lia). reflexivity. }
      destruct (n <? 65536) eqn:E2.
      { cbn [app]. rewrite run_step.
        change (step pf false {| stk := st; memo := mem |} 77 (le_bytes 2 n ++ rest))
          with (with_take 2 (le_bytes 2 n ++ rest) (fun a r =>
                  SNext (push (VInt (Z.of_N (le_num a))) {| stk := st; memo := mem |}) r)).
        unfold with_take. rewrite take_le_bytes, le_num_le_bytes.
        change (256 ^ N.of_nat 2) with 65536. rewrite N.mod_small by lia. reflexivity. }
      cbn [app]. rewrite run_step.
      change (step pf false {| stk := st; memo := mem |} 74 (le_bytes 4 n ++ rest))
        with (with_take 4 (le_bytes 4 n ++ rest) (fun a r =>
                let k := le_num a in
                SNext (push (VInt (if false && (2147483648 <=? k) then (Z.of_N k - 4294967296)%Z else Z.of_N k))
                            {| stk := st; memo := mem |}) r)).
      unfold with_take. rewrite take_le_bytes. cbv zeta. rewrite le_num_le_bytes.
      change (256 ^ N.of_nat 4) with 4294967296. rewrite N.mod_small by lia. reflexivity.
    - cbn [app]. rewrite run_step.
      assert (Ht : take 8 (be_bytes 8 bits ++ rest) = Some (be_bytes 8 bits, rest)).
      { replace 8%nat with (length (be_bytes 8 bits)) at 1 by (unfold be_bytes; rewrite rev_length; apply length_le_bytes).
        apply take_app. }
      change (step pf false {| stk := st; memo := mem |} 71 (be_bytes 8 bits ++ rest))
        with (with_take 8 (be_bytes 8 bits ++ rest) (fun a r =>
                SNext (push (VFloat (be_num a)) {| stk := st; memo := mem |}) r)).
      unfold with_take. rewrite Ht, be_num_be_bytes.
      change (256 ^ N.of_nat 8) with 18446744073709551616. rewrite N.mod_small by lia. reflexivity.
  Qed.

  Lemma run_tuple2 f st mem a b0 rest b :
    R (S f) {| stk := b0 :: a :: st; memo := mem |} (134 :: rest) b
    = R f {| stk := VTuple [a; b0] :: st; memo := mem |} rest false.
  Proof. reflexivity. Qed.

  Lemma run_enc_item f st mem d i rest b :
    dp_ok d = true -> i + 2 < 4294967296 ->
    exists mem', R (8 + f) {| stk := st; memo := mem |} (enc_item d i ++ rest) b
                 = R f {| stk := item_val d :: st; memo := mem' |} rest false.
  Proof.
    intros Hd Hi. unfold dp_ok in Hd. apply andb_true_iff in Hd as [Hd Hv]. apply andb_true_iff in Hd as [Hn Ht].
    unfold enc_item. rewrite <- !app_assoc. cbn [Nat.add].
    destruct (run_enc_str (S (S (S (S (S (S f)))))) st mem (d_name d) i
                (enc_num (d_ts d) ++ enc_num (d_val d) ++ [134] ++ put (i + 1) ++ [134] ++ put (i + 2) ++ rest) b
                ltac:(lia) ltac:(lia)) as [m1 ->].
    rewrite (run_enc_num _ _ _ _ _ _ Ht), (run_enc_num _ _ _ _ _ _ Hv).
    cbn [app]. rewrite run_tuple2.
    destruct (run_put (S (S f)) (VStr (d_name d) :: st) m1 (VTuple [num_val (d_ts d); num_val (d_val d)]) (i + 1)
                (134 :: put (i + 2) ++ rest) false ltac:(lia)) as [m2 ->].
    rewrite run_tuple2.
    destruct (run_put f st m2 (VTuple [VStr (d_name d); VTuple [num_val (d_ts d); num_val (d_val d)]]) (i + 2)
                rest false ltac:(lia)) as [m3 ->].
    exists m3. reflexivity.
  Qed.

  Lemma run_enc_items ds : forall f st mem i rest b,
    forallb dp_ok ds = true -> i + 3 * N.of_nat (length ds) < 4294967296 ->
    exists mem', R (8 * length ds + f) {| stk := st; memo := mem |} (enc_items ds i ++ rest) b
                 = R f {| stk := rev (map item_val ds) ++ st; memo := mem' |} rest
                     (match ds with [] => b | _ => false end).
  Proof.
    induction ds as [|d ds IH]; intros f st mem i rest b Hok Hi.
    - exists mem. reflexivity.
    - cbn [forallb] in Hok. apply andb_true_iff in Hok as [Hd Hok]. cbn [length] in Hi.
      cbn [enc_items length map rev]. rewrite <- app_assoc.
      replace (8 * S (length ds) + f)%nat with (8 + (8 * length ds + f))%nat by lia.
      destruct (run_enc_item (8 * length ds + f) st mem d i (enc_items ds (i + 3) ++ rest) b Hd ltac:(lia)) as [m1 ->].
      destruct (IH f (item_val d :: st) m1 (i + 3) rest false Hok ltac:(lia)) as [m2 E].
      exists m2. rewrite E. rewrite <- app_assoc. cbn [app].
      destruct ds; reflexivity.
  Qed.

  Lemma split_mark_rev l : forall below acc,
    (forall v, In v l -> v <> VMark) ->
    split_mark (rev l ++ VMark :: below) acc = Some (l ++ acc, below).
  Proof.
    induction l as [|x l IH] using rev_ind; intros below acc Hn.
    - reflexivity.
    - rewrite rev_app_distr. cbn [rev app split_mark].
      assert (Hx : x <> VMark) by (apply Hn; apply in_or_app; right; left; reflexivity).
      destruct x; try congruence;
        (rewrite IH by (intros v Hv; apply Hn; apply in_or_app; left; exact Hv);
         rewrite <- app_assoc; reflexivity).
  Qed.

  Lemma length_enc_items ds : forall i, (8 * length ds <= length (enc_items ds i))%nat.
  Proof.
    induction ds as [|d ds IH]; intros i; cbn [enc_items length]; [lia|].
    rewrite app_length. specialize (IH (i + 3)).
    assert (8 <= length (enc_item d i))%nat; [|lia].
    unfold enc_item, enc_str. repeat (rewrite app_length || cbn [length]). rewrite ?length_le_bytes.
    assert (2 <= length (put i))%nat by (unfold put; destruct (i <? 256); cbn [length]; try rewrite length_le_bytes; lia).
    assert (2 <= length (put (i + 1)))%nat by (unfold put; destruct (i + 1 <? 256); cbn [length]; try rewrite length_le_bytes; lia).
    lia.
  Qed.

  Theorem unpickle_py_dumps proto ds :
    forallb dp_ok ds = true -> 3 * N.of_nat (length ds) + 1 < 4294967296 ->
    unpickle pf false (py_dumps proto ds) = RDone (VList (map item_val ds)).
  Proof.
    intros Hok Hn. unfold unpickle.
    assert (HK : R (8 * length ds + 7) vm0 (py_dumps proto ds) true = RDone (VList (map item_val ds))).
    { unfold py_dumps. cbn [app]. replace (8 * length ds + 7)%nat with (S (S (8 * length ds + 5))) by lia.
      rewrite run_step. change (step pf false vm0 128 ?s) with (SNext vm0 (tl s)). cbv beta iota. cbn [tl].
      rewrite run_step.
      match goal with |- context [step pf false ?m 93 ?s] => change (step pf false m 93 s) with (SNext (push (VList []) m) s) end.
      cbv beta iota. unfold push, vm0. cbn [stk memo].
      replace (8 * length ds + 5)%nat with (S (8 * length ds + 4)) by lia.
      destruct (run_put (8 * length ds + 4) [] [] (VList []) 0
                  (match ds with [] => [] | [d] => enc_item d 1 ++ [97] | _ :: _ :: _ => 40 :: enc_items ds 1 ++ [101] end ++ [46])
                  false ltac:(lia)) as [m0 ->].
      destruct ds as [|d [|d2 ds]].
      - cbn [app length Nat.mul Nat.add]. reflexivity.
      - cbn [forallb] in Hok. apply andb_true_iff in Hok as [Hd _].
        rewrite <- app_assoc. cbn [length].
        replace (8 * 1 + 4)%nat with (8 + 4)%nat by lia.
        destruct (run_enc_item 4 [VList []] m0 d 1 ([97] ++ [46]) false Hd ltac:(lia)) as [m1 ->].
        reflexivity.
      - remember (d :: d2 :: ds) as dl eqn:Edl.
        cbn [app]. rewrite <- app_assoc.
        replace (8 * length dl + 4)%nat with (S (8 * length dl + 3)) by lia.
        rewrite run_step.
        match goal with |- context [step pf false ?m 40 ?s] => change (step pf false m 40 s) with (SNext (push VMark m) s) end.
        cbv beta iota. unfold push. cbn [stk memo].
        destruct (run_enc_items dl 3 [VMark; VList []] m0 1 ([101] ++ [46]) false Hok ltac:(lia)) as [m1 E].
        rewrite E. replace (match dl with [] => false | _ :: _ => false end) with false by (destruct dl; reflexivity).
        cbn [app]. rewrite run_step.
        assert (Hsm : split_mark (rev (map item_val dl) ++ [VMark; VList []]) [] = Some (map item_val dl, [VList []])).
        { rewrite (split_mark_rev (map item_val dl) [VList []] []); [rewrite app_nil_r; reflexivity|].
          intros v Hv. apply in_map_iff in Hv as [x [<- _]]. discriminate. }
        change (step pf false {| stk := rev (map item_val dl) ++ [VMark; VList []]; memo := m1 |} 101 [46])
          with (match split_mark (rev (map item_val dl) ++ [VMark; VList []]) [] with
                | Some (items, VList xs :: r) =>
                    SNext (set_stk (VList (xs ++ items) :: r) {| stk := rev (map item_val dl) ++ [VMark; VList []]; memo := m1 |}) [46]
                | _ => SFail RErr
                end).
        rewrite Hsm. reflexivity. }
    rewrite (run_more pf false (8 * length ds + 7)); [exact HK | rewrite HK; discriminate |].
    unfold py_dumps. rewrite !app_length.
    assert (H2 : (2 <= length (put 0))%nat) by (cbn; lia).
    destruct ds as [|d [|d2 ds]].
    - cbn [length] in *. lia.
    - pose proof (length_enc_items [d] 1) as L. cbn [enc_items] in L. rewrite app_nil_r in L.
      rewrite app_length. cbn [length] in *. lia.
    - pose proof (length_enc_items (d :: d2 :: ds) 1) as L.
      rewrite !app_length. cbn [length] in *. lia.
  Qed.
End Steps.

(* ---------- the connection ---------- *)
Section Conn.
  Variable pf : bytes -> option N.
  Variable fmt6 fmt0 : N -> bytes.

  Lemma Z_to_dec_of_N n : Z_to_dec (Z.of_N n) = N_to_dec n.
  Proof. destruct n; reflexivity. Qed.

  Lemma handle_item_val d : handle_item fmt6 fmt0 (item_val d) = EvLine (line_of fmt6 fmt0 d).
  Proof.
    unfold handle_item, item_val, line_of. cbn [as_seq].
    destruct (d_val d), (d_ts d); cbn [num_val value_text ts_text num_text]; rewrite ?Z_to_dec_of_N; reflexivity.
  Qed.

  Definition frame_ok (proto : N) (ds : list pydp) : Prop :=
    forallb dp_ok ds = true /\ 3 * N.of_nat (length ds) + 1 < 4294967296 /\
    N.of_nat (length (py_dumps proto ds)) <= max_payload.

  Lemma handle_frame f proto ds rest :
    frame_ok proto ds ->
    handle_stream pf fmt6 fmt0 (S f) (frame_of (py_dumps proto ds) ++ rest)
    = let (evs, fn) := handle_stream pf fmt6 fmt0 f rest in
      (map (fun d => EvLine (line_of fmt6 fmt0 d)) ds ++ evs, fn).
  Proof.
    intros [Hok [Hn Hmax]]. unfold frame_of.
    rewrite <- (app_assoc (be_bytes 4 (N.of_nat (length (py_dumps proto ds)))) (py_dumps proto ds) rest).
    set (p := py_dumps proto ds) in *.
    assert (Hp3 : exists t, p = 128 :: proto :: 93 :: t) by (unfold p, py_dumps; cbn [app]; eexists; reflexivity).
    destruct Hp3 as [t Ep].
    cbn [handle_stream].
    assert (Hne : exists c r, be_bytes 4 (N.of_nat (length p)) ++ p ++ rest = c :: r).
    { unfold be_bytes. cbn [le_bytes rev app]. rewrite <- ?app_assoc. cbn [app]. eexists _, _. reflexivity. }
    destruct Hne as [c0 [r0 E0]]. rewrite E0, <- E0.
    assert (Ht : take 4 (be_bytes 4 (N.of_nat (length p)) ++ p ++ rest) = Some (be_bytes 4 (N.of_nat (length p)), p ++ rest)).
    { replace 4%nat with (length (be_bytes 4 (N.of_nat (length p)))) at 1
        by (unfold be_bytes; rewrite rev_length; apply length_le_bytes).
      apply take_app. }
    rewrite Ht. cbv zeta. rewrite be_num_be_bytes.
    change (256 ^ N.of_nat 4) with 4294967296.
    unfold max_payload in *. rewrite N.mod_small by lia.
    replace (524288000 <? N.of_nat (length p)) with false by lia.
    replace (check_protocol (p ++ rest)) with true by (rewrite Ep; reflexivity).
    cbn [negb]. rewrite take_n_app.
    unfold p. rewrite (unpickle_py_dumps pf proto ds Hok Hn).
    destruct (handle_stream pf fmt6 fmt0 f rest) as [evs fn].
    rewrite map_map. f_equal. f_equal. apply map_ext. intros d. apply handle_item_val.
  Qed.

  (* any number of frames on one connection *)
  Theorem handle_frames (pss : list (N * list pydp)) : forall f,
    Forall (fun pd => frame_ok (fst pd) (snd pd)) pss ->
    (length pss < f)%nat ->
    handle_stream pf fmt6 fmt0 f (concat (map (fun pd => frame_of (py_dumps (fst pd) (snd pd))) pss))
    = (concat (map (fun pd => map (fun d => EvLine (line_of fmt6 fmt0 d)) (snd pd)) pss), FinOk).
  Proof.
    induction pss as [|[proto ds] pss IH]; intros f Hall Hf.
    - destruct f; [lia|]. reflexivity.
    - destruct f as [|f]; [cbn in Hf; lia|].
      inversion Hall as [|? ? H1 H2]; subst. cbn [map concat fst snd].
      rewrite (handle_frame f proto ds _ H1).
      rewrite (IH f H2 ltac:(cbn [length] in Hf; lia)). reflexivity.
  Qed.

  Theorem handle_conn_frames (pss : list (N * list pydp)) :
    Forall (fun pd => frame_ok (fst pd) (snd pd)) pss ->
    handle_conn pf fmt6 fmt0 (concat (map (fun pd => frame_of (py_dumps (fst pd) (snd pd))) pss))
    = (concat (map (fun pd => map (fun d => EvLine (line_of fmt6 fmt0 d)) (snd pd)) pss), FinOk).
  Proof.
    intros Hall. unfold handle_conn. apply handle_frames; [exact Hall|].
    assert (G : forall l : list (N * list pydp),
               (length l <= length (concat (map (fun pd => frame_of (py_dumps (fst pd) (snd pd))) l)))%nat).
    { induction l as [|x l IHl]; cbn [map concat length]; [lia|].
      rewrite app_length. unfold frame_of at 1. rewrite app_length. unfold be_bytes. rewrite rev_length, length_le_bytes. lia. }
    specialize (G pss). lia.
  Qed.
End Conn.

(* the recorded finding, inside the model: a negative value pickled as BININT comes out as v + 2^32
   (this is pickle.dumps([('a', (1, -1))], 2), framed) *)
Example negative_binint_refuted :
  handle_conn (fun _ => None) (fun _ => []) (fun _ => [])
    [0;0;0;28; 128;2;93;113;0;88;1;0;0;0;97;113;1;75;1;74;255;255;255;255;134;113;2;134;113;3;97;46]
  = ([EvLine [97; 32; 52;50;57;52;57;54;55;50;57;53; 32; 49]], FinOk).
Proof. vm_compute. reflexivity. Qed.
