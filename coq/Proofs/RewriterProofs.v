(* C04: shape of the forwarded line and the rewriter rules. *)
From CRNG Require Import Base.ListX Base.Bytes Lib.Regex Model.Fields Model.Matcher Model.Rewriter.

Lemma fields_go_tokens s : forall cur skip tok,
  (forall c, In c cur -> c <> 32) ->
  In tok (fields_go s cur skip) -> tok <> [] /\ ~ In 32 tok.
Proof.
  induction s as [|c s IH]; intros cur skip tok Hc; cbn [fields_go].
  - destruct cur as [|x cur]; [intros []|]. intros [<-|[]]. split.
    + intros E. apply (f_equal (@length N)) in E. rewrite rev_length in E. discriminate.
    + intros H. apply in_rev in H. exact (Hc _ H eq_refl).
  - destruct skip as [|k]; [|apply IH; exact Hc].
    destruct (space_width (c :: s)) as [|w] eqn:SW.
    + apply IH. intros x [<-|Hx]; [|apply Hc; exact Hx].
      intros ->. simpl in SW. discriminate.
    + destruct cur as [|x cur]; [apply IH; intros ? []|].
      intros [<-|H].
      * split.
        { intros E. apply (f_equal (@length N)) in E. rewrite rev_length in E. discriminate. }
        { intros H. apply in_rev in H. exact (Hc _ H eq_refl). }
      * eapply IH; [|exact H]. intros ? [].
Qed.

Theorem fields_tokens buf tok : In tok (fields buf) -> tok <> [] /\ ~ In 32 tok.
Proof. apply fields_go_tokens. intros ? []. Qed.

(* rewriters apply in order *)
Lemma rewrite_all_cons r rs n : rewrite_all (r :: rs) n = rewrite_all rs (rw_do r n).
Proof. reflexivity. Qed.

Lemma rewrite_all_app rs1 rs2 n : rewrite_all (rs1 ++ rs2) n = rewrite_all rs2 (rewrite_all rs1 n).
Proof. unfold rewrite_all. apply fold_left_app. Qed.

(* a rule is skipped when its not-clause matches *)
Lemma rw_not_skips r buf :
  (match rw_notre r with
   | Some nr => re_search nr buf
   | None => nonempty (rw_not r) && contains (rw_not r) buf
   end) = true -> rw_do r buf = buf.
Proof. unfold rw_do. intros ->. reflexivity. Qed.

(* literal rules: max = 0 replaces nothing; no occurrence, nothing to replace *)
Lemma replace_n_zero fuel s old new : replace_n fuel s old new 0 = s.
Proof. destruct fuel; reflexivity. Qed.

Lemma has_prefix_contains old s : has_prefix old s = true -> contains old s = true.
Proof. intros H. destruct s; simpl; rewrite H; reflexivity. Qed.

Lemma replace_n_absent fuel : forall s old new n, contains old s = false -> replace_n fuel s old new n = s.
Proof.
  induction fuel as [|f IH]; intros s old new n H; simpl; [reflexivity|].
  destruct (n =? 0)%Z; [reflexivity|]. destruct s as [|c s']; [reflexivity|].
  cbn [contains] in H. apply orb_false_iff in H as [H1 H2]. rewrite H1. f_equal. apply IH. exact H2.
Qed.

(* the first occurrence is replaced when max <> 0 *)
Lemma replace_n_first fuel s old new n :
  (n <> 0)%Z -> has_prefix old s = true -> s <> [] ->
  replace_n (S fuel) s old new n = new ++ replace_n fuel (skipn (length old) s) old new (if (n <? 0)%Z then n else n - 1)%Z.
Proof.
  intros Hn Hp Hs. simpl. destruct (n =? 0)%Z eqn:E; [apply Z.eqb_eq in E; contradiction|].
  destruct s; [contradiction|]. rewrite Hp. reflexivity.
Qed.
