(* C10: buckets, flushing, contribution, never-twice — generic in the float
   type F and in the per-key state P. *)
From CRNG Require Import Base.ListX Base.Bytes Model.Aggregator.
From Coq Require Import ZifyN ZifyNat ZifyBool.
Ltac Zify.zify_post_hook ::= Z.div_mod_to_equations.

Section Buckets.
  Variable P : Type.

  Notation bucket := (bucket P).
  Notation astate := (astate P).

  Inductive bsorted : list bucket -> Prop :=
  | bs_nil : bsorted []
  | bs_cons q ks bs : (forall q' ks', In (q', ks') bs -> q < q') -> bsorted bs -> bsorted ((q, ks) :: bs).

  Definition keys_or_nil (bs : list bucket) (q : N) : list (bytes * P) :=
    match bucket_keys P bs q with Some ks => ks | None => [] end.

  Lemma wb_in bs q f q' ks' :
    In (q', ks') (with_bucket P bs q f) -> q' = q \/ In (q', ks') bs.
  Proof.
    induction bs as [|[q0 ks0] bs IH]; simpl.
    - intros [H|[]]. inversion H; subst. left. reflexivity.
    - destruct (q =? q0) eqn:E.
      + apply N.eqb_eq in E. subst q0. intros [H|H]; [inversion H; subst; left; reflexivity | right; right; exact H].
      + destruct (q <? q0) eqn:L.
        * intros [H|[H|H]]; [inversion H; subst; left; reflexivity | right; left; exact H | right; right; exact H].
        * intros [H|H]; [right; left; exact H|]. destruct (IH H) as [->|Hin]; [left; reflexivity | right; right; exact Hin].
  Qed.

  Lemma bucket_keys_none_sorted bs q q0 ks0 :
    bsorted ((q0, ks0) :: bs) -> q < q0 -> bucket_keys P ((q0, ks0) :: bs) q = None.
  Proof.
    intros Hs Hlt. remember ((q0, ks0) :: bs) as l. revert q0 ks0 bs Heql Hlt.
    induction Hs as [|q1 ks1 bs1 H1 Hs IH]; intros q0 ks0 bs Heql Hlt; [discriminate|].
    inversion Heql; subst. simpl. destruct (q =? q0) eqn:E; [apply N.eqb_eq in E; lia|].
    destruct bs as [|[q2 ks2] bs2]; [reflexivity|].
    eapply IH; [reflexivity|]. specialize (H1 q2 ks2 (or_introl eq_refl)). lia.
  Qed.

  Lemma wb_sorted bs q f : bsorted bs -> bsorted (with_bucket P bs q f).
  Proof.
    induction 1 as [|q0 ks0 bs H0 Hs IH]; simpl.
    - constructor; [intros ? ? []|constructor].
    - destruct (q =? q0) eqn:E.
      + constructor; assumption.
      + destruct (q <? q0) eqn:L.
        * apply N.ltb_lt in L. constructor; [|constructor; assumption].
          intros q' ks' [H|H]; [inversion H; subst; exact L|]. specialize (H0 _ _ H). lia.
        * constructor; [|exact IH]. intros q' ks' H. apply wb_in in H as [->|H]; [|eauto].
          apply N.eqb_neq in E. apply N.ltb_ge in L. lia.
  Qed.

  Lemma wb_keys bs q f q' : bsorted bs ->
    bucket_keys P (with_bucket P bs q f) q' = if q' =? q then Some (f (keys_or_nil bs q)) else bucket_keys P bs q'.
  Proof.
    unfold keys_or_nil. induction 1 as [|q0 ks0 bs H0 Hs IH]; simpl.
    - destruct (q' =? q); reflexivity.
    - destruct (q =? q0) eqn:E.
      + apply N.eqb_eq in E. subst q0. simpl. destruct (q' =? q); reflexivity.
      + destruct (q <? q0) eqn:L; simpl.
        * apply N.ltb_lt in L. destruct (q' =? q) eqn:E2; [|reflexivity].
          f_equal. f_equal.
          pose proof (bucket_keys_none_sorted bs q q0 ks0 (bs_cons _ _ _ H0 Hs) L) as Hn. simpl in Hn. rewrite E in Hn.
          rewrite Hn. reflexivity.
        * rewrite IH. destruct (q' =? q) eqn:E2.
          { apply N.eqb_eq in E2. subst q'. rewrite E. reflexivity. }
          { reflexivity. }
  Qed.

  (* ---- flush ------------------------------------------------------------ *)
  Lemma sorted_all_gt bs q ks c : bsorted ((q, ks) :: bs) -> c < q -> forall b, In b ((q, ks) :: bs) -> c < fst b.
  Proof.
    intros Hs Hc b [<-|Hb]; [exact Hc|]. inversion Hs; subst. destruct b as [q' ks']. simpl.
    specialize (H1 _ _ Hb). lia.
  Qed.

  Lemma filter_all {A} (f : A -> bool) l : (forall x, In x l -> f x = true) -> filter f l = l.
  Proof. induction l as [|x l IH]; simpl; intros H; [reflexivity|]. rewrite (H x (or_introl eq_refl)). f_equal. apply IH. auto. Qed.
  Lemma filter_none {A} (f : A -> bool) l : (forall x, In x l -> f x = false) -> filter f l = [].
  Proof. induction l as [|x l IH]; simpl; intros H; [reflexivity|]. rewrite (H x (or_introl eq_refl)). apply IH. auto. Qed.

  (* on the ordered bucket list, a flush takes exactly the buckets at or before the cutoff and leaves the others *)
  Theorem split_flush_spec bs c : bsorted bs ->
    split_flush P bs c = (filter (fun b => fst b <=? c) bs, filter (fun b => c <? fst b) bs).
  Proof.
    induction 1 as [|q ks bs H0 Hs IH]; simpl; [reflexivity|].
    destruct (c <? q) eqn:L.
    - apply N.ltb_lt in L.
      pose proof (sorted_all_gt bs q ks c (bs_cons _ _ _ H0 Hs) L) as Hall.
      assert (q <=? c = false) as -> by (apply N.leb_gt; exact L).
      rewrite (filter_none (fun b => fst b <=? c) bs), (filter_all (fun b => c <? fst b) bs); [reflexivity| |].
      + intros b Hb. apply N.ltb_lt. apply Hall. right; exact Hb.
      + intros b Hb. apply N.leb_gt. apply Hall. right; exact Hb.
    - rewrite IH. assert (q <=? c = true) as -> by (apply N.leb_le; apply N.ltb_ge in L; exact L). reflexivity.
  Qed.

  Lemma filter_sorted f bs : bsorted bs -> bsorted (filter f bs).
  Proof.
    induction 1 as [|q ks bs H0 Hs IH]; simpl; [constructor|].
    destruct (f (q, ks)); [|exact IH]. constructor; [|exact IH].
    intros q' ks' H. apply filter_In in H as [H _]. eauto.
  Qed.

  (* ---- contribution: a point touches exactly its (bucket, key) ----------- *)
  Fixpoint key_get (ks : list (bytes * P)) (k : bytes) : option P :=
    match ks with [] => None | (k', p) :: ks' => if beqb k k' then Some p else key_get ks' k end.

  Definition lookup (st : astate) (q : N) (k : bytes) : option P :=
    match bucket_keys P (a_buckets P st) q with Some ks => key_get ks k | None => None end.

  Lemma key_update_some ks k f ks' :
    key_update P ks k f = Some ks' ->
    forall k', key_get ks' k' = if beqb k' k then option_map f (key_get ks k) else key_get ks k'.
  Proof.
    revert ks'; induction ks as [|[k0 p0] ks IH]; simpl; intros ks' H; [discriminate|].
    destruct (beqb k k0) eqn:E.
    - inversion H; subst. apply beqb_eq in E. subst k0. intros k'. simpl. destruct (beqb k' k); reflexivity.
    - destruct (key_update P ks k f) as [r|] eqn:EU; [|discriminate]. inversion H; subst. intros k'. simpl.
      destruct (beqb k' k0) eqn:E2.
      + apply beqb_eq in E2. subst k'. destruct (beqb k0 k) eqn:E3; [apply beqb_eq in E3; subst; rewrite beqb_refl in E; discriminate|reflexivity].
      + apply IH. reflexivity.
  Qed.

  Lemma key_update_none ks k f : key_update P ks k f = None -> key_get ks k = None.
  Proof.
    induction ks as [|[k0 p0] ks IH]; simpl; [reflexivity|].
    destruct (beqb k k0); [discriminate|]. destruct (key_update P ks k f); [discriminate|]. auto.
  Qed.

  Lemma key_get_app ks k p k' : key_get ks k = None ->
    key_get (ks ++ [(k, p)]) k' = if beqb k' k then Some p else key_get ks k'.
  Proof.
    induction ks as [|[k0 p0] ks IH]; simpl; intros H.
    - destruct (beqb k' k); reflexivity.
    - destruct (beqb k k0) eqn:E; [discriminate|]. rewrite (IH H).
      destruct (beqb k' k0) eqn:E2; [|reflexivity].
      apply beqb_eq in E2. subst k'. destruct (beqb k0 k) eqn:E3; [apply beqb_eq in E3; subst; rewrite beqb_refl in E; discriminate|reflexivity].
  Qed.

  Variable F : Type.
  Variable pnew : F -> N -> P.
  Variable padd : P -> F -> N -> P.

  Theorem point_local wait st key ts q v now :
    bsorted (a_buckets P st) ->
    let st' := add_or_create F P pnew padd wait st key ts q v now in
    (forall q' k', (q' <> q \/ k' <> key) -> lookup st' q' k' = lookup st q' k') /\
    lookup st' q key =
      match lookup st q key with
      | Some p => Some (padd p v ts)
      | None => if usub now wait <? q then Some (pnew v ts) else None
      end /\
    bsorted (a_buckets P st').
  Proof.
    intros Hs. unfold add_or_create, lookup.
    change (match bucket_keys P (a_buckets P st) q with Some ks => ks | None => [] end) with (keys_or_nil (a_buckets P st) q).
    destruct (key_update P (keys_or_nil (a_buckets P st) q) key (fun p => padd p v ts)) as [ks'|] eqn:EU; simpl.
    - pose proof (key_update_some _ _ _ _ EU) as HG. split; [|split; [|apply wb_sorted; exact Hs]].
      + intros q' k' Hne. rewrite wb_keys by exact Hs. destruct (q' =? q) eqn:E; [|reflexivity].
        apply N.eqb_eq in E. subst q'. destruct Hne as [Hne|Hne]; [contradiction|].
        rewrite HG. destruct (beqb k' key) eqn:E2; [apply beqb_eq in E2; contradiction|].
        unfold keys_or_nil. destruct (bucket_keys P (a_buckets P st) q); reflexivity.
      + rewrite wb_keys by exact Hs. rewrite N.eqb_refl, HG, beqb_refl.
        unfold keys_or_nil. destruct (bucket_keys P (a_buckets P st) q) as [ks|] eqn:EB; simpl.
        * destruct (key_get ks key) eqn:EG; [reflexivity|].
          exfalso. unfold keys_or_nil in EU. rewrite EB in EU.
          assert (key_get ks' key = None) by (rewrite HG, beqb_refl; unfold keys_or_nil; rewrite EB, EG; reflexivity).
          clear - EU EG. revert ks' EU. induction ks as [|[k0 p0] ks IH]; simpl; intros ks' EU; [discriminate|].
          simpl in EG. destruct (beqb key k0); [discriminate|]. destruct (key_update P ks key _) eqn:E; [|discriminate]. eapply IH; eauto.
        * unfold keys_or_nil in EU. rewrite EB in EU. discriminate.
    - pose proof (key_update_none _ _ _ EU) as HN.
      destruct (usub now wait <? q) eqn:EO; simpl.
      + split; [|split; [|apply wb_sorted; exact Hs]].
        * intros q' k' Hne. rewrite wb_keys by exact Hs. destruct (q' =? q) eqn:E; [|reflexivity].
          apply N.eqb_eq in E. subst q'. destruct Hne as [Hne|Hne]; [contradiction|].
          rewrite key_get_app by exact HN. destruct (beqb k' key) eqn:E2; [apply beqb_eq in E2; contradiction|].
          unfold keys_or_nil. destruct (bucket_keys P (a_buckets P st) q); reflexivity.
        * rewrite wb_keys by exact Hs. rewrite N.eqb_refl, key_get_app, beqb_refl by exact HN.
          unfold keys_or_nil in HN. destruct (bucket_keys P (a_buckets P st) q); [rewrite HN|]; reflexivity.
      + split; [|split; [|apply wb_sorted; exact Hs]].
        * intros q' k' Hne. rewrite wb_keys by exact Hs. destruct (q' =? q) eqn:E; [|reflexivity].
          apply N.eqb_eq in E. subst q'. unfold keys_or_nil. destruct (bucket_keys P (a_buckets P st) q); reflexivity.
        * rewrite wb_keys by exact Hs. rewrite N.eqb_refl. rewrite HN.
          unfold keys_or_nil in HN. destruct (bucket_keys P (a_buckets P st) q); [rewrite HN|]; reflexivity.
  Qed.
End Buckets.
