(* C12: what Plain.Handle hands on does not depend on how the stream is chopped. *)
From CRNG Require Import Base.ListX Base.Bytes Model.Plain.
From Coq Require Import ZifyN ZifyNat ZifyBool.

Lemma split_lines_app a : forall b acc,
  split_lines (a ++ b) acc =
  let '(l1, r1) := split_lines a acc in
  let '(l2, r2) := split_lines b (rev r1) in (l1 ++ l2, r2).
Proof.
  induction a as [|c a IH]; intros b acc; simpl.
  - rewrite rev_involutive. destruct (split_lines b acc); reflexivity.
  - destruct (c =? 10).
    + rewrite IH. destruct (split_lines a []) as [l1 r1]. destruct (split_lines b (rev r1)) as [l2 r2]. reflexivity.
    + apply IH.
Qed.

Lemma split_lines_nonl p : forall d acc, ~ In 10 p -> split_lines (p ++ d) acc = split_lines d (rev p ++ acc).
Proof.
  induction p as [|c p IH]; intros d acc H; simpl; [reflexivity|].
  destruct (c =? 10) eqn:E; [apply N.eqb_eq in E; subst; exfalso; apply H; left; reflexivity|].
  rewrite IH by (intros Hi; apply H; right; exact Hi). rewrite <- app_assoc. reflexivity.
Qed.

Lemma split_lines_rest_nonl d : forall acc ls r, split_lines d acc = (ls, r) -> ~ In 10 acc -> ~ In 10 r.
Proof.
  induction d as [|c d IH]; intros acc ls r H Ha; simpl in H.
  - inversion H; subst. intros Hi. apply in_rev in Hi. exact (Ha Hi).
  - destruct (c =? 10) eqn:E.
    + destruct (split_lines d []) as [l1 r1] eqn:E1. inversion H; subst. eapply IH; [exact E1|intros []].
    + eapply IH; [exact H|]. intros [Hc|Hi]; [subst; rewrite N.eqb_refl in E; discriminate|exact (Ha Hi)].
Qed.

Lemma scan_lines_split d : forall acc n ls r, scan_lines d acc n = (ls, r, false) -> split_lines d acc = (ls, r).
Proof.
  induction d as [|c d IH]; intros acc n ls r H; simpl in *.
  - inversion H; reflexivity.
  - destruct (c =? 10).
    + destruct (scan_lines d [] 0) as [[l1 r1] t1] eqn:E1. inversion H; subst. rewrite (IH _ _ _ _ E1). reflexivity.
    + destruct (MAX_TOKEN <=? n + 1); [discriminate|]. eapply IH; exact H.
Qed.

(* the data a script delivers up to and including its final (EOF / error) read *)
Fixpoint data_of (script : list rres) : bytes :=
  match script with
  | [] => []
  | RData b :: r => b ++ data_of r
  | RDataEof b :: _ | RDataErr b :: _ => b
  | REof :: _ | RErr :: _ => []
  end.

Lemma spec_lines_pending pending d :
  ~ In 10 pending ->
  spec_lines (pending ++ d) = let '(ls, rest) := split_lines d (rev pending) in ls ++ finish rest.
Proof.
  intros H. unfold spec_lines. rewrite split_lines_nonl by exact H. rewrite app_nil_r.
  destruct (split_lines d (rev pending)); reflexivity.
Qed.

(* Every way of chopping a stream into reads (any cut positions, empty reads, data together with
   EOF or with an error) yields the lines of the stream, as long as the scanner neither hits its
   token limit nor gives up on 100 empty reads. *)
Theorem chunk_invariance script : forall pending empties ls st,
  plain_handle script pending empties = (ls, st) ->
  (st = SOk \/ st = SErr) -> ~ In 10 pending ->
  ls = spec_lines (pending ++ data_of script).
Proof.
  induction script as [|r script IH]; intros pending empties ls st H Hst Hp; cbn [plain_handle] in H.
  - inversion H; subst. destruct Hst; discriminate.
  - set (df := match r with
               | RData b => (b, None) | RDataEof b => (b, Some SOk) | RDataErr b => (b, Some SErr)
               | REof => ([], Some SOk) | RErr => ([], Some SErr) end) in H.
    destruct df as [data fin] eqn:Edf.
    destruct (scan_lines data (rev pending) (N.of_nat (length pending))) as [[l1 rest] tl] eqn:ES.
    destruct tl; [inversion H; subst; destruct Hst; discriminate|].
    apply scan_lines_split in ES.
    assert (Hrest : ~ In 10 rest).
    { eapply split_lines_rest_nonl; [exact ES|]. intros Hi. apply in_rev in Hi. exact (Hp Hi). }
    destruct fin as [st0|].
    + inversion H; subst.
      assert (data_of (r :: script) = data) as ->.
      { destruct r; simpl in *; inversion Edf; reflexivity. }
      rewrite spec_lines_pending by exact Hp. rewrite ES. reflexivity.
    + assert (exists b, r = RData b /\ data = b) as [b [-> ->]].
      { destruct r; simpl in Edf; inversion Edf. eauto. }
      assert (Hrec : forall e ls' st', plain_handle script rest e = (ls', st') -> (st' = SOk \/ st' = SErr) ->
                                       l1 ++ ls' = spec_lines (pending ++ data_of (RData b :: script))).
      { intros e ls' st' Hr Hs'. rewrite (IH rest e ls' st' Hr Hs' Hrest).
        cbn [data_of]. rewrite (spec_lines_pending rest _ Hrest), (spec_lines_pending pending _ Hp).
        rewrite split_lines_app, ES.
        destruct (split_lines (data_of script) (rev rest)) as [l2 r2]. rewrite app_assoc. reflexivity. }
      destruct b as [|c b'].
      * destruct (Nat.leb 100 empties); [inversion H; subst; destruct Hst; discriminate|].
        destruct (plain_handle script rest (S empties)) as [ls' st'] eqn:Er. inversion H; subst. eapply Hrec; eauto.
      * destruct (plain_handle script rest 0) as [ls' st'] eqn:Er. inversion H; subst. eapply Hrec; eauto.
Qed.

Corollary plain_chunk_invariance script ls st :
  plain script = (ls, st) -> (st = SOk \/ st = SErr) -> ls = spec_lines (data_of script).
Proof. intros H Hs. apply (chunk_invariance script [] 0 ls st H Hs). intros []. Qed.

(* ---- the limit: raw lines shorter than 64 KiB never trip the scanner --------- *)
Fixpoint lines_fit (s : bytes) (n : N) : bool :=
  match s with
  | [] => true
  | c :: s' => if c =? 10 then lines_fit s' 0 else (n + 1 <? MAX_TOKEN) && lines_fit s' (n + 1)
  end.

Lemma scan_fits d : forall acc n, lines_fit d n = true -> snd (scan_lines d acc n) = false.
Proof.
  induction d as [|c d IH]; intros acc n H; simpl in *; [reflexivity|].
  destruct (c =? 10).
  - specialize (IH [] 0 H). destruct (scan_lines d [] 0) as [[l r] t]. simpl in *. exact IH.
  - apply andb_true_iff in H as [H1 H2]. assert (MAX_TOKEN <=? n + 1 = false) as -> by lia. apply IH; exact H2.
Qed.

Lemma lines_fit_app a : forall b acc,
  lines_fit (a ++ b) (N.of_nat (length acc)) = true ->
  lines_fit a (N.of_nat (length acc)) = true /\
  lines_fit b (N.of_nat (length (snd (split_lines a acc)))) = true.
Proof.
  induction a as [|c a IH]; intros b acc H; simpl in *.
  - rewrite rev_length. auto.
  - destruct (c =? 10).
    + destruct (IH b [] H) as [H1 H2]. destruct (split_lines a []) as [l r]. simpl in *. auto.
    + apply andb_true_iff in H as [H1 H2]. rewrite H1. simpl.
      replace (N.of_nat (length acc) + 1) with (N.of_nat (length (c :: acc))) in H2 by (simpl; lia).
      destruct (IH b (c :: acc) H2) as [H3 H4].
      replace (N.of_nat (length acc) + 1) with (N.of_nat (length (c :: acc))) by (simpl; lia). auto.
Qed.

(* lines (and an unterminated tail) shorter than 64 KiB are never refused, however the stream is chopped *)
Theorem within_limit_never_too_long script : forall pending empties,
  lines_fit (data_of script) (N.of_nat (length pending)) = true ->
  snd (plain_handle script pending empties) <> STooLong.
Proof.
  induction script as [|r script IH]; intros pending empties H; cbn [plain_handle]; [discriminate|].
  set (df := match r with
             | RData b => (b, None) | RDataEof b => (b, Some SOk) | RDataErr b => (b, Some SErr)
             | REof => ([], Some SOk) | RErr => ([], Some SErr) end).
  destruct df as [data fin] eqn:Edf.
  assert (Hd : exists tail, data_of (r :: script) = data ++ tail /\ (fin = None -> tail = data_of script)).
  { destruct r; simpl in Edf; inversion Edf; subst; simpl.
    - exists (data_of script). auto.
    - exists []. rewrite app_nil_r. split; [reflexivity|discriminate].
    - exists []. rewrite app_nil_r. split; [reflexivity|discriminate].
    - exists []. split; [reflexivity|discriminate].
    - exists []. split; [reflexivity|discriminate]. }
  destruct Hd as [tail [Ed Ht]]. rewrite Ed in H.
  replace (length pending) with (length (rev pending)) in H by apply rev_length.
  destruct (lines_fit_app data tail (rev pending) H) as [H1 H2].
  pose proof (scan_fits data (rev pending) _ H1) as Hs. rewrite rev_length in Hs.
  destruct (scan_lines data (rev pending) (N.of_nat (length pending))) as [[l1 rest] tl] eqn:ES. simpl in Hs. subst tl.
  apply scan_lines_split in ES. rewrite ES in H2. simpl in H2.
  destruct fin as [st0|].
  - simpl. destruct r; simpl in Edf; inversion Edf; discriminate.
  - rewrite (Ht eq_refl) in H2. destruct data as [|c d'].
    + destruct (Nat.leb 100 empties); [discriminate|].
      specialize (IH rest (S empties) H2). destruct (plain_handle script rest (S empties)). exact IH.
    + specialize (IH rest 0%nat H2). destruct (plain_handle script rest 0). exact IH.
Qed.

(* AMQP after the repair: the lines of the body, whatever their length *)
Lemma amqp_lines_spec body :
  amqp_lines body = let '(ls, rest) := split_lines body [] in ls ++ match rest with [] => [] | _ => [rest] end.
Proof. reflexivity. Qed.

Lemma amqp_matches_plain body :
  (forall r, snd (split_lines body []) = r -> drop_cr r = r) -> amqp_lines body = spec_lines body.
Proof.
  intros H. unfold amqp_lines, spec_lines. destruct (split_lines body []) as [ls rest]. simpl in H.
  rewrite (H rest eq_refl). reflexivity.
Qed.

(* ---- the executable twins compute the same thing ------------------------------------------- *)
Lemma lrev_rev l : lrev l = rev l.
Proof. unfold lrev. rewrite rev_append_rev. apply app_nil_r. Qed.

Lemma drop_cr_fast_eq l : drop_cr_fast l = drop_cr l.
Proof. unfold drop_cr_fast, drop_cr. rewrite lrev_rev. destruct (rev l) as [|c r]; [reflexivity|]. rewrite lrev_rev. reflexivity. Qed.

Lemma scan_lines_fast_eq buf : forall acc n, scan_lines_fast buf acc n = scan_lines buf acc n.
Proof.
  induction buf as [|c buf IH]; intros acc n; simpl; [rewrite lrev_rev; reflexivity|].
  destruct (c =? 10); [rewrite IH, lrev_rev, drop_cr_fast_eq; reflexivity|].
  destruct (MAX_TOKEN <=? n + 1); [rewrite lrev_rev; reflexivity|apply IH].
Qed.

Lemma finish_fast_eq p : finish_fast p = finish p.
Proof. destruct p; [reflexivity|]. unfold finish_fast, finish. rewrite drop_cr_fast_eq. reflexivity. Qed.

Theorem plain_fast_eq script : forall pending e, plain_handle_fast script pending e = plain_handle script pending e.
Proof.
  induction script as [|r script IH]; intros pending e; cbn [plain_handle_fast plain_handle]; [reflexivity|].
  destruct (match r with RData b => (b, None) | RDataEof b => (b, Some SOk) | RDataErr b => (b, Some SErr)
                       | REof => ([], Some SOk) | RErr => ([], Some SErr) end) as [data fin].
  rewrite scan_lines_fast_eq, lrev_rev.
  destruct (scan_lines data (rev pending) (N.of_nat (length pending))) as [[ls rest] tl].
  destruct tl; [reflexivity|]. rewrite finish_fast_eq. destruct fin; [reflexivity|].
  destruct data; [destruct (Nat.leb 100 e); [reflexivity|]|]; rewrite IH; reflexivity.
Qed.

Lemma split_lines_fast_eq buf : forall acc, split_lines_fast buf acc = split_lines buf acc.
Proof.
  induction buf as [|c buf IH]; intros acc; simpl; [rewrite lrev_rev; reflexivity|].
  destruct (c =? 10); [rewrite IH, lrev_rev, drop_cr_fast_eq; reflexivity|apply IH].
Qed.

Theorem amqp_lines_fast_eq body : amqp_lines_fast body = amqp_lines body.
Proof. unfold amqp_lines_fast, amqp_lines. rewrite split_lines_fast_eq. reflexivity. Qed.
