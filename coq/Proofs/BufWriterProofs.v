(* C05: the buffered writer never loses, duplicates or reorders a byte; Write terminates under the io.Writer contract. *)
From CRNG Require Import Base.ListX Base.Bytes Model.BufWriter.
Local Open Scope nat_scope.

Definition stream (b : bw) : bytes := bw_out b ++ bw_buf b.        (* accepted by the endpoint so far, then still buffered *)

Lemma under_write_spec b p n e b1 :
  under_write b p = (n, e, b1) ->
  n <= length p /\ bw_out b1 = bw_out b ++ firstn n p /\ bw_buf b1 = bw_buf b /\ bw_cap b1 = bw_cap b /\
  bw_err b1 = bw_err b /\ (exists r, bw_script b = r :: bw_script b1 \/ (bw_script b = [] /\ bw_script b1 = [])).
Proof.
  unfold under_write, next_resp. destruct (bw_script b) as [|[[k|] e0] r] eqn:ES; intros H; inversion H; subst; simpl.
  - repeat split; auto. exists (None, false). right. auto.
  - repeat split; auto; try apply Nat.le_min_r. exists (Some k, e). left. reflexivity.
  - repeat split; auto. exists (None, e). left. reflexivity.
Qed.

Lemma flush_spec b b' e :
  bw_flush b = (b', e) ->
  stream b' = stream b /\ bw_cap b' = bw_cap b /\ length (bw_buf b') <= length (bw_buf b) /\
  (e = false -> bw_buf b' = [] /\ bw_err b' = false) /\ (e = true -> bw_err b' = true) /\ (bw_err b = true -> e = true).
Proof.
  unfold bw_flush, stream. destruct (bw_err b) eqn:EE.
  - intros H; inversion H; subst. repeat split; auto; try discriminate.
  - destruct (bw_buf b) as [|c buf] eqn:EB.
    + intros H; inversion H; subst. rewrite EB. repeat split; auto; try discriminate.
    + destruct (under_write b (c :: buf)) as [[n e0] b1] eqn:EU.
      apply under_write_spec in EU as [Hn [Ho [Hb [Hc [He _]]]]].
      destruct (e0 || (n <? length (c :: buf))) eqn:E1; intros H; inversion H; subst; simpl.
      * rewrite Ho, <- app_assoc, firstn_skipn. repeat split; auto; try discriminate.
        rewrite skipn_length. cbn [length]. lia.
      * apply orb_false_iff in E1 as [_ E2]. apply Nat.ltb_ge in E2.
        rewrite Ho, firstn_all2 by lia. rewrite app_nil_r. repeat split; auto; try discriminate; cbn [length]; lia.
Qed.

(* the main invariant of Write: the bytes it reports as taken are appended to the stream, nothing else
   changes, and the buffer stays within its capacity *)
Lemma write_spec fuel : forall b p nn b' nn' e,
  length (bw_buf b) <= bw_cap b ->
  bw_write fuel b p nn = Some (b', nn', e) ->
  nn <= nn' /\ nn' - nn <= length p /\
  stream b' = stream b ++ firstn (nn' - nn) p /\
  bw_cap b' = bw_cap b /\ length (bw_buf b') <= bw_cap b' /\
  (e = false -> nn' - nn = length p /\ bw_err b' = false) /\ (e = true -> bw_err b' = true).
Proof.
  induction fuel as [|f IH]; intros b p nn b' nn' e Hcap H; cbn [bw_write] in H.
  - destruct (Nat.ltb (avail b) (length p) && negb (bw_err b)) eqn:EC; [discriminate|].
    destruct (bw_err b) eqn:EE; inversion H; subst; unfold stream; simpl.
    + rewrite Nat.sub_diag. simpl. rewrite app_nil_r. repeat split; auto; try lia; discriminate.
    + replace (nn + length p - nn) with (length p) by lia. rewrite firstn_all, app_assoc.
      apply andb_false_iff in EC as [EC|EC]; [|discriminate]. apply Nat.ltb_ge in EC. unfold avail in EC.
      repeat split; auto; try lia; try discriminate. rewrite app_length. lia.
  - destruct (Nat.ltb (avail b) (length p) && negb (bw_err b)) eqn:EC.
    + apply andb_true_iff in EC as [EC1 EC2]. apply Nat.ltb_lt in EC1. apply negb_true_iff in EC2.
      destruct (bw_buf b) as [|c buf] eqn:EB.
      * destruct (under_write b p) as [[n e0] b1] eqn:EU.
        apply under_write_spec in EU as [Hn [Ho [Hb [Hc [He _]]]]].
        apply IH in H; [|simpl; lia]. simpl in H. destruct H as [H1 [H2 [H3 [H4 [H5 [H6 H7]]]]]].
        rewrite skipn_length in H2.
        split; [lia|]. split; [lia|]. split.
        { unfold stream in *. simpl in H3. rewrite H3, Ho, EB. rewrite !app_nil_r, <- app_assoc. f_equal.
          replace (nn' - nn) with (n + (nn' - (nn + n))) by lia. rewrite firstn_add_skipn. reflexivity. }
        split; [congruence|]. split; [exact H5|]. split; [|exact H7].
        intros He'. destruct (H6 He') as [H8 H9]. rewrite skipn_length in H8. split; [lia|exact H9].
      * set (k := avail b) in *.
        set (b1 := {| bw_cap := bw_cap b; bw_buf := (c :: buf) ++ firstn k p; bw_err := bw_err b; bw_out := bw_out b; bw_script := bw_script b |}) in *.
        destruct (bw_flush b1) as [b2 ef] eqn:EF.
        apply flush_spec in EF as [Hs [Hc [Hl [Hok [Herr _]]]]].
        assert (Hk : k <= length p) by (unfold k; lia).
        assert (Hb1 : length (bw_buf b1) <= bw_cap b1).
        { unfold b1. cbn [bw_buf bw_cap]. rewrite app_length, firstn_length, Nat.min_l by lia. unfold k, avail. rewrite EB in *. cbn [length] in *. lia. }
        apply IH in H; [|rewrite Hc; lia]. destruct H as [H1 [H2 [H3 [H4 [H5 [H6 H7]]]]]].
        rewrite skipn_length in H2.
        split; [lia|]. split; [lia|]. split.
        { rewrite H3, Hs. unfold stream, b1. cbn [bw_out bw_buf]. rewrite EB. rewrite <- !app_assoc. f_equal. f_equal.
          replace (nn' - nn) with (k + (nn' - (nn + k))) by lia. rewrite firstn_add_skipn. reflexivity. }
        split; [rewrite H4, Hc; reflexivity|]. split; [exact H5|]. split; [|exact H7].
        intros He'. destruct (H6 He') as [H8 H9]. rewrite skipn_length in H8. split; [lia|exact H9].
    + destruct (bw_err b) eqn:EE; inversion H; subst; unfold stream; simpl.
      * rewrite Nat.sub_diag. simpl. rewrite app_nil_r. repeat split; auto; try lia; discriminate.
      * replace (nn + length p - nn) with (length p) by lia. rewrite firstn_all, app_assoc.
        apply andb_false_iff in EC as [EC|EC]; [|discriminate]. apply Nat.ltb_ge in EC. unfold avail in EC.
        repeat split; auto; try lia; try discriminate. rewrite app_length. lia.
Qed.

(* ---- termination under the io.Writer contract ("n < len(p) implies an error") ------------- *)
Definition contract (s : list wresp) : Prop := forall r e, In (r, e) s -> e = false -> r = None.

Lemma contract_tail r s : contract (r :: s) -> contract s.
Proof. intros H x e Hi. apply H. right; exact Hi. Qed.

Lemma under_write_contract b p n e b1 :
  contract (bw_script b) -> under_write b p = (n, e, b1) -> contract (bw_script b1) /\ (e = false -> n = length p).
Proof.
  unfold under_write, next_resp. intros Hc. destruct (bw_script b) as [|[[k|] e0] r] eqn:ES; intros H; inversion H; subst; simpl.
  - split; [intros ? ? []|auto].
  - split; [eapply contract_tail; eauto|]. intros He. subst e. specialize (Hc (Some k) false (or_introl eq_refl) eq_refl). discriminate.
  - split; [eapply contract_tail; eauto|auto].
Qed.

Lemma write_done fuel b p nn : (Nat.ltb (avail b) (length p) && negb (bw_err b)) = false -> bw_write fuel b p nn <> None.
Proof. intros H. destruct fuel; cbn [bw_write]; rewrite H; destruct (bw_err b); discriminate. Qed.

Lemma write_from_empty fuel b p nn :
  contract (bw_script b) -> bw_buf b = [] -> bw_write (S fuel) b p nn <> None.
Proof.
  intros Hc Hb. cbn [bw_write]. destruct (Nat.ltb (avail b) (length p) && negb (bw_err b)) eqn:EC; [|destruct (bw_err b); discriminate].
  rewrite Hb. destruct (under_write b p) as [[n e] b1] eqn:EU.
  destruct (under_write_contract b p n e b1 Hc EU) as [_ Hn].
  apply write_done. cbn [bw_err bw_buf avail]. destruct e; [rewrite andb_false_r; reflexivity|].
  rewrite (Hn eq_refl), skipn_all. simpl. reflexivity.
Qed.

Lemma bw_write_unfold f b p nn :
  bw_write (S f) b p nn =
  if Nat.ltb (avail b) (length p) && negb (bw_err b) then
    match bw_buf b with
    | [] => let '(n, e, b1) := under_write b p in
            bw_write f {| bw_cap := bw_cap b1; bw_buf := []; bw_err := e; bw_out := bw_out b1; bw_script := bw_script b1 |} (skipn n p) (nn + n)
    | _ => let k := avail b in
           let b1 := {| bw_cap := bw_cap b; bw_buf := bw_buf b ++ firstn k p; bw_err := bw_err b; bw_out := bw_out b; bw_script := bw_script b |} in
           let '(b2, _) := bw_flush b1 in bw_write f b2 (skipn k p) (nn + k)
    end
  else if bw_err b then Some (b, nn, true)
  else Some ({| bw_cap := bw_cap b; bw_buf := bw_buf b ++ p; bw_err := false; bw_out := bw_out b; bw_script := bw_script b |}, nn + length p, false).
Proof. reflexivity. Qed.

Theorem write_terminates fuel b p nn :
  contract (bw_script b) -> bw_write (S (S fuel)) b p nn <> None.
Proof.
  intros Hc. destruct (bw_buf b) as [|c buf] eqn:EB; [apply write_from_empty; assumption|].
  rewrite bw_write_unfold. destruct (Nat.ltb (avail b) (length p) && negb (bw_err b)) eqn:EC; [|destruct (bw_err b); discriminate].
  rewrite EB. cbv zeta.
  set (b1 := {| bw_cap := bw_cap b; bw_buf := (c :: buf) ++ firstn (avail b) p; bw_err := bw_err b; bw_out := bw_out b; bw_script := bw_script b |}).
  destruct (bw_flush b1) as [b2 ef] eqn:EF.
  assert (Hc2 : contract (bw_script b2) /\ (bw_buf b2 = [] \/ bw_err b2 = true)).
  { unfold bw_flush in EF. destruct (bw_err b1) eqn:E1; [inversion EF; subst; split; [exact Hc|right; exact E1]|].
    destruct (bw_buf b1) as [|c1 buf1] eqn:EB1; [inversion EF; subst; split; [exact Hc|left; exact EB1]|].
    destruct (under_write b1 (c1 :: buf1)) as [[n e0] b3] eqn:EU.
    destruct (under_write_contract b1 _ n e0 b3 Hc EU) as [Hc3 _].
    destruct (e0 || (n <? length (c1 :: buf1))); inversion EF; subst; simpl; split; auto. }
  destruct Hc2 as [Hc2 [Hb2|He2]].
  - apply write_from_empty; assumption.
  - apply write_done. rewrite He2. apply andb_false_r.
Qed.

(* ---- a healthy connection: lines, each followed by one newline, in order ------------------- *)
Definition healthy (s : list wresp) : Prop := forall r e, In (r, e) s -> e = false /\ r = None.

Lemma healthy_contract s : healthy s -> contract s.
Proof. intros H r e Hi _. apply (H r e Hi). Qed.

Lemma under_write_healthy b p n e b1 :
  healthy (bw_script b) -> under_write b p = (n, e, b1) -> healthy (bw_script b1) /\ e = false /\ n = length p.
Proof.
  unfold under_write, next_resp. intros Hh. destruct (bw_script b) as [|[[k|] e0] r] eqn:ES; intros H; inversion H; subst; simpl.
  - split; [intros ? ? []|auto].
  - destruct (Hh (Some k) e (or_introl eq_refl)) as [_ Hx]. discriminate.
  - destruct (Hh None e (or_introl eq_refl)) as [-> _]. split; [|auto]. intros x y Hi. apply Hh. right; exact Hi.
Qed.

Lemma flush_healthy b b' e :
  healthy (bw_script b) -> bw_err b = false -> bw_flush b = (b', e) ->
  healthy (bw_script b') /\ e = false /\ bw_err b' = false /\ bw_buf b' = [] /\ bw_out b' = bw_out b ++ bw_buf b.
Proof.
  intros Hh He. unfold bw_flush. rewrite He. destruct (bw_buf b) as [|c buf] eqn:EB.
  - intros H; inversion H; subst. rewrite app_nil_r. auto.
  - destruct (under_write b (c :: buf)) as [[n e0] b1] eqn:EU.
    pose proof (under_write_spec _ _ _ _ _ EU) as [_ [Ho _]].
    destruct (under_write_healthy _ _ _ _ _ Hh EU) as [Hh1 [-> ->]].
    rewrite Nat.ltb_irrefl. simpl. intros H; inversion H; subst; simpl. rewrite Ho, firstn_all. auto.
Qed.

Lemma write_healthy fuel : forall b p nn b' nn' e,
  healthy (bw_script b) -> bw_err b = false ->
  bw_write fuel b p nn = Some (b', nn', e) -> healthy (bw_script b') /\ e = false.
Proof.
  induction fuel as [|f IH]; intros b p nn b' nn' e Hh He H.
  - cbn [bw_write] in H. destruct (Nat.ltb (avail b) (length p) && negb (bw_err b)); [discriminate|].
    rewrite He in H. inversion H; subst. auto.
  - rewrite bw_write_unfold in H. destruct (Nat.ltb (avail b) (length p) && negb (bw_err b)).
    + destruct (bw_buf b) as [|c buf] eqn:EB.
      * destruct (under_write b p) as [[n e0] b1] eqn:EU.
        destruct (under_write_healthy _ _ _ _ _ Hh EU) as [Hh1 [-> _]]. eapply IH; [| |exact H]; auto.
      * cbv zeta in H.
        set (b1 := {| bw_cap := bw_cap b; bw_buf := (c :: buf) ++ firstn (avail b) p; bw_err := bw_err b; bw_out := bw_out b; bw_script := bw_script b |}) in *.
        destruct (bw_flush b1) as [b2 ef] eqn:EF.
        destruct (flush_healthy b1 b2 ef Hh He EF) as [Hh2 [_ [He2 _]]]. eapply IH; [| |exact H]; auto.
    + rewrite He in H. inversion H; subst. auto.
Qed.

(* Conn.Write on a healthy connection appends exactly the line and one newline to the stream *)
Theorem conn_write_stream b line b' e :
  healthy (bw_script b) -> bw_err b = false -> length (bw_buf b) <= bw_cap b ->
  conn_write b line = Some (b', e) ->
  e = false /\ stream b' = stream b ++ line ++ [10%N] /\ healthy (bw_script b') /\ bw_err b' = false /\
  length (bw_buf b') <= bw_cap b' /\ bw_cap b' = bw_cap b.
Proof.
  intros Hh He Hcap. unfold conn_write.
  destruct (bw_write (WFUEL line) b line 0) as [[[b1 n] e1]|] eqn:W1; [|discriminate].
  destruct (write_healthy _ _ _ _ _ _ _ Hh He W1) as [Hh1 ->].
  destruct (write_spec _ _ _ _ _ _ _ Hcap W1) as [_ [_ [Hs1 [Hc1 [Hl1 [Hok1 _]]]]]].
  destruct (Hok1 eq_refl) as [Hn1 He1]. rewrite Nat.sub_0_r in Hn1, Hs1. subst n. rewrite firstn_all in Hs1.
  rewrite Nat.eqb_refl. cbn [negb andb].
  destruct (bw_write (WFUEL [10%N]) b1 [10%N] 0) as [[[b2 n2] e2]|] eqn:W2; [|discriminate].
  destruct (write_healthy _ _ _ _ _ _ _ Hh1 He1 W2) as [Hh2 ->].
  destruct (write_spec _ _ _ _ _ _ _ Hl1 W2) as [_ [_ [Hs2 [Hc2 [Hl2 [Hok2 _]]]]]].
  destruct (Hok2 eq_refl) as [Hn2 He2]. rewrite Nat.sub_0_r in Hn2, Hs2. simpl in Hn2. subst n2.
  intros H; inversion H; subst. simpl.
  split; [reflexivity|]. split; [rewrite Hs2, Hs1, <- app_assoc; reflexivity|]. split; [exact Hh2|]. split; [exact He2|].
  split; [exact Hl2|congruence].
Qed.

(* any interleaving of lines and flushes on a healthy connection: the stream is the lines in hand-off order, each
   once and each terminated by one newline; after a flush nothing is left in the buffer *)
Inductive cop := CLine (l : bytes) | CFlush.

Fixpoint conn_run (b : bw) (ops : list cop) : option bw :=
  match ops with
  | [] => Some b
  | CLine l :: r => match conn_write b l with Some (b', _) => conn_run b' r | None => None end
  | CFlush :: r => conn_run (fst (bw_flush b)) r
  end.

Fixpoint lines_of (ops : list cop) : bytes :=
  match ops with [] => [] | CLine l :: r => l ++ [10%N] ++ lines_of r | CFlush :: r => lines_of r end.

Theorem conn_stream ops : forall b b',
  healthy (bw_script b) -> bw_err b = false -> length (bw_buf b) <= bw_cap b ->
  conn_run b ops = Some b' -> stream b' = stream b ++ lines_of ops.
Proof.
  induction ops as [|[l|] r IH]; intros b b' Hh He Hcap H; simpl in H.
  - inversion H; subst. simpl. rewrite app_nil_r. reflexivity.
  - destruct (conn_write b l) as [[b1 e]|] eqn:W; [|discriminate].
    destruct (conn_write_stream _ _ _ _ Hh He Hcap W) as [_ [Hs [Hh1 [He1 [Hl1 _]]]]].
    rewrite (IH b1 b' Hh1 He1 Hl1 H), Hs. simpl. rewrite <- !app_assoc. reflexivity.
  - destruct (bw_flush b) as [b1 e] eqn:F. simpl in H.
    destruct (flush_healthy _ _ _ Hh He F) as [Hh1 [_ [He1 [Hb1 Ho1]]]].
    rewrite (IH b1 b' Hh1 He1 ltac:(rewrite Hb1; simpl; lia) H). simpl. f_equal.
    unfold stream. rewrite Hb1, Ho1, app_nil_r. reflexivity.
Qed.

Theorem flush_empties b b' e : healthy (bw_script b) -> bw_err b = false -> bw_flush b = (b', e) -> bw_buf b' = [] /\ bw_out b' = stream b.
Proof. intros Hh He F. destruct (flush_healthy _ _ _ Hh He F) as [_ [_ [_ [H1 H2]]]]. auto. Qed.

(* ---- the bounded queue: what is taken is what was offered minus exactly the counted drops, in order ---- *)
Fixpoint q_run (s : qst) (evs : list qev) : qst := match evs with [] => s | e :: r => q_run (q_step s e) r end.

Fixpoint offered (evs : list qev) : list bytes := match evs with [] => [] | Offer l :: r => l :: offered r | Take :: r => offered r end.

(* sub l m: l is a subsequence of m *)
Inductive subseq : list bytes -> list bytes -> Prop :=
| ss_nil : subseq [] []
| ss_keep x l m : subseq l m -> subseq (x :: l) (x :: m)
| ss_drop x l m : subseq l m -> subseq l (x :: m).

Lemma subseq_app_r l m x : subseq l m -> subseq (l ++ [x]) (m ++ [x]).
Proof. induction 1; simpl; [repeat constructor|constructor; assumption|constructor; assumption]. Qed.
Lemma subseq_drop_r l m x : subseq l m -> subseq l (m ++ [x]).
Proof. induction 1; simpl; [repeat constructor|constructor; assumption|constructor; assumption]. Qed.

Theorem queue_accounting evs : forall s seen,
  subseq (q_taken s ++ q_items s) seen -> length seen = length (q_taken s ++ q_items s) + q_dropped s ->
  let s' := q_run s evs in
  subseq (q_taken s' ++ q_items s') (seen ++ offered evs) /\
  length (seen ++ offered evs) = length (q_taken s' ++ q_items s') + q_dropped s'.
Proof.
  induction evs as [|ev r IH]; intros s seen Hs Hl; simpl.
  - rewrite app_nil_r. auto.
  - destruct ev as [l|]; simpl.
    + destruct (Nat.ltb (length (q_items s)) (q_cap s)).
      * replace (seen ++ l :: offered r) with ((seen ++ [l]) ++ offered r) by (rewrite <- app_assoc; reflexivity).
        apply IH; simpl.
        -- rewrite app_assoc. apply subseq_app_r. exact Hs.
        -- rewrite !app_length in *. simpl. lia.
      * replace (seen ++ l :: offered r) with ((seen ++ [l]) ++ offered r) by (rewrite <- app_assoc; reflexivity).
        apply IH; simpl.
        -- apply subseq_drop_r. exact Hs.
        -- rewrite !app_length in *. simpl. lia.
    + destruct (q_items s) as [|x items] eqn:EI.
      * apply IH; [rewrite EI; exact Hs|rewrite EI; exact Hl].
      * apply IH; simpl.
        -- rewrite <- app_assoc. simpl. exact Hs.
        -- rewrite <- app_assoc. simpl. exact Hl.
Qed.

(* ---- pickle mode framing ------------------------------------------------------------------- *)
From CRNG Require Import Model.DiskQueue Proofs.DQBasics.

Theorem frames_roundtrip ps :
  (forall p, In p ps -> (N.of_nat (length p) < 4294967296)%N) ->
  parse_frames (length ps) (concat (map frame ps)) = Some ps.
Proof.
  induction ps as [|p ps IH]; intros Hb; [reflexivity|].
  cbn [map concat length]. 
  assert (Hp : (N.of_nat (length p) < 4294967296)%N) by (apply Hb; left; reflexivity).
  destruct (frame_roundtrip p (concat (map frame ps)) Hp) as [H1 [H2 H3]].
  remember (frame p ++ concat (map frame ps)) as s eqn:Es.
  assert (Hne : s <> []) by (subst s; unfold frame, be32; discriminate).
  destruct s as [|c s']; [contradiction|]. cbn [parse_frames].
  rewrite H1, Nat2N.id.
  assert (Hlen : Nat.ltb (length (c :: s')) (4 + length p) = false).
  { apply Nat.ltb_ge. rewrite Es, app_length. unfold frame. rewrite app_length. unfold be32. simpl. lia. }
  rewrite Hlen, H2, H3, IH; [reflexivity|]. intros q Hq. apply Hb. right; exact Hq.
Qed.
