(* C13: protocols 2 and 3 with integers beyond int32 (LONG1): what CPython writes is decoded to the same numbers
   (big.Int values in og-rek) and becomes the same plain-text lines.  Same structure as PickleInProofs.v, the number step is new. *)
From CRNG Require Import Base.ListX Base.Bytes Base.Decimal Model.PickleVM Model.Reencode Model.PickleIn Model.PyPickle
  Proofs.ReencodeProofs Proofs.PickleInProofs.
From Coq Require Import ZifyN ZifyNat ZifyBool.
Ltac Zify.zify_post_hook ::= Z.div_mod_to_equations.
Local Open Scope N_scope.

Definition num_valL (x : pynum) : pv :=
  match x with
  | PyInt n => if n <? 2147483648 then VInt (Z.of_N n) else VLong (Z.of_N n)
  | PyFloat b => VFloat b
  end.
Definition item_valL (d : pydp) : pv := VTuple [VStr (d_name d); VTuple [num_valL (d_ts d); num_valL (d_val d)]].

(* ---------- arithmetic of the LONG1 encoding ---------- *)
Lemma rev_le_bytes_head k : forall n, exists t, rev (le_bytes (S k) n) = ((n / 256 ^ N.of_nat k) mod 256) :: t.
Proof.
  induction k as [|k IH]; intros n.
  - exists []. cbn [le_bytes rev app N.of_nat]. rewrite N.pow_0_r, N.div_1_r. reflexivity.
  - destruct (IH (n / 256)) as [t Ht].
    change (le_bytes (S (S k)) n) with (n mod 256 :: le_bytes (S k) (n / 256)).
    cbn [rev]. rewrite Ht. exists (t ++ [n mod 256]). cbn [app]. f_equal.
    rewrite N.div_div by (try apply N.pow_nonzero; lia).
    replace (N.of_nat (S k)) with (N.succ (N.of_nat k)) by lia. rewrite N.pow_succ_r by lia. reflexivity.
Qed.

Lemma long_bound n : 0 < n -> n < 128 * 256 ^ ((N.log2 n + 1) / 8).
Proof.
  intros Hn. set (b := N.log2 n + 1). set (q := b / 8).
  assert (Hb : n < 2 ^ b) by (unfold b; rewrite N.add_1_r; apply N.log2_spec; exact Hn).
  assert (Hq : b <= 8 * q + 7) by (unfold q; lia).
  assert (Hp : 2 ^ b <= 2 ^ (8 * q + 7)) by (apply N.pow_le_mono_r; lia).
  assert (He : 2 ^ (8 * q + 7) = 128 * 256 ^ q).
  { rewrite N.pow_add_r, N.pow_mul_r. change (2 ^ 8) with 256. change (2 ^ 7) with 128. lia. }
  lia.
Qed.

Lemma twos_long n :
  0 < n -> twos (le_bytes (N.to_nat (long_len n)) n) = Z.of_N n.
Proof.
  intros Hn. unfold long_len. set (q := (N.log2 n + 1) / 8).
  pose proof (long_bound n Hn) as Hb. fold q in Hb.
  replace (N.to_nat (q + 1)) with (S (N.to_nat q)) by lia.
  assert (Hpos : 0 < 256 ^ q) by (apply N.neq_0_lt_0; apply N.pow_nonzero; lia).
  assert (Hd : n / 256 ^ q < 128) by (apply N.div_lt_upper_bound; lia).
  assert (Hlen : le_num (le_bytes (S (N.to_nat q)) n) = n).
  { rewrite le_num_le_bytes. apply N.mod_small.
    replace (N.of_nat (S (N.to_nat q))) with (N.succ q) by lia. rewrite N.pow_succ_r by lia. lia. }
  unfold twos. destruct (rev_le_bytes_head (N.to_nat q) n) as [t Ht]. rewrite Ht.
  rewrite N2Nat.id. rewrite (N.mod_small (n / 256 ^ q) 256) by lia.
  replace (127 <? n / 256 ^ q) with false by lia.
  rewrite Hlen. reflexivity.
Qed.

Lemma enc_numL_small x : num_ok x = true -> enc_numL x = enc_num x.
Proof. destruct x as [n|b]; cbn [num_ok enc_numL]; intros H; [rewrite H|]; reflexivity. Qed.
Lemma num_valL_small x : num_ok x = true -> num_valL x = num_val x.
Proof. destruct x as [n|b]; cbn [num_ok num_valL num_val]; intros H; [rewrite H|]; reflexivity. Qed.
Lemma num_ok_okL x : num_ok x = true -> num_okL x = true.
Proof. destruct x as [n|b]; cbn [num_ok num_okL]; intros H; [rewrite H|]; auto. Qed.

Section Steps.
  Variable pf : bytes -> option N.
  Notation R := (run pf false).

  Lemma run_enc_numL f st mem x rest b :
    num_okL x = true ->
    R (S f) {| stk := st; memo := mem |} (enc_numL x ++ rest) b
    = R f {| stk := num_valL x :: st; memo := mem |} rest false.
  Proof.
    intros Hx. destruct x as [n|bits].
    - cbn [num_okL] in Hx. cbn [enc_numL num_valL]. destruct (n <? 2147483648) eqn:E.
      + rewrite (run_enc_num pf f st mem (PyInt n) rest b); [reflexivity | exact E].
      + cbn [orb] in Hx. cbn [app]. rewrite run_step.
        change (step pf false {| stk := st; memo := mem |} 138 (long_len n :: le_bytes (N.to_nat (long_len n)) n ++ rest))
          with (with_take 1 (long_len n :: le_bytes (N.to_nat (long_len n)) n ++ rest) (fun a r =>
                  if 127 <? le_num a then SNext (push (VLong 0) {| stk := st; memo := mem |}) r
                  else with_take_n (le_num a) r (fun b0 r' => SNext (push (VLong (twos b0)) {| stk := st; memo := mem |}) r'))).
        unfold with_take. cbn [take]. cbv beta iota.
        change (le_num [long_len n]) with (long_len n + 256 * 0). rewrite N.mul_0_r, N.add_0_r.
        replace (127 <? long_len n) with false by lia.
        unfold with_take_n.
        replace (long_len n) with (N.of_nat (length (le_bytes (N.to_nat (long_len n)) n))) at 1
          by (rewrite length_le_bytes; lia).
        rewrite take_n_app. cbv beta iota. rewrite twos_long by lia. reflexivity.
    - cbn [enc_numL num_valL]. rewrite (run_enc_num pf f st mem (PyFloat bits) rest b); [reflexivity | exact Hx].
  Qed.

  Lemma run_enc_itemL f st mem d i rest b :
    dp_okL d = true -> i + 2 < 4294967296 ->
    exists mem', R (8 + f) {| stk := st; memo := mem |} (enc_itemL d i ++ rest) b
                 = R f {| stk := item_valL d :: st; memo := mem' |} rest false.
  Proof.
    intros Hd Hi. unfold dp_okL in Hd. apply andb_true_iff in Hd as [Hd Hv]. apply andb_true_iff in Hd as [Hn Ht].
    unfold enc_itemL. rewrite <- !app_assoc. cbn [Nat.add].
    destruct (run_enc_str pf (S (S (S (S (S (S f)))))) st mem (d_name d) i
                (enc_numL (d_ts d) ++ enc_numL (d_val d) ++ [134] ++ put (i + 1) ++ [134] ++ put (i + 2) ++ rest) b
                ltac:(lia) ltac:(lia)) as [m1 ->].
    rewrite (run_enc_numL _ _ _ _ _ _ Ht), (run_enc_numL _ _ _ _ _ _ Hv).
    cbn [app]. rewrite run_tuple2.
    destruct (run_put pf (S (S f)) (VStr (d_name d) :: st) m1 (VTuple [num_valL (d_ts d); num_valL (d_val d)]) (i + 1)
                (134 :: put (i + 2) ++ rest) false ltac:(lia)) as [m2 ->].
    rewrite run_tuple2.
    destruct (run_put pf f st m2 (VTuple [VStr (d_name d); VTuple [num_valL (d_ts d); num_valL (d_val d)]]) (i + 2)
                rest false ltac:(lia)) as [m3 ->].
    exists m3. reflexivity.
  Qed.

  Lemma run_enc_itemsL ds : forall f st mem i rest b,
    forallb dp_okL ds = true -> i + 3 * N.of_nat (length ds) < 4294967296 ->
    exists mem', R (8 * length ds + f) {| stk := st; memo := mem |} (enc_itemsL ds i ++ rest) b
                 = R f {| stk := rev (map item_valL ds) ++ st; memo := mem' |} rest
                     (match ds with [] => b | _ => false end).
  Proof.
    induction ds as [|d ds IH]; intros f st mem i rest b Hok Hi.
    - exists mem. reflexivity.
    - cbn [forallb] in Hok. apply andb_true_iff in Hok as [Hd Hok]. cbn [length] in Hi.
      cbn [enc_itemsL length map rev]. rewrite <- app_assoc.
      replace (8 * S (length ds) + f)%nat with (8 + (8 * length ds + f))%nat by lia.
      destruct (run_enc_itemL (8 * length ds + f) st mem d i (enc_itemsL ds (i + 3) ++ rest) b Hd ltac:(lia)) as [m1 ->].
      destruct (IH f (item_valL d :: st) m1 (i + 3) rest false Hok ltac:(lia)) as [m2 E].
      exists m2. rewrite E. rewrite <- app_assoc. cbn [app].
      destruct ds; reflexivity.
  Qed.

  Lemma length_enc_itemsL ds : forall i, (8 * length ds <= length (enc_itemsL ds i))%nat.
  Proof.
    induction ds as [|d ds IH]; intros i; cbn [enc_itemsL length]; [lia|].
    rewrite app_length. specialize (IH (i + 3)).
    assert (8 <= length (enc_itemL d i))%nat; [|lia].
    unfold enc_itemL, enc_str. repeat (rewrite app_length || cbn [length]). rewrite ?length_le_bytes.
    assert (2 <= length (put i))%nat by (unfold put; destruct (i <? 256); cbn [length]; try rewrite length_le_bytes; lia).
    assert (2 <= length (put (i + 1)))%nat by (unfold put; destruct (i + 1 <? 256); cbn [length]; try rewrite length_le_bytes; lia).
    lia.
  Qed.

  Theorem unpickle_py_dumpsL proto ds :
    forallb dp_okL ds = true -> 3 * N.of_nat (length ds) + 1 < 4294967296 ->
    unpickle pf false (py_dumpsL proto ds) = RDone (VList (map item_valL ds)).
  Proof.
    intros Hok Hn. unfold unpickle.
    assert (HK : R (8 * length ds + 7) vm0 (py_dumpsL proto ds) true = RDone (VList (map item_valL ds))).
    { unfold py_dumpsL. cbn [app]. replace (8 * length ds + 7)%nat with (S (S (8 * length ds + 5))) by lia.
      rewrite run_step. change (step pf false vm0 128 ?s) with (SNext vm0 (tl s)). cbv beta iota. cbn [tl].
      rewrite run_step.
      match goal with |- context [step pf false ?m 93 ?s] => change (step pf false m 93 s) with (SNext (push (VList []) m) s) end.
      cbv beta iota. unfold push, vm0. cbn [stk memo].
      replace (8 * length ds + 5)%nat with (S (8 * length ds + 4)) by lia.
      destruct (run_put pf (8 * length ds + 4) [] [] (VList []) 0
                  (match ds with [] => [] | [d] => enc_itemL d 1 ++ [97] | _ :: _ :: _ => 40 :: enc_itemsL ds 1 ++ [101] end ++ [46])
                  false ltac:(lia)) as [m0 ->].
      destruct ds as [|d [|d2 ds]].
      - cbn [app length Nat.mul Nat.add]. reflexivity.
      - cbn [forallb] in Hok. apply andb_true_iff in Hok as [Hd _].
        rewrite <- app_assoc. cbn [length].
        replace (8 * 1 + 4)%nat with (8 + 4)%nat by lia.
        destruct (run_enc_itemL 4 [VList []] m0 d 1 ([97] ++ [46]) false Hd ltac:(lia)) as [m1 ->].
        reflexivity.
      - remember (d :: d2 :: ds) as dl eqn:Edl.
        cbn [app]. rewrite <- app_assoc.
        replace (8 * length dl + 4)%nat with (S (8 * length dl + 3)) by lia.
        rewrite run_step.
        match goal with |- context [step pf false ?m 40 ?s] => change (step pf false m 40 s) with (SNext (push VMark m) s) end.
        cbv beta iota. unfold push. cbn [stk memo].
        destruct (run_enc_itemsL dl 3 [VMark; VList []] m0 1 ([101] ++ [46]) false Hok ltac:(lia)) as [m1 E].
        rewrite E. replace (match dl with [] => false | _ :: _ => false end) with false by (destruct dl; reflexivity).
        cbn [app]. rewrite run_step.
        assert (Hsm : split_mark (rev (map item_valL dl) ++ [VMark; VList []]) [] = Some (map item_valL dl, [VList []])).
        { rewrite (split_mark_rev (map item_valL dl) [VList []] []); [rewrite app_nil_r; reflexivity|].
          intros v Hv. apply in_map_iff in Hv as [x [<- _]]. discriminate. }
        change (step pf false {| stk := rev (map item_valL dl) ++ [VMark; VList []]; memo := m1 |} 101 [46])
          with (match split_mark (rev (map item_valL dl) ++ [VMark; VList []]) [] with
                | Some (items, VList xs :: r) =>
                    SNext (set_stk (VList (xs ++ items) :: r) {| stk := rev (map item_valL dl) ++ [VMark; VList []]; memo := m1 |}) [46]
                | _ => SFail RErr
                end).
        rewrite Hsm. reflexivity. }
    rewrite (run_more pf false (8 * length ds + 7)); [exact HK | rewrite HK; discriminate |].
    unfold py_dumpsL. rewrite !app_length.
    assert (H2 : (2 <= length (put 0))%nat) by (cbn; lia).
    destruct ds as [|d [|d2 ds]].
    - cbn [length] in *. lia.
    - pose proof (length_enc_itemsL [d] 1) as L. cbn [enc_itemsL] in L. rewrite app_nil_r in L.
      rewrite app_length. cbn [length] in *. lia.
    - pose proof (length_enc_itemsL (d :: d2 :: ds) 1) as L.
      rewrite !app_length. cbn [length] in *. lia.
  Qed.
End Steps.

(* the LONG1 model agrees with the int32 model wherever the latter applies *)
Lemma enc_itemsL_small ds : forall i, forallb dp_ok ds = true -> enc_itemsL ds i = enc_items ds i.
Proof.
  induction ds as [|d ds IH]; intros i H; [reflexivity|].
  cbn [forallb] in H. apply andb_true_iff in H as [Hd H]. cbn [enc_itemsL enc_items]. rewrite (IH _ H). f_equal.
  unfold dp_ok in Hd. apply andb_true_iff in Hd as [Hd Hv]. apply andb_true_iff in Hd as [_ Ht].
  unfold enc_itemL, enc_item. rewrite (enc_numL_small _ Ht), (enc_numL_small _ Hv). reflexivity.
Qed.
Lemma py_dumpsL_small proto ds : forallb dp_ok ds = true -> py_dumpsL proto ds = py_dumps proto ds.
Proof.
  intros H. unfold py_dumpsL, py_dumps. rewrite (enc_itemsL_small ds 1 H).
  destruct ds as [|d [|d2 ds]]; try reflexivity.
  pose proof (enc_itemsL_small [d] 1 H) as E. cbn [enc_itemsL enc_items] in E. rewrite !app_nil_r in E. rewrite E. reflexivity.
Qed.

(* ---------- the connection ---------- *)
Section Conn.
  Variable pf : bytes -> option N.
  Variable fmt6 fmt0 : N -> bytes.

  Lemma handle_item_valL d : handle_item fmt6 fmt0 (item_valL d) = EvLine (line_of fmt6 fmt0 d).
  Proof.
    unfold handle_item, item_valL, line_of. cbn [as_seq].
    destruct (d_val d) as [n|b], (d_ts d) as [n'|b']; cbn [num_valL num_text];
      repeat match goal with |- context [if ?c then _ else _] => destruct c end;
      cbn [value_text ts_text]; rewrite ?Z_to_dec_of_N; reflexivity.
  Qed.

  Definition frame_okL (proto : N) (ds : list pydp) : Prop :=
    forallb dp_okL ds = true /\ 3 * N.of_nat (length ds) + 1 < 4294967296 /\
    N.of_nat (length (py_dumpsL proto ds)) <= max_payload.

  Lemma handle_frameL f proto ds rest :
    frame_okL proto ds ->
    handle_stream pf fmt6 fmt0 (S f) (frame_of (py_dumpsL proto ds) ++ rest)
    = let (evs, fn) := handle_stream pf fmt6 fmt0 f rest in
      (map (fun d => EvLine (line_of fmt6 fmt0 d)) ds ++ evs, fn).
  Proof.
    intros [Hok [Hn Hmax]]. unfold frame_of.
    rewrite <- (app_assoc (be_bytes 4 (N.of_nat (length (py_dumpsL proto ds)))) (py_dumpsL proto ds) rest).
    set (p := py_dumpsL proto ds) in *.
    assert (Hp3 : exists t, p = 128 :: proto :: 93 :: t) by (unfold p, py_dumpsL; cbn [app]; eexists; reflexivity).
    destruct Hp3 as [t Ep].
    cbn [handle_stream].
    assert (Hne : exists c r, be_bytes 4 (N.of_nat (length p)) ++ p ++ rest = c :: r).
    { unfold be_bytes. cbn [le_bytes rev app]. rewrite <- ?app_assoc. cbn [app]. eexists _, _. reflexivity. }
    destruct Hne as [c0 [r0 E0]]. rewrite E0, <- E0.
    assert (Ht : take 4 (be_bytes 4 (N.of_nat (length p)) ++ p ++ rest) = Some (be_bytes 4 (N.of_nat (length p)), p ++ rest)).
    { replace 4%nat with (length (be_bytes 4 (N.of_nat (length p)))) at 1
        by (unfold be_bytes; rewrite rev_length; apply length_le_bytes).
      apply take_app. }
    rewrite Ht. cbv zeta. rewrite be_num_be_bytes.
    change (256 ^ N.of_nat 4) with 4294967296.
    unfold max_payload in *. rewrite N.mod_small by lia.
    replace (524288000 <? N.of_nat (length p)) with false by lia.
    replace (check_protocol (p ++ rest)) with true by (rewrite Ep; reflexivity).
    cbn [negb]. rewrite take_n_app.
    unfold p. rewrite (unpickle_py_dumpsL pf proto ds Hok Hn).
    destruct (handle_stream pf fmt6 fmt0 f rest) as [evs fn].
    rewrite map_map. f_equal. f_equal. apply map_ext. intros d. apply handle_item_valL.
  Qed.

  Theorem handle_framesL (pss : list (N * list pydp)) : forall f,
    Forall (fun pd => frame_okL (fst pd) (snd pd)) pss ->
    (length pss < f)%nat ->
    handle_stream pf fmt6 fmt0 f (concat (map (fun pd => frame_of (py_dumpsL (fst pd) (snd pd))) pss))
    = (concat (map (fun pd => map (fun d => EvLine (line_of fmt6 fmt0 d)) (snd pd)) pss), FinOk).
  Proof.
    induction pss as [|[proto ds] pss IH]; intros f Hall Hf.
    - destruct f; [lia|]. reflexivity.
    - destruct f as [|f]; [cbn in Hf; lia|].
      inversion Hall as [|? ? H1 H2]; subst. cbn [map concat fst snd].
      rewrite (handle_frameL f proto ds _ H1).
      rewrite (IH f H2 ltac:(cbn [length] in Hf; lia)). reflexivity.
  Qed.

  Theorem handle_conn_framesL (pss : list (N * list pydp)) :
    Forall (fun pd => frame_okL (fst pd) (snd pd)) pss ->
    handle_conn pf fmt6 fmt0 (concat (map (fun pd => frame_of (py_dumpsL (fst pd) (snd pd))) pss))
    = (concat (map (fun pd => map (fun d => EvLine (line_of fmt6 fmt0 d)) (snd pd)) pss), FinOk).
  Proof.
    intros Hall. unfold handle_conn. apply handle_framesL; [exact Hall|].
    assert (G : forall l : list (N * list pydp),
               (length l <= length (concat (map (fun pd => frame_of (py_dumpsL (fst pd) (snd pd))) l)))%nat).
    { induction l as [|x l IHl]; cbn [map concat length]; [lia|].
      rewrite app_length. unfold frame_of at 1. rewrite app_length. unfold be_bytes. rewrite rev_length, length_le_bytes. lia. }
    specialize (G pss). lia.
  Qed.
End Conn.
