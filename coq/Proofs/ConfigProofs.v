(* C20: the destination option loop yields the documented entry; interpolation leaves undocumented '$' sequences alone. *)
From CRNG Require Import Base.ListX Base.Bytes Base.Decimal Model.Config.

Definition well_typed (a : bytes * aval) : Prop := opt_type (fst a) = Some (aval_type (snd a)).

Lemma read_opts_assign a r acc : well_typed a ->
  read_opts (assign_tokens a ++ r) acc = read_opts r (kv_set acc (fst a) (aval_txt (snd a))).
Proof.
  unfold well_typed. destruct a as [k v]. simpl. intros H. rewrite H. destruct v; reflexivity.
Qed.

(* any options, in any order, then the end of the input or a separator: the settings are the starting ones
   updated by exactly those options, each with its own value; what follows the separator is left for the next destination *)
Lemma read_opts_spec assigns : forall acc,
  Forall well_typed assigns ->
  (read_opts (flat_map assign_tokens assigns) acc = Some (entry acc (map assign_kv assigns), [])) /\
  (forall r, read_opts (flat_map assign_tokens assigns ++ TSep :: r) acc = Some (entry acc (map assign_kv assigns), r)).
Proof.
  induction assigns as [|a assigns IH]; intros acc H.
  - split; [reflexivity|intros r; reflexivity].
  - inversion H as [|? ? Ha Hr]; subst. cbn [flat_map map]. unfold entry in *. cbn [fold_left].
    destruct (IH (kv_set acc (fst a) (aval_txt (snd a))) Hr) as [I1 I2]. split.
    + rewrite read_opts_assign by exact Ha. exact I1.
    + intros r. rewrite <- app_assoc, read_opts_assign by exact Ha. apply I2.
Qed.

(* a destination as written: address, then its options *)
Definition dest_tokens (d : bytes * list (bytes * aval)) : list tok := TWord (fst d) :: flat_map assign_tokens (snd d).
Definition dest_entry (d : bytes * list (bytes * aval)) : list kv :=
  entry (kv_set dest_defaults S_addr (fst d)) (map assign_kv (snd d)).

Fixpoint dests_tokens (ds : list (bytes * list (bytes * aval))) : list tok :=
  match ds with
  | [] => []
  | [d] => dest_tokens d
  | d :: ds' => dest_tokens d ++ TSep :: dests_tokens ds'
  end.

Lemma read_destination_spec d : Forall well_typed (snd d) ->
  read_destination (dest_tokens d) = Some (dest_entry d, []) /\
  forall r, read_destination (dest_tokens d ++ TSep :: r) = Some (dest_entry d, r).
Proof.
  intros Hd. destruct (read_opts_spec (snd d) (kv_set dest_defaults S_addr (fst d)) Hd) as [I1 I2].
  unfold dest_tokens, dest_entry, read_destination. split; [exact I1|]. intros r. cbn [app]. apply I2.
Qed.

Lemma read_destinations_word f a x :
  read_destinations (S f) (TWord a :: x) =
  match read_destination (TWord a :: x) with
  | Some (d, r) => match read_destinations f r with Some ds => Some (d :: ds) | None => None end
  | None => None
  end.
Proof. reflexivity. Qed.

(* several destinations separated by the double space: every option lands on its own destination *)
Theorem read_destinations_spec ds : forall fuel,
  Forall (fun d => Forall well_typed (snd d)) ds -> (length ds < fuel)%nat ->
  read_destinations fuel (dests_tokens ds) = Some (map dest_entry ds).
Proof.
  induction ds as [|d ds IH]; intros fuel H Hf.
  - destruct fuel; [inversion Hf|reflexivity].
  - inversion H as [|? ? Hd Hr]; subst. destruct fuel as [|f]; [inversion Hf|].
    destruct (read_destination_spec d Hd) as [I1 I2].
    destruct ds as [|d2 ds'].
    + cbn [dests_tokens]. unfold dest_tokens in *. rewrite read_destinations_word, I1.
      destruct f; [simpl in Hf; lia|]. reflexivity.
    + change (dests_tokens (d :: d2 :: ds')) with (dest_tokens d ++ TSep :: dests_tokens (d2 :: ds')).
      specialize (I2 (dests_tokens (d2 :: ds'))). unfold dest_tokens in I2 |- *. cbn [app] in I2 |- *.
      rewrite read_destinations_word, I2.
      rewrite (IH f Hr) by (simpl in *; lia). reflexivity.
Qed.

(* ---- interpolation ---------------------------------------------------------------------------- *)
Lemma span_name_app t : let '(a, b) := span_name t in t = a ++ b.
Proof.
  induction t as [|c t IH]; simpl; [reflexivity|].
  destruct (is_name_char c); [|reflexivity]. destruct (span_name t) as [a b]. simpl. f_equal. exact IH.
Qed.

Lemma span_name_len t : (length (snd (span_name t)) <= length t)%nat.
Proof.
  induction t as [|c t IH]; simpl; [lia|]. destruct (is_name_char c); [|simpl; lia].
  destruct (span_name t) as [a b]. simpl in *. lia.
Qed.

(* a text that refers to no documented variable is left exactly as it is: $1, ${1}, $$, "${", ... included *)
Theorem expand_identity vars fuel : forall t,
  (length t < fuel)%nat -> (forall n, In n (refs fuel t) -> kv_get vars n = None) -> expand_go fuel vars t = t.
Proof.
  induction fuel as [|f IH]; intros t Hl Hr; [lia|].
  destruct t as [|c t']; [reflexivity|]. cbn [expand_go refs] in *.
  destruct (c =? 36) eqn:Ec; cbn [negb] in *.
  2:{ f_equal. apply IH; [simpl in *; lia|exact Hr]. }
  apply N.eqb_eq in Ec. subst c.
  assert (Plain : (forall n, In n (let '(name, rest) := span_name t' in match name with _ :: _ => name :: refs f rest | [] => refs f t' end) -> kv_get vars n = None) ->
                  (let '(name, rest) := span_name t' in
                   match name with
                   | _ :: _ => match kv_get vars name with Some v => v ++ expand_go f vars rest | None => 36 :: name ++ expand_go f vars rest end
                   | [] => 36 :: expand_go f vars t'
                   end) = 36 :: t').
  { intros Hp. pose proof (span_name_app t') as Hs. pose proof (span_name_len t') as Hn.
    destruct (span_name t') as [name rest]. simpl in Hn. destruct name as [|n0 name'].
    - f_equal. apply IH; [simpl in *; lia|exact Hp].
    - rewrite (Hp (n0 :: name') (or_introl eq_refl)). rewrite IH; [rewrite Hs; reflexivity|simpl in *; lia|].
      intros n Hin. apply Hp. right; exact Hin. }
  destruct t' as [|c2 t'']; [apply Plain; exact Hr|].
  destruct (c2 =? 123) eqn:E2; [|apply Plain; exact Hr].
  apply N.eqb_eq in E2. subst c2.
  pose proof (span_name_app t'') as Hs. pose proof (span_name_len t'') as Hn.
  destruct (span_name t'') as [name rest]. simpl in Hn.
  destruct name as [|n0 name']; [f_equal; apply IH; [simpl in *; lia|exact Hr]|].
  destruct rest as [|c3 rest']; [f_equal; apply IH; [simpl in *; lia|exact Hr]|].
  destruct (c3 =? 125) eqn:E3; [|f_equal; apply IH; [simpl in *; lia|exact Hr]].
  apply N.eqb_eq in E3. subst c3.
  rewrite (Hr (n0 :: name') (or_introl eq_refl)).
  rewrite IH; [rewrite Hs; reflexivity|simpl in *; lia|].
  intros n Hin. apply Hr. right; exact Hin.
Qed.
