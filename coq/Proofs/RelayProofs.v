(* C06: accounting identities of the relay loop, for every event sequence. *)
From CRNG Require Import Base.Bytes Model.Relay.
From Coq Require Import ZifyN ZifyNat ZifyBool.
Local Open Scope N_scope.

Definition conserved (s : rst) : Prop :=
  n_in s + n_unspooled s = n_enq s + n_slow s + n_spooled s + n_slowspool s + n_noconn s.

Ltac crush_step :=
  unfold rstep, send, upd in *;
  repeat match goal with
         | H : context [if ?b then _ else _] |- _ => destruct b eqn:?; try discriminate
         | H : Some _ = Some _ |- _ => inversion H; subst; clear H
         | H : None = Some _ |- _ => discriminate H
         end.

Lemma step_conserved s e s' outs : rstep s e = Some (s', outs) -> conserved s -> conserved s'.
Proof.
  intros H C. unfold conserved in *. destruct s; destruct e; cbn in *; crush_step; cbn in *; lia.
Qed.

Lemma init_conserved b : conserved (rinit b).
Proof. unfold conserved; cbn. lia. Qed.

Theorem run_conserved evs : forall s s', rrun s evs = Some s' -> conserved s -> conserved s'.
Proof.
  induction evs as [|e evs IH]; cbn [rrun]; intros s s' H C.
  - inversion H; subst; exact C.
  - destruct (rstep s e) as [[s1 outs]|] eqn:E; [|discriminate].
    eapply IH; [exact H|]. eapply step_conserved; eauto.
Qed.

(* handing a line over is always possible and never waits for anybody *)
Theorem hand_off_total s room : r_stopped s = false ->
  exists s' o, rstep s (EvIn room) = Some (s', [o]) /\ may_wait o = false /\ n_in s' = n_in s + 1.
Proof.
  intros H. unfold rstep. rewrite H.
  destruct (r_conn s) eqn:Ec.
  - unfold send. destruct room; eexists _, _; (split; [reflexivity|]); cbn; split; reflexivity.
  - destruct (r_spool s); [destruct room|]; eexists _, _; (split; [reflexivity|]); cbn; split; reflexivity.
Qed.

(* only flush and shutdown requests make the loop wait for the conn's goroutines *)
Theorem only_flush_and_shutdown_wait s e s' outs :
  rstep s e = Some (s', outs) -> existsb may_wait outs = true -> e = EvFlush \/ e = EvShutdown.
Proof.
  intros H W. destruct e; auto; exfalso; destruct s; cbn in *; crush_step; cbn in *; discriminate.
Qed.

Theorem steady_up s room : r_conn s = true -> r_stopped s = false ->
  exists s', rstep s (EvIn room) = Some (s', [if room then OEnq else OSlow]) /\
             r_conn s' = true /\ n_in s' = n_in s + 1 /\ n_noconn s' = n_noconn s /\
             n_spooled s' = n_spooled s /\ n_slowspool s' = n_slowspool s /\
             (if room then n_enq s' = n_enq s + 1 /\ n_slow s' = n_slow s
              else n_enq s' = n_enq s /\ n_slow s' = n_slow s + 1).
Proof.
  intros Hc Hs. unfold rstep, send. rewrite Hs, Hc.
  destruct room; eexists; (split; [reflexivity|]); cbn; repeat split; auto.
Qed.

Theorem steady_down_nospool s room : r_conn s = false -> r_spool s = false -> r_stopped s = false ->
  exists s', rstep s (EvIn room) = Some (s', [ONoConn]) /\
             r_conn s' = false /\ n_in s' = n_in s + 1 /\ n_noconn s' = n_noconn s + 1 /\
             n_enq s' = n_enq s /\ n_slow s' = n_slow s.
Proof.
  intros Hc Hp Hs. unfold rstep. rewrite Hs, Hc, Hp.
  eexists; (split; [reflexivity|]); cbn; repeat split; auto.
Qed.

(* whole phases, spooling off *)
Definition is_dead (e : rev) : bool := match e with EvDead => true | _ => false end.
Definition is_connup (e : rev) : bool := match e with EvConnUp => true | _ => false end.

Theorem phase_up evs : forall s s',
  r_spool s = false -> r_conn s = true -> existsb is_dead evs = false ->
  rrun s evs = Some s' ->
  r_conn s' = true /\ n_noconn s' = n_noconn s /\
  n_in s' - n_in s = (n_enq s' - n_enq s) + (n_slow s' - n_slow s) /\
  n_in s <= n_in s' /\ n_enq s <= n_enq s' /\ n_slow s <= n_slow s'.
Proof.
  induction evs as [|e evs IH]; cbn [rrun existsb]; intros s s' Hp Hc Hd H.
  - inversion H; subst. repeat split; auto; lia.
  - apply orb_false_iff in Hd as [He Hd].
    destruct (rstep s e) as [[s1 outs]|] eqn:E; [|discriminate].
    assert (G : r_spool s1 = false /\ r_conn s1 = true /\ n_noconn s1 = n_noconn s /\
                n_in s1 - n_in s = (n_enq s1 - n_enq s) + (n_slow s1 - n_slow s) /\
                n_in s <= n_in s1 /\ n_enq s <= n_enq s1 /\ n_slow s <= n_slow s1).
    { destruct s; destruct e; cbn in *; subst; try discriminate; crush_step; cbn in *; repeat split; auto; lia. }
    destruct G as [G1 [G2 [G3 [G4 [G5 [G6 G7]]]]]].
    destruct (IH s1 s' G1 G2 Hd H) as [I1 [I2 [I3 [I4 [I5 I6]]]]].
    repeat split; auto; lia.
Qed.

Theorem phase_down evs : forall s s',
  r_spool s = false -> r_conn s = false -> existsb is_connup evs = false ->
  rrun s evs = Some s' ->
  r_conn s' = false /\ n_enq s' = n_enq s /\ n_slow s' = n_slow s /\
  n_in s' - n_in s = n_noconn s' - n_noconn s /\ n_in s <= n_in s' /\ n_noconn s <= n_noconn s'.
Proof.
  induction evs as [|e evs IH]; cbn [rrun existsb]; intros s s' Hp Hc Hd H.
  - inversion H; subst. repeat split; auto; lia.
  - apply orb_false_iff in Hd as [He Hd].
    destruct (rstep s e) as [[s1 outs]|] eqn:E; [|discriminate].
    assert (G : r_spool s1 = false /\ r_conn s1 = false /\ n_enq s1 = n_enq s /\ n_slow s1 = n_slow s /\
                n_in s1 - n_in s = n_noconn s1 - n_noconn s /\ n_in s <= n_in s1 /\ n_noconn s <= n_noconn s1).
    { destruct s; destruct e; cbn in *; subst; try discriminate; crush_step; cbn in *; repeat split; auto; lia. }
    destruct G as [G1 [G2 [G3 [G4 [G5 [G6 G7]]]]]].
    destruct (IH s1 s' G1 G2 Hd H) as [I1 [I2 [I3 [I4 [I5 I6]]]]].
    repeat split; auto; lia.
Qed.

(* the backlog is only unspooled through a live conn that has not been slow in this or the last period *)
Theorem unspool_gate s room s' outs :
  rstep s (EvUnspool room) = Some (s', outs) ->
  r_conn s = true /\ r_spool s = true /\ r_slow_now s = false /\ r_slow_last s = false.
Proof.
  unfold rstep. destruct (r_stopped s); [discriminate|].
  destruct (r_conn s), (r_spool s), (r_slow_last s), (r_slow_now s); cbn; try discriminate. auto.
Qed.

Example relay_example :
  rrun (rinit false) [EvUpdStart; EvConnUp; EvUpdEnd; EvIn true; EvIn false; EvTick; EvDead; EvIn true; EvTick; EvTick]
  = Some {| r_conn := false; r_spool := false; r_slow_now := false; r_slow_last := false; r_upd := 0; r_stopped := false;
            n_in := 3; n_unspooled := 0; n_enq := 1; n_slow := 1; n_spooled := 0; n_slowspool := 0; n_noconn := 1 |}.
Proof. vm_compute. reflexivity. Qed.
