(* Disk queue: FIFO refinement through the byte level (file contents, frames, the buffered read handle,
   read-ahead, sync bookkeeping), for histories of puts and gets that stay within the first segment
   (no roll-over: the bytes written never exceed maxBytesPerFile). *)
From CRNG Require Import Base.ListX Base.Bytes Base.Decimal Model.DiskQueue Proofs.DQBasics Proofs.DQReader.
From Coq Require Import ZifyN ZifyNat ZifyBool.
Local Open Scope N_scope.

Definition seg0 (d : dq) : bytes := match seg_get (f_segs (fs d)) 0 with Some x => x | None => [] end.

Definition frames (q : list bytes) : bytes := concat (map frame q).

(* the handle is consistent with the file at position p, or there is no handle *)
Definition handle_ok (C : bytes) (r : option rhandle) (p : nat) : Prop :=
  match r with
  | Some h => hinv C h p /\ h_num h = 0
  | None => True
  end.

Record qinv (c : cfg) (d : dq) (q : list bytes) : Prop := {
  qi_files : readFileNum d = 0 /\ writeFileNum d = 0 /\ nextReadFileNum d = 0;
  qi_wpos : (N.to_nat (writePos d) <= length (seg0 d))%nat;
  qi_exists : writePos d = 0 \/ seg_get (f_segs (fs d)) 0 = Some (seg0 d);
  qi_room : writePos d <= c_max c;
  qi_rpos : readPos d <= writePos d;
  qi_data : skipn (N.to_nat (readPos d)) (seg0 d) = frames q ++ skipn (N.to_nat (writePos d)) (seg0 d);
  qi_depth : depth d = Z.of_nat (length q);
  qi_small : forall m, In m q -> N.of_nat (length m) < 2147483648;
  qi_head : match q with
            | [] => ready d = false /\ nextReadPos d = readPos d /\ handle_ok (seg0 d) (rfile d) (N.to_nat (readPos d))
            | m :: _ => ready d = true /\ pending d = m /\ nextReadPos d = readPos d + 4 + N.of_nat (length m)
                        /\ handle_ok (seg0 d) (rfile d) (N.to_nat (nextReadPos d)) /\ rfile d <> None
            end }.

(* nothing lies beyond the write position (true until a crash leaves an unsynced tail) *)
Definition tight (d : dq) : Prop := N.to_nat (writePos d) = length (seg0 d).

(* ---- small facts ---- *)
Lemma seg_get_set l n c : seg_get (seg_set l n c) n = Some c.
Proof.
  induction l as [|[k c'] l IH]; cbn [seg_set seg_get].
  - rewrite N.eqb_refl. reflexivity.
  - destruct (n =? k) eqn:E; cbn [seg_get]; [rewrite E; reflexivity|].
    destruct (n <? k); cbn [seg_get]; [rewrite N.eqb_refl; reflexivity | rewrite E; exact IH].
Qed.

Lemma write_at_end C data : write_at C (length C) data = C ++ data.
Proof.
  unfold write_at. rewrite firstn_all, Nat.sub_diag. cbn [repeat app].
  rewrite skipn_all2 by lia. rewrite app_nil_r. reflexivity.
Qed.

Lemma hinv_app C h p extra : hinv C h p -> hinv (C ++ extra) h p.
Proof.
  intros [H1 [H2 H3]]. unfold hinv. rewrite app_length. repeat split; try lia.
  rewrite skipn_app. rewrite firstn_app.
  assert (length (h_buf h) <= length (skipn p C))%nat by (rewrite skipn_length; lia).
  replace (length (h_buf h) - length (skipn p C))%nat with 0%nat by lia. cbn [firstn]. rewrite app_nil_r. exact H3.
Qed.

Lemma handle_ok_app C r p extra : handle_ok C r p -> handle_ok (C ++ extra) r p.
Proof. destruct r; cbn; [intros [H1 H2]; split; [apply hinv_app; exact H1 | exact H2] | auto]. Qed.

Lemma frame_length m : length (frame m) = (4 + length m)%nat.
Proof. unfold frame. rewrite app_length. reflexivity. Qed.

Lemma frames_cons m q : frames (m :: q) = frame m ++ frames q.
Proof. reflexivity. Qed.

Lemma frames_app q m : frames (q ++ [m]) = frames q ++ frame m.
Proof. unfold frames. rewrite map_app, concat_app. cbn. rewrite app_nil_r. reflexivity. Qed.

(* sync touches the metadata files and the crash trace only *)
Lemma do_sync_fields d :
  let d' := do_sync d in
  readPos d' = readPos d /\ writePos d' = writePos d /\ readFileNum d' = readFileNum d /\ writeFileNum d' = writeFileNum d /\
  depth d' = depth d /\ nextReadPos d' = nextReadPos d /\ nextReadFileNum d' = nextReadFileNum d /\ count d' = count d /\
  rfile d' = rfile d /\ wopen d' = wopen d /\ pending d' = pending d /\ ready d' = ready d /\
  f_segs (fs d') = f_segs (fs d).
Proof. cbv zeta. unfold do_sync, persist_meta, set_needsync, mutate. destruct (wopen d) eqn:E; cbn; rewrite ?E; repeat split; reflexivity. Qed.

(* ---- reading the record at the read position ---- *)
Lemma read_at c d m rest p :
  readFileNum d = 0 -> seg_get (f_segs (fs d)) 0 = Some (seg0 d) ->
  readPos d = N.of_nat p ->
  skipn p (seg0 d) = frame m ++ rest ->
  N.of_nat (length m) < 2147483648 ->
  readPos d + 4 + N.of_nat (length m) <= c_max c ->
  handle_ok (seg0 d) (rfile d) p ->
  exists h2,
    read_one c d =
      RdOk {| readPos := readPos d; writePos := writePos d; readFileNum := readFileNum d; writeFileNum := writeFileNum d; depth := depth d;
              nextReadPos := readPos d + 4 + N.of_nat (length m); nextReadFileNum := readFileNum d; needSync := needSync d; count := count d;
              rfile := Some h2; wopen := wopen d; pending := pending d; ready := ready d; fs := fs d; trace := trace d |} m
    /\ hinv (seg0 d) h2 (p + 4 + length m) /\ h_num h2 = 0.
Proof.
  intros Hrf Hseg Hrp Hdata Hm Hroom Hh.
  assert (Hlen : (p + 4 + length m <= length (seg0 d))%nat).
  { assert (L : length (skipn p (seg0 d)) = length (frame m ++ rest)) by (rewrite Hdata; reflexivity).
    rewrite skipn_length, app_length, frame_length in L. lia. }
  assert (Hfr : firstn (4 + length m) (skipn p (seg0 d)) = frame m).
  { rewrite Hdata. rewrite <- frame_length. rewrite firstn_app, Nat.sub_diag, firstn_all. cbn [firstn]. apply app_nil_r. }
  unfold read_one.
  (* the handle that is used *)
  assert (Hh' : exists h, match rfile d with
                          | Some h0 => Some h0
                          | None => match seg_get (f_segs (fs d)) (readFileNum d) with
                                    | Some _ => Some {| h_num := readFileNum d; h_buf := []; h_off := N.to_nat (readPos d) |}
                                    | None => None
                                    end
                          end = Some h /\ hinv (seg0 d) h p /\ h_num h = 0).
  { destruct (rfile d) as [h0|] eqn:Er.
    - exists h0. cbn in Hh. destruct Hh. auto.
    - rewrite Hrf, Hseg. eexists. split; [reflexivity|]. split; [|reflexivity].
      unfold hinv. cbn [h_buf h_off length]. rewrite Hrp, Nat2N.id. repeat split; try lia. }
  destruct Hh' as [h [-> [Hi Hn]]].
  rewrite Hn.
  change (match seg_get (f_segs (fs d)) 0 with Some x => x | None => [] end) with (seg0 d).
  destruct (read_frame (seg0 d) h p m Hi Hm Hfr Hlen) as [h1 [h2 [E1 [E2 [Hi2 Hn2]]]]].
  rewrite E1. rewrite be32_roundtrip by lia.
  replace (2147483648 <=? N.of_nat (length m)) with false by lia.
  rewrite Nat2N.id. rewrite E2.
  replace (c_max c <? readPos d + 4 + N.of_nat (length m)) with false by lia.
  exists h2. split; [reflexivity|]. split; [exact Hi2 | congruence].
Qed.

(* ---- the top of the loop, one iteration, when the queue invariant's data is in place ---- *)
(* the part of loop_top before the branch: counters and an optional sync *)
Definition presync (c : cfg) (d : dq) : dq :=
  let cnt := (count d + 1)%Z in
  let hit := (cnt =? c_syncevery c)%Z in
  let d1 := {| readPos := readPos d; writePos := writePos d; readFileNum := readFileNum d; writeFileNum := writeFileNum d; depth := depth d;
               nextReadPos := nextReadPos d; nextReadFileNum := nextReadFileNum d; needSync := needSync d || hit;
               count := if hit then 0%Z else cnt;
               rfile := rfile d; wopen := wopen d; pending := pending d; ready := ready d; fs := fs d; trace := trace d |} in
  if needSync d1 then do_sync d1 else d1.

Lemma presync_fields c d :
  let d' := presync c d in
  readPos d' = readPos d /\ writePos d' = writePos d /\ readFileNum d' = readFileNum d /\ writeFileNum d' = writeFileNum d /\
  depth d' = depth d /\ nextReadPos d' = nextReadPos d /\ nextReadFileNum d' = nextReadFileNum d /\
  rfile d' = rfile d /\ pending d' = pending d /\ ready d' = ready d /\ f_segs (fs d') = f_segs (fs d).
Proof.
  unfold presync. cbv zeta.
  match goal with |- context [if needSync ?x then _ else _] => destruct (needSync x) eqn:E; set (d1 := x) in * end.
  - pose proof (do_sync_fields d1) as H. cbv zeta in H. destruct H as [? [? [? [? [? [? [? [? [? [? [? [? ?]]]]]]]]]]]].
    subst d1. cbn in *. repeat split; congruence.
  - subst d1. cbn. repeat split.
Qed.

Definition setr (x : dq) (p : bytes) (r : bool) : dq :=
  {| readPos := readPos x; writePos := writePos x; readFileNum := readFileNum x; writeFileNum := writeFileNum x; depth := depth x;
     nextReadPos := nextReadPos x; nextReadFileNum := nextReadFileNum x; needSync := needSync x; count := count x;
     rfile := rfile x; wopen := wopen x; pending := p; ready := r; fs := fs x; trace := trace x |}.

Lemma loop_top_unfold c f d :
  loop_top c (S f) d =
  let d2 := presync c d in
  if (readFileNum d2 <? writeFileNum d2) || (readPos d2 <? writePos d2) then
    if nextReadPos d2 =? readPos d2 then
      match read_one c d2 with
      | RdOk d3 msg => Some (setr d3 msg true)
      | RdErr d3 => loop_top c f (handle_read_error d3)
      | RdPanic => None
      end
    else Some (setr d2 (pending d2) true)
  else Some (setr d2 (pending d2) false).
Proof. reflexivity. Qed.

(* ---- frames: lengths ---- *)
Lemma frames_nil_iff q : frames q = [] <-> q = [].
Proof.
  split; [|intros ->; reflexivity]. destruct q as [|m q]; [reflexivity|].
  rewrite frames_cons. unfold frame, be32. cbn [app]. discriminate.
Qed.

Lemma frames_length_pos m q : (4 <= length (frames (m :: q)))%nat.
Proof. rewrite frames_cons, app_length, frame_length. lia. Qed.

(* ---- writeOne without roll-over ---- *)
Lemma write_one_fields c d m :
  N.to_nat (writePos d) = length (seg0 d) -> writeFileNum d = 0 ->
  writePos d + 4 + N.of_nat (length m) <= c_max c ->
  let d1 := write_one c d m in
  readPos d1 = readPos d /\ writePos d1 = writePos d + 4 + N.of_nat (length m) /\ readFileNum d1 = readFileNum d /\
  writeFileNum d1 = 0 /\ depth d1 = (depth d + 1)%Z /\ nextReadPos d1 = nextReadPos d /\ nextReadFileNum d1 = nextReadFileNum d /\
  rfile d1 = rfile d /\ pending d1 = pending d /\ ready d1 = ready d /\
  seg_get (f_segs (fs d1)) 0 = Some (seg0 d ++ frame m) /\ seg0 d1 = seg0 d ++ frame m.
Proof.
  intros Hw Hwf Hroom. cbv zeta. unfold write_one. cbv zeta.
  replace (c_max c <? writePos d + 4 + N.of_nat (length m)) with false by lia.
  cbn [readPos writePos readFileNum writeFileNum depth nextReadPos nextReadFileNum rfile pending ready fs].
  rewrite Hwf.
  change (match seg_get (f_segs (fs d)) 0 with Some x => x | None => [] end) with (seg0 d).
  rewrite Hw, write_at_end.
  assert (E : seg_get (f_segs (with_segs (fs d) (seg_set (f_segs (fs d)) 0 (seg0 d ++ frame m)))) 0 = Some (seg0 d ++ frame m)).
  { unfold with_segs. cbn [f_segs]. apply seg_get_set. }
  repeat split; try reflexivity; try exact E.
  unfold seg0 at 1. cbn [fs]. rewrite E. reflexivity.
Qed.

Lemma skipn_app_le {A} (l1 l2 : list A) n : (n <= length l1)%nat -> skipn n (l1 ++ l2) = skipn n l1 ++ l2.
Proof. intros H. rewrite skipn_app. replace (n - length l1)%nat with 0%nat by lia. reflexivity. Qed.

Lemma seg0_of_segs d d' : f_segs (fs d') = f_segs (fs d) -> seg0 d' = seg0 d.
Proof. intros H. unfold seg0. rewrite H. reflexivity. Qed.

(* ---- Put ---- *)
Lemma put_step c d q m :
  qinv c d q -> tight d -> N.of_nat (length m) < 2147483648 -> writePos d + 4 + N.of_nat (length m) <= c_max c ->
  exists d', loop_top c LOOP_FUEL (write_one c d m) = Some d' /\
             (fs d' = fs (presync c (write_one c d m)) /\ trace d' = trace (presync c (write_one c d m)) /\ readPos d' = readPos (presync c (write_one c d m))) /\
             qinv c d' (q ++ [m]) /\ tight d' /\
             writePos d' = writePos d + 4 + N.of_nat (length m).
Proof.
  intros I Ht Hm Hroom. destruct I as [[Hrf [Hwf Hnf]] Hw Hex Hr Hrp Hdata0 Hdep Hsmall Hhead].
  unfold tight in Ht.
  assert (Hdata : skipn (N.to_nat (readPos d)) (seg0 d) = frames q).
  { rewrite Hdata0. rewrite (skipn_all2 (seg0 d)) by lia. apply app_nil_r. }
  pose proof (write_one_fields c d m Ht Hwf Hroom) as F. cbv zeta in F.
  set (d1 := write_one c d m) in *.
  destruct F as [F1 [F2 [F3 [F4 [F5 [F6 [F7 [F8 [F9 [F10 [F11 F12]]]]]]]]]]].
  unfold LOOP_FUEL. rewrite loop_top_unfold. cbv zeta.
  pose proof (presync_fields c d1) as P. cbv zeta in P.
  set (d2 := presync c d1) in *.
  destruct P as [P1 [P2 [P3 [P4 [P5 [P6 [P7 [P8 [P9 [P10 P11]]]]]]]]]].
  assert (S2 : seg0 d2 = seg0 d ++ frame m) by (rewrite (seg0_of_segs d1 d2 P11); exact F12).
  assert (G2 : seg_get (f_segs (fs d2)) 0 = Some (seg0 d2)) by (rewrite P11, S2; exact F11).
  assert (Hrl : (N.to_nat (readPos d) <= length (seg0 d))%nat) by lia.
  assert (Htight2 : N.to_nat (writePos d2) = length (seg0 d2)) by (rewrite P2, F2, S2, app_length, frame_length; lia).
  assert (Htail2 : skipn (N.to_nat (writePos d2)) (seg0 d2) = []) by (apply skipn_all2; lia).
  replace ((readFileNum d2 <? writeFileNum d2) || (readPos d2 <? writePos d2)) with true
    by (rewrite P1, P2, F1, F2; lia).
  destruct q as [|m0 q'].
  - (* the queue was empty: the new record is read ahead at once *)
    destruct Hhead as [Hready [Hnext Hh]].
    replace (nextReadPos d2 =? readPos d2) with true by (rewrite P6, P1, F6, F1, Hnext; lia).
    assert (Hdata2 : skipn (N.to_nat (readPos d)) (seg0 d2) = frame m ++ []).
    { rewrite S2, skipn_app_le by exact Hrl. rewrite Hdata. cbn [frames map concat app]. rewrite app_nil_r. reflexivity. }
    destruct (read_at c d2 m [] (N.to_nat (readPos d))) as [h2 [E [Hi2 Hn2]]].
    + rewrite P3, F3. exact Hrf.
    + exact G2.
    + rewrite P1, F1, N2Nat.id. reflexivity.
    + exact Hdata2.
    + exact Hm.
    + rewrite P1, F1. lia.
    + rewrite P8, F8, S2. apply handle_ok_app. exact Hh.
    + rewrite E. eexists. split; [reflexivity|]. split; [split; [reflexivity | split; [reflexivity | first [reflexivity | cbn [setr readPos]; congruence]]]|]. split; [|split].
      * constructor; cbn [setr readPos writePos readFileNum writeFileNum depth nextReadPos nextReadFileNum rfile pending ready fs].
        -- rewrite P3, P4, F3, F4. auto.
        -- change (seg0 (setr _ _ _)) with (seg0 d2). lia.
        -- right. change (seg0 (setr _ _ _)) with (seg0 d2). exact G2.
        -- rewrite P2, F2. exact Hroom.
        -- rewrite P1, P2, F1, F2. lia.
        -- change (seg0 (setr _ _ _)) with (seg0 d2). rewrite Htail2, P1, F1, Hdata2. cbn [frames map concat app]. rewrite !app_nil_r. reflexivity.
        -- rewrite P5, F5, Hdep. cbn [length app]. lia.
        -- intros x [<-|[]]. exact Hm.
        -- cbn [app]. split; [reflexivity|]. split; [reflexivity|]. split; [reflexivity|]. split; [|discriminate].
           change (seg0 (setr _ _ _)) with (seg0 d2). cbn [handle_ok]. split; [|exact Hn2].
           rewrite P1, F1. replace (N.to_nat (readPos d + 4 + N.of_nat (length m))) with (N.to_nat (readPos d) + 4 + length m)%nat by lia.
           exact Hi2.
      * unfold tight. cbn [setr writePos]. change (seg0 (setr _ _ _)) with (seg0 d2). exact Htight2.
      * cbn [setr writePos]. rewrite P2, F2. reflexivity.
  - (* something is already read ahead *)
    destruct Hhead as [Hready [Hpend [Hnext [Hh Hnn]]]].
    replace (nextReadPos d2 =? readPos d2) with false by (rewrite P6, P1, F6, F1, Hnext; lia).
    eexists. split; [reflexivity|]. split; [split; [reflexivity | split; [reflexivity | first [reflexivity | cbn [setr readPos]; congruence]]]|]. split; [|split].
    + constructor; cbn [setr readPos writePos readFileNum writeFileNum depth nextReadPos nextReadFileNum rfile pending ready fs].
      * rewrite P3, P4, P7, F3, F4, F7. auto.
      * change (seg0 (setr _ _ _)) with (seg0 d2). lia.
      * right. change (seg0 (setr _ _ _)) with (seg0 d2). exact G2.
      * rewrite P2, F2. exact Hroom.
      * rewrite P1, P2, F1, F2. lia.
      * change (seg0 (setr _ _ _)) with (seg0 d2). rewrite Htail2, app_nil_r, P1, F1, S2, skipn_app_le by exact Hrl.
        rewrite Hdata. change ((m0 :: q') ++ [m]) with (m0 :: (q' ++ [m])). rewrite !frames_cons, frames_app, app_assoc. reflexivity.
      * rewrite P5, F5, Hdep. rewrite app_length. cbn [length]. lia.
      * intros x Hx. apply in_app_or in Hx as [Hx|[<-|[]]]; [apply Hsmall; exact Hx | exact Hm].
      * cbn [app]. split; [reflexivity|]. split; [rewrite P9, F9; exact Hpend|].
        split; [rewrite P6, P1, F6, F1; exact Hnext|]. split.
        -- change (seg0 (setr _ _ _)) with (seg0 d2). rewrite P8, P6, F8, F6, S2. apply handle_ok_app. exact Hh.
        -- rewrite P8, F8. exact Hnn.
    + unfold tight. cbn [setr writePos]. change (seg0 (setr _ _ _)) with (seg0 d2). exact Htight2.
    + cbn [setr writePos]. rewrite P2, F2. reflexivity.
Qed.

(* ---- Get ---- *)
Lemma move_forward_same d :
  readFileNum d = 0 -> nextReadFileNum d = 0 -> writeFileNum d = 0 ->
  nextReadPos d <= writePos d ->
  (nextReadPos d = writePos d -> (depth d - 1 = 0)%Z) ->
  move_forward d =
    {| readPos := nextReadPos d; writePos := writePos d; readFileNum := 0; writeFileNum := 0; depth := (depth d - 1)%Z;
       nextReadPos := nextReadPos d; nextReadFileNum := 0; needSync := needSync d || false; count := count d;
       rfile := rfile d; wopen := wopen d; pending := pending d; ready := ready d; fs := fs d; trace := trace d |}.
Proof.
  intros Hrf Hnf Hwf Hle Hdep. unfold move_forward. cbv zeta. rewrite Hrf, Hnf, Hwf. cbn [N.eqb negb andb].
  unfold check_tail.
  cbn [readPos writePos readFileNum writeFileNum depth nextReadPos nextReadFileNum needSync count rfile wopen pending ready fs trace].
  cbn [N.ltb N.compare orb].
  destruct (nextReadPos d <? writePos d) eqn:E; [reflexivity|].
  assert (Heq : nextReadPos d = writePos d) by lia.
  rewrite (Hdep Heq). cbn [Z.eqb].
  cbn [readPos writePos readFileNum writeFileNum].
  rewrite Heq, !N.eqb_refl. cbn [negb orb]. rewrite <- Heq. reflexivity.
Qed.

Lemma get_step c d m q :
  qinv c d (m :: q) ->
  exists d', loop_top c LOOP_FUEL (move_forward d) = Some d' /\
             (fs d' = fs (presync c (move_forward d)) /\ trace d' = trace (presync c (move_forward d)) /\ readPos d' = readPos (presync c (move_forward d))) /\
             qinv c d' q /\ writePos d' = writePos d /\ seg0 d' = seg0 d.
Proof.
  intros I. destruct I as [[Hrf [Hwf Hnf]] Hw Hex Hr Hrp Hdata Hdep Hsmall Hhead].
  destruct Hhead as [Hready [Hpend [Hnext [Hh Hnn]]]].
  assert (Hm : N.of_nat (length m) < 2147483648) by (apply Hsmall; left; reflexivity).
  (* where things are in the file *)
  assert (Hlen : (N.to_nat (readPos d) + 4 + length m + length (frames q) = N.to_nat (writePos d))%nat).
  { assert (L : length (skipn (N.to_nat (readPos d)) (seg0 d)) = length (frames (m :: q) ++ skipn (N.to_nat (writePos d)) (seg0 d)))
      by (rewrite Hdata; reflexivity).
    rewrite skipn_length, app_length, skipn_length, frames_cons, app_length, frame_length in L. lia. }
  assert (Hrest : skipn (N.to_nat (nextReadPos d)) (seg0 d) = frames q ++ skipn (N.to_nat (writePos d)) (seg0 d)).
  { rewrite Hnext. replace (N.to_nat (readPos d + 4 + N.of_nat (length m))) with (N.to_nat (readPos d) + (4 + length m))%nat by lia.
    rewrite <- skipn_skipn', Hdata, frames_cons, <- app_assoc. rewrite <- frame_length.
    rewrite skipn_app, Nat.sub_diag, skipn_all. reflexivity. }
  assert (Hle : nextReadPos d <= writePos d) by lia.
  assert (Hq0 : nextReadPos d = writePos d -> q = []).
  { intros E. apply frames_nil_iff. apply length_zero_iff_nil. lia. }
  rewrite (move_forward_same d Hrf Hnf Hwf Hle).
  2: { intros E. rewrite (Hq0 E) in Hdep. cbn [length] in Hdep. lia. }
  set (r := {| readPos := nextReadPos d; writePos := writePos d; readFileNum := 0; writeFileNum := 0; depth := (depth d - 1)%Z;
               nextReadPos := nextReadPos d; nextReadFileNum := 0; needSync := needSync d || false; count := count d;
               rfile := rfile d; wopen := wopen d; pending := pending d; ready := ready d; fs := fs d; trace := trace d |}).
  unfold LOOP_FUEL. rewrite loop_top_unfold. cbv zeta.
  pose proof (presync_fields c r) as P. cbv zeta in P.
  set (d2 := presync c r) in *.
  destruct P as [P1 [P2 [P3 [P4 [P5 [P6 [P7 [P8 [P9 [P10 P11]]]]]]]]]].
  cbn [r readPos writePos readFileNum writeFileNum depth nextReadPos nextReadFileNum rfile pending ready fs] in P1, P2, P3, P4, P5, P6, P7, P8, P9, P10, P11.
  assert (S2 : seg0 d2 = seg0 d) by (apply seg0_of_segs; exact P11).
  rewrite P3, P4, P1, P2. cbn [N.ltb N.compare orb].
  destruct q as [|m1 q'].
  - (* nothing left *)
    assert (E : nextReadPos d = writePos d) by (cbn [frames map concat length] in Hlen; lia).
    replace (nextReadPos d <? writePos d) with false by lia.
    eexists. split; [reflexivity|]. split; [split; [reflexivity | split; [reflexivity | first [reflexivity | cbn [setr readPos]; congruence]]]|]. split.
    + constructor; cbn [setr readPos writePos readFileNum writeFileNum depth nextReadPos nextReadFileNum rfile pending ready fs].
      * rewrite P3, P4, P7. auto.
      * change (seg0 (setr _ _ _)) with (seg0 d2). rewrite P2, S2. exact Hw.
      * change (seg0 (setr _ _ _)) with (seg0 d2). rewrite P2, P11, S2. exact Hex.
      * rewrite P2. exact Hr.
      * rewrite P1, P2. lia.
      * change (seg0 (setr _ _ _)) with (seg0 d2). rewrite P1, P2, S2. exact Hrest.
      * rewrite P5, Hdep. cbn [length]. lia.
      * intros x [].
      * split; [reflexivity|]. split; [rewrite P6, P1; reflexivity|].
        change (seg0 (setr _ _ _)) with (seg0 d2). rewrite P8, P1, S2. exact Hh.
    + split; [cbn [setr writePos]; exact P2 | exact S2].
  - (* read the next record ahead *)
    pose proof (frames_length_pos m1 q') as Hpos.
    replace (nextReadPos d <? writePos d) with true by lia.
    rewrite P6, N.eqb_refl.
    assert (Hm1 : N.of_nat (length m1) < 2147483648) by (apply Hsmall; right; left; reflexivity).
    assert (Hlen1 : (4 + length m1 <= length (frames (m1 :: q')))%nat) by (rewrite frames_cons, app_length, frame_length; lia).
    destruct (read_at c d2 m1 (frames q' ++ skipn (N.to_nat (writePos d)) (seg0 d)) (N.to_nat (nextReadPos d))) as [h2 [E [Hi2 Hn2]]].
    + exact P3.
    + rewrite P11, S2. destruct Hex as [Hex|Hex]; [lia | exact Hex].
    + rewrite P1, N2Nat.id. reflexivity.
    + rewrite S2, Hrest, frames_cons, <- app_assoc. reflexivity.
    + exact Hm1.
    + rewrite P1. lia.
    + rewrite P8, S2. exact Hh.
    + rewrite E. eexists. split; [reflexivity|]. split; [split; [reflexivity | split; [reflexivity | first [reflexivity | cbn [setr readPos]; congruence]]]|]. split.
      * constructor; cbn [setr readPos writePos readFileNum writeFileNum depth nextReadPos nextReadFileNum rfile pending ready fs].
        -- rewrite P3, P4. auto.
        -- change (seg0 (setr _ _ _)) with (seg0 d2). rewrite P2, S2. exact Hw.
        -- change (seg0 (setr _ _ _)) with (seg0 d2). rewrite P2, P11, S2. exact Hex.
        -- rewrite P2. exact Hr.
        -- rewrite P1, P2. lia.
        -- change (seg0 (setr _ _ _)) with (seg0 d2). rewrite P1, P2, S2. exact Hrest.
        -- rewrite P5, Hdep. cbn [length]. lia.
        -- intros x Hx. apply Hsmall. right. exact Hx.
        -- split; [reflexivity|]. split; [reflexivity|]. split; [reflexivity|]. split; [|discriminate].
           change (seg0 (setr _ _ _)) with (seg0 d2). cbn [handle_ok]. split; [|exact Hn2].
           rewrite P1, S2 in *.
           replace (N.to_nat (nextReadPos d + 4 + N.of_nat (length m1))) with (N.to_nat (nextReadPos d) + 4 + length m1)%nat by lia.
           exact Hi2.
      * split; [cbn [setr writePos]; exact P2 | exact S2].
Qed.

(* ---- opening an empty directory ---- *)
Lemma open_empty c : exists d, dq_open c fs_empty [] = Some d /\ qinv c d [] /\ writePos d = 0 /\ tight d.
Proof.
  unfold dq_open. cbn [f_meta fs_empty]. unfold LOOP_FUEL. rewrite loop_top_unfold. cbv zeta.
  set (r := {| readPos := 0; writePos := 0; readFileNum := 0; writeFileNum := 0; depth := 0%Z; nextReadPos := 0; nextReadFileNum := 0;
               needSync := false; count := 0%Z; rfile := None; wopen := false; pending := []; ready := false; fs := fs_empty; trace := [] |}).
  pose proof (presync_fields c r) as P. cbv zeta in P.
  set (d2 := presync c r) in *.
  destruct P as [P1 [P2 [P3 [P4 [P5 [P6 [P7 [P8 [P9 [P10 P11]]]]]]]]]].
  cbn [r readPos writePos readFileNum writeFileNum depth nextReadPos nextReadFileNum rfile pending ready fs fs_empty f_segs] in P1, P2, P3, P4, P5, P6, P7, P8, P9, P10, P11.
  rewrite P1, P2, P3, P4. cbn [N.ltb N.compare orb].
  assert (S2 : seg0 d2 = []) by (unfold seg0; rewrite P11; reflexivity).
  eexists. split; [reflexivity|]. split.
  - constructor; cbn [setr readPos writePos readFileNum writeFileNum depth nextReadPos nextReadFileNum rfile pending ready fs].
    + rewrite P3, P4, P7. auto.
    + change (seg0 (setr _ _ _)) with (seg0 d2). rewrite P2, S2. cbn. lia.
    + left. exact P2.
    + rewrite P2. lia.
    + rewrite P1, P2. lia.
    + change (seg0 (setr _ _ _)) with (seg0 d2). rewrite P1, P2, S2. reflexivity.
    + rewrite P5. reflexivity.
    + intros x [].
    + split; [reflexivity|]. split; [rewrite P6, P1; reflexivity|]. rewrite P8. exact I.
  - split; [cbn [setr writePos]; exact P2|]. unfold tight. cbn [setr writePos]. change (seg0 (setr _ _ _)) with (seg0 d2). rewrite P2, S2. reflexivity.
Qed.

(* ---- a sync tick: nothing the consumer can see changes ---- *)
Lemma tick_step c d q :
  qinv c d q ->
  exists d', loop_top c LOOP_FUEL (set_needsync d true) = Some d' /\
             (fs d' = fs (presync c (set_needsync d true)) /\ trace d' = trace (presync c (set_needsync d true)) /\ readPos d' = readPos (presync c (set_needsync d true))) /\
             qinv c d' q /\ writePos d' = writePos d /\ seg0 d' = seg0 d.
Proof.
  intros I. destruct I as [[Hrf [Hwf Hnf]] Hw Hex Hr Hrp Hdata Hdep Hsmall Hhead].
  set (r := set_needsync d true).
  unfold LOOP_FUEL. rewrite loop_top_unfold. cbv zeta.
  pose proof (presync_fields c r) as P. cbv zeta in P.
  set (d2 := presync c r) in *.
  destruct P as [P1 [P2 [P3 [P4 [P5 [P6 [P7 [P8 [P9 [P10 P11]]]]]]]]]].
  cbn [r set_needsync readPos writePos readFileNum writeFileNum depth nextReadPos nextReadFileNum rfile pending ready fs] in P1, P2, P3, P4, P5, P6, P7, P8, P9, P10, P11.
  assert (S2 : seg0 d2 = seg0 d) by (apply seg0_of_segs; exact P11).
  rewrite P3, P4, P1, P2, Hrf, Hwf. cbn [N.ltb N.compare orb].
  assert (Hlen : (N.to_nat (readPos d) + length (frames q) = N.to_nat (writePos d))%nat).
  { assert (L : length (skipn (N.to_nat (readPos d)) (seg0 d)) = length (frames q ++ skipn (N.to_nat (writePos d)) (seg0 d)))
      by (rewrite Hdata; reflexivity).
    rewrite skipn_length, app_length, skipn_length in L. lia. }
  destruct q as [|m q'].
  - destruct Hhead as [Hready [Hnext Hh]].
    replace (readPos d <? writePos d) with false by (cbn [frames map concat length] in Hlen; lia).
    eexists. split; [reflexivity|]. split; [split; [reflexivity | split; [reflexivity | first [reflexivity | cbn [setr readPos]; congruence]]]|]. split.
    + constructor; cbn [setr readPos writePos readFileNum writeFileNum depth nextReadPos nextReadFileNum rfile pending ready fs].
      * rewrite P3, P4, P7. auto.
      * change (seg0 (setr _ _ _)) with (seg0 d2). rewrite P2, S2. exact Hw.
      * change (seg0 (setr _ _ _)) with (seg0 d2). rewrite P2, P11, S2. exact Hex.
      * rewrite P2. exact Hr.
      * rewrite P1, P2. exact Hrp.
      * change (seg0 (setr _ _ _)) with (seg0 d2). rewrite P1, P2, S2. exact Hdata.
      * rewrite P5. exact Hdep.
      * exact Hsmall.
      * split; [reflexivity|]. split; [rewrite P6, P1; exact Hnext|].
        change (seg0 (setr _ _ _)) with (seg0 d2). rewrite P8, P1, S2. exact Hh.
    + split; [cbn [setr writePos]; exact P2 | exact S2].
  - destruct Hhead as [Hready [Hpend [Hnext [Hh Hnn]]]].
    pose proof (frames_length_pos m q') as Hpos.
    replace (readPos d <? writePos d) with true by lia.
    replace (nextReadPos d2 =? readPos d) with false by (rewrite P6, Hnext; lia).
    eexists. split; [reflexivity|]. split; [split; [reflexivity | split; [reflexivity | first [reflexivity | cbn [setr readPos]; congruence]]]|]. split.
    + constructor; cbn [setr readPos writePos readFileNum writeFileNum depth nextReadPos nextReadFileNum rfile pending ready fs].
      * rewrite P3, P4, P7. auto.
      * change (seg0 (setr _ _ _)) with (seg0 d2). rewrite P2, S2. exact Hw.
      * change (seg0 (setr _ _ _)) with (seg0 d2). rewrite P2, P11, S2. exact Hex.
      * rewrite P2. exact Hr.
      * rewrite P1, P2. exact Hrp.
      * change (seg0 (setr _ _ _)) with (seg0 d2). rewrite P1, P2, S2. exact Hdata.
      * rewrite P5. exact Hdep.
      * exact Hsmall.
      * split; [reflexivity|]. split; [rewrite P9; exact Hpend|]. split; [rewrite P6, P1; exact Hnext|]. split.
        -- change (seg0 (setr _ _ _)) with (seg0 d2). rewrite P8, P6, S2. exact Hh.
        -- rewrite P8. exact Hnn.
    + split; [cbn [setr writePos]; exact P2 | exact S2].
Qed.

(* ---- a clean restart: Close persists the metadata, NewDiskQueue reads it back and re-reads the record that
        had been read ahead but not delivered ---- *)
Lemma write_at_zero X txt : write_at X 0 txt = txt ++ skipn (length txt) X.
Proof. unfold write_at. cbn [firstn Nat.sub repeat app Nat.add]. reflexivity. Qed.

Lemma reopen_step c d q :
  qinv c d q ->
  exists d', dq_open c (fs (dq_close d)) (trace (dq_close d)) = Some d' /\ qinv c d' q /\ writePos d' = writePos d
             /\ seg0 d' = seg0 d /\ depth (dq_close d) = Z.of_nat (length q).
Proof.
  intros I. destruct I as [[Hrf [Hwf Hnf]] Hw Hex Hr Hrp Hdata Hdep Hsmall Hhead].
  unfold dq_close, persist_meta, mutate.
  cbn [readPos writePos readFileNum writeFileNum depth fs trace f_tmp f_segs f_bad f_meta].
  rewrite write_at_zero.
  unfold dq_open. cbn [f_meta].
  rewrite meta_roundtrip.
  unfold LOOP_FUEL. rewrite loop_top_unfold. cbv zeta.
  match goal with |- context [presync c ?x] => set (r := x) end.
  pose proof (presync_fields c r) as P. cbv zeta in P.
  set (d2 := presync c r) in *.
  destruct P as [P1 [P2 [P3 [P4 [P5 [P6 [P7 [P8 [P9 [P10 P11]]]]]]]]]].
  cbn [r readPos writePos readFileNum writeFileNum depth nextReadPos nextReadFileNum rfile pending ready fs f_segs] in P1, P2, P3, P4, P5, P6, P7, P8, P9, P10, P11.
  assert (S2 : seg0 d2 = seg0 d) by (unfold seg0; rewrite P11; reflexivity).
  rewrite P3, P4, P1, P2, Hrf, Hwf. cbn [N.ltb N.compare orb].
  assert (Hlen : (N.to_nat (readPos d) + length (frames q) = N.to_nat (writePos d))%nat).
  { assert (L : length (skipn (N.to_nat (readPos d)) (seg0 d)) = length (frames q ++ skipn (N.to_nat (writePos d)) (seg0 d)))
      by (rewrite Hdata; reflexivity).
    rewrite skipn_length, app_length, skipn_length in L. lia. }
  destruct q as [|m q'].
  - replace (readPos d <? writePos d) with false by (cbn [frames map concat length] in Hlen; lia).
    eexists. split; [reflexivity|]. split; [|split; [exact P2 | split; [exact S2 | exact Hdep]]].
    constructor; cbn [setr readPos writePos readFileNum writeFileNum depth nextReadPos nextReadFileNum rfile pending ready fs].
    + rewrite P3, P4, P7, ?Hrf, ?Hwf. auto.
    + change (seg0 (setr _ _ _)) with (seg0 d2). rewrite P2, S2. exact Hw.
    + change (seg0 (setr _ _ _)) with (seg0 d2). rewrite P2, P11, S2. exact Hex.
    + rewrite P2. exact Hr.
    + rewrite P1, P2. exact Hrp.
    + change (seg0 (setr _ _ _)) with (seg0 d2). rewrite P1, P2, S2. exact Hdata.
    + rewrite P5. exact Hdep.
    + exact Hsmall.
    + split; [reflexivity|]. split; [rewrite P6, P1; reflexivity|]. rewrite P8. exact I.
  - pose proof (frames_length_pos m q') as Hpos.
    replace (readPos d <? writePos d) with true by lia.
    rewrite P6, N.eqb_refl.
    assert (Hm : N.of_nat (length m) < 2147483648) by (apply Hsmall; left; reflexivity).
    assert (Hl1 : (4 + length m <= length (frames (m :: q')))%nat) by (rewrite frames_cons, app_length, frame_length; lia).
    destruct (read_at c d2 m (frames q' ++ skipn (N.to_nat (writePos d)) (seg0 d)) (N.to_nat (readPos d))) as [h2 [E [Hi2 Hn2]]].
    + rewrite P3. exact Hrf.
    + rewrite P11, S2. destruct Hex as [Hex|Hex]; [lia | exact Hex].
    + rewrite P1, N2Nat.id. reflexivity.
    + rewrite S2, Hdata, frames_cons, <- app_assoc. reflexivity.
    + exact Hm.
    + rewrite P1. lia.
    + rewrite P8. exact I.
    + rewrite E. eexists. split; [reflexivity|]. split; [|split; [exact P2 | split; [exact S2 | exact Hdep]]].
      constructor; cbn [setr readPos writePos readFileNum writeFileNum depth nextReadPos nextReadFileNum rfile pending ready fs].
      * rewrite P3, P4, ?Hrf, ?Hwf. auto.
      * change (seg0 (setr _ _ _)) with (seg0 d2). rewrite P2, S2. exact Hw.
      * change (seg0 (setr _ _ _)) with (seg0 d2). rewrite P2, P11, S2. exact Hex.
      * rewrite P2. exact Hr.
      * rewrite P1, P2. exact Hrp.
      * change (seg0 (setr _ _ _)) with (seg0 d2). rewrite P1, P2, S2. exact Hdata.
      * rewrite P5. exact Hdep.
      * exact Hsmall.
      * split; [reflexivity|]. split; [reflexivity|]. split; [reflexivity|]. split; [|discriminate].
        change (seg0 (setr _ _ _)) with (seg0 d2). cbn [handle_ok]. split; [|exact Hn2].
        rewrite P1, S2 in *.
        replace (N.to_nat (readPos d + 4 + N.of_nat (length m))) with (N.to_nat (readPos d) + 4 + length m)%nat by lia.
        exact Hi2.
Qed.

(* ---- the abstract queue ---- *)
Fixpoint fifo_run (q : list bytes) (ops : list dop) : list dout :=
  match ops with
  | [] => []
  | Put m :: r => OPut :: fifo_run (q ++ [m]) r
  | Get :: r => match q with
                | [] => OGet None :: fifo_run [] r
                | m :: q' => OGet (Some m) :: fifo_run q' r
                end
  | SyncTick :: r => OTick :: fifo_run q r
  | CloseReopen :: r => OReopen (Z.of_nat (length q)) :: fifo_run q r
  end.

(* every message below 2^31 bytes, everything written fits the first segment *)
Fixpoint fits (c : cfg) (wp : N) (ops : list dop) : bool :=
  match ops with
  | [] => true
  | Put m :: r => (N.of_nat (length m) <? 2147483648) && (wp + 4 + N.of_nat (length m) <=? c_max c)
                  && fits c (wp + 4 + N.of_nat (length m)) r
  | _ :: r => fits c wp r
  end.

Lemma tight_same d d' : writePos d' = writePos d -> seg0 d' = seg0 d -> tight d -> tight d'.
Proof. unfold tight. intros -> ->. auto. Qed.

Theorem fifo_refinement c ops : forall d q,
  qinv c d q -> tight d -> fits c (writePos d) ops = true ->
  fst (dq_run c (Some d) ops) = fifo_run q ops.
Proof.
  induction ops as [|o ops IH]; intros d q I T F; [reflexivity|].
  destruct o as [m| | |]; cbn [fits] in F.
  - (* Put *)
    apply andb_true_iff in F as [F F3]. apply andb_true_iff in F as [F1 F2].
    destruct (put_step c d q m I T ltac:(lia) ltac:(lia)) as [d' [E [_ [I' [T' W']]]]].
    cbn [dq_run dq_step fifo_run]. rewrite E.
    specialize (IH d' (q ++ [m]) I' T' ltac:(rewrite W'; exact F3)).
    destruct (dq_run c (Some d') ops) as [outs dl]. cbn [fst] in *. rewrite IH. reflexivity.
  - (* Get *)
    cbn [dq_run dq_step fifo_run].
    destruct q as [|m q'].
    + destruct (qi_head c d [] I) as [Hr _]. rewrite Hr.
      specialize (IH d [] I T F).
      destruct (dq_run c (Some d) ops) as [outs dl]. cbn [fst] in *. rewrite IH. reflexivity.
    + destruct (qi_head c d (m :: q') I) as [Hr [Hp _]]. rewrite Hr, Hp.
      destruct (get_step c d m q' I) as [d' [E [_ [I' [W' S']]]]]. rewrite E.
      specialize (IH d' q' I' (tight_same d d' W' S' T) ltac:(rewrite W'; exact F)).
      destruct (dq_run c (Some d') ops) as [outs dl]. cbn [fst] in *. rewrite IH. reflexivity.
  - (* SyncTick *)
    cbn [dq_run dq_step fifo_run].
    destruct (tick_step c d q I) as [d' [E [_ [I' [W' S']]]]]. rewrite E.
    specialize (IH d' q I' (tight_same d d' W' S' T) ltac:(rewrite W'; exact F)).
    destruct (dq_run c (Some d') ops) as [outs dl]. cbn [fst] in *. rewrite IH. reflexivity.
  - (* CloseReopen *)
    cbn [dq_run dq_step fifo_run]. cbv zeta.
    destruct (reopen_step c d q I) as [d' [E [I' [W' [S' D']]]]]. rewrite E, D'.
    specialize (IH d' q I' (tight_same d d' W' S' T) ltac:(rewrite W'; exact F)).
    destruct (dq_run c (Some d') ops) as [outs dl]. cbn [fst] in *. rewrite IH. reflexivity.
Qed.

(* from a fresh directory *)
Theorem fifo_from_empty c ops :
  fits c 0 ops = true ->
  fst (dq_run c (dq_open c fs_empty []) ops) = fifo_run [] ops.
Proof.
  intros F. destruct (open_empty c) as [d [E [I [W T]]]]. rewrite E.
  apply fifo_refinement; [exact I | exact T | rewrite W; exact F].
Qed.
