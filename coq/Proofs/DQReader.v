(* Disk queue, byte level: the buffered read handle delivers exactly the bytes of the file at its logical
   position, whatever the state of its 4096-byte buffer; a frame written by writeOne is read back by readOne. *)
From CRNG Require Import Base.ListX Base.Bytes Base.Decimal Model.DiskQueue Proofs.DQBasics.
From Coq Require Import ZifyN ZifyNat ZifyBool.
Local Open Scope nat_scope.

Lemma skipn_skipn' {A} (l : list A) : forall a b, skipn a (skipn b l) = skipn (b + a) l.
Proof.
  induction l as [|x l IH]; intros a b.
  - rewrite !skipn_nil. reflexivity.
  - destruct b; [reflexivity|]. cbn [skipn Nat.add]. apply IH.
Qed.

Lemma skipn_firstn' {A} (l : list A) : forall n k, skipn n (firstn k l) = firstn (k - n) (skipn n l).
Proof.
  induction l as [|x l IH]; intros n k.
  - rewrite firstn_nil, !skipn_nil, firstn_nil. reflexivity.
  - destruct k; [destruct n; reflexivity|]. destruct n; [reflexivity|]. cbn [firstn skipn Nat.sub]. apply IH.
Qed.

Lemma firstn_firstn' {A} (l : list A) n k : n <= k -> firstn n (firstn k l) = firstn n l.
Proof. intros H. rewrite firstn_firstn. f_equal. lia. Qed.

(* the handle is at logical position p of the file: its buffer holds the bytes p .. h_off *)
Definition hinv (content : bytes) (h : rhandle) (p : nat) : Prop :=
  p + length (h_buf h) = h_off h /\ h_off h <= length content /\
  h_buf h = firstn (length (h_buf h)) (skipn p content).

Lemma bread_zero fuel content h acc : bread fuel content h 0 acc = Some (acc, h).
Proof. destruct fuel; reflexivity. Qed.

Lemma bread_unfold f content h n' acc :
  bread (S f) content h (S n') acc =
  match h_buf h with
  | _ :: _ =>
      let k := Nat.min (S n') (length (h_buf h)) in
      bread f content {| h_num := h_num h; h_buf := skipn k (h_buf h); h_off := h_off h |} (S n' - k) (acc ++ firstn k (h_buf h))
  | [] =>
      let avail := skipn (h_off h) content in
      match avail with
      | [] => None
      | _ =>
        if Nat.leb BUFSZ (S n') then
          let k := Nat.min (S n') (length avail) in
          bread f content {| h_num := h_num h; h_buf := []; h_off := h_off h + k |} (S n' - k) (acc ++ firstn k avail)
        else
          let k := Nat.min BUFSZ (length avail) in
          bread f content {| h_num := h_num h; h_buf := firstn k avail; h_off := h_off h + k |} (S n') acc
      end
  end.
Proof. reflexivity. Qed.

(* empty buffer *)
Lemma bread_empty fuel content h n acc p :
  h_buf h = [] -> hinv content h p -> 0 < n -> p + n <= length content -> 2 <= fuel ->
  exists h', bread fuel content h n acc = Some (acc ++ firstn n (skipn p content), h')
             /\ hinv content h' (p + n) /\ h_num h' = h_num h.
Proof.
  intros Hb [H1 [H2 H3]] Hn Hlen Hf. rewrite Hb in H1. cbn [length] in H1.
  destruct fuel as [|[|f]]; try lia. destruct n as [|n']; [lia|]. set (n := S n') in *.
  assert (Hoff : h_off h = p) by lia.
  assert (Hav : length (skipn p content) = length content - p) by apply skipn_length.
  unfold n. rewrite bread_unfold. fold n. rewrite Hb, Hoff. cbv zeta.
  destruct (skipn p content) as [|a0 av] eqn:Eav; [cbn [length] in Hav; lia|]. rewrite <- Eav in *.
  destruct (Nat.leb BUFSZ n) eqn:Eb.
  - (* the read bypasses the buffer *)
    replace (Nat.min n (length (skipn p content))) with n by lia.
    rewrite Nat.sub_diag, bread_zero. eexists. split; [reflexivity|]. split; [|reflexivity].
    unfold hinv. cbn [h_buf h_off length]. repeat split; try lia; try reflexivity.
  - apply Nat.leb_gt in Eb.
    set (k := Nat.min BUFSZ (length (skipn p content))).
    assert (Hk : n <= k) by (unfold k; lia).
    assert (Hkl : k <= length (skipn p content)) by (unfold k; lia).
    assert (Hlk : length (firstn k (skipn p content)) = k) by (rewrite firstn_length; lia).
    (* second round: the buffer is full enough *)
    unfold n. rewrite bread_unfold. fold n. cbn [h_buf h_off h_num]. cbv zeta.
    destruct (firstn k (skipn p content)) as [|b0 bv] eqn:Ebuf; [cbn [length] in Hlk; lia|]. rewrite <- Ebuf in *.
    rewrite Hlk. replace (Nat.min n k) with n by lia.
    rewrite Nat.sub_diag, bread_zero. eexists. split.
    + rewrite firstn_firstn' by lia. reflexivity.
    + split; [|reflexivity]. unfold hinv. cbn [h_buf h_off].
      rewrite skipn_firstn', skipn_skipn'. rewrite firstn_length, skipn_length.
      repeat split; try lia.
      f_equal. rewrite Hav in Hkl. lia.
Qed.

Lemma bread_spec fuel content h n acc p :
  hinv content h p -> p + n <= length content -> 3 <= fuel ->
  exists h', bread fuel content h n acc = Some (acc ++ firstn n (skipn p content), h')
             /\ hinv content h' (p + n) /\ h_num h' = h_num h.
Proof.
  intros Hi Hlen Hf.
  destruct n as [|n'].
  { rewrite bread_zero. exists h. rewrite Nat.add_0_r. cbn [firstn]. rewrite app_nil_r. auto. }
  set (n := S n') in *.
  destruct (h_buf h) as [|b0 bv] eqn:Eb.
  { apply bread_empty; auto; unfold n; lia. }
  destruct Hi as [H1 [H2 H3]]. rewrite Eb in H1, H3.
  set (L := length (b0 :: bv)) in *.
  destruct fuel as [|f]; [lia|]. unfold n. rewrite bread_unfold. fold n. rewrite Eb. cbv zeta. fold L.
  destruct (Nat.le_gt_cases n L) as [Hle|Hgt].
  - replace (Nat.min n L) with n by lia. rewrite Nat.sub_diag, bread_zero.
    exists {| h_num := h_num h; h_buf := skipn n (b0 :: bv); h_off := h_off h |}.
    split; [|split; [|reflexivity]].
    + rewrite H3. rewrite firstn_firstn' by lia. reflexivity.
    + unfold hinv. cbn [h_buf h_off]. rewrite H3. rewrite skipn_firstn', skipn_skipn'.
      rewrite firstn_length, skipn_length. repeat split; try lia. f_equal. lia.
  - replace (Nat.min n L) with L by lia.
    replace (firstn L (b0 :: bv)) with (b0 :: bv) by (symmetry; apply firstn_all).
    replace (skipn L (b0 :: bv)) with (@nil N) by (symmetry; apply skipn_all).
    destruct (bread_empty f content {| h_num := h_num h; h_buf := []; h_off := h_off h |} (n - L) (acc ++ b0 :: bv) (p + L))
      as [h' [E [Hi' Hn']]]; try reflexivity; try lia.
    { unfold hinv. cbn [h_buf h_off length]. repeat split; try lia. }
    exists h'. split; [|split].
    + rewrite E. f_equal. f_equal. rewrite <- app_assoc. f_equal.
      replace n with (L + (n - L)) at 2 by lia. rewrite firstn_add_skipn. rewrite <- H3.
      rewrite skipn_skipn'. reflexivity.
    + replace (p + n) with (p + L + (n - L)) by lia. exact Hi'.
    + exact Hn'.
Qed.

(* ---- write_at puts the data where it says, and leaves what lies before it alone ---- *)
Lemma write_at_read content pos data :
  pos <= length content ->
  firstn (length data) (skipn pos (write_at content pos data)) = data /\
  firstn pos (write_at content pos data) = firstn pos content /\
  pos + length data <= length (write_at content pos data).
Proof.
  intros H. unfold write_at. replace (pos - length content) with 0 by lia. cbn [repeat app].
  assert (Hl : length (firstn pos content) = pos) by (rewrite firstn_length; lia).
  repeat split.
  - rewrite skipn_app, Hl, Nat.sub_diag. rewrite (skipn_all2 (firstn pos content)) by lia. cbn [skipn app].
    rewrite firstn_app, Nat.sub_diag, firstn_all. cbn [firstn]. apply app_nil_r.
  - rewrite firstn_app, Hl, Nat.sub_diag. cbn [firstn]. rewrite app_nil_r. apply firstn_firstn'. lia.
  - rewrite !app_length, Hl. lia.
Qed.

Lemma un_be32_be32 n : (n < 4294967296)%N -> un_be32 (be32 n) = n.
Proof. apply be32_roundtrip. Qed.

(* reading at a position where a frame starts yields its payload and moves past it *)
Lemma read_frame content h p m :
  hinv content h p ->
  (N.of_nat (length m) < 2147483648)%N ->
  firstn (4 + length m) (skipn p content) = frame m ->
  p + 4 + length m <= length content ->
  exists h1 h2,
    bread (8 + length content) content h 4 [] = Some (be32 (N.of_nat (length m)), h1) /\
    bread (8 + length content + length m) content h1 (length m) [] = Some (m, h2) /\
    hinv content h2 (p + 4 + length m) /\ h_num h2 = h_num h.
Proof.
  intros Hi Hm Hfr Hlen.
  destruct (bread_spec (8 + length content) content h 4 [] p Hi ltac:(lia) ltac:(lia)) as [h1 [E1 [Hi1 Hn1]]].
  destruct (bread_spec (8 + length content + length m) content h1 (length m) [] (p + 4) Hi1 ltac:(lia) ltac:(lia))
    as [h2 [E2 [Hi2 Hn2]]].
  exists h1, h2. split; [|split; [|split; [exact Hi2 | congruence]]].
  - rewrite E1. cbn [app]. f_equal. f_equal.
    assert (firstn 4 (skipn p content) = firstn 4 (frame m)).
    { rewrite <- Hfr. rewrite firstn_firstn'; [reflexivity | lia]. }
    rewrite H. unfold frame. reflexivity.
  - rewrite E2. cbn [app]. f_equal. f_equal.
    assert (E : skipn 4 (firstn (4 + length m) (skipn p content)) = skipn 4 (frame m)) by (rewrite Hfr; reflexivity).
    rewrite skipn_firstn', skipn_skipn' in E. replace (4 + length m - 4) with (length m) in E by lia.
    rewrite E. unfold frame. reflexivity.
Qed.
