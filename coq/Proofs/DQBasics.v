(* Disk queue: framing and metadata text round trips, file-table lemmas. *)
From CRNG Require Import Base.ListX Base.Bytes Base.Decimal Model.DiskQueue.
From Coq Require Import ZifyN ZifyNat ZifyBool.
Ltac Zify.zify_post_hook ::= Z.div_mod_to_equations.

Lemma land_255 x : N.land x 255 = x mod 256.
Proof. change 255 with (N.ones 8). rewrite N.land_ones. reflexivity. Qed.

Lemma be32_roundtrip n : n < 4294967296 -> un_be32 (be32 n) = n.
Proof.
  intros H. unfold be32, un_be32. rewrite !land_255, !N.shiftr_div_pow2.
  change (2 ^ 24) with 16777216. change (2 ^ 16) with 65536. change (2 ^ 8) with 256. lia.
Qed.

(* reading a frame back: the length prefix and then the payload *)
Theorem frame_roundtrip m rest :
  N.of_nat (length m) < 4294967296 ->
  un_be32 (firstn 4 (frame m ++ rest)) = N.of_nat (length m) /\
  firstn (length m) (skipn 4 (frame m ++ rest)) = m /\
  skipn (length m) (skipn 4 (frame m ++ rest)) = rest.
Proof.
  intros H. unfold frame. rewrite <- app_assoc.
  change (firstn 4 (be32 (N.of_nat (length m)) ++ m ++ rest)) with (be32 (N.of_nat (length m))).
  change (skipn 4 (be32 (N.of_nat (length m)) ++ m ++ rest)) with (m ++ rest).
  split; [apply be32_roundtrip; exact H|]. split.
  - rewrite firstn_app, Nat.sub_diag, firstn_all. simpl. apply app_nil_r.
  - rewrite skipn_app, Nat.sub_diag, skipn_all. reflexivity.
Qed.

(* ---- decimal text ----------------------------------------------------------- *)
Lemma is_digit_char d : d < 10 -> is_digit (48 + d) = true.
Proof. intros H. unfold is_digit. lia. Qed.

Lemma dec_fuel_spec fuel : forall n acc, n < 10 ^ N.of_nat fuel -> (0 < fuel)%nat ->
  exists ds, dec_fuel fuel n acc = ds ++ acc /\ ds <> [] /\ forallb is_digit ds = true /\
             forall a tail, dec_parse_acc (ds ++ tail) a =
                            dec_parse_acc tail (a * 10 ^ N.of_nat (length ds) + n).
Proof.
  induction fuel as [|f IH]; intros n acc Hn Hf; [lia|].
  cbn [dec_fuel]. destruct (n / 10 =? 0) eqn:E.
  - apply N.eqb_eq in E. assert (n < 10) by lia.
    exists [48 + n mod 10]. repeat split.
    + discriminate.
    + cbn [forallb]. rewrite is_digit_char by lia. reflexivity.
    + intros a tail. cbn [app dec_parse_acc length]. rewrite is_digit_char by lia. f_equal. change (N.of_nat 1) with 1. lia.
  - apply N.eqb_neq in E.
    destruct f as [|f'].
    { exfalso. simpl in Hn. lia. }
    assert (Hq : n / 10 < 10 ^ N.of_nat (S f')).
    { rewrite Nat2N.inj_succ, N.pow_succ_r' in Hn. rewrite Nat2N.inj_succ. lia. }
    destruct (IH (n / 10) ((48 + n mod 10) :: acc) Hq ltac:(lia)) as [ds [E1 [Hne [Hd Hp]]]].
    exists (ds ++ [48 + n mod 10]). repeat split.
    + rewrite E1, <- app_assoc. reflexivity.
    + destruct ds; discriminate.
    + rewrite forallb_app, Hd. cbn [forallb andb]. rewrite is_digit_char by lia. reflexivity.
    + intros a tail. rewrite <- app_assoc, Hp. cbn [app dec_parse_acc]. rewrite is_digit_char by lia. f_equal.
      rewrite app_length. cbn [length]. rewrite Nat.add_1_r, Nat2N.inj_succ, N.pow_succ_r'. lia.
Qed.

Lemma size_bound n : n < 10 ^ N.of_nat (S (N.to_nat (N.size n))).
Proof.
  rewrite Nat2N.inj_succ, N2Nat.id.
  destruct n as [|p]; [simpl; lia|].
  apply N.lt_le_trans with (2 ^ N.size (N.pos p)); [apply N.size_gt|].
  apply N.le_trans with (10 ^ N.size (N.pos p)); [apply N.pow_le_mono_l; lia|].
  apply N.pow_le_mono_r; lia.
Qed.

Lemma N_to_dec_spec n :
  exists ds, N_to_dec n = ds /\ ds <> [] /\ forallb is_digit ds = true /\
             forall a tail, dec_parse_acc (ds ++ tail) a = dec_parse_acc tail (a * 10 ^ N.of_nat (length ds) + n).
Proof.
  unfold N_to_dec. destruct (dec_fuel_spec (S (N.to_nat (N.size n))) n [] (size_bound n) ltac:(lia)) as [ds [E [H1 [H2 H3]]]].
  exists ds. rewrite E, app_nil_r. auto.
Qed.

Lemma span_digits_app ds tail c :
  forallb is_digit ds = true -> is_digit c = false -> span_digits (ds ++ c :: tail) = (ds, c :: tail).
Proof.
  induction ds as [|d ds IH]; simpl; intros Hd Hc; [rewrite Hc; reflexivity|].
  apply andb_true_iff in Hd as [H1 H2]. rewrite H1, (IH H2 Hc). reflexivity.
Qed.

Lemma scan_nat_print n c tail : is_digit c = false -> scan_nat (N_to_dec n ++ c :: tail) = Some (n, c :: tail).
Proof.
  intros Hc. destruct (N_to_dec_spec n) as [ds [-> [Hne [Hd Hp]]]].
  unfold scan_nat. rewrite (span_digits_app ds tail c Hd Hc).
  unfold dec_parse. destruct ds as [|d ds']; [contradiction|].
  specialize (Hp 0 []). rewrite app_nil_r in Hp. rewrite Hp. simpl. reflexivity.
Qed.

Lemma N_to_dec_head n : exists d ds, N_to_dec n = d :: ds /\ is_digit d = true.
Proof.
  destruct (N_to_dec_spec n) as [ds [-> [Hne [Hd _]]]]. destruct ds as [|d ds]; [contradiction|].
  exists d, ds. simpl in Hd. apply andb_true_iff in Hd as [H _]. auto.
Qed.

Lemma digit_not_minus d : is_digit d = true -> (d =? 45) = false.
Proof. unfold is_digit. intros H. lia. Qed.

Lemma scan_int_nonneg n c tail : is_digit c = false ->
  scan_int (N_to_dec n ++ c :: tail) = Some (Z.of_N n, c :: tail).
Proof.
  intros Hc. pose proof (scan_nat_print n c tail Hc) as Hs.
  destruct (N_to_dec_head n) as [d [ds [E Hd]]]. rewrite E in *. cbn [app] in *.
  unfold scan_int. rewrite (digit_not_minus d Hd), Hs. reflexivity.
Qed.

Lemma scan_int_print z c tail : is_digit c = false -> scan_int (Z_to_dec z ++ c :: tail) = Some (z, c :: tail).
Proof.
  intros Hc. destruct z as [|p|p]; unfold Z_to_dec.
  - apply (scan_int_nonneg 0 c tail Hc).
  - change (Z.to_N (Z.pos p)) with (N.pos p). apply (scan_int_nonneg (N.pos p) c tail Hc).
  - cbn [app]. unfold scan_int. rewrite N.eqb_refl, scan_nat_print by exact Hc. reflexivity.
Qed.

(* the metadata text round trip: what persistMetaData prints, retrieveMetaData reads back — whatever stale bytes follow *)
Lemma expect_hit c s : expect c (c :: s) = Some s.
Proof. unfold expect. rewrite N.eqb_refl. reflexivity. Qed.

Theorem meta_roundtrip d rf rp wf wp stale :
  parse_meta (print_meta d rf rp wf wp ++ stale) = Some (d, rf, rp, wf, wp).
Proof.
  unfold print_meta, parse_meta. repeat rewrite <- app_assoc. cbn [app].
  rewrite scan_int_print by reflexivity. rewrite expect_hit.
  rewrite scan_nat_print by reflexivity. rewrite expect_hit.
  rewrite scan_nat_print by reflexivity. rewrite expect_hit.
  rewrite scan_nat_print by reflexivity. rewrite expect_hit.
  rewrite scan_nat_print by reflexivity. rewrite expect_hit. reflexivity.
Qed.
