(* C18: with copy-on-delete and Go's append, no writer step changes what a previously
   published slice header shows; with the in-place delete it does. *)
From CRNG Require Import Base.ListX Base.Bytes Model.GoSlice.
Local Open Scope nat_scope.

Section P.
  Variable A : Type.
  Notation heap := (heap A).
  Notation view := (view A).
  Notation arr := (arr A).

  Lemma nth_set_nth_same {B} (l : list B) i x d : i < length l -> nth i (set_nth l i x) d = x.
  Proof. revert i; induction l as [|y l IH]; intros [|i] H; simpl in *; try lia; [reflexivity|apply IH; lia]. Qed.

  Lemma nth_set_nth_other {B} (l : list B) i j x d : i <> j -> nth j (set_nth l i x) d = nth j l d.
  Proof. revert i j; induction l as [|y l IH]; intros [|i] [|j] H; simpl; try reflexivity; try lia. apply IH. lia. Qed.

  Lemma length_set_nth {B} (l : list B) i x : length (set_nth l i x) = length l.
  Proof. revert i; induction l as [|y l IH]; intros [|i]; simpl; auto. Qed.

  Lemma firstn_set_nth_ge {B} (l : list B) i x n : n <= i -> firstn n (set_nth l i x) = firstn n l.
  Proof.
    revert i n; induction l as [|y l IH]; intros [|i] [|n] H; simpl; try reflexivity; try lia.
    f_equal. apply IH. lia.
  Qed.

  Lemma firstn_S_set_nth {B} (l : list B) n x : n < length l -> firstn (S n) (set_nth l n x) = firstn n l ++ [x].
  Proof.
    revert n; induction l as [|y l IH]; intros [|n] H; simpl in *; try lia; [reflexivity|]. f_equal. apply IH. lia.
  Qed.

  Lemma firstn_snoc {B} (a : list B) x r : firstn (length (a ++ [x])) (a ++ x :: r) = a ++ [x].
  Proof. induction a as [|y a IH]; simpl; [reflexivity|]. f_equal. exact IH. Qed.

  Definition valid (h : heap) (s : header) : Prop := h_arr s < length h /\ h_len s <= length (arr h (h_arr s)).

  Definition Inv (w : wstate A) : Prop :=
    valid (w_heap A w) (w_cur A w) /\
    (forall p, In p (w_published A w) -> valid (w_heap A w) p) /\
    (forall p, In p (w_published A w) -> h_arr p = h_arr (w_cur A w) -> h_len p <= h_len (w_cur A w)).

  Lemma arr_app_old (h : heap) na i : i < length h -> arr (h ++ [na]) i = arr h i.
  Proof. intros H. unfold GoSlice.arr. apply app_nth1. exact H. Qed.

  Lemma view_app_old (h : heap) na p : valid h p -> view (h ++ [na]) p = view h p.
  Proof. intros [H _]. unfold GoSlice.view. rewrite arr_app_old by exact H. reflexivity. Qed.

  (* one writer step with copy-on-delete: every published header still shows what it showed *)
  Theorem step_preserves_views filler w o :
    Inv w ->
    let w' := wstep A (del_copy A) filler w o in
    (forall p, In p (w_published A w) -> view (w_heap A w') p = view (w_heap A w) p) /\ Inv w'.
  Proof.
    intros [Hc [Hv Hl]]. destruct o as [x|i]; simpl.
    - unfold go_append. destruct (Nat.ltb (h_len (w_cur A w)) (length (arr (w_heap A w) (h_arr (w_cur A w))))) eqn:E; simpl.
      + apply Nat.ltb_lt in E. split.
        * intros p Hp. unfold GoSlice.view, GoSlice.arr. destruct (Nat.eq_dec (h_arr p) (h_arr (w_cur A w))) as [Ea|Ea].
          -- rewrite Ea. rewrite nth_set_nth_same by (destruct Hc; assumption).
             apply firstn_set_nth_ge. apply Hl; assumption.
          -- rewrite nth_set_nth_other by congruence. reflexivity.
        * split; [|split].
          -- split; simpl; [rewrite length_set_nth; destruct Hc; assumption|].
             unfold GoSlice.arr. rewrite nth_set_nth_same by (destruct Hc; assumption). rewrite length_set_nth. exact E.
          -- intros p [<-|Hp].
             ++ split; simpl; [rewrite length_set_nth; destruct Hc; assumption|].
                unfold GoSlice.arr. rewrite nth_set_nth_same by (destruct Hc; assumption). rewrite length_set_nth. exact E.
             ++ destruct (Hv p Hp) as [H1 H2]. split; simpl; [rewrite length_set_nth; exact H1|].
                unfold GoSlice.arr. destruct (Nat.eq_dec (h_arr p) (h_arr (w_cur A w))) as [Ea|Ea].
                ** rewrite Ea, nth_set_nth_same by (destruct Hc; assumption). rewrite length_set_nth.
                   unfold GoSlice.arr in H2. rewrite Ea in H2. exact H2.
                ** rewrite nth_set_nth_other by congruence. exact H2.
          -- intros p [<-|Hp] Ha; simpl in *; [lia|]. specialize (Hl p Hp Ha). lia.
      + split.
        * intros p Hp. apply view_app_old. apply Hv; exact Hp.
        * assert (Hnew : forall na, valid (w_heap A w ++ [na]) {| h_arr := length (w_heap A w); h_len := S (h_len (w_cur A w)) |} <->
                                    S (h_len (w_cur A w)) <= length na).
          { intros na. unfold valid; simpl. rewrite app_length. simpl. unfold GoSlice.arr.
            rewrite app_nth2, Nat.sub_diag by lia. simpl. split; [tauto|intros; split; [lia|assumption]]. }
          split; [|split].
          -- apply Hnew. rewrite !app_length. unfold GoSlice.view. rewrite firstn_length. simpl.
             apply Nat.ltb_ge in E. destruct Hc as [_ Hc2]. rewrite repeat_length. lia.
          -- intros p [<-|Hp].
             ++ apply Hnew. rewrite !app_length. unfold GoSlice.view. rewrite firstn_length. simpl.
                apply Nat.ltb_ge in E. destruct Hc as [_ Hc2]. rewrite repeat_length. lia.
             ++ destruct (Hv p Hp) as [H1 H2]. split; cbn [w_heap]; [rewrite app_length; simpl; lia|]. rewrite arr_app_old by exact H1. exact H2.
          -- intros p [<-|Hp] Ha; simpl in *; [lia|]. destruct (Hv p Hp) as [H1 _]. lia.
    - destruct (Nat.ltb i (h_len (w_cur A w))) eqn:E; simpl; [|split; [reflexivity|split; [|split]; assumption]].
      apply Nat.ltb_lt in E. split.
      + intros p Hp. apply view_app_old. apply Hv; exact Hp.
      + assert (Hlen : length (firstn i (view (w_heap A w) (w_cur A w)) ++ skipn (S i) (view (w_heap A w) (w_cur A w))) = h_len (w_cur A w) - 1).
        { rewrite app_length, firstn_length, skipn_length. unfold GoSlice.view. rewrite firstn_length.
          destruct Hc as [_ Hc2]. lia. }
        assert (Hnew : valid (w_heap A w ++ [firstn i (view (w_heap A w) (w_cur A w)) ++ skipn (S i) (view (w_heap A w) (w_cur A w))])
                             {| h_arr := length (w_heap A w); h_len := h_len (w_cur A w) - 1 |}).
        { unfold valid; cbn [h_arr h_len]. rewrite app_length. cbn [length]. split; [lia|]. unfold GoSlice.arr. rewrite app_nth2, Nat.sub_diag by lia. cbn [nth].
          rewrite Hlen. lia. }
        split; [exact Hnew|split].
        * intros p [<-|Hp]; [exact Hnew|]. destruct (Hv p Hp) as [H1 H2]. split; cbn [w_heap]; [rewrite app_length; simpl; lia|]. rewrite arr_app_old by exact H1. exact H2.
        * intros p [<-|Hp] Ha; simpl in *; [lia|]. destruct (Hv p Hp) as [H1 _]. lia.
  Qed.

  (* ... hence for every history of adds and deletes *)
  Fixpoint wrun (filler : A) (w : wstate A) (ops : list (sop A)) : wstate A :=
    match ops with [] => w | o :: r => wrun filler (wstep A (del_copy A) filler w o) r end.

  Lemma published_grows filler w o p : In p (w_published A w) -> In p (w_published A (wstep A (del_copy A) filler w o)).
  Proof.
    intros H. destruct o as [x|i]; simpl.
    - destruct (go_append A (w_heap A w) (w_cur A w) x filler). simpl. right; exact H.
    - destruct (Nat.ltb i (h_len (w_cur A w))); [|exact H]. simpl. right; exact H.
  Qed.

  Theorem snapshots_immutable filler ops : forall w,
    Inv w -> forall p, In p (w_published A w) -> view (w_heap A (wrun filler w ops)) p = view (w_heap A w) p.
  Proof.
    induction ops as [|o r IH]; intros w HI p Hp; simpl; [reflexivity|].
    destruct (step_preserves_views filler w o HI) as [Hv HI'].
    rewrite (IH _ HI' p (published_grows filler w o p Hp)). apply Hv; exact Hp.
  Qed.

  (* the view of the current header follows the list semantics *)
  Lemma view_append filler h s x : valid h s ->
    view (fst (go_append A h s x filler)) (snd (go_append A h s x filler)) = view h s ++ [x].
  Proof.
    intros [H1 H2]. unfold go_append. destruct (Nat.ltb (h_len s) (length (arr h (h_arr s)))) eqn:E; simpl.
    - apply Nat.ltb_lt in E. unfold GoSlice.view, GoSlice.arr in *. cbn [h_arr h_len]. rewrite nth_set_nth_same by exact H1.
      apply firstn_S_set_nth. exact E.
    - apply Nat.ltb_ge in E. unfold GoSlice.view at 1. cbn [h_arr h_len fst snd]. unfold GoSlice.arr at 1.
      rewrite app_nth2, Nat.sub_diag by lia. cbn [nth].
      assert (HL : length (GoSlice.view A h s ++ [x]) = S (h_len s)).
      { rewrite app_length. unfold GoSlice.view. rewrite firstn_length. cbn [length]. unfold GoSlice.arr in *. lia. }
      rewrite <- HL. apply firstn_snoc.
  Qed.

  Lemma view_del_copy h s i : valid h s -> i < h_len s ->
    view (fst (del_copy A h s i)) (snd (del_copy A h s i)) = firstn i (view h s) ++ skipn (S i) (view h s).
  Proof.
    intros [H1 H2] Hi. unfold del_copy. cbn [fst snd]. unfold GoSlice.view at 1. cbn [h_arr h_len]. unfold GoSlice.arr at 1.
    rewrite app_nth2, Nat.sub_diag by lia. cbn [nth].
    apply firstn_all2. rewrite app_length, firstn_length, skipn_length. unfold GoSlice.view. rewrite firstn_length.
    unfold GoSlice.arr in *. lia.
  Qed.
End P.

(* the in-place delete breaks it: [A;B;C] published, delete index 0, the old header now shows [B;C;C] *)
Example inplace_delete_refuted :
  let h0 : heap N := [[1; 2; 3]%N] in
  let s0 := {| h_arr := 0; h_len := 3 |} in
  let '(h1, s1) := del_inplace N h0 s0 0 in
  view N h0 s0 = [1; 2; 3]%N /\ view N h1 s1 = [2; 3]%N /\ view N h1 s0 = [2; 3; 3]%N.
Proof. vm_compute. auto. Qed.
