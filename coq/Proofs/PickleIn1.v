(* C13: the protocol 1 pickler model (MARK ... TUPLE instead of TUPLE2, no PROTO header) is decoded into the
   equivalent plain-text lines. *)
From CRNG Require Import Base.ListX Base.Bytes Base.Decimal Model.PickleVM Model.Reencode Model.PickleIn Model.PyPickle
  Proofs.ReencodeProofs Proofs.PickleInProofs.
From Coq Require Import ZifyN ZifyNat ZifyBool.
Ltac Zify.zify_post_hook ::= Z.div_mod_to_equations.
Local Open Scope N_scope.

Section Steps1.
  Variable pf : bytes -> option N.
  Notation R := (run pf false).

  Lemma run_mark f st mem rest b :
    R (S f) {| stk := st; memo := mem |} (40 :: rest) b = R f {| stk := VMark :: st; memo := mem |} rest false.
  Proof. reflexivity. Qed.

  Lemma num_val_not_mark x : num_val x <> VMark.
  Proof. destruct x; discriminate. Qed.

  Lemma run_tuple_nums f st mem t v rest b :
    R (S f) {| stk := num_val v :: num_val t :: VMark :: st; memo := mem |} (116 :: rest) b
    = R f {| stk := VTuple [num_val t; num_val v] :: st; memo := mem |} rest false.
  Proof. rewrite run_step. destruct t, v; reflexivity. Qed.

  Lemma run_tuple_item f st mem s x rest b :
    R (S f) {| stk := VTuple x :: VStr s :: VMark :: st; memo := mem |} (116 :: rest) b
    = R f {| stk := VTuple [VStr s; VTuple x] :: st; memo := mem |} rest false.
  Proof. reflexivity. Qed.

  Lemma run_enc_item1 f st mem d i rest b :
    dp_ok d = true -> i + 2 < 4294967296 ->
    exists mem', R (10 + f) {| stk := st; memo := mem |} (enc_item1 d i ++ rest) b
                 = R f {| stk := item_val d :: st; memo := mem' |} rest false.
  Proof.
    intros Hd Hi. unfold dp_ok in Hd. apply andb_true_iff in Hd as [Hd Hv]. apply andb_true_iff in Hd as [Hn Ht].
    unfold enc_item1. rewrite <- !app_assoc. cbn [Nat.add app].
    rewrite run_mark.
    destruct (run_enc_str pf (S (S (S (S (S (S (S f))))))) (VMark :: st) mem (d_name d) i
                (40 :: enc_num (d_ts d) ++ enc_num (d_val d) ++ 116 :: put (i + 1) ++ 116 :: put (i + 2) ++ rest) false
                ltac:(lia) ltac:(lia)) as [m1 E1].
    rewrite E1. rewrite run_mark.
    rewrite (run_enc_num pf _ _ _ _ _ _ Ht), (run_enc_num pf _ _ _ _ _ _ Hv).
    rewrite run_tuple_nums.
    destruct (run_put pf (S (S f)) (VStr (d_name d) :: VMark :: st) m1 (VTuple [num_val (d_ts d); num_val (d_val d)]) (i + 1)
                (116 :: put (i + 2) ++ rest) false ltac:(lia)) as [m2 E2].
    rewrite E2. rewrite run_tuple_item.
    destruct (run_put pf f st m2 (VTuple [VStr (d_name d); VTuple [num_val (d_ts d); num_val (d_val d)]]) (i + 2)
                rest false ltac:(lia)) as [m3 E3].
    exists m3. exact E3.
  Qed.

  Lemma run_enc_items1 ds : forall f st mem i rest b,
    forallb dp_ok ds = true -> i + 3 * N.of_nat (length ds) < 4294967296 ->
    exists mem', R (10 * length ds + f) {| stk := st; memo := mem |} (enc_items1 ds i ++ rest) b
                 = R f {| stk := rev (map item_val ds) ++ st; memo := mem' |} rest
                     (match ds with [] => b | _ => false end).
  Proof.
    induction ds as [|d ds IH]; intros f st mem i rest b Hok Hi.
    - exists mem. reflexivity.
    - cbn [forallb] in Hok. apply andb_true_iff in Hok as [Hd Hok]. cbn [length] in Hi.
      cbn [enc_items1 length map rev]. rewrite <- app_assoc.
      replace (10 * S (length ds) + f)%nat with (10 + (10 * length ds + f))%nat by lia.
      destruct (run_enc_item1 (10 * length ds + f) st mem d i (enc_items1 ds (i + 3) ++ rest) b Hd ltac:(lia)) as [m1 ->].
      destruct (IH f (item_val d :: st) m1 (i + 3) rest false Hok ltac:(lia)) as [m2 E].
      exists m2. rewrite E. rewrite <- app_assoc. cbn [app].
      destruct ds; reflexivity.
  Qed.

  Lemma length_enc_items1 ds : forall i, (10 * length ds <= length (enc_items1 ds i))%nat.
  Proof.
    induction ds as [|d ds IH]; intros i; cbn [enc_items1 length]; [lia|].
    rewrite app_length. specialize (IH (i + 3)).
    assert (10 <= length (enc_item1 d i))%nat; [|lia].
    unfold enc_item1, enc_str. repeat (rewrite app_length || cbn [length]). rewrite ?length_le_bytes.
    assert (2 <= length (put i))%nat by (unfold put; destruct (i <? 256); cbn [length]; try rewrite length_le_bytes; lia).
    assert (2 <= length (put (i + 1)))%nat by (unfold put; destruct (i + 1 <? 256); cbn [length]; try rewrite length_le_bytes; lia).
    lia.
  Qed.

  Theorem unpickle_py_dumps1 ds :
    forallb dp_ok ds = true -> 3 * N.of_nat (length ds) + 1 < 4294967296 ->
    unpickle pf false (py_dumps1 ds) = RDone (VList (map item_val ds)).
  Proof.
    intros Hok Hn. unfold unpickle.
    assert (HK : R (10 * length ds + 5) vm0 (py_dumps1 ds) true = RDone (VList (map item_val ds))).
    { unfold py_dumps1. cbn [app]. replace (10 * length ds + 5)%nat with (S (10 * length ds + 4)) by lia.
      rewrite run_step.
      match goal with |- context [step pf false ?m 93 ?s] => change (step pf false m 93 s) with (SNext (push (VList []) m) s) end.
      cbv beta iota. unfold push, vm0. cbn [stk memo].
      replace (10 * length ds + 4)%nat with (S (10 * length ds + 3)) by lia.
      destruct (run_put pf (10 * length ds + 3) [] [] (VList []) 0
                  (match ds with [] => [] | [d] => enc_item1 d 1 ++ [97] | _ :: _ :: _ => 40 :: enc_items1 ds 1 ++ [101] end ++ [46])
                  false ltac:(lia)) as [m0 ->].
      destruct ds as [|d [|d2 ds]].
      - cbn [app length Nat.mul Nat.add]. reflexivity.
      - cbn [forallb] in Hok. apply andb_true_iff in Hok as [Hd _].
        rewrite <- app_assoc. cbn [length].
        replace (10 * 1 + 3)%nat with (10 + 3)%nat by lia.
        destruct (run_enc_item1 3 [VList []] m0 d 1 ([97] ++ [46]) false Hd ltac:(lia)) as [m1 ->].
        reflexivity.
      - remember (d :: d2 :: ds) as dl eqn:Edl.
        cbn [app]. rewrite <- app_assoc.
        replace (10 * length dl + 3)%nat with (S (10 * length dl + 2)) by lia.
        rewrite run_mark.
        destruct (run_enc_items1 dl 2 [VMark; VList []] m0 1 ([101] ++ [46]) false Hok ltac:(lia)) as [m1 E].
        rewrite E. replace (match dl with [] => false | _ :: _ => false end) with false by (destruct dl; reflexivity).
        cbn [app]. rewrite run_step.
        assert (Hsm : split_mark (rev (map item_val dl) ++ [VMark; VList []]) [] = Some (map item_val dl, [VList []])).
        { rewrite (split_mark_rev (map item_val dl) [VList []] []); [rewrite app_nil_r; reflexivity|].
          intros v Hv. apply in_map_iff in Hv as [x [<- _]]. discriminate. }
        change (step pf false {| stk := rev (map item_val dl) ++ [VMark; VList []]; memo := m1 |} 101 [46])
          with (match split_mark (rev (map item_val dl) ++ [VMark; VList []]) [] with
                | Some (items, VList xs :: r) =>
                    SNext (set_stk (VList (xs ++ items) :: r) {| stk := rev (map item_val dl) ++ [VMark; VList []]; memo := m1 |}) [46]
                | _ => SFail RErr
                end).
        rewrite Hsm. reflexivity. }
    rewrite (run_more pf false (10 * length ds + 5)); [exact HK | rewrite HK; discriminate |].
    unfold py_dumps1. rewrite !app_length.
    assert (H2 : (2 <= length (put 0))%nat) by (cbn; lia).
    destruct ds as [|d [|d2 ds]].
    - cbn [length] in *. lia.
    - pose proof (length_enc_items1 [d] 1) as L. cbn [enc_items1] in L. rewrite app_nil_r in L.
      rewrite app_length. cbn [length] in *. lia.
    - pose proof (length_enc_items1 (d :: d2 :: ds) 1) as L.
      rewrite !app_length. cbn [length] in *. lia.
  Qed.
End Steps1.

Section Conn1.
  Variable pf : bytes -> option N.
  Variable fmt6 fmt0 : N -> bytes.

  Definition frame_ok1 (ds : list pydp) : Prop :=
    forallb dp_ok ds = true /\ 3 * N.of_nat (length ds) + 1 < 4294967296 /\
    N.of_nat (length (py_dumps1 ds)) <= max_payload.

  Lemma handle_frame1 f ds rest :
    frame_ok1 ds ->
    handle_stream pf fmt6 fmt0 (S f) (frame_of (py_dumps1 ds) ++ rest)
    = let (evs, fn) := handle_stream pf fmt6 fmt0 f rest in
      (map (fun d => EvLine (line_of fmt6 fmt0 d)) ds ++ evs, fn).
  Proof.
    intros [Hok [Hn Hmax]]. unfold frame_of.
    rewrite <- (app_assoc (be_bytes 4 (N.of_nat (length (py_dumps1 ds)))) (py_dumps1 ds) rest).
    set (p := py_dumps1 ds) in *.
    assert (Hp3 : exists t, p = 93 :: t) by (unfold p, py_dumps1; cbn [app]; eexists; reflexivity).
    destruct Hp3 as [t Ep].
    cbn [handle_stream].
    assert (Hne : exists c r, be_bytes 4 (N.of_nat (length p)) ++ p ++ rest = c :: r).
    { unfold be_bytes. cbn [le_bytes rev app]. rewrite <- ?app_assoc. cbn [app]. eexists _, _. reflexivity. }
    destruct Hne as [c0 [r0 E0]]. rewrite E0, <- E0.
    assert (Ht : take 4 (be_bytes 4 (N.of_nat (length p)) ++ p ++ rest) = Some (be_bytes 4 (N.of_nat (length p)), p ++ rest)).
    { replace 4%nat with (length (be_bytes 4 (N.of_nat (length p)))) at 1
        by (unfold be_bytes; rewrite rev_length; apply length_le_bytes).
      apply take_app. }
    rewrite Ht. cbv zeta. rewrite be_num_be_bytes.
    change (256 ^ N.of_nat 4) with 4294967296.
    unfold max_payload in *. rewrite N.mod_small by lia.
    replace (524288000 <? N.of_nat (length p)) with false by lia.
    replace (check_protocol (p ++ rest)) with true by (rewrite Ep; reflexivity).
    cbn [negb]. rewrite take_n_app.
    unfold p. rewrite (unpickle_py_dumps1 pf ds Hok Hn).
    destruct (handle_stream pf fmt6 fmt0 f rest) as [evs fn].
    rewrite map_map. f_equal. f_equal. apply map_ext. intros d. apply handle_item_val.
  Qed.
End Conn1.
