(* C10: no (bucket, key) is ever reported twice, for every history whose clock
   readings never fall behind an earlier tick. Generic in the per-key state. *)
From CRNG Require Import Base.ListX Base.Bytes Model.Aggregator Proofs.AggregatorProofs.
From Coq Require Import ZifyN ZifyNat ZifyBool.

Section Once.
  Variable F P : Type.
  Variable pnew : F -> N -> P.
  Variable padd : P -> F -> N -> P.
  Variable pflush : P -> list (bytes * F).
  Variables interval wait : N.

  Notation bucket := (bucket P).
  Notation bsorted := (bsorted P).

  Definition pairs (bs : list bucket) : list (N * bytes) :=
    flat_map (fun b => map (fun kp => (fst b, fst kp)) (snd b)) bs.

  (* the buckets a step reports *)
  Definition flushed_of (st : astate P) (e : aevent F) : list bucket :=
    match e with
    | APoint _ _ _ _ _ => []
    | ATick _ t => fst (split_flush P (a_buckets P st) (cutoff_of wait t))
    end.

  Fixpoint run_pairs (st : astate P) (evs : list (aevent F)) : list (N * bytes) :=
    match evs with
    | [] => []
    | e :: r => pairs (flushed_of st e) ++ run_pairs (fst (astep F P pnew padd pflush interval wait st e)) r
    end.

  (* clock hypothesis: readings do not wrap, and a point's "now" is not before any earlier tick *)
  Fixpoint clock_ok (tmax : N) (evs : list (aevent F)) : Prop :=
    match evs with
    | [] => True
    | APoint _ _ _ _ now :: r => tmax <= now /\ wait <= now /\ now < W64 /\ clock_ok tmax r
    | ATick _ t :: r => wait <= t /\ t < W64 /\ clock_ok (N.max tmax t) r
    end.

  Lemma usub_exact a b : b <= a -> a < W64 -> usub a b = a - b.
  Proof. unfold usub, W64. intros. lia. Qed.

  Lemma in_bucket_keys bs q ks : bsorted bs -> In (q, ks) bs -> bucket_keys P bs q = Some ks.
  Proof.
    induction 1 as [|q0 ks0 bs H0 Hs IH]; simpl; [intros []|].
    intros [H|H].
    - inversion H; subst. rewrite N.eqb_refl. reflexivity.
    - destruct (q =? q0) eqn:E; [|apply IH; exact H].
      apply N.eqb_eq in E. subst. specialize (H0 _ _ H). lia.
  Qed.

  Lemma bucket_keys_in bs q ks : bucket_keys P bs q = Some ks -> In (q, ks) bs.
  Proof.
    induction bs as [|[q0 ks0] bs IH]; simpl; [discriminate|].
    destruct (q =? q0) eqn:E; [|intros H; right; apply IH; exact H].
    intros H; inversion H; subst. apply N.eqb_eq in E. subst. left; reflexivity.
  Qed.

  Lemma wb_in_strong bs q f q' ks' : bsorted bs ->
    In (q', ks') (with_bucket P bs q f) ->
    (q' = q /\ ks' = f (keys_or_nil P bs q)) \/ (q' <> q /\ In (q', ks') bs).
  Proof.
    intros Hs Hin. pose proof (wb_sorted P bs q f Hs) as Hs'.
    apply (in_bucket_keys _ _ _ Hs') in Hin. rewrite (wb_keys P bs q f q' Hs) in Hin.
    destruct (q' =? q) eqn:E.
    - apply N.eqb_eq in E. inversion Hin. left. auto.
    - apply N.eqb_neq in E. right. split; [exact E|]. apply bucket_keys_in; exact Hin.
  Qed.

  Lemma key_update_keys ks k f ks' : key_update P ks k f = Some ks' -> map fst ks' = map fst ks.
  Proof.
    revert ks'; induction ks as [|[k0 p0] ks IH]; simpl; intros ks' H; [discriminate|].
    destruct (beqb k k0); [inversion H; reflexivity|].
    destruct (key_update P ks k f) eqn:E; [|discriminate]. inversion H; subst. simpl. f_equal. apply IH; reflexivity.
  Qed.

  Lemma key_update_none_notin ks k f : key_update P ks k f = None -> ~ In k (map fst ks).
  Proof.
    induction ks as [|[k0 p0] ks IH]; simpl; [intros _ []|].
    destruct (beqb k k0) eqn:E; [discriminate|]. destruct (key_update P ks k f); [discriminate|].
    intros _ [H|H]; [subst; rewrite beqb_refl in E; discriminate|]. apply IH; auto.
  Qed.

  Definition Inv (st : astate P) (tmax : N) (E : list (N * bytes)) : Prop :=
    bsorted (a_buckets P st) /\
    (forall q ks, In (q, ks) (a_buckets P st) -> NoDup (map fst ks)) /\
    (forall q ks, In (q, ks) (a_buckets P st) -> ks <> [] -> tmax - wait < q) /\
    (forall q k, In (q, k) E -> q <= tmax - wait) /\
    NoDup E.

  Lemma keys_or_nil_in bs q : bsorted bs -> keys_or_nil P bs q <> [] -> In (q, keys_or_nil P bs q) bs.
  Proof.
    unfold keys_or_nil. intros Hs. destruct (bucket_keys P bs q) eqn:E; [intros _; apply bucket_keys_in; exact E|intros H; contradiction].
  Qed.

  Lemma keys_or_nil_nodup bs q : (forall q ks, In (q, ks) bs -> NoDup (map fst ks)) -> NoDup (map fst (keys_or_nil P bs q)).
  Proof.
    unfold keys_or_nil. intros H. destruct (bucket_keys P bs q) eqn:E; [|constructor].
    apply bucket_keys_in in E. eapply H; eauto.
  Qed.

  Lemma inv_point st tmax E key v ts now :
    Inv st tmax E -> tmax <= now -> wait <= now -> now < W64 ->
    Inv (fst (astep F P pnew padd pflush interval wait st (APoint F key v ts now))) tmax E.
  Proof.
    intros [Hs [Hn [Hq [HE HD]]]] Ht Hw Hlt. simpl. set (q := ts - ts mod interval).
    unfold add_or_create.
    change (match bucket_keys P (a_buckets P st) q with Some ks => ks | None => [] end) with (keys_or_nil P (a_buckets P st) q).
    pose proof (keys_or_nil_nodup _ q Hn) as Hnd.
    destruct (key_update P (keys_or_nil P (a_buckets P st) q) key (fun p => padd p v ts)) as [ks'|] eqn:EU; simpl.
    - pose proof (key_update_keys _ _ _ _ EU) as HK.
      split; [apply wb_sorted; exact Hs|]. split; [|split; [|split; assumption]].
      + intros q' ks0 H. apply wb_in_strong in H as [[-> ->]|[_ H]]; [rewrite HK; exact Hnd | eauto | exact Hs].
      + intros q' ks0 H Hne. apply wb_in_strong in H as [[-> ->]|[_ H]]; [|eauto|exact Hs].
        apply (Hq q (keys_or_nil P (a_buckets P st) q)).
        * apply keys_or_nil_in; [exact Hs|]. intros E0. rewrite E0 in EU. discriminate.
        * intros E0. rewrite E0 in EU. discriminate.
    - destruct (usub now wait <? q) eqn:EO; simpl.
      + split; [apply wb_sorted; exact Hs|]. split; [|split; [|split; assumption]].
        * intros q' ks0 H. apply wb_in_strong in H as [[-> ->]|[_ H]]; [|eauto|exact Hs].
          rewrite map_app. simpl. apply NoDup_app_singleton; [exact Hnd|]. eapply key_update_none_notin; eauto.
        * intros q' ks0 H Hne. apply wb_in_strong in H as [[-> ->]|[_ H]]; [|eauto|exact Hs].
          rewrite usub_exact in EO by assumption. lia.
      + split; [apply wb_sorted; exact Hs|]. split; [|split; [|split; assumption]].
        * intros q' ks0 H. apply wb_in_strong in H as [[-> ->]|[_ H]]; [exact Hnd|eauto|exact Hs].
        * intros q' ks0 H Hne. apply wb_in_strong in H as [[-> ->]|[_ H]]; [|eauto|exact Hs].
          apply (Hq q _ (keys_or_nil_in _ _ Hs Hne) Hne).
  Qed.

  Lemma pairs_in bs q k : In (q, k) (pairs bs) <-> exists ks, In (q, ks) bs /\ In k (map fst ks).
  Proof.
    unfold pairs. rewrite in_flat_map. split.
    - intros [[q0 ks] [Hb H]]. simpl in H. apply in_map_iff in H as [[k0 p0] [E Hk]]. inversion E; subst.
      exists ks. split; [exact Hb|]. apply in_map_iff. exists (k, p0). auto.
    - intros [ks [Hb H]]. exists (q, ks). split; [exact Hb|]. simpl.
      apply in_map_iff in H as [[k0 p0] [E Hk]]. simpl in E. subst. apply in_map_iff. exists (k, p0). auto.
  Qed.

  Lemma pairs_nodup bs : bsorted bs -> (forall q ks, In (q, ks) bs -> NoDup (map fst ks)) -> NoDup (pairs bs).
  Proof.
    induction 1 as [|q ks bs H0 Hs IH]; intros Hn; simpl; [constructor|].
    apply NoDup_app_intro.
    - specialize (Hn q ks (or_introl eq_refl)). clear - Hn. induction ks as [|[k p] ks IH]; simpl in *; [constructor|].
      inversion Hn; subst. constructor; [|apply IH; assumption].
      intros H. apply in_map_iff in H as [[k' p'] [E Hk]]. inversion E; subst. apply H1. apply in_map_iff. exists (k, p'). auto.
    - apply IH. intros q' ks' H. apply (Hn q' ks'). right; exact H.
    - intros [q' k'] H1 H2. apply in_map_iff in H1 as [[k0 p0] [E _]]. inversion E; subst.
      apply pairs_in in H2 as [ks' [Hb _]]. specialize (H0 _ _ Hb). lia.
  Qed.

  Lemma inv_tick st tmax E t :
    Inv st tmax E -> wait <= t -> t < W64 ->
    Inv (fst (astep F P pnew padd pflush interval wait st (ATick F t))) (N.max tmax t)
        (E ++ pairs (flushed_of st (ATick F t))).
  Proof.
    intros [Hs [Hn [Hq [HE HD]]]] Hw Hlt. simpl. unfold flush, cutoff_of.
    rewrite (split_flush_spec P _ _ Hs). rewrite usub_exact by assumption. simpl.
    set (c := t - wait).
    split; [apply filter_sorted; exact Hs|]. split; [|split; [|split]].
    - intros q ks H. apply filter_In in H as [H _]. eauto.
    - intros q ks H Hne. apply filter_In in H as [H Hc]. simpl in Hc. specialize (Hq _ _ H Hne). unfold c in Hc. lia.
    - intros q k H. apply in_app_or in H as [H|H]; [specialize (HE _ _ H); lia|].
      apply pairs_in in H as [ks [Hb _]]. apply filter_In in Hb as [_ Hc]. simpl in Hc. unfold c in Hc. lia.
    - apply NoDup_app_intro; [exact HD| |].
      + apply pairs_nodup; [apply filter_sorted; exact Hs|]. intros q ks H. apply filter_In in H as [H _]. eauto.
      + intros [q k] H1 H2. apply pairs_in in H2 as [ks [Hb Hk]]. apply filter_In in Hb as [Hb _].
        assert (ks <> []) as Hne by (intros ->; destruct Hk).
        specialize (Hq _ _ Hb Hne). specialize (HE _ _ H1). lia.
  Qed.

  (* in every reachable state the bucket list is strictly ascending (the tsList invariant) *)
  Lemma step_sorted st e : bsorted (a_buckets P st) -> bsorted (a_buckets P (fst (astep F P pnew padd pflush interval wait st e))).
  Proof.
    intros Hs. destruct e as [key v ts now|t]; simpl.
    - unfold add_or_create. destruct (key_update P _ key _); simpl; [apply wb_sorted; exact Hs|].
      destruct (usub now wait <? _); simpl; apply wb_sorted; exact Hs.
    - unfold flush. rewrite (split_flush_spec P _ _ Hs). simpl. apply filter_sorted; exact Hs.
  Qed.

  Fixpoint run_state (st : astate P) (evs : list (aevent F)) : astate P :=
    match evs with [] => st | e :: r => run_state (fst (astep F P pnew padd pflush interval wait st e)) r end.

  Lemma reachable_sorted evs : forall st, bsorted (a_buckets P st) -> bsorted (a_buckets P (run_state st evs)).
  Proof. induction evs as [|e r IH]; intros st Hs; simpl; [exact Hs|]. apply IH, step_sorted, Hs. Qed.

  (* a tick reports exactly the buckets at or before the cutoff, ascending, one entry per bucket, and removes them *)
  Theorem tick_emits st t : bsorted (a_buckets P st) ->
    astep F P pnew padd pflush interval wait st (ATick F t) =
    ({| a_buckets := filter (fun b => cutoff_of wait t <? fst b) (a_buckets P st); a_too_old := a_too_old P st |},
     map (fun b => (fst b, emit_bucket F P pflush (snd b))) (filter (fun b => fst b <=? cutoff_of wait t) (a_buckets P st))).
  Proof. intros Hs. simpl. unfold flush. rewrite (split_flush_spec P _ _ Hs). reflexivity. Qed.

  Theorem never_twice_gen evs : forall st tmax E,
    Inv st tmax E -> clock_ok tmax evs -> NoDup (E ++ run_pairs st evs).
  Proof.
    induction evs as [|e r IH]; intros st tmax E HI Hc; simpl.
    - rewrite app_nil_r. apply HI.
    - destruct e as [key v ts now|t]; simpl in Hc.
      + destruct Hc as [H1 [H2 [H3 Hc]]]. simpl. eapply IH; [|exact Hc].
        apply inv_point; assumption.
      + destruct Hc as [H1 [H2 Hc]]. rewrite app_assoc. eapply IH; [|exact Hc].
        apply (inv_tick st tmax E t HI H1 H2).
  Qed.

  Theorem never_twice evs : clock_ok 0 evs -> NoDup (run_pairs (a_init P) evs).
  Proof.
    intros Hc. change (NoDup ([] ++ run_pairs (a_init P) evs)). eapply never_twice_gen; [|exact Hc].
    split; [constructor|]. split; [intros ? ? []|]. split; [intros ? ? []|]. split; [intros ? ? []|constructor].
  Qed.
End Once.
