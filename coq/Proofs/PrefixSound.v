(* C03: soundness of the static prefix that matcher.regexToPrefix derives from the text of a regex.
   The text scan is compared, per regex, with a prefix computed from the syntax tree (a boolean check that the
   correspondence run evaluates); the prefix computed from the tree is proved sound for the regex engine:
   every string the anchored regex matches starts with it. *)
From CRNG Require Import Base.ListX Base.Bytes Lib.Regex Model.Matcher.
Local Open Scope nat_scope.

(* the literal every match of r must start with, and whether r is exactly that literal
   (so that what follows r in a concatenation extends it) *)
Fixpoint lp (r : re) : bytes * bool :=
  match r with
  | Eps => ([], true)
  | Bol => ([], true)
  | Chr c => ([c], true)
  | Cat a b => let (pa, fa) := lp a in
               if fa then let (pb, fb) := lp b in (pa ++ pb, fb) else (pa, false)
  | Grp _ a => lp a
  | Plus _ a => (fst (lp a), false)
  | Rep _ (S _) _ a => (fst (lp a), false)
  | _ => ([], false)
  end.

(* r begins with ^ on the left spine of its concatenations: the rest *)
Fixpoint strip_bol (r : re) : option re :=
  match r with
  | Bol => Some Eps
  | Cat a b => match strip_bol a with Some a' => Some (Cat a' b) | None => None end
  | _ => None
  end.

Definition ast_prefix (r : re) : bytes :=
  match strip_bol r with Some r' => fst (lp r') | None => [] end.

Lemma has_prefix_app p q s :
  has_prefix p s = true -> has_prefix q (skipn (length p) s) = true -> has_prefix (p ++ q) s = true.
Proof.
  revert s; induction p as [|x p IH]; intros s H1 H2; cbn [app length skipn] in *; [exact H2|].
  destruct s as [|y s]; cbn [has_prefix] in *; [discriminate|].
  apply andb_true_iff in H1 as [E H1]. rewrite E. cbn [andb]. apply IH; assumption.
Qed.

Lemma skipn_skipn_ {A} (l : list A) : forall a b, skipn a (skipn b l) = skipn (b + a) l.
Proof.
  induction l as [|x l IH]; intros a b.
  - rewrite !skipn_nil. reflexivity.
  - destruct b; [reflexivity|]. cbn [skipn Nat.add]. apply IH.
Qed.

Lemma has_prefix_nil s : has_prefix [] s = true.
Proof. destruct s; reflexivity. Qed.

(* if r matches at (pos, s) and hands over to k, then s starts with the literal, and when r is exactly that
   literal k was entered right behind it *)
Ltac triv_case := split; [match goal with |- has_prefix [] ?x = true => destruct x; reflexivity end | let Hf := fresh in intros Hf; discriminate Hf].

Lemma lp_sound r : forall pos s c k res,
  mt r pos s c k = Some res ->
  has_prefix (fst (lp r)) s = true /\
  (snd (lp r) = true -> exists c', k (pos + length (fst (lp r))) (skipn (length (fst (lp r))) s) c' = Some res).
Proof.
  induction r as [ |x| |neg rs|a IHa b IHb|a IHa b IHb|g a IHa|g a IHa|g a IHa|g lo hi a IHa|i a IHa| | ];
    intros pos s c k res H.
  - (* Eps *) cbn [lp fst snd mt] in *. split; [apply has_prefix_nil|]. intros _. exists c. cbn [length skipn]. rewrite Nat.add_0_r. exact H.
  - (* Chr *) cbn [lp fst snd mt] in *. destruct s as [|y s]; [discriminate|]. destruct (x =? y)%N eqn:E; [|discriminate].
    apply N.eqb_eq in E. subst y. split.
    + cbn [has_prefix]. rewrite N.eqb_refl. reflexivity.
    + intros _. exists c. cbn [length skipn]. rewrite Nat.add_1_r. exact H.
  - (* Any *) cbn [lp fst snd]. triv_case.
  - (* Cls *) cbn [lp fst snd]. triv_case.
  - (* Cat *)
    cbn [lp mt] in *. destruct (lp a) as [pa fa] eqn:Ea.
    destruct (IHa pos s c (fun p s' c' => mt b p s' c' k) res H) as [Ha1 Ha2]. cbn [fst snd] in Ha1, Ha2.
    destruct fa.
    + destruct (lp b) as [pb fb] eqn:Eb. cbn [fst snd].
      destruct (Ha2 eq_refl) as [c' Hb].
      destruct (IHb _ _ _ _ _ Hb) as [Hb1 Hb2]. cbn [fst snd] in Hb1, Hb2. split.
      * apply has_prefix_app; assumption.
      * intros Hf. destruct (Hb2 Hf) as [c'' Hk]. exists c''.
        rewrite app_length, Nat.add_assoc. rewrite skipn_skipn_ in Hk. exact Hk.
    + cbn [fst snd]. split; [exact Ha1 | intros Hf; discriminate Hf].
  - (* Alt *) cbn [lp fst snd]. triv_case.
  - (* Star *) cbn [lp fst snd]. triv_case.
  - (* Plus *)
    cbn [lp fst snd mt] in *. destruct (IHa pos s c _ res H) as [Ha1 _]. split; [exact Ha1 | intros Hf; discriminate Hf].
  - (* Opt *) cbn [lp fst snd]. triv_case.
  - (* Rep *)
    destruct lo as [|lo]; cbn [lp fst snd]; [triv_case|].
    cbn [mt rep_min] in H. destruct (IHa pos s c _ res H) as [Ha1 _]. split; [exact Ha1 | intros Hf; discriminate Hf].
  - (* Grp *)
    cbn [lp mt] in *. destruct (IHa pos s c _ res H) as [Ha1 Ha2]. split; [exact Ha1|].
    intros Hf. destruct (Ha2 Hf) as [c' Hk]. eexists. exact Hk.
  - (* Bol *)
    cbn [lp fst snd mt] in *. destruct (Nat.eqb pos 0); [|discriminate]. split; [apply has_prefix_nil|].
    intros _. exists c. cbn [length skipn]. rewrite Nat.add_0_r. exact H.
  - (* Eol *) cbn [lp fst snd]. triv_case.
Qed.

Lemma strip_sound r : forall r' pos s c k res,
  strip_bol r = Some r' -> mt r pos s c k = Some res -> pos = 0 /\ mt r' pos s c k = Some res.
Proof.
  induction r as [ |x| |neg rs|a IHa b IHb|a IHa b IHb|g a IHa|g a IHa|g a IHa|g lo hi a IHa|i a IHa| | ];
    intros r' pos s c k res Hs H; cbn [strip_bol] in Hs; try discriminate.
  - (* Cat *)
    destruct (strip_bol a) as [a'|] eqn:Ea; [|discriminate]. inversion Hs; subst r'. clear Hs.
    cbn [mt] in *. destruct (IHa a' pos s c _ res eq_refl H) as [Hp Hm]. auto.
  - (* Bol *)
    inversion Hs; subst r'. cbn [mt] in *. destruct (Nat.eqb pos 0) eqn:E; [|discriminate].
    apply Nat.eqb_eq in E. auto.
Qed.

Lemma find_from_anchored r r' : strip_bol r = Some r' -> forall fuel pos s caps,
  find_from r fuel pos s = Some caps ->
  pos = 0 /\ mt r' 0 s [] (fun p _ c => Some (set_cap 0 (0, p) c)) = Some caps.
Proof.
  intros Hs. induction fuel as [|f IH]; intros pos s caps H; cbn [find_from] in H.
  - destruct (mt r pos s [] (fun p _ c => Some (set_cap 0 (pos, p) c))) as [c0|] eqn:E; [|discriminate].
    inversion H; subst c0. destruct (strip_sound r r' pos s [] _ caps Hs E) as [-> Hm]. auto.
  - destruct (mt r pos s [] (fun p _ c => Some (set_cap 0 (pos, p) c))) as [c0|] eqn:E.
    + inversion H; subst c0. destruct (strip_sound r r' pos s [] _ caps Hs E) as [-> Hm]. auto.
    + destruct s as [|y s']; [discriminate|]. destruct (IH (S pos) s' caps H) as [Hp _]. discriminate Hp.
Qed.

(* every string an anchored regex matches starts with the prefix read off its syntax tree *)
Theorem ast_prefix_sound r s : re_search r s = true -> has_prefix (ast_prefix r) s = true.
Proof.
  unfold re_search, re_find, ast_prefix. intros H.
  destruct (strip_bol r) as [r'|] eqn:Es; [|apply has_prefix_nil].
  destruct (find_from r (length s) 0 s) as [caps|] eqn:E; [|discriminate].
  destruct (find_from_anchored r r' Es _ _ _ _ E) as [_ Hm].
  exact (proj1 (lp_sound r' 0 s [] _ caps Hm)).
Qed.

Lemma has_prefix_trans p q s : has_prefix p q = true -> has_prefix q s = true -> has_prefix p s = true.
Proof.
  intros H1 H2. apply has_prefix_spec in H1 as [t1 ->]. apply has_prefix_spec in H2 as [t2 ->].
  apply has_prefix_spec. exists (t1 ++ t2). rewrite app_assoc. reflexivity.
Qed.

(* the boolean check the correspondence run evaluates for every generated regex: what the text scan found
   is an initial part of what the syntax tree forces *)
Definition prefix_ok (r : rx) : bool := has_prefix (regex_to_prefix (rx_src r)) (ast_prefix (rx_ast r)).
Definition opt_prefix_ok (o : option rx) : bool := match o with Some r => prefix_ok r | None => true end.

Theorem text_prefix_sound r : prefix_ok r = true ->
  forall s, rx_search r s = true -> has_prefix (regex_to_prefix (rx_src r)) s = true.
Proof.
  intros H s Hs. apply (has_prefix_trans _ (ast_prefix (rx_ast r))); [exact H|].
  apply ast_prefix_sound. exact Hs.
Qed.

Local Open Scope N_scope.
Example prefix_examples :
  (* ^ab?c : the text scan drops the optional b; the tree forces "a" *)
  ast_prefix (Cat Bol (Cat (Chr 97) (Cat (Opt true (Chr 98)) (Chr 99)))) = [97]
  /\ regex_to_prefix [94;97;98;63;99] = [97]
  (* ^foo\.bar : both find foo.bar *)
  /\ ast_prefix (Cat Bol (Cat (Chr 102) (Cat (Chr 111) (Cat (Chr 111) (Cat (Chr 46) (Cat (Chr 98) (Cat (Chr 97) (Chr 114)))))))) = [102;111;111;46;98;97;114]
  /\ regex_to_prefix [94;102;111;111;92;46;98;97;114] = [102;111;111;46;98;97;114]
  (* ^foo|bar : no prefix *)
  /\ ast_prefix (Alt (Cat Bol (Cat (Chr 102) (Cat (Chr 111) (Chr 111)))) (Cat (Chr 98) (Cat (Chr 97) (Chr 114)))) = []
  /\ regex_to_prefix [94;102;111;111;124;98;97;114] = [].
Proof. vm_compute. repeat split. Qed.
