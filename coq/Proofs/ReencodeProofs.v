(* C16: the pickle round trip, the datapoint parser, rule selection and the metric record. *)
From CRNG Require Import Base.ListX Base.Bytes Base.Decimal Base.Order Lib.Utf8 Lib.Regex
  Model.Fields Model.Matcher Model.PickleVM Model.Reencode Proofs.DQBasics.
From Coq Require Import ZifyN ZifyNat ZifyBool Permutation.
Ltac Zify.zify_post_hook ::= Z.div_mod_to_equations.
Local Open Scope N_scope.

(* ---------- little / big endian ---------- *)
Lemma le_num_le_bytes k : forall n, le_num (le_bytes k n) = n mod 256 ^ N.of_nat k.
Proof.
  induction k as [|k IH]; intros n.
  - cbn. symmetry. apply N.mod_1_r.
  - cbn [le_bytes]. change (le_num (n mod 256 :: le_bytes k (n / 256))) with (n mod 256 + 256 * le_num (le_bytes k (n / 256))).
    rewrite IH, Nat2N.inj_succ, N.pow_succ_r'.
    rewrite N.mod_mul_r by (try apply N.pow_nonzero; lia). reflexivity.
Qed.

Lemma length_le_bytes k : forall n, length (le_bytes k n) = k.
Proof. induction k as [|k IH]; intros n; cbn [le_bytes length]; [reflexivity | rewrite IH; reflexivity]. Qed.

Lemma be_num_be_bytes k n : be_num (be_bytes k n) = n mod 256 ^ N.of_nat k.
Proof. unfold be_num, be_bytes. rewrite rev_involutive. apply le_num_le_bytes. Qed.

Lemma take_app a : forall r, take (length a) (a ++ r) = Some (a, r).
Proof. induction a as [|x a IH]; intros r; cbn [length take app]; [reflexivity | rewrite IH; reflexivity]. Qed.

Lemma take_nl_app a : forall r acc, take_nl (a ++ r) (N.of_nat (length a)) acc = Some (rev acc ++ a, r).
Proof.
  induction a as [|c a IH]; intros r acc.
  - cbn [length app]. destruct r; cbn; rewrite rev_append_rev, !app_nil_r; reflexivity.
  - cbn [length app take_nl].
    replace (N.of_nat (S (length a)) =? 0) with false by lia.
    replace (N.pred (N.of_nat (S (length a)))) with (N.of_nat (length a)) by lia.
    rewrite IH. cbn [rev]. rewrite <- app_assoc. reflexivity.
Qed.

Lemma take_n_app a r : take_n (N.of_nat (length a)) (a ++ r) = Some (a, r).
Proof. unfold take_n. rewrite take_nl_app. reflexivity. Qed.

(* ---------- running the machine ---------- *)
Section Run.
  Variable pf : bytes -> option N.
  Variable py : bool.

  Lemma run_step f m c r b :
    run pf py (S f) m (c :: r) b =
    match step pf py m c r with
    | SNext m' r' => run pf py f m' r' false
    | SStop => match stk m with [] => RErr | v :: _ => RDone v end
    | SFail e => e
    end.
  Proof. reflexivity. Qed.

  Lemma run_more f : forall m s b, run pf py f m s b <> RFuel ->
    forall f', (f <= f')%nat -> run pf py f' m s b = run pf py f m s b.
  Proof.
    induction f as [|f IH]; intros m s b H f' Hf; [cbn in H; congruence|].
    destruct f' as [|f']; [lia|].
    destruct s as [|c r]; [reflexivity|].
    rewrite !run_step in *. destruct (step pf py m c r) as [m' r'| |e]; try reflexivity.
    apply IH; [exact H | lia].
  Qed.

  Lemma run_str f m name rest b :
    N.of_nat (length name) < 4294967296 ->
    run pf py (S f) m (og_str name ++ rest) b = run pf py f (push (VStr name) m) rest false.
  Proof.
    intros Hl. unfold og_str. cbv zeta.
    destruct (N.of_nat (length name) <? 256) eqn:E.
    - cbn [app]. rewrite run_step.
      change (step pf py m 85 (N.of_nat (length name) :: name ++ rest))
        with (with_take_n (le_num [N.of_nat (length name)]) (name ++ rest)
                (fun b0 r' => SNext (push (VStr b0) m) r')).
      replace (le_num [N.of_nat (length name)]) with (N.of_nat (length name)) by (cbn; lia).
      unfold with_take_n. rewrite take_n_app. reflexivity.
    - cbn [app]. rewrite run_step, <- app_assoc.
      assert (Ht : take 4 (le_bytes 4 (N.of_nat (length name)) ++ name ++ rest)
                   = Some (le_bytes 4 (N.of_nat (length name)), name ++ rest)).
      { rewrite <- (length_le_bytes 4 (N.of_nat (length name))) at 1. apply take_app. }
      change (step pf py m 84 (le_bytes 4 (N.of_nat (length name)) ++ name ++ rest))
        with (with_take 4 (le_bytes 4 (N.of_nat (length name)) ++ name ++ rest)
                (fun a r => with_take_n (le_num a) r (fun b0 r' => SNext (push (VStr b0) m) r'))).
      unfold with_take. rewrite Ht. rewrite le_num_le_bytes.
      replace (N.of_nat (length name) mod 256 ^ N.of_nat 4) with (N.of_nat (length name))
        by (change (256 ^ N.of_nat 4) with 4294967296; rewrite N.mod_small; [reflexivity | exact Hl]).
      unfold with_take_n. rewrite take_n_app. reflexivity.
  Qed.

  Lemma dec_parse_print n : dec_parse (N_to_dec n) = Some n.
  Proof.
    destruct (N_to_dec_spec n) as [ds [-> [Hne [_ Hp]]]].
    unfold dec_parse. destruct ds as [|d ds]; [contradiction|].
    specialize (Hp 0 []). rewrite app_nil_r in Hp. rewrite Hp. cbn. reflexivity.
  Qed.

  Lemma digits_no_nl ds : forallb is_digit ds = true -> ~ In 10 ds.
  Proof.
    induction ds as [|d ds IH]; cbn [forallb]; intros H; [intros []|].
    apply andb_true_iff in H as [H1 H2]. intros [->|Hin]; [discriminate H1 | exact (IH H2 Hin)].
  Qed.

  Lemma cut_app_sep c a b : ~ In c a -> cut c (a ++ c :: b) = (a, Some b).
  Proof.
    intros Hn. destruct (cut c (a ++ c :: b)) as [x [y|]] eqn:E.
    - apply cut_some in E as [E Hx].
      assert (a = x /\ b = y) as [-> ->]; [|reflexivity].
      revert x E Hx. induction a as [|h a IH]; intros x E Hx.
      + destruct x as [|h' x]; cbn in E; [inversion E; auto|].
        inversion E; subst. exfalso. apply Hx. left. reflexivity.
      + destruct x as [|h' x]; cbn in E.
        * inversion E; subst. exfalso. apply Hn. left. reflexivity.
        * inversion E; subst. destruct (IH (fun H => Hn (or_intror H)) x H1 (fun H => Hx (or_intror H))) as [-> ->]. auto.
    - apply cut_none in E as [_ E]. exfalso. apply E. apply in_or_app. right. left. reflexivity.
  Qed.

  Lemma strip_cr_digits ds : forallb is_digit ds = true -> strip_cr ds = ds.
  Proof.
    intros H. unfold strip_cr. destruct (rev ds) as [|x r] eqn:E; [reflexivity|].
    assert (Hx : is_digit x = true).
    { assert (In x ds) by (apply in_rev; rewrite E; left; reflexivity).
      rewrite forallb_forall in H. auto. }
    destruct (N.eq_dec x 13) as [->|Hne]; [discriminate Hx|].
    destruct x as [|p]; [reflexivity|].
    repeat (destruct p as [p|p|]; try reflexivity). congruence.
  Qed.

  Lemma read_line_digits ds rest : ds <> [] -> forallb is_digit ds = true ->
    read_line (ds ++ 10 :: rest) = Some (ds, rest).
  Proof.
    intros Hne Hd. unfold read_line. destruct ds as [|d ds'] eqn:E; [contradiction|].
    cbn [app]. change (d :: ds' ++ 10 :: rest) with ((d :: ds') ++ 10 :: rest).
    rewrite (cut_app_sep 10 (d :: ds') rest (digits_no_nl _ Hd)), (strip_cr_digits _ Hd). reflexivity.
  Qed.

  Lemma parse_int_digits ds : ds <> [] -> forallb is_digit ds = true ->
    parse_int ds = match dec_parse ds with Some n => Some (Z.of_N n) | None => None end.
  Proof.
    intros Hne Hd. destruct ds as [|d ds']; [contradiction|].
    cbn [forallb] in Hd. apply andb_true_iff in Hd as [Hd0 _].
    unfold parse_int. destruct d as [|p]; [reflexivity|].
    do 6 (try destruct p as [p|p|]); try reflexivity; vm_compute in Hd0; discriminate Hd0.
  Qed.

  Lemma run_int f m ts rest b :
    ts < 4294967296 ->
    run pf py (S f) m (og_int ts ++ rest) b = run pf py f (push (VInt (Z.of_N ts)) m) rest false.
  Proof.
    intros Hts. unfold og_int.
    destruct ((0 <? ts) && (ts <? 255)) eqn:E1.
    { cbn [app]. rewrite run_step.
      change (step pf py m 75 (ts :: rest)) with (SNext (push (VInt (Z.of_N (le_num [ts]))) m) rest).
      replace (le_num [ts]) with ts by (cbn; lia). reflexivity. }
    destruct ((0 <? ts) && (ts <? 65535)) eqn:E2.
    { cbn [app]. rewrite run_step.
      assert (Ht : take 2 (le_bytes 2 ts ++ rest) = Some (le_bytes 2 ts, rest)).
      { rewrite <- (length_le_bytes 2 ts) at 1. apply take_app. }
      change (step pf py m 77 (le_bytes 2 ts ++ rest))
        with (with_take 2 (le_bytes 2 ts ++ rest) (fun a r => SNext (push (VInt (Z.of_N (le_num a))) m) r)).
      unfold with_take. rewrite Ht, le_num_le_bytes.
      change (256 ^ N.of_nat 2) with 65536. rewrite N.mod_small by lia. reflexivity. }
    destruct (ts <=? 2147483647) eqn:E3.
    { cbn [app]. rewrite run_step.
      assert (Ht : take 4 (le_bytes 4 ts ++ rest) = Some (le_bytes 4 ts, rest)).
      { rewrite <- (length_le_bytes 4 ts) at 1. apply take_app. }
      change (step pf py m 74 (le_bytes 4 ts ++ rest))
        with (with_take 4 (le_bytes 4 ts ++ rest) (fun a r =>
                let n := le_num a in
                SNext (push (VInt (if py && (2147483648 <=? n) then (Z.of_N n - 4294967296)%Z else Z.of_N n)) m) r)).
      unfold with_take. rewrite Ht. cbv zeta. rewrite le_num_le_bytes.
      change (256 ^ N.of_nat 4) with 4294967296. rewrite N.mod_small by lia.
      replace (2147483648 <=? ts) with false by lia. rewrite andb_false_r. reflexivity. }
    (* 'I' decimal newline *)
    cbn [app]. rewrite run_step, <- app_assoc. cbn [app].
    destruct (N_to_dec_spec ts) as [ds [Eds [Hne [Hd _]]]].
    change (step pf py m 73 (N_to_dec ts ++ 10 :: rest))
      with (with_line (N_to_dec ts ++ 10 :: rest) (fun l r =>
              if beqb l [48; 48] then SNext (push (VBool false) m) r
              else if beqb l [48; 49] then SNext (push (VBool true) m) r
              else match parse_int l with
                   | Some z => if in_int64 z then SNext (push (VInt z) m) r else SFail RErr
                   | None => SFail RErr
                   end)).
    unfold with_line. rewrite Eds, (read_line_digits ds rest Hne Hd).
    assert (Hp : dec_parse ds = Some ts) by (rewrite <- Eds; apply dec_parse_print).
    assert (H00 : beqb ds [48; 48] = false).
    { apply beqb_neq. intros ->. cbn in Hp. inversion Hp. lia. }
    assert (H01 : beqb ds [48; 49] = false).
    { apply beqb_neq. intros ->. cbn in Hp. inversion Hp. lia. }
    rewrite H00, H01, (parse_int_digits ds Hne Hd), Hp.
    replace (in_int64 (Z.of_N ts)) with true by (unfold in_int64; lia). reflexivity.
  Qed.

  Lemma run_float f m bits rest b :
    bits < 18446744073709551616 ->
    run pf py (S f) m (og_float bits ++ rest) b = run pf py f (push (VFloat bits) m) rest false.
  Proof.
    intros Hb. unfold og_float. cbn [app]. rewrite run_step.
    assert (Ht : take 8 (be_bytes 8 bits ++ rest) = Some (be_bytes 8 bits, rest)).
    { replace 8%nat with (length (be_bytes 8 bits)) at 1 by (unfold be_bytes; rewrite rev_length; apply length_le_bytes).
      apply take_app. }
    change (step pf py m 71 (be_bytes 8 bits ++ rest))
      with (with_take 8 (be_bytes 8 bits ++ rest) (fun a r => SNext (push (VFloat (be_num a)) m) r)).
    unfold with_take. rewrite Ht, be_num_be_bytes.
    change (256 ^ N.of_nat 8) with 18446744073709551616. rewrite N.mod_small by exact Hb. reflexivity.
  Qed.

  Definition dp_value (name : bytes) (ts bits : N) : pv :=
    VList [VTuple [VStr name; VTuple [VInt (Z.of_N ts); VFloat bits]]].

  Lemma run_pickle_dp name ts bits :
    N.of_nat (length name) < 4294967296 -> ts < 4294967296 -> bits < 18446744073709551616 ->
    run pf py 11 vm0 (og_pickle_dp name ts bits) true = RDone (dp_value name ts bits).
  Proof.
    intros Hn Hts Hb. unfold og_pickle_dp. cbn [app].
    rewrite run_step. change (step pf py vm0 93 ?s) with (SNext (push (VList []) vm0) s). cbv beta iota.
    rewrite run_step.
    match goal with |- context [step pf py ?m 40 ?s] => change (step pf py m 40 s) with (SNext (push VMark m) s) end. cbv beta iota.
    rewrite run_step.
    match goal with |- context [step pf py ?m 40 ?s] => change (step pf py m 40 s) with (SNext (push VMark m) s) end. cbv beta iota.
    rewrite run_str by exact Hn.
    rewrite run_step.
    match goal with |- context [step pf py ?m 40 ?s] => change (step pf py m 40 s) with (SNext (push VMark m) s) end. cbv beta iota.
    rewrite run_int by exact Hts.
    rewrite run_float by exact Hb.
    reflexivity.
  Qed.
End Run.

Theorem pickle_roundtrip pf py name ts bits :
  N.of_nat (length name) < 4294967296 -> ts < 4294967296 -> bits < 18446744073709551616 ->
  unpickle pf py (og_pickle_dp name ts bits) = RDone (dp_value name ts bits).
Proof.
  intros Hn Hts Hb. unfold unpickle.
  pose proof (run_pickle_dp pf py name ts bits Hn Hts Hb) as H.
  rewrite (run_more pf py 11); [exact H | rewrite H; discriminate |].
  unfold og_pickle_dp, og_float, be_bytes. rewrite !app_length. cbn [length]. rewrite rev_length, length_le_bytes. lia.
Qed.

Theorem frame_header name ts bits :
  N.of_nat (length (og_pickle_dp name ts bits)) < 4294967296 ->
  exists hdr, take 4 (pickle_frame name ts bits) = Some (hdr, og_pickle_dp name ts bits)
              /\ be_num hdr = N.of_nat (length (og_pickle_dp name ts bits)).
Proof.
  intros H. unfold pickle_frame. cbv zeta.
  exists (be_bytes 4 (N.of_nat (length (og_pickle_dp name ts bits)))). split.
  - replace 4%nat with (length (be_bytes 4 (N.of_nat (length (og_pickle_dp name ts bits))))) at 1
      by (unfold be_bytes; rewrite rev_length; apply length_le_bytes).
    apply take_app.
  - rewrite be_num_be_bytes. change (256 ^ N.of_nat 4) with 4294967296. apply N.mod_small. exact H.
Qed.

(* ---------- ParseDataPoint ---------- *)
Theorem parse_dp_sound pf line n b ts :
  parse_dp pf line = Some (n, b, ts) ->
  exists v t, fields line = [n; v; t] /\ pf v = Some b /\ dec_parse t = Some ts /\ ts < 4294967296.
Proof.
  unfold parse_dp. destruct (fields line) as [|n' [|v [|t [|? ?]]]]; try discriminate.
  destruct (pf v) as [b'|] eqn:Ev; [|discriminate].
  unfold parse_uint32. destruct (dec_parse t) as [k|] eqn:Et; [|discriminate].
  destruct (k <? 4294967296) eqn:Ek; [|discriminate].
  intros H. inversion H; subst. exists v, t. repeat split; auto. lia.
Qed.

Theorem parse_dp_complete pf line n v t b ts :
  fields line = [n; v; t] -> pf v = Some b -> dec_parse t = Some ts -> ts < 4294967296 ->
  parse_dp pf line = Some (n, b, ts).
Proof.
  intros Hf Hv Ht Hts. unfold parse_dp, parse_uint32. rewrite Hf, Hv, Ht.
  replace (ts <? 4294967296) with true by lia. reflexivity.
Qed.

(* unrepresentable lines are skipped and counted, nothing is written *)
Theorem unrepresentable_skipped pf line :
  (forall n v t, fields line = [n; v; t] ->
     pf v = None \/ dec_parse t = None \/ exists k, dec_parse t = Some k /\ 4294967296 <= k) ->
  pickle_write pf line = ([], true).
Proof.
  intros H. unfold pickle_write.
  destruct (parse_dp pf line) as [[[n b] ts]|] eqn:E; [|reflexivity].
  apply parse_dp_sound in E as [v [t [Hf [Hv [Ht Hts]]]]].
  destruct (H n v t Hf) as [H1|[H1|[k [H1 H2]]]]; try congruence.
  rewrite H1 in Ht. inversion Ht. lia.
Qed.

Theorem representable_written pf line n v t b ts :
  fields line = [n; v; t] -> pf v = Some b -> dec_parse t = Some ts -> ts < 4294967296 ->
  pickle_write pf line = (pickle_frame n ts b, false).
Proof.
  intros. unfold pickle_write. erewrite parse_dp_complete; eauto.
Qed.

(* ---------- rule selection ---------- *)
Lemma rle_total a b : rle a b = true \/ rle b a = true.
Proof. unfold rle. lia. Qed.
Lemma rle_trans a b c : rle a b = true -> rle b c = true -> rle a c = true.
Proof. unfold rle. lia. Qed.

Lemma insert_sorted_rle x l : sorted rle l -> sorted rle (insert rle x l).
Proof.
  induction 1 as [|y l Hy Hs IH]; cbn [insert].
  - constructor; [intros ? []|constructor].
  - destruct (rle x y) eqn:E.
    + constructor; [|constructor; assumption].
      intros z [<-|Hz]; [exact E|]. eapply rle_trans; eauto.
    + constructor; [|exact IH].
      intros z Hz. apply (Permutation_in _ (Permutation_sym (insert_perm rle x l))) in Hz.
      destruct Hz as [<-|Hz]; [|auto].
      destruct (rle_total x y) as [H|H]; [congruence|exact H].
Qed.

Lemma ordered_sorted rs : sorted rle (ordered rs).
Proof.
  unfold ordered. induction (index_rules rs) as [|x l IH]; cbn [isort fold_right]; [constructor|].
  apply insert_sorted_rle. exact IH.
Qed.

Lemma in_combine_seq (l : list rule) : forall base i r, In (i, r) (combine (seq base (length l)) l) <->
  (base <= i)%nat /\ nth_error l (i - base) = Some r.
Proof.
  induction l as [|x l IH]; intros base j q; cbn [length seq combine].
  - split; [intros [] | intros [_ H]; destruct (j - base)%nat; discriminate].
  - cbn [In]. rewrite IH. split.
    + intros [E|[H1 H2]].
      * inversion E; subst. split; [lia|]. rewrite Nat.sub_diag. reflexivity.
      * split; [lia|]. replace (j - base)%nat with (S (j - S base)) by lia. exact H2.
    + intros [H1 H2]. destruct (Nat.eq_dec j base) as [->|Hne].
      * rewrite Nat.sub_diag in H2. cbn in H2. inversion H2. left. reflexivity.
      * right. split; [lia|]. replace (j - base)%nat with (S (j - S base)) in H2 by lia. exact H2.
Qed.

Lemma in_ordered rs i r : In (i, r) (ordered rs) <-> nth_error rs i = Some r.
Proof.
  unfold ordered. split.
  - intros H. apply (Permutation_in _ (Permutation_sym (isort_perm rle (index_rules rs)))) in H.
    apply in_combine_seq in H as [_ H]. rewrite Nat.sub_0_r in H. exact H.
  - intros H. apply (Permutation_in _ (isort_perm rle (index_rules rs))).
    apply in_combine_seq. split; [lia|]. rewrite Nat.sub_0_r. exact H.
Qed.

Lemma find_split {A} (p : A -> bool) l x : find p l = Some x ->
  exists l1 l2, l = l1 ++ x :: l2 /\ p x = true /\ forall y, In y l1 -> p y = false.
Proof.
  induction l as [|a l IH]; cbn [find]; [discriminate|].
  destruct (p a) eqn:E.
  - intros H. inversion H; subst. exists [], l. repeat split; auto. intros ? [].
  - intros H. destruct (IH H) as [l1 [l2 [-> [Hx Hn]]]]. exists (a :: l1), l2. repeat split; auto.
    intros y [<-|Hy]; auto.
Qed.

Section Select.
  Variable search : rx -> bytes -> bool.

  Theorem select_spec rs key i r :
    N.of_nat (length rs) < 4294967296 ->
    select search rs key = Some (i, r) ->
    nth_error rs i = Some r /\ search (r_rx r) key = true /\
    forall j r', nth_error rs j = Some r' -> search (r_rx r') key = true ->
      (r_prio r' < r_prio r)%Z \/ (r_prio r' = r_prio r /\ (i <= j)%nat).
  Proof.
    intros Hlen H. unfold select in H.
    destruct (find_split _ _ _ H) as [l1 [l2 [E [Hm Hbefore]]]]. cbn [snd] in Hm.
    assert (Hin : In (i, r) (ordered rs)) by (rewrite E; apply in_or_app; right; left; reflexivity).
    split; [apply in_ordered; exact Hin|]. split; [exact Hm|].
    intros j r' Hj Hm'.
    assert (Hi : (i < length rs)%nat) by (apply nth_error_Some; apply in_ordered in Hin; congruence).
    assert (Hj' : (j < length rs)%nat) by (apply nth_error_Some; congruence).
    apply in_ordered in Hj. rewrite E in Hj. apply in_app_or in Hj as [Hj|[Hj|Hj]].
    - apply Hbefore in Hj. cbn [snd] in Hj. congruence.
    - inversion Hj; subst. right. split; [reflexivity | lia].
    - pose proof (ordered_sorted rs) as Hs. rewrite E in Hs.
      apply sorted_app_inv in Hs as [_ Hs]. inversion Hs as [|? ? Hle _]; subst.
      specialize (Hle _ Hj). unfold rle, rkey in Hle. cbn [fst snd] in Hle. lia.
  Qed.

  Theorem select_none rs key :
    select search rs key = None <-> forall j r', nth_error rs j = Some r' -> search (r_rx r') key = false.
  Proof.
    unfold select. split.
    - intros H j r' Hj. apply in_ordered in Hj.
      pose proof (find_none _ _ H _ Hj) as Hn. exact Hn.
    - intros H. destruct (find _ (ordered rs)) as [[i r]|] eqn:E; [|reflexivity].
      apply find_some in E as [Hin Hm]. apply in_ordered in Hin. cbn [snd] in Hm. rewrite (H _ _ Hin) in Hm. discriminate.
  Qed.
End Select.

(* ---------- the metric record ---------- *)
Lemma bleb_to : total_order bleb.
Proof. split; [apply bleb_total | apply bleb_trans | apply bleb_antisym]. Qed.

Section Record.
  Variable pf : bytes -> option N.
  Variable search : rx -> bytes -> bool.

  Theorem metric_record rs org line md :
    parse_metric pf search rs org line = Some md ->
    exists nwt v t i r,
      fields line = [nwt; v; t] /\
      md_name md = eat_dots (hd [] (split_on 59 nwt)) /\
      Permutation (tl (split_on 59 nwt)) (md_tags md) /\ sorted bleb (md_tags md) /\
      forallb valid_tag (md_tags md) = true /\
      pf v = Some (md_val md) /\ dec_parse t = Some (md_time md) /\ md_time md < 4294967296 /\
      md_org md = org /\ org <> 0%Z /\
      select search rs (presented (hd [] (split_on 59 nwt)) (md_tags md)) = Some (i, r) /\
      first_precision (r_ret r) = Some (md_interval md).
  Proof.
    unfold parse_metric.
    destruct (fields line) as [|nwt [|v [|t [|? ?]]]]; try discriminate.
    destruct (pf v) as [b|] eqn:Ev; [|discriminate].
    unfold parse_uint32. destruct (dec_parse t) as [k|] eqn:Et; [|discriminate].
    destruct (k <? 4294967296) eqn:Ek; [|discriminate].
    cbv zeta.
    destruct (select search rs _) as [[i r]|] eqn:Es; [|discriminate].
    cbn [snd]. destruct (first_precision (r_ret r)) as [iv|] eqn:Ep; [|discriminate].
    destruct (negb (org =? 0)%Z && negb (iv =? 0)%Z && nonempty (eat_dots (hd [] (split_on 59 nwt)))
              && utf8_valid (eat_dots (hd [] (split_on 59 nwt)))
              && forallb valid_tag (isort bleb (tl (split_on 59 nwt)))) eqn:Ec; [|discriminate].
    intros H. inversion H; subst; clear H. cbn [md_name md_tags md_val md_time md_org md_interval].
    repeat (apply andb_true_iff in Ec as [Ec ?]).
    exists nwt, v, t, i, r. repeat split; auto.
    - apply isort_perm.
    - apply isort_sorted. exact bleb_to.
    - lia.
    - intros ->. discriminate Ec.
  Qed.

  (* invalid tags (or a zero org id, an empty or non-UTF-8 name) give no record *)
  Theorem invalid_tag_no_record rs org nwt v t line :
    fields line = [nwt; v; t] ->
    existsb (fun tg => negb (valid_tag tg)) (tl (split_on 59 nwt)) = true ->
    parse_metric pf search rs org line = None.
  Proof.
    intros Hf Hbad.
    destruct (parse_metric pf search rs org line) as [md|] eqn:E; [|reflexivity].
    apply metric_record in E as [nwt' [v' [t' [i [r [Hf' [_ [Hperm [_ [Hv _]]]]]]]]]].
    rewrite Hf in Hf'. inversion Hf'; subst.
    apply existsb_exists in Hbad as [tg [Hin Hb]].
    apply (Permutation_in _ Hperm) in Hin. rewrite forallb_forall in Hv. rewrite (Hv _ Hin) in Hb. discriminate.
  Qed.
End Record.

(* the premises are satisfiable: a concrete line, two matching rules, the anchored one wins on priority *)
Example record_example :
  let rs := [ {| r_rx := {| rx_src := [46;42]; rx_ast := Star true Any |}; r_prio := 0; r_ret := [49;48;115;58;49;100] |};
              {| r_rx := {| rx_src := [94;97;36]; rx_ast := Cat Bol (Cat (Chr 97) Eol) |}; r_prio := 1; r_ret := [54;48;58;49;48] |} ] in
  parse_metric (fun _ => Some 4607182418800017408) rx_search rs 1 [97; 32; 49; 32; 53]
  = Some {| md_name := [97]; md_tags := []; md_val := 4607182418800017408; md_time := 5; md_org := 1; md_interval := 60 |}.
Proof. vm_compute. reflexivity. Qed.

Example roundtrip_example :
  unpickle (fun _ => None) true (og_pickle_dp [102;111;111] 1500000000 4607182418800017408)
  = RDone (dp_value [102;111;111] 1500000000 4607182418800017408).
Proof. vm_compute. reflexivity. Qed.
