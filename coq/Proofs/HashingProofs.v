From CRNG Require Import Base.ListX Base.Bytes Base.Decimal Base.Order Model.Hashing.
From Coq Require Import Permutation.

Lemma beqb_spec a b : reflect (a = b) (beqb a b).
Proof. destruct (beqb a b) eqn:E; constructor; [apply beqb_eq|apply beqb_neq]; assumption. Qed.

Definition ekey_le : ekey -> ekey -> bool := lex_le N.leb (lex_le bleb bleb).

Lemma ekey_le_total_order : total_order ekey_le.
Proof.
  apply lex_total_order; [apply N_leb_total_order|].
  apply lex_total_order; apply bleb_total_order.
Qed.

Lemma bleb_refl a : bleb a a = true.
Proof. destruct (bleb_total a a); assumption. Qed.

(* Go's Less, negated and flipped, is the lexicographic order on the key *)
Lemma entry_le_key a b : entry_le a b = ekey_le (fst a) (fst b).
Proof.
  destruct a as [[pa [ha ia]] xa], b as [[pb [hb ib]] xb].
  unfold entry_le, entry_less, ekey_le, lex_le; simpl.
  destruct (N.ltb_spec pb pa) as [L|L]; simpl.
  - destruct (N.leb_spec pa pb); [lia|reflexivity].
  - destruct (N.leb_spec pa pb) as [L1|L1]; [|lia].
    destruct (N.eqb_spec pb pa) as [E|E]; simpl.
    + subst. rewrite N.leb_refl.
      destruct (beqb_spec hb ha) as [Eh|Eh]; simpl.
      * subst. rewrite bleb_refl. simpl.
        destruct (beqb_spec ib ia) as [Ei|Ei]; simpl.
        { subst. rewrite bleb_refl. rewrite andb_false_r. reflexivity. }
        rewrite andb_true_r.
        destruct (bleb ib ia) eqn:B1; simpl.
        { destruct (bleb ia ib) eqn:B2; [|reflexivity].
          exfalso. apply Ei. apply bleb_antisym; assumption. }
        { destruct (bleb_total ia ib) as [H|H]; [rewrite H; reflexivity|congruence]. }
      * rewrite andb_true_r, orb_false_r.
        destruct (bleb hb ha) eqn:B1; simpl.
        { destruct (bleb ha hb) eqn:B2; [|reflexivity].
          exfalso. apply Eh. apply bleb_antisym; assumption. }
        { destruct (bleb_total ha hb) as [H|H]; [rewrite H; reflexivity|congruence]. }
    + simpl. destruct (N.leb_spec pb pa); [lia|reflexivity].
Qed.

(* ---- lookup = the minimum of the candidates --------------------------- *)
Definition lookupK (p : N) (l : list ekey) : option ekey :=
  match find (fun k => p <=? fst k) l with
  | Some k => Some k
  | None => hd_error l
  end.

Definition cand (p : N) (S : list ekey) (k : ekey) : Prop :=
  In k S /\ ((exists x, In x S /\ p <= fst x) -> p <= fst k).

Definition is_best (p : N) (S : list ekey) (k : ekey) : Prop :=
  cand p S k /\ forall k', cand p S k' -> ekey_le k k' = true.

Lemma ekey_le_pos a b : ekey_le a b = true -> fst a <= fst b.
Proof.
  unfold ekey_le, lex_le. destruct (N.leb_spec (fst a) (fst b)); [auto|discriminate].
Qed.

Lemma ekey_le_refl a : ekey_le a a = true.
Proof. destruct (to_total _ ekey_le_total_order a a); assumption. Qed.

Lemma find_none_all {A} (f : A -> bool) l : find f l = None -> forall x, In x l -> f x = false.
Proof. intros H x Hx. eapply find_none; eauto. Qed.

Lemma lookupK_best p l k :
  sorted ekey_le l -> lookupK p l = Some k -> is_best p l k.
Proof.
  unfold lookupK. intros Hs.
  destruct (find (fun k => p <=? fst k) l) as [k0|] eqn:F.
  - intros E; inversion E; subst k0; clear E.
    induction Hs as [|x l Hx Hs IH]; simpl in F; [discriminate|].
    destruct (N.leb_spec p (fst x)) as [L|L].
    + inversion F; subst x. split.
      * split; [left; reflexivity | intros _; exact L].
      * intros k' [[<-|Hk'] _]; [apply ekey_le_refl | auto].
    + destruct (IH F) as [[Hin Hc] Hmin].
      assert (Pk : p <= fst k).
      { apply find_some in F as [_ F]. apply N.leb_le in F. exact F. }
      split.
      * split; [right; exact Hin | intros _; exact Pk].
      * intros k' [[<-|Hk'] Hc'].
        { exfalso. assert (p <= fst x); [|lia]. apply Hc'. exists k. split; [right; exact Hin|exact Pk]. }
        apply Hmin. split; [exact Hk' | intros _]. apply Hc'. exists k. split; [right; exact Hin|exact Pk].
  - intros E. destruct l as [|x l]; [discriminate|]. simpl in E. inversion E; subst x.
    pose proof (find_none_all _ _ F) as Hall.
    split.
    + split; [left; reflexivity|]. intros [y [Hy Py]]. apply Hall in Hy. apply N.leb_gt in Hy. lia.
    + intros k' [Hk' _]. eapply sorted_hd_min; eauto. apply ekey_le_total_order.
Qed.

Lemma lookupK_some p l : l <> [] -> exists k, lookupK p l = Some k.
Proof.
  unfold lookupK. intros H.
  match goal with |- context [find ?f l] => destruct (find f l) as [k0|] end; [exists k0; reflexivity|].
  destruct l as [|x l]; [contradiction | simpl; exists x; reflexivity].
Qed.

Lemma lookupK_none p l : lookupK p l = None -> l = [].
Proof. destruct l as [|x l]; [reflexivity|]. intros H. destruct (lookupK_some p (x :: l)) as [k Hk]; [discriminate|congruence]. Qed.

Lemma best_unique p S S' k k' :
  (forall x, In x S <-> In x S') -> is_best p S k -> is_best p S' k' -> k = k'.
Proof.
  intros HS [[Hin Hc] Hmin] [[Hin' Hc'] Hmin'].
  apply (to_antisym _ ekey_le_total_order).
  - apply Hmin. split; [apply HS; exact Hin'|].
    intros [x [Hx Px]]. apply Hc'. exists x. split; [apply HS; exact Hx|exact Px].
  - apply Hmin'. split; [apply HS; exact Hin|].
    intros [x [Hx Px]]. apply Hc. exists x. split; [apply HS; exact Hx|exact Px].
Qed.

Lemma best_subset p S S' k :
  incl S' S -> is_best p S k -> In k S' -> is_best p S' k.
Proof.
  intros Hi [[Hin Hc] Hmin] Hk. split.
  - split; [exact Hk|]. intros [x [Hx Px]]. apply Hc. exists x. split; [apply Hi; exact Hx|exact Px].
  - intros k' [Hk' Hc']. apply Hmin. split; [apply Hi; exact Hk'|].
    intros Hex. apply Hc'. exists k. split; [exact Hk | apply Hc; exact Hex].
Qed.

(* ---- the ring -------------------------------------------------------- *)
Section Ring.
  Variable pos : bytes -> N.
  Variable replicas : nat.

  Definition node_keys (n : node) : list ekey :=
    map (fun i => (pos (replica_key n i), n)) (seq 0 replicas).
  Definition all_keys (ds : list hdest) : list ekey :=
    flat_map (fun d => node_keys (node_of_dest d)) ds.

  Lemma dest_entries_keys idx d :
    map fst (dest_entries pos replicas idx d) = node_keys (node_of_dest d).
  Proof. unfold dest_entries, node_keys. rewrite map_map. reflexivity. Qed.

  Definition ring_state (ds : list hdest) := fold_left (add_destination pos replicas) ds ([], O).

  Lemma sorted_entries_keys l : sorted entry_le l -> sorted ekey_le (map fst l).
  Proof.
    induction 1 as [|x l Hx Hs IH]; simpl; constructor; [|exact IH].
    intros y Hy. apply in_map_iff in Hy as [e [<- He]]. rewrite <- entry_le_key. auto.
  Qed.

  Lemma entry_le_total_order_pre :
    (forall a b, entry_le a b = true \/ entry_le b a = true) /\
    (forall a b c, entry_le a b = true -> entry_le b c = true -> entry_le a c = true).
  Proof.
    split; intros; rewrite !entry_le_key in *.
    - apply (to_total _ ekey_le_total_order).
    - eapply (to_trans _ ekey_le_total_order); eauto.
  Qed.

  (* insertion sort with a total preorder still sorts *)
  Lemma insert_sorted_pre x l : sorted entry_le l -> sorted entry_le (insert entry_le x l).
  Proof.
    destruct entry_le_total_order_pre as [Tot Tr].
    induction 1 as [|y l Hy Hs IH]; simpl.
    - constructor; [intros ? []|constructor].
    - destruct (entry_le x y) eqn:E.
      + constructor; [|constructor; assumption].
        intros z [<-|Hz]; [exact E|]. eapply Tr; eauto.
      + constructor; [|exact IH].
        intros z Hz. apply (Permutation_in _ (Permutation_sym (insert_perm entry_le x l))) in Hz.
        destruct Hz as [<-|Hz]; [|auto].
        destruct (Tot x y) as [H|H]; [congruence|exact H].
  Qed.

  Lemma isort_sorted_pre l : sorted entry_le (isort entry_le l).
  Proof. induction l; simpl; [constructor | apply insert_sorted_pre; assumption]. Qed.

  Lemma ring_state_spec ds :
    let '(ring, n) := ring_state ds in
    n = length ds /\ sorted entry_le ring /\
    Permutation (map fst ring) (all_keys ds) /\
    (forall e, In e ring -> exists d, nth_error ds (snd e) = Some d /\ node_of_dest d = snd (fst e)).
  Proof.
    unfold ring_state. induction ds as [|d ds IH] using rev_ind.
    - simpl. repeat split; [constructor | reflexivity | intros e []].
    - rewrite fold_left_app. simpl.
      destruct (fold_left (add_destination pos replicas) ds ([], O)) as [ring n].
      destruct IH as [-> [Hs [Hp Hidx]]]. simpl.
      split; [rewrite app_length; simpl; lia|].
      split; [apply isort_sorted_pre|].
      split.
      + rewrite <- (Permutation_map fst (isort_perm entry_le _)).
        rewrite map_app, dest_entries_keys.
        unfold all_keys. rewrite flat_map_app. simpl. rewrite app_nil_r.
        apply Permutation_app; [exact Hp|reflexivity].
      + intros e He.
        apply (Permutation_in _ (Permutation_sym (isort_perm entry_le _))) in He.
        apply in_app_or in He as [He|He].
        * destruct (Hidx e He) as [d' [Hn Hd']]. exists d'. split; [|exact Hd'].
          rewrite nth_error_app1; [exact Hn|]. apply nth_error_Some. congruence.
        * unfold dest_entries in He. apply in_map_iff in He as [i [<- _]]. simpl.
          exists d. split; [|reflexivity].
          rewrite nth_error_app2, Nat.sub_diag; [reflexivity|lia].
  Qed.

  Definition keys_of (ds : list hdest) : list ekey := map fst (ring_of pos replicas ds).

  Lemma keys_of_sorted ds : sorted ekey_le (keys_of ds).
  Proof.
    unfold keys_of, ring_of. pose proof (ring_state_spec ds) as H. unfold ring_state in H.
    destruct (fold_left _ ds _) as [ring n]. simpl. apply sorted_entries_keys. apply H.
  Qed.

  Lemma keys_of_perm ds : Permutation (keys_of ds) (all_keys ds).
  Proof.
    unfold keys_of, ring_of. pose proof (ring_state_spec ds) as H. unfold ring_state in H.
    destruct (fold_left _ ds _) as [ring n]. simpl. apply H.
  Qed.

  Lemma find_map_fst p (l : list entry) :
    find (fun k : ekey => p <=? fst k) (map fst l) = option_map fst (find (fun e => p <=? epos e) l).
  Proof.
    induction l as [|e l IH]; simpl; [reflexivity|].
    unfold epos at 1. destruct (p <=? fst (fst e)); [reflexivity|exact IH].
  Qed.

  Lemma lookup_keys p (l : list entry) :
    lookupK p (map fst l) = option_map fst (lookup p l).
  Proof.
    unfold lookupK, lookup. rewrite find_map_fst.
    destruct (find _ l); simpl; [reflexivity|]. destruct l; reflexivity.
  Qed.

  Lemma node_for_keys ds name :
    node_for pos replicas ds name = option_map snd (lookupK (pos name) (keys_of ds)).
  Proof.
    unfold node_for, keys_of. rewrite lookup_keys. destruct (lookup _ _); reflexivity.
  Qed.

  Lemma in_all_keys k ds :
    In k (all_keys ds) <->
    exists d i, In d ds /\ (i < replicas)%nat /\ k = (pos (replica_key (node_of_dest d) i), node_of_dest d).
  Proof.
    unfold all_keys, node_keys. rewrite in_flat_map. split.
    - intros [d [Hd Hk]]. apply in_map_iff in Hk as [i [<- Hi]]. apply in_seq in Hi.
      exists d, i. repeat split; [exact Hd|lia].
    - intros [d [i [Hd [Hi ->]]]]. exists d. split; [exact Hd|].
      apply in_map_iff. exists i. split; [reflexivity|]. apply in_seq. lia.
  Qed.

  Lemma all_keys_nodes ds ds' :
    incl (map node_of_dest ds') (map node_of_dest ds) -> incl (all_keys ds') (all_keys ds).
  Proof.
    intros Hi k Hk. apply in_all_keys in Hk as [d [i [Hd [Hlt ->]]]].
    assert (In (node_of_dest d) (map node_of_dest ds)) as Hn by (apply Hi, in_map, Hd).
    apply in_map_iff in Hn as [d2 [E Hd2]]. apply in_all_keys. exists d2, i.
    rewrite E. auto.
  Qed.

  Lemma node_for_best ds name n :
    node_for pos replicas ds name = Some n ->
    exists k, snd k = n /\ is_best (pos name) (all_keys ds) k.
  Proof.
    rewrite node_for_keys. destruct (lookupK _ _) as [k|] eqn:L; [|discriminate].
    simpl. intros E; inversion E; subst n. exists k. split; [reflexivity|].
    apply lookupK_best in L; [|apply keys_of_sorted].
    destruct L as [[Hin Hc] Hmin]. pose proof (keys_of_perm ds) as P.
    split.
    - split; [eapply Permutation_in; eauto|].
      intros [x [Hx Px]]. apply Hc. exists x. split; [|exact Px].
      eapply Permutation_in; [apply Permutation_sym; exact P|exact Hx].
    - intros k' [Hk' Hc']. apply Hmin. split.
      + eapply Permutation_in; [apply Permutation_sym; exact P|exact Hk'].
      + intros [x [Hx Px]]. apply Hc'. exists x. split; [|exact Px]. eapply Permutation_in; eauto.
  Qed.

  Lemma best_node_for ds name k :
    is_best (pos name) (all_keys ds) k -> node_for pos replicas ds name = Some (snd k).
  Proof.
    intros Hb. destruct (node_for pos replicas ds name) as [n|] eqn:E.
    - destruct (node_for_best _ _ _ E) as [k' [<- Hb']]. f_equal. f_equal.
      eapply best_unique; [|exact Hb'|exact Hb]. intros; reflexivity.
    - exfalso. rewrite node_for_keys in E. destruct (lookupK _ _) eqn:L; [discriminate|].
      apply lookupK_none in L. destruct Hb as [[Hin _] _].
      apply (Permutation_in _ (Permutation_sym (keys_of_perm ds))) in Hin. rewrite L in Hin. exact Hin.
  Qed.

  (* --- C15: exactly one destination, and it is the one owning the node --- *)
  Theorem one_dest ds name :
    ds <> [] -> (0 < replicas)%nat ->
    exists i d, dest_index pos replicas ds name = Some i /\ nth_error ds i = Some d /\
                node_for pos replicas ds name = Some (node_of_dest d).
  Proof.
    intros Hne Hr. unfold dest_index, node_for.
    pose proof (ring_state_spec ds) as H. unfold ring_of. unfold ring_state in H.
    destruct (fold_left _ ds _) as [ring n]. simpl. destruct H as [_ [_ [Hp Hidx]]].
    assert (ring <> []) as Hring.
    { intros ->. simpl in Hp. apply Permutation_nil in Hp.
      destruct ds as [|d ds]; [contradiction|]. simpl in Hp. unfold node_keys in Hp.
      destruct replicas; [lia|]. simpl in Hp. discriminate. }
    assert (exists e, lookup (pos name) ring = Some e /\ In e ring) as [e [He Hin]].
    { unfold lookup. destruct (find _ ring) eqn:F.
      - apply find_some in F as [F _]. eauto.
      - destruct ring; [contradiction|]. simpl. eexists; split; [reflexivity|left; reflexivity]. }
    rewrite He. simpl. destruct (Hidx e Hin) as [d [Hn Hd]].
    exists (snd e), d. rewrite Hd. auto.
  Qed.

  (* --- C15: the node depends on the name and on the *set* of nodes only --- *)
  Theorem node_set_only ds ds' name :
    (forall n, In n (map node_of_dest ds) <-> In n (map node_of_dest ds')) ->
    node_for pos replicas ds name = node_for pos replicas ds' name.
  Proof.
    intros HS.
    assert (forall k, In k (all_keys ds) <-> In k (all_keys ds')) as HK.
    { intros k; split; apply all_keys_nodes; intros n Hn; apply HS; exact Hn. }
    destruct (node_for pos replicas ds name) as [n|] eqn:E.
    - destruct (node_for_best _ _ _ E) as [k [<- Hb]]. symmetry. apply best_node_for.
      destruct Hb as [[Hin Hc] Hmin]. split.
      + split; [apply HK; exact Hin|]. intros [x [Hx Px]]. apply Hc. exists x. split; [apply HK; exact Hx|exact Px].
      + intros k' [Hk' Hc']. apply Hmin. split; [apply HK; exact Hk'|].
        intros [x [Hx Px]]. apply Hc'. exists x. split; [apply HK; exact Hx|exact Px].
    - destruct (node_for pos replicas ds' name) as [n'|] eqn:E'; [|reflexivity].
      exfalso. destruct (node_for_best _ _ _ E') as [k [_ [[Hin _] _]]].
      apply HK in Hin. rewrite node_for_keys in E. destruct (lookupK _ _) eqn:L; [discriminate|].
      apply lookupK_none in L.
      apply (Permutation_in _ (Permutation_sym (keys_of_perm ds))) in Hin. rewrite L in Hin. exact Hin.
  Qed.

  (* --- C15: minimal disruption ------------------------------------------ *)
  Theorem subset_stable ds ds' name n :
    incl (map node_of_dest ds') (map node_of_dest ds) ->
    node_for pos replicas ds name = Some n ->
    In n (map node_of_dest ds') ->
    node_for pos replicas ds' name = Some n.
  Proof.
    intros Hi E Hn. destruct (node_for_best _ _ _ E) as [k [<- Hb]].
    apply best_node_for. eapply best_subset; [apply all_keys_nodes; exact Hi|exact Hb|].
    destruct Hb as [[Hin _] _]. apply in_all_keys in Hin as [d [i [Hd [Hlt ->]]]]. simpl in Hn.
    apply in_map_iff in Hn as [d2 [E2 Hd2]]. apply in_all_keys. exists d2, i. rewrite E2. auto.
  Qed.

  Corollary add_minimal ds d name :
    ds <> [] -> (0 < replicas)%nat ->
    node_for pos replicas (ds ++ [d]) name <> node_for pos replicas ds name ->
    node_for pos replicas (ds ++ [d]) name = Some (node_of_dest d).
  Proof.
    intros Hne Hr Hdiff.
    destruct (one_dest (ds ++ [d]) name) as [i [d' [_ [Hn E]]]]; [destruct ds; discriminate|exact Hr|].
    rewrite E. f_equal.
    apply nth_error_In in Hn. apply in_app_or in Hn as [Hn|[->|[]]]; [|reflexivity].
    exfalso. apply Hdiff. rewrite E. symmetry.
    eapply subset_stable; [|exact E|apply in_map; exact Hn].
    rewrite map_app. apply incl_appl, incl_refl.
  Qed.

  Corollary remove_minimal ds i name n :
    node_for pos replicas ds name = Some n ->
    (forall d, nth_error ds i = Some d -> node_of_dest d <> n) ->
    node_for pos replicas (firstn i ds ++ skipn (S i) ds) name = Some n.
  Proof.
    intros E Hd. eapply subset_stable; [|exact E|].
    - intros x Hx. rewrite map_app in Hx. apply in_app_or in Hx as [Hx|Hx];
        apply in_map_iff in Hx as [d0 [<- H0]]; apply in_map.
      + eapply In_firstn; eauto.
      + eapply In_skipn; eauto.
    - destruct (node_for_best _ _ _ E) as [k [<- [[Hin _] _]]].
      apply in_all_keys in Hin as [d [j [Hin [_ ->]]]]. simpl in *.
      apply In_nth_error in Hin as [m Hm].
      assert (m <> i) as Hmi by (intros ->; exact (Hd d Hm eq_refl)).
      rewrite map_app. apply in_or_app.
      destruct (Nat.ltb_spec m i) as [L|L].
      + left. apply in_map. rewrite <- (nth_error_firstn i ds m L) in Hm.
        eapply nth_error_In; eauto.
      + right. apply in_map. 
        assert (nth_error (skipn (S i) ds) (m - S i) = Some d) as Hs.
        { rewrite nth_error_skipn. replace (S i + (m - S i))%nat with m by lia. exact Hm. }
        eapply nth_error_In; eauto.
  Qed.
End Ring.
