(* C13: protocol 4 pickles with integers beyond int32 (LONG1), and connections mixing such frames of protocols 2, 3 and 4.
   Generated from PickleIn4.v by renaming (enc_num -> enc_numL etc.): the structure of the proofs is the same, the number step
   is PickleInLong.run_enc_numL. *)
From CRNG Require Import Base.ListX Base.Bytes Base.Decimal Model.PickleVM Model.Reencode Model.PickleIn Model.PyPickle
  Proofs.ReencodeProofs Proofs.PickleInProofs Proofs.PickleInLong.
From Coq Require Import ZifyN ZifyNat ZifyBool.
Ltac Zify.zify_post_hook ::= Z.div_mod_to_equations.
Local Open Scope N_scope.

Section Steps4L.
  Variable pf : bytes -> option N.
  Notation R := (run pf false).

  Lemma run_memoizeL f st mem v rest b :
    exists mem', R (S f) {| stk := v :: st; memo := mem |} (148 :: rest) b
                 = R f {| stk := v :: st; memo := mem' |} rest false.
  Proof. rewrite run_step. eexists. reflexivity. Qed.

  Lemma run_enc_str4L f st mem s rest b :
    N.of_nat (length s) < 2147483648 ->
    exists mem', R (S (S f)) {| stk := st; memo := mem |} (enc_str4 s ++ rest) b
                 = R f {| stk := VStr s :: st; memo := mem' |} rest false.
  Proof.
    intros Hl. unfold enc_str4. cbv zeta. rewrite <- app_assoc.
    destruct (N.of_nat (length s) <? 256) eqn:E.
    - cbn [app]. rewrite run_step.
      change (step pf false {| stk := st; memo := mem |} 140 (N.of_nat (length s) :: s ++ 148 :: rest))
        with (with_take_n (le_num [N.of_nat (length s)]) (s ++ 148 :: rest)
                (fun b0 r' => SNext (push (VStr b0) {| stk := st; memo := mem |}) r')).
      replace (le_num [N.of_nat (length s)]) with (N.of_nat (length s)) by (cbn; lia).
      unfold with_take_n. rewrite take_n_app. cbv beta iota. unfold push. cbn [stk memo app].
      apply run_memoizeL.
    - cbn [app]. rewrite run_step, <- app_assoc.
      change (step pf false {| stk := st; memo := mem |} 88 (le_bytes 4 (N.of_nat (length s)) ++ s ++ 148 :: rest))
        with (with_take 4 (le_bytes 4 (N.of_nat (length s)) ++ s ++ 148 :: rest) (fun a r =>
                if 2147483648 <=? le_num a then SNext (push (VStr []) {| stk := st; memo := mem |}) r
                else with_take_n (le_num a) r (fun b0 r' => SNext (push (VStr b0) {| stk := st; memo := mem |}) r'))).
      unfold with_take. rewrite take_le_bytes, le_num_le_bytes.
      change (256 ^ N.of_nat 4) with 4294967296. rewrite N.mod_small by lia.
      replace (2147483648 <=? N.of_nat (length s)) with false by lia.
      unfold with_take_n. rewrite take_n_app. cbv beta iota. unfold push. cbn [stk memo app].
      apply run_memoizeL.
  Qed.

  Lemma run_enc_item4L f st mem d rest b :
    dp_okL d = true ->
    exists mem', R (8 + f) {| stk := st; memo := mem |} (enc_item4L d ++ rest) b
                 = R f {| stk := item_valL d :: st; memo := mem' |} rest false.
  Proof.
    intros Hd. unfold dp_okL in Hd. apply andb_true_iff in Hd as [Hd Hv]. apply andb_true_iff in Hd as [Hn Ht].
    unfold enc_item4L. rewrite <- !app_assoc. cbn [Nat.add].
    destruct (run_enc_str4L (S (S (S (S (S (S f)))))) st mem (d_name d)
                (enc_numL (d_ts d) ++ enc_numL (d_val d) ++ [134; 148; 134; 148] ++ rest) b ltac:(lia)) as [m1 ->].
    rewrite (run_enc_numL _ _ _ _ _ _ _ Ht), (run_enc_numL _ _ _ _ _ _ _ Hv).
    cbn [app]. rewrite run_tuple2.
    destruct (run_memoizeL (S (S f)) (VStr (d_name d) :: st) m1 (VTuple [num_valL (d_ts d); num_valL (d_val d)])
                (134 :: 148 :: rest) false) as [m2 ->].
    rewrite run_tuple2.
    destruct (run_memoizeL f st m2 (VTuple [VStr (d_name d); VTuple [num_valL (d_ts d); num_valL (d_val d)]]) rest false) as [m3 ->].
    exists m3. reflexivity.
  Qed.

  Lemma run_enc_items4L ds : forall f st mem rest b,
    forallb dp_okL ds = true ->
    exists mem', R (8 * length ds + f) {| stk := st; memo := mem |} (enc_items4L ds ++ rest) b
                 = R f {| stk := rev (map item_valL ds) ++ st; memo := mem' |} rest
                     (match ds with [] => b | _ => false end).
  Proof.
    induction ds as [|d ds IH]; intros f st mem rest b Hok.
    - exists mem. reflexivity.
    - cbn [forallb] in Hok. apply andb_true_iff in Hok as [Hd Hok].
      cbn [enc_items4L length map rev]. rewrite <- app_assoc.
      replace (8 * S (length ds) + f)%nat with (8 + (8 * length ds + f))%nat by lia.
      destruct (run_enc_item4L (8 * length ds + f) st mem d (enc_items4L ds ++ rest) b Hd) as [m1 ->].
      destruct (IH f (item_valL d :: st) m1 rest false Hok) as [m2 E].
      exists m2. rewrite E. rewrite <- app_assoc. cbn [app]. destruct ds; reflexivity.
  Qed.

  Lemma length_enc_items4L ds : (8 * length ds <= length (enc_items4L ds))%nat.
  Proof.
    induction ds as [|d ds IH]; cbn [enc_items4L length]; [lia|].
    rewrite app_length.
    assert (8 <= length (enc_item4L d))%nat; [|lia].
    assert (En : forall x, (2 <= length (enc_numL x))%nat).
    { intros [n|b]; cbn [enc_numL enc_num].
      - destruct (n <? 2147483648); [|cbn [length]; lia].
        destruct (n <? 256); [cbn; lia|]. destruct (n <? 65536); cbn [length]; rewrite length_le_bytes; lia.
      - cbn [length]. unfold be_bytes. rewrite rev_length, length_le_bytes. lia. }
    pose proof (En (d_ts d)). pose proof (En (d_val d)).
    unfold enc_item4L, enc_str4. cbv zeta. repeat (rewrite app_length || cbn [length]).
    destruct (N.of_nat (length (d_name d)) <? 256); cbn [length]; lia.
  Qed.

  (* the body, without PROTO and FRAME *)
  Lemma run_body4L ds :
    forallb dp_okL ds = true ->
    forall b, R (8 * length ds + 5) vm0 (body4L ds) b = RDone (VList (map item_valL ds)).
  Proof.
    intros Hok b. unfold body4L. cbn [app].
    replace (8 * length ds + 5)%nat with (S (S (8 * length ds + 3))) by lia.
    rewrite run_step.
    match goal with |- context [step pf false ?m 93 ?s] => change (step pf false m 93 s) with (SNext (push (VList []) m) s) end.
    cbv beta iota. unfold push, vm0. cbn [stk memo].
    destruct (run_memoizeL (8 * length ds + 3) [] [] (VList [])
                (match ds with [] => [] | [d] => enc_item4L d ++ [97] | _ :: _ :: _ => 40 :: enc_items4L ds ++ [101] end ++ [46]) false)
      as [m0 ->].
    destruct ds as [|d [|d2 ds]].
    - cbn [app length Nat.mul Nat.add]. reflexivity.
    - cbn [forallb] in Hok. apply andb_true_iff in Hok as [Hd _].
      rewrite <- app_assoc. cbn [length].
      replace (8 * 1 + 3)%nat with (8 + 3)%nat by lia.
      destruct (run_enc_item4L 3 [VList []] m0 d ([97] ++ [46]) false Hd) as [m1 ->].
      reflexivity.
    - remember (d :: d2 :: ds) as dl eqn:Edl.
      cbn [app]. rewrite <- app_assoc.
      replace (8 * length dl + 3)%nat with (S (8 * length dl + 2)) by lia.
      rewrite run_step.
      match goal with |- context [step pf false ?m 40 ?s] => change (step pf false m 40 s) with (SNext (push VMark m) s) end.
      cbv beta iota. unfold push. cbn [stk memo].
      destruct (run_enc_items4L dl 2 [VMark; VList []] m0 ([101] ++ [46]) false Hok) as [m1 E].
      rewrite E. replace (match dl with [] => false | _ :: _ => false end) with false by (destruct dl; reflexivity).
      cbn [app]. rewrite run_step.
      assert (Hsm : split_mark (rev (map item_valL dl) ++ [VMark; VList []]) [] = Some (map item_valL dl, [VList []])).
      { rewrite (split_mark_rev (map item_valL dl) [VList []] []); [rewrite app_nil_r; reflexivity|].
        intros v Hv. apply in_map_iff in Hv as [x [<- _]]. discriminate. }
      change (step pf false {| stk := rev (map item_valL dl) ++ [VMark; VList []]; memo := m1 |} 101 [46])
        with (match split_mark (rev (map item_valL dl) ++ [VMark; VList []]) [] with
              | Some (items, VList xs :: r) =>
                  SNext (set_stk (VList (xs ++ items) :: r) {| stk := rev (map item_valL dl) ++ [VMark; VList []]; memo := m1 |}) [46]
              | _ => SFail RErr
              end).
      rewrite Hsm. reflexivity.
  Qed.

  Lemma length_body4L ds : (8 * length ds + 3 <= length (body4L ds))%nat.
  Proof.
    unfold body4L. rewrite !app_length. destruct ds as [|d [|d2 ds]].
    - cbn [length]. lia.
    - pose proof (length_enc_items4L [d]) as L. cbn [enc_items4L] in L. rewrite app_nil_r in L.
      rewrite app_length. cbn [length] in *. lia.
    - pose proof (length_enc_items4L (d :: d2 :: ds)) as L. rewrite !app_length. cbn [length] in *. lia.
  Qed.

  Theorem unpickle_py_dumps4L ds :
    forallb dp_okL ds = true ->
    unpickle pf false (py_dumps4L ds) = RDone (VList (map item_valL ds)).
  Proof.
    intros Hok. unfold unpickle, py_dumps4L. cbv zeta.
    pose proof (length_body4L ds) as Lb.
    destruct (N.of_nat (length (body4L ds)) <? 4) eqn:E.
    - (* no frame *)
      cbn [app].
      assert (HK : R (S (8 * length ds + 5)) vm0 (128 :: 4 :: body4L ds) true = RDone (VList (map item_valL ds))).
      { rewrite run_step. change (step pf false vm0 128 ?s) with (SNext vm0 (tl s)). cbv beta iota. cbn [tl].
        apply run_body4L. exact Hok. }
      rewrite (run_more pf false (S (8 * length ds + 5))); [exact HK | rewrite HK; discriminate |].
      cbn [length]. lia.
    - cbn [app].
      assert (HK : R (S (S (8 * length ds + 5))) vm0 (128 :: 4 :: 149 :: le_bytes 8 (N.of_nat (length (body4L ds))) ++ body4L ds) true
                   = RDone (VList (map item_valL ds))).
      { rewrite run_step. change (step pf false vm0 128 ?s) with (SNext vm0 (tl s)). cbv beta iota. cbn [tl].
        rewrite run_step.
        change (step pf false vm0 149 (le_bytes 8 (N.of_nat (length (body4L ds))) ++ body4L ds))
          with (with_take 8 (le_bytes 8 (N.of_nat (length (body4L ds))) ++ body4L ds) (fun _ r => SNext vm0 r)).
        unfold with_take. rewrite take_le_bytes. apply run_body4L. exact Hok. }
      rewrite (run_more pf false (S (S (8 * length ds + 5)))); [exact HK | rewrite HK; discriminate |].
      cbn [length]. rewrite app_length, length_le_bytes. lia.
  Qed.
End Steps4L.

(* ---------- a connection mixing protocols ---------- *)
Section Conn4L.
  Variable pf : bytes -> option N.
  Variable fmt6 fmt0 : N -> bytes.

  Definition frame_ok4L (pd : N * list pydp) : Prop :=
    forallb dp_okL (snd pd) = true /\ 3 * N.of_nat (length (snd pd)) + 1 < 4294967296 /\
    N.of_nat (length (payloadL pd)) <= max_payload.

  Lemma check_protocol_payloadL pd rest : check_protocol (payloadL pd ++ rest) = true.
  Proof.
    unfold payloadL. destruct (fst pd =? 4).
    - unfold py_dumps4L. cbv zeta. destruct (N.of_nat (length (body4L (snd pd))) <? 4); reflexivity.
    - reflexivity.
  Qed.

  Lemma unpickle_payloadL pd : frame_ok4L pd -> unpickle pf false (payloadL pd) = RDone (VList (map item_valL (snd pd))).
  Proof.
    intros [Hok [Hn _]]. unfold payloadL. destruct (fst pd =? 4).
    - apply unpickle_py_dumps4L. exact Hok.
    - apply unpickle_py_dumpsL; assumption.
  Qed.

  Lemma handle_frame4L f pd rest :
    frame_ok4L pd ->
    handle_stream pf fmt6 fmt0 (S f) (frame_of (payloadL pd) ++ rest)
    = let (evs, fn) := handle_stream pf fmt6 fmt0 f rest in
      (map (fun d => EvLine (line_of fmt6 fmt0 d)) (snd pd) ++ evs, fn).
  Proof.
    intros Hf. pose proof Hf as [Hok [Hn Hmax]]. unfold frame_of.
    rewrite <- (app_assoc (be_bytes 4 (N.of_nat (length (payloadL pd)))) (payloadL pd) rest).
    set (p := payloadL pd) in *.
    cbn [handle_stream].
    assert (Hne : exists c r, be_bytes 4 (N.of_nat (length p)) ++ p ++ rest = c :: r).
    { unfold be_bytes. cbn [le_bytes rev app]. rewrite <- ?app_assoc. cbn [app]. eexists _, _. reflexivity. }
    destruct Hne as [c0 [r0 E0]]. rewrite E0, <- E0.
    assert (Ht : take 4 (be_bytes 4 (N.of_nat (length p)) ++ p ++ rest) = Some (be_bytes 4 (N.of_nat (length p)), p ++ rest)).
    { replace 4%nat with (length (be_bytes 4 (N.of_nat (length p)))) at 1
        by (unfold be_bytes; rewrite rev_length; apply length_le_bytes).
      apply take_app. }
    rewrite Ht. cbv zeta. rewrite be_num_be_bytes.
    change (256 ^ N.of_nat 4) with 4294967296.
    unfold max_payload in *. rewrite N.mod_small by lia.
    replace (524288000 <? N.of_nat (length p)) with false by lia.
    unfold p. rewrite check_protocol_payloadL. cbn [negb]. rewrite take_n_app.
    rewrite (unpickle_payloadL pd Hf).
    destruct (handle_stream pf fmt6 fmt0 f rest) as [evs fn].
    rewrite map_map. f_equal. f_equal. apply map_ext. intros d. apply handle_item_valL.
  Qed.

  Theorem handle_frames4L (pss : list (N * list pydp)) : forall f,
    Forall frame_ok4L pss -> (length pss < f)%nat ->
    handle_stream pf fmt6 fmt0 f (concat (map (fun pd => frame_of (payloadL pd)) pss))
    = (concat (map (fun pd => map (fun d => EvLine (line_of fmt6 fmt0 d)) (snd pd)) pss), FinOk).
  Proof.
    induction pss as [|pd pss IH]; intros f Hall Hf.
    - destruct f; [lia|]. reflexivity.
    - destruct f as [|f]; [cbn in Hf; lia|].
      inversion Hall as [|? ? H1 H2]; subst. cbn [map concat].
      rewrite (handle_frame4L f pd _ H1).
      rewrite (IH f H2 ltac:(cbn [length] in Hf; lia)). reflexivity.
  Qed.

  Theorem handle_conn_frames4L (pss : list (N * list pydp)) :
    Forall frame_ok4L pss ->
    handle_conn pf fmt6 fmt0 (concat (map (fun pd => frame_of (payloadL pd)) pss))
    = (concat (map (fun pd => map (fun d => EvLine (line_of fmt6 fmt0 d)) (snd pd)) pss), FinOk).
  Proof.
    intros Hall. unfold handle_conn. apply handle_frames4L; [exact Hall|].
    assert (G : forall l : list (N * list pydp),
               (length l <= length (concat (map (fun pd => frame_of (payloadL pd)) l)))%nat).
    { induction l as [|x l IHl]; cbn [map concat length]; [lia|].
      rewrite app_length. unfold frame_of at 1. rewrite app_length. unfold be_bytes. rewrite rev_length, length_le_bytes. lia. }
    specialize (G pss). lia.
  Qed.
End Conn4L.
