(* Disk queue: a crash at any file-system mutation (first segment).  Every file-system state that a run
   of puts, gets and sync ticks passes through — after each segment write, fsync, metadata temp write,
   metadata rename — is recovered by NewDiskQueue into a queue that delivers a contiguous run of the
   enqueued messages, intact and in order: exactly the messages between the consumed and the written
   count of the last completed sync. *)
From CRNG Require Import Base.ListX Base.Bytes Base.Decimal Model.DiskQueue Proofs.DQBasics Proofs.DQReader Proofs.DQFifo.
From Coq Require Import ZifyN ZifyNat ZifyBool.
Local Open Scope N_scope.

(* byte position of the n-th message boundary *)
Definition pos (E : list bytes) (n : nat) : nat := length (frames (firstn n E)).

Lemma frames_app2 a b : frames (a ++ b) = frames a ++ frames b.
Proof. unfold frames. rewrite map_app, concat_app. reflexivity. Qed.

Lemma frames_split E a b : (a <= b)%nat ->
  frames (firstn b E) = frames (firstn a E) ++ frames (firstn (b - a) (skipn a E)).
Proof.
  intros H. rewrite <- frames_app2. f_equal.
  replace b with (a + (b - a))%nat at 1 by lia. apply firstn_add_skipn.
Qed.

Lemma pos_mono E a b : (a <= b)%nat -> (pos E a <= pos E b)%nat.
Proof. intros H. unfold pos. rewrite (frames_split E a b H), app_length. lia. Qed.

Lemma skipn_pos E a b : (a <= b)%nat ->
  skipn (pos E a) (frames (firstn b E)) = frames (firstn (b - a) (skipn a E)).
Proof.
  intros H. unfold pos. rewrite (frames_split E a b H).
  rewrite skipn_app, Nat.sub_diag, skipn_all. reflexivity.
Qed.

Definition seg0f (f : fsys) : bytes := match seg_get (f_segs f) 0 with Some x => x | None => [] end.

(* a file system that a crash can leave behind, for the history E: the segment holds the frames of the first p
   messages; the metadata is absent, or it is the snapshot of a moment when sr messages had been consumed
   and sw written (and says so: positions and depth) *)
Definition crashable (E : list bytes) (f : fsys) (sr sw : nat) : Prop :=
  exists p, (sr <= sw)%nat /\ (sw <= p)%nat /\ (p <= length E)%nat /\
    seg0f f = frames (firstn p E) /\
    (p = 0%nat \/ seg_get (f_segs f) 0 = Some (seg0f f)) /\
    ((f_meta f = None /\ sr = 0%nat /\ sw = 0%nat) \/
     exists stale, f_meta f = Some (print_meta (Z.of_nat (sw - sr)) 0 (N.of_nat (pos E sr)) 0 (N.of_nat (pos E sw)) ++ stale)).

Lemma crashable_grow E f sr sw m : crashable E f sr sw -> crashable (E ++ [m]) f sr sw.
Proof.
  intros [p [H1 [H2 [H3 [H4 [H5 H6]]]]]]. exists p.
  assert (Hf : forall n, (n <= length E)%nat -> firstn n (E ++ [m]) = firstn n E).
  { intros n Hn. rewrite firstn_app. replace (n - length E)%nat with 0%nat by lia. cbn [firstn]. apply app_nil_r. }
  repeat split; try assumption.
  - rewrite app_length. cbn [length]. lia.
  - rewrite Hf by lia. exact H4.
  - unfold pos. rewrite !Hf by lia. exact H6.
Qed.

(* ---- recovery ---- *)
Lemma small_sub (E : list bytes) sr sw :
  (forall m, In m E -> N.of_nat (length m) < 2147483648) ->
  forall m, In m (firstn (sw - sr) (skipn sr E)) -> N.of_nat (length m) < 2147483648.
Proof. intros H m Hm. apply H. apply In_skipn with sr. apply In_firstn with (sw - sr)%nat. exact Hm. Qed.

Lemma recover c E f sr sw :
  crashable E f sr sw ->
  (forall m, In m E -> N.of_nat (length m) < 2147483648) ->
  N.of_nat (pos E (length E)) <= c_max c ->
  exists d, dq_open c f [] = Some d /\ qinv c d (firstn (sw - sr) (skipn sr E)).
Proof.
  intros [p [H1 [H2 [H3 [H4 [H5 H6]]]]]] Hsmall Hmax.
  remember (firstn (sw - sr) (skipn sr E)) as q eqn:Eqq.
  assert (Hps : (pos E sr <= pos E sw)%nat) by (apply pos_mono; lia).
  assert (Hpw : (pos E sw <= pos E p)%nat) by (apply pos_mono; lia).
  assert (Hpm : (pos E p <= pos E (length E))%nat) by (apply pos_mono; lia).
  assert (HC : length (seg0f f) = pos E p) by (rewrite H4; reflexivity).
  (* the metadata as read back *)
  assert (Hmeta : exists dep,
            (let '(dep0, rf, rp, wf, wp) :=
               match f_meta f with
               | Some txt => match parse_meta txt with Some x => x | None => (0%Z, 0, 0, 0, 0) end
               | None => (0%Z, 0, 0, 0, 0)
               end in (dep0, rf, rp, wf, wp)) = (dep, 0, N.of_nat (pos E sr), 0, N.of_nat (pos E sw))
            /\ dep = Z.of_nat (length q)).
  { destruct H6 as [[Hm [-> ->]]|[stale Hm]].
    - rewrite Hm. exists 0%Z. split; [reflexivity|]. rewrite Eqq. cbn. reflexivity.
    - rewrite Hm, meta_roundtrip. eexists. split; [reflexivity|].
      rewrite Eqq. rewrite firstn_length, skipn_length. lia. }
  destruct Hmeta as [dep [Hmeta Hdep]].
  unfold dq_open.
  destruct (match f_meta f with
            | Some txt => match parse_meta txt with Some x => x | None => (0%Z, 0, 0, 0, 0) end
            | None => (0%Z, 0, 0, 0, 0)
            end) as [[[[dep0 rf] rp] wf] wp] eqn:Em.
  inversion Hmeta; subst dep0 rf rp wf wp. clear Hmeta.
  unfold LOOP_FUEL. rewrite loop_top_unfold. cbv zeta.
  match goal with |- context [presync c ?x] => set (r := x) end.
  pose proof (presync_fields c r) as P. cbv zeta in P.
  set (d2 := presync c r) in *.
  destruct P as [P1 [P2 [P3 [P4 [P5 [P6 [P7 [P8 [P9 [P10 P11]]]]]]]]]].
  cbn [r readPos writePos readFileNum writeFileNum depth nextReadPos nextReadFileNum rfile pending ready fs] in P1, P2, P3, P4, P5, P6, P7, P8, P9, P10, P11.
  assert (S2 : seg0 d2 = seg0f f) by (unfold seg0, seg0f; rewrite P11; reflexivity).
  (* the data between the two positions *)
  assert (Hdata : skipn (pos E sr) (seg0f f) = frames q ++ skipn (pos E sw) (seg0f f)).
  { rewrite H4. rewrite (skipn_pos E sr p) by lia. rewrite (skipn_pos E sw p) by lia.
    rewrite Eqq. rewrite <- frames_app2. f_equal.
    replace (p - sr)%nat with ((sw - sr) + (p - sw))%nat by lia. rewrite firstn_add_skipn. f_equal.
    rewrite skipn_skipn'. f_equal. f_equal. lia. }
  assert (Hlen : (pos E sr + length (frames q) = pos E sw)%nat).
  { rewrite Eqq. unfold pos. rewrite (frames_split E sr sw) by lia. rewrite app_length. reflexivity. }
  rewrite P3, P4, P1, P2. cbn [N.ltb N.compare orb].
  destruct q as [|m q'].
  - change (frames []) with (@nil N) in Hlen. cbn [length] in Hlen.
    replace (N.of_nat (pos E sr) <? N.of_nat (pos E sw)) with false by lia.
    eexists. split; [reflexivity|].
    constructor; cbn [setr readPos writePos readFileNum writeFileNum depth nextReadPos nextReadFileNum rfile pending ready fs].
    + rewrite P3, P4, P7. auto.
    + change (seg0 (setr _ _ _)) with (seg0 d2). rewrite P2, S2. lia.
    + change (seg0 (setr _ _ _)) with (seg0 d2). rewrite P2, P11, S2.
      destruct H5 as [->|H5]; [left; unfold pos in *; cbn [firstn] in Hpw; change (frames []) with (@nil N) in Hpw; cbn [length] in Hpw; lia | right; exact H5].
    + rewrite P2. lia.
    + rewrite P1, P2. lia.
    + change (seg0 (setr _ _ _)) with (seg0 d2). rewrite P1, P2, S2, !Nat2N.id. exact Hdata.
    + rewrite P5. exact Hdep.
    + intros x [].
    + split; [reflexivity|]. split; [rewrite P6, P1; reflexivity|]. rewrite P8. exact I.
  - pose proof (frames_length_pos m q') as Hpos.
    replace (N.of_nat (pos E sr) <? N.of_nat (pos E sw)) with true by lia.
    rewrite P6, N.eqb_refl.
    assert (Hq : forall x, In x (m :: q') -> N.of_nat (length x) < 2147483648).
    { intros x Hx. apply (small_sub E sr sw Hsmall). rewrite <- Eqq. exact Hx. }
    assert (Hm : N.of_nat (length m) < 2147483648) by (apply Hq; left; reflexivity).
    assert (Hl1 : (4 + length m <= length (frames (m :: q')))%nat) by (rewrite frames_cons, app_length, frame_length; lia).
    assert (Hex : seg_get (f_segs f) 0 = Some (seg0f f)).
    { destruct H5 as [->|H5]; [|exact H5]. exfalso. unfold pos in *. cbn [firstn] in Hpw. change (frames []) with (@nil N) in Hpw. cbn [length] in Hpw. lia. }
    destruct (read_at c d2 m (frames q' ++ skipn (pos E sw) (seg0f f)) (pos E sr)) as [h2 [E2 [Hi2 Hn2]]].
    + exact P3.
    + rewrite P11, S2. exact Hex.
    + exact P1.
    + rewrite S2, Hdata, frames_cons, <- app_assoc. reflexivity.
    + exact Hm.
    + rewrite P1. lia.
    + rewrite P8. exact I.
    + rewrite E2. eexists. split; [reflexivity|].
      constructor; cbn [setr readPos writePos readFileNum writeFileNum depth nextReadPos nextReadFileNum rfile pending ready fs].
      * rewrite P3, P4. auto.
      * change (seg0 (setr _ _ _)) with (seg0 d2). rewrite P2, S2. lia.
      * change (seg0 (setr _ _ _)) with (seg0 d2). rewrite P2, P11, S2. right. exact Hex.
      * rewrite P2. lia.
      * rewrite P1, P2. lia.
      * change (seg0 (setr _ _ _)) with (seg0 d2). rewrite P1, P2, S2, !Nat2N.id. exact Hdata.
      * rewrite P5. exact Hdep.
      * exact Hq.
      * split; [reflexivity|]. split; [reflexivity|]. split; [reflexivity|]. split; [|discriminate].
        change (seg0 (setr _ _ _)) with (seg0 d2). cbn [handle_ok]. split; [|exact Hn2].
        rewrite P1, S2 in *.
        replace (N.to_nat (N.of_nat (pos E sr) + 4 + N.of_nat (length m))) with (pos E sr + 4 + length m)%nat by lia.
        exact Hi2.
Qed.

(* draining a queue delivers exactly what it holds *)
Lemma drain_all c q : forall d limit, qinv c d q -> (length q <= limit)%nat -> dq_drain c limit d = q.
Proof.
  induction q as [|m q IH]; intros d limit I Hl.
  - destruct (qi_head c d [] I) as [Hr _]. destruct limit; cbn [dq_drain]; [reflexivity | rewrite Hr; reflexivity].
  - destruct limit as [|limit]; [cbn [length] in Hl; lia|].
    destruct (qi_head c d (m :: q) I) as [Hr [Hp _]].
    destruct (get_step c d m q I) as [d' [E [_ [I' _]]]].
    cbn [dq_drain]. rewrite Hr, E, Hp. f_equal. apply IH; [exact I' | cbn [length] in Hl; lia].
Qed.

(* ---- what a sync adds to the crash trace ---- *)
Lemma presync_trace c d :
  (fs (presync c d) = fs d /\ trace (presync c d) = trace d) \/
  (exists stale,
     let txt := print_meta (depth d) (readFileNum d) (readPos d) (writeFileNum d) (writePos d) ++ stale in
     let f1 := {| f_segs := f_segs (fs d); f_bad := f_bad (fs d); f_meta := f_meta (fs d); f_tmp := Some txt |} in
     let f2 := {| f_segs := f_segs (fs d); f_bad := f_bad (fs d); f_meta := Some txt; f_tmp := None |} in
     fs (presync c d) = f2 /\
     (trace (presync c d) = (L_meta_rename, f2) :: (L_tmp_write, f1) :: (L_seg_fsync, fs d) :: trace d \/
      trace (presync c d) = (L_meta_rename, f2) :: (L_tmp_write, f1) :: trace d)).
Proof.
  unfold presync. cbv zeta.
  match goal with |- context [if needSync ?x then _ else _] => destruct (needSync x) eqn:E end.
  - right. unfold do_sync, persist_meta, set_needsync, mutate.
    cbn [readPos writePos readFileNum writeFileNum depth nextReadPos nextReadFileNum needSync count rfile wopen pending ready fs trace].
    destruct (wopen d) eqn:Ew;
      cbn [readPos writePos readFileNum writeFileNum depth nextReadPos nextReadFileNum needSync count rfile wopen pending ready fs trace];
      rewrite write_at_zero; eexists; cbv zeta; split; try reflexivity; [left | right]; reflexivity.
  - left. cbn. auto.
Qed.

Lemma crashable_tmp E f sr sw t :
  crashable E f sr sw ->
  crashable E {| f_segs := f_segs f; f_bad := f_bad f; f_meta := f_meta f; f_tmp := t |} sr sw.
Proof. intros [p H]. exists p. exact H. Qed.

(* the state of a run: E enqueued so far, k of them handed to the consumer *)
Record rinv (c : cfg) (d : dq) (E : list bytes) (k : nat) : Prop := {
  ri_q : qinv c d (skipn k E);
  ri_tight : tight d;
  ri_k : (k <= length E)%nat;
  ri_seg : seg0 d = frames E;
  ri_rp : readPos d = N.of_nat (pos E k);
  ri_wp : writePos d = N.of_nat (pos E (length E));
  ri_small : forall m, In m E -> N.of_nat (length m) < 2147483648;
  ri_fs : exists sr sw, crashable E (fs d) sr sw /\ (sr <= k)%nat;
  ri_trace : forall l f, In (l, f) (trace d) -> exists sr sw, crashable E f sr sw /\ (sr <= k)%nat }.

(* the sync that may follow an operation: X is the state right after the operation's own mutation *)
Lemma sync_entries c X E k :
  readFileNum X = 0 -> writeFileNum X = 0 ->
  readPos X = N.of_nat (pos E k) -> writePos X = N.of_nat (pos E (length E)) ->
  depth X = Z.of_nat (length E - k) -> (k <= length E)%nat ->
  seg0 X = frames E -> (E = [] \/ seg_get (f_segs (fs X)) 0 = Some (seg0 X)) ->
  (exists sr sw, crashable E (fs X) sr sw /\ (sr <= k)%nat) ->
  (forall l f, In (l, f) (trace X) -> exists sr sw, crashable E f sr sw /\ (sr <= k)%nat) ->
  (exists sr sw, crashable E (fs (presync c X)) sr sw /\ (sr <= k)%nat) /\
  (forall l f, In (l, f) (trace (presync c X)) -> exists sr sw, crashable E f sr sw /\ (sr <= k)%nat).
Proof.
  intros Hrf Hwf Hrp Hwp Hdep Hk Hseg Hex Hfs Htr.
  destruct (presync_trace c X) as [[Ef Et]|[stale H]].
  - rewrite Ef, Et. auto.
  - cbv zeta in H. destruct H as [Ef Et].
    set (txt := print_meta (depth X) (readFileNum X) (readPos X) (writeFileNum X) (writePos X) ++ stale) in *.
    set (f1 := {| f_segs := f_segs (fs X); f_bad := f_bad (fs X); f_meta := f_meta (fs X); f_tmp := Some txt |}) in *.
    set (f2 := {| f_segs := f_segs (fs X); f_bad := f_bad (fs X); f_meta := Some txt; f_tmp := None |}) in *.
    assert (C2 : crashable E f2 k (length E)).
    { exists (length E). repeat split; try lia.
      - unfold seg0f, f2. cbn [f_segs]. change (match seg_get (f_segs (fs X)) 0 with Some x => x | None => [] end) with (seg0 X).
        rewrite firstn_all. exact Hseg.
      - destruct Hex as [->|Hex]; [left; reflexivity | right]. unfold seg0f, f2. cbn [f_segs].
        change (match seg_get (f_segs (fs X)) 0 with Some x => x | None => [] end) with (seg0 X). exact Hex.
      - right. exists stale. unfold f2. cbn [f_meta]. unfold txt. rewrite Hdep, Hrf, Hwf, Hrp, Hwp. reflexivity. }
    destruct Hfs as [sr [sw [Cx Hsr]]].
    assert (C1 : crashable E f1 sr sw) by (apply (crashable_tmp E (fs X) sr sw (Some txt)); exact Cx).
    split.
    + rewrite Ef. exists k, (length E). split; [exact C2 | lia].
    + intros l f Hin. destruct Et as [Et|Et]; rewrite Et in Hin.
      * destruct Hin as [Hin|[Hin|[Hin|Hin]]]; try (inversion Hin; subst).
        -- exists k, (length E). split; [exact C2 | lia].
        -- exists sr, sw. split; [exact C1 | exact Hsr].
        -- exists sr, sw. split; [exact Cx | exact Hsr].
        -- exact (Htr l f Hin).
      * destruct Hin as [Hin|[Hin|Hin]]; try (inversion Hin; subst).
        -- exists k, (length E). split; [exact C2 | lia].
        -- exists sr, sw. split; [exact C1 | exact Hsr].
        -- exact (Htr l f Hin).
Qed.

(* ---- positions ---- *)
Lemma firstn_app_le {A} (l1 l2 : list A) n : (n <= length l1)%nat -> firstn n (l1 ++ l2) = firstn n l1.
Proof. intros H. rewrite firstn_app. replace (n - length l1)%nat with 0%nat by lia. cbn [firstn]. apply app_nil_r. Qed.

Lemma pos_grow E m n : (n <= length E)%nat -> pos (E ++ [m]) n = pos E n.
Proof. intros H. unfold pos. rewrite firstn_app_le by exact H. reflexivity. Qed.

Lemma pos_end E m : pos (E ++ [m]) (length (E ++ [m])) = (pos E (length E) + 4 + length m)%nat.
Proof. unfold pos. rewrite !firstn_all, frames_app, app_length, frame_length. lia. Qed.

Lemma pos_succ E k m q : skipn k E = m :: q -> pos E (S k) = (pos E k + 4 + length m)%nat.
Proof.
  intros H. unfold pos. rewrite (frames_split E k (S k)) by lia. rewrite app_length.
  replace (S k - k)%nat with 1%nat by lia. rewrite H. cbn [firstn]. rewrite frames_cons, app_length, frame_length.
  change (frames []) with (@nil N). cbn [length]. lia.
Qed.

Lemma skipn_app_le' {A} (l1 l2 : list A) n : (n <= length l1)%nat -> skipn n (l1 ++ l2) = skipn n l1 ++ l2.
Proof. intros H. rewrite skipn_app. replace (n - length l1)%nat with 0%nat by lia. reflexivity. Qed.

(* replacing the segment by one that holds all of E keeps a file system crashable *)
Lemma crashable_segs E f f' sr sw :
  crashable E f sr sw -> f_meta f' = f_meta f ->
  seg0f f' = frames E -> (E = [] \/ seg_get (f_segs f') 0 = Some (seg0f f')) ->
  crashable E f' sr sw.
Proof.
  intros [p [H1 [H2 [H3 [H4 [H5 H6]]]]]] Hm Hs Hex. exists (length E).
  repeat split; try lia.
  - rewrite firstn_all. exact Hs.
  - destruct Hex as [->|Hex]; [left; reflexivity | right; exact Hex].
  - rewrite Hm. exact H6.
Qed.

Lemma write_one_trace c d m :
  writePos d + 4 + N.of_nat (length m) <= c_max c ->
  trace (write_one c d m) = (L_seg_write, fs (write_one c d m)) :: trace d /\
  f_meta (fs (write_one c d m)) = f_meta (fs d).
Proof.
  intros H. unfold write_one. cbv zeta.
  replace (c_max c <? writePos d + 4 + N.of_nat (length m)) with false by lia.
  cbn [trace fs with_segs f_meta]. split; reflexivity.
Qed.

(* ---- the three operations preserve the run invariant ---- *)
Lemma rinv_put c d E k m :
  rinv c d E k -> N.of_nat (length m) < 2147483648 -> writePos d + 4 + N.of_nat (length m) <= c_max c ->
  exists d', loop_top c LOOP_FUEL (write_one c d m) = Some d' /\ rinv c d' (E ++ [m]) k /\
             writePos d' = writePos d + 4 + N.of_nat (length m).
Proof.
  intros [Iq It Ik Iseg Irp Iwp Ism Ifs Itr] Hm Hroom.
  destruct (put_step c d (skipn k E) m Iq It Hm Hroom) as [d' [E1 [[Ef [Et Er]] [Iq' [It' W']]]]].
  exists d'. split; [exact E1|]. split; [|exact W'].
  set (X := write_one c d m) in *.
  destruct Iq as [[Hrf [Hwf Hnf]] Hw Hex Hr Hrp Hdata Hdep Hsmall Hhead].
  pose proof (write_one_fields c d m It Hwf Hroom) as F. cbv zeta in F. fold X in F.
  destruct F as [F1 [F2 [F3 [F4 [F5 [F6 [F7 [F8 [F9 [F10 [F11 F12]]]]]]]]]]].
  destruct (write_one_trace c d m Hroom) as [T1 T2]. fold X in T1, T2.
  pose proof (presync_fields c X) as P. cbv zeta in P.
  destruct P as [P1 [P2 [P3 [P4 [P5 [P6 [P7 [P8 [P9 [P10 P11]]]]]]]]]].
  assert (HsegX : seg0 X = frames (E ++ [m])) by (rewrite F12, Iseg, frames_app; reflexivity).
  assert (Hseg' : seg0 d' = frames (E ++ [m])).
  { unfold seg0. rewrite Ef, P11. exact HsegX. }
  assert (HfsX : exists sr sw, crashable (E ++ [m]) (fs X) sr sw /\ (sr <= k)%nat).
  { destruct Ifs as [sr [sw [C Hsr]]]. exists sr, sw. split; [|exact Hsr].
    apply (crashable_segs (E ++ [m]) (fs d) (fs X) sr sw).
    - apply crashable_grow. exact C.
    - exact T2.
    - exact HsegX.
    - right. change (seg0f (fs X)) with (seg0 X). rewrite F12. exact F11. }
  assert (HtrX : forall l f, In (l, f) (trace X) -> exists sr sw, crashable (E ++ [m]) f sr sw /\ (sr <= k)%nat).
  { intros l f Hin. rewrite T1 in Hin. destruct Hin as [Hin|Hin].
    - inversion Hin; subst. exact HfsX.
    - destruct (Itr l f Hin) as [sr [sw [C Hsr]]]. exists sr, sw. split; [apply crashable_grow; exact C | exact Hsr]. }
  destruct (sync_entries c X (E ++ [m]) k) as [S1 S2]; try assumption.
  - rewrite F3. exact Hrf.
  - rewrite F1, Irp, pos_grow by exact Ik. reflexivity.
  - rewrite F2, Iwp, pos_end. lia.
  - rewrite F5, Hdep, skipn_length, app_length. cbn [length]. lia.
  - rewrite app_length. cbn [length]. lia.
  - right. rewrite F12. exact F11.
  - constructor.
    + rewrite skipn_app_le' by exact Ik. exact Iq'.
    + exact It'.
    + rewrite app_length. cbn [length]. lia.
    + exact Hseg'.
    + rewrite Er, P1, F1, Irp, pos_grow by exact Ik. reflexivity.
    + rewrite W', Iwp, pos_end. lia.
    + intros x Hx. apply in_app_or in Hx as [Hx|[<-|[]]]; [apply Ism; exact Hx | exact Hm].
    + rewrite Ef. exact S1.
    + rewrite Et. exact S2.
Qed.

Lemma move_forward_q c d m q :
  qinv c d (m :: q) ->
  move_forward d =
    {| readPos := nextReadPos d; writePos := writePos d; readFileNum := 0; writeFileNum := 0; depth := (depth d - 1)%Z;
       nextReadPos := nextReadPos d; nextReadFileNum := 0; needSync := needSync d || false; count := count d;
       rfile := rfile d; wopen := wopen d; pending := pending d; ready := ready d; fs := fs d; trace := trace d |}.
Proof.
  intros [[Hrf [Hwf Hnf]] Hw Hex Hr Hrp Hdata Hdep Hsmall Hhead].
  destruct Hhead as [Hready [Hpend [Hnext [Hh Hnn]]]].
  assert (Hlen : (N.to_nat (readPos d) + 4 + length m + length (frames q) = N.to_nat (writePos d))%nat).
  { assert (L : length (skipn (N.to_nat (readPos d)) (seg0 d)) = length (frames (m :: q) ++ skipn (N.to_nat (writePos d)) (seg0 d)))
      by (rewrite Hdata; reflexivity).
    rewrite skipn_length, app_length, skipn_length, frames_cons, app_length, frame_length in L. lia. }
  apply move_forward_same; try assumption; try lia.
  intros E. assert (Hq : q = []).
  { apply frames_nil_iff. apply length_zero_iff_nil. lia. }
  rewrite Hq in Hdep. cbn [length] in Hdep. lia.
Qed.

Lemma rinv_get c d E k m q :
  rinv c d E k -> skipn k E = m :: q ->
  exists d', loop_top c LOOP_FUEL (move_forward d) = Some d' /\ rinv c d' E (S k) /\ writePos d' = writePos d.
Proof.
  intros [Iq It Ik Iseg Irp Iwp Ism Ifs Itr] Hsk. rewrite Hsk in Iq.
  destruct (get_step c d m q Iq) as [d' [E1 [[Ef [Et Er]] [Iq' [W' S']]]]].
  exists d'. split; [exact E1|]. split; [|exact W'].
  pose proof (move_forward_q c d m q Iq) as MF.
  set (X := move_forward d) in *.
  assert (Hk' : (S k <= length E)%nat).
  { assert (L : length (skipn k E) = length (m :: q)) by (rewrite Hsk; reflexivity). rewrite skipn_length in L. cbn [length] in L. lia. }
  destruct Iq as [[Hrf [Hwf Hnf]] Hw Hex Hr Hrp Hdata Hdep Hsmall Hhead].
  destruct Hhead as [Hready [Hpend [Hnext [Hh Hnn]]]].
  pose proof (presync_fields c X) as P. cbv zeta in P.
  destruct P as [P1 [P2 [P3 [P4 [P5 [P6 [P7 [P8 [P9 [P10 P11]]]]]]]]]].
  assert (FX : fs X = fs d /\ trace X = trace d /\ readPos X = nextReadPos d /\ writePos X = writePos d /\
               readFileNum X = 0 /\ writeFileNum X = 0 /\ depth X = (depth d - 1)%Z).
  { rewrite MF. cbn. repeat split. }
  destruct FX as [X1 [X2 [X3 [X4 [X5 [X6 X7]]]]]].
  assert (Hsk' : skipn (S k) E = q).
  { replace (S k) with (k + 1)%nat by lia. rewrite <- skipn_skipn', Hsk. reflexivity. }
  destruct (sync_entries c X E (S k)) as [S1 S2]; try assumption.
  - rewrite X3, Hnext, Irp, (pos_succ E k m q Hsk). lia.
  - rewrite X4. exact Iwp.
  - rewrite X7, Hdep. cbn [length]. assert (L : length (skipn k E) = length (m :: q)) by (rewrite Hsk; reflexivity).
    rewrite skipn_length in L. cbn [length] in L. lia.
  - unfold seg0. rewrite X1. exact Iseg.
  - right. unfold seg0. rewrite X1. destruct Hex as [Hex|Hex]; [|exact Hex].
    exfalso. assert (L : length (skipn (N.to_nat (readPos d)) (seg0 d)) = length (frames (m :: q) ++ skipn (N.to_nat (writePos d)) (seg0 d)))
      by (rewrite Hdata; reflexivity).
    rewrite skipn_length, app_length, skipn_length, frames_cons, app_length, frame_length in L. lia.
  - rewrite X1. destruct Ifs as [sr [sw [C Hsr]]]. exists sr, sw. split; [exact C | lia].
  - rewrite X2. intros l f Hin. destruct (Itr l f Hin) as [sr [sw [C Hsr]]]. exists sr, sw. split; [exact C | lia].
  - constructor.
    + rewrite Hsk'. exact Iq'.
    + apply (tight_same d d' W' S' It).
    + exact Hk'.
    + rewrite S'. exact Iseg.
    + rewrite Er, P1, X3, Hnext, Irp, (pos_succ E k m q Hsk). lia.
    + rewrite W'. exact Iwp.
    + exact Ism.
    + rewrite Ef. exact S1.
    + rewrite Et. exact S2.
Qed.

Lemma rinv_tick c d E k :
  rinv c d E k ->
  exists d', loop_top c LOOP_FUEL (set_needsync d true) = Some d' /\ rinv c d' E k /\ writePos d' = writePos d.
Proof.
  intros [Iq It Ik Iseg Irp Iwp Ism Ifs Itr].
  destruct (tick_step c d (skipn k E) Iq) as [d' [E1 [[Ef [Et Er]] [Iq' [W' S']]]]].
  exists d'. split; [exact E1|]. split; [|exact W'].
  set (X := set_needsync d true) in *.
  destruct Iq as [[Hrf [Hwf Hnf]] Hw Hex Hr Hrp Hdata Hdep Hsmall Hhead].
  pose proof (presync_fields c X) as P. cbv zeta in P.
  destruct P as [P1 [P2 [P3 [P4 [P5 [P6 [P7 [P8 [P9 [P10 P11]]]]]]]]]].
  assert (FX : fs X = fs d /\ trace X = trace d /\ readPos X = readPos d /\ writePos X = writePos d /\
               readFileNum X = readFileNum d /\ writeFileNum X = writeFileNum d /\ depth X = depth d /\ seg0 X = seg0 d).
  { unfold X, set_needsync, seg0. cbn. repeat split. }
  destruct FX as [X1 [X2 [X3 [X4 [X5 [X6 [X7 X8]]]]]]].
  destruct (sync_entries c X E k) as [S1 S2].
  - rewrite X5. exact Hrf.
  - rewrite X6. exact Hwf.
  - rewrite X3. exact Irp.
  - rewrite X4. exact Iwp.
  - rewrite X7, Hdep, skipn_length. reflexivity.
  - exact Ik.
  - rewrite X8. exact Iseg.
  - rewrite X1, X8. destruct Hex as [Hex|Hex]; [|right; exact Hex]. left.
    assert (L : length (frames E) = 0%nat).
    { rewrite <- Iseg. unfold tight in It. lia. }
    apply frames_nil_iff. apply length_zero_iff_nil. exact L.
  - rewrite X1. exact Ifs.
  - rewrite X2. exact Itr.
  - constructor; try assumption.
    + apply (tight_same d d' W' S' It).
    + rewrite S'. exact Iseg.
    + rewrite Er, P1, X3. exact Irp.
    + rewrite W'. exact Iwp.
    + rewrite Ef. exact S1.
    + rewrite Et. exact S2.
Qed.

(* ---- runs of puts, gets and sync ticks ---- *)
Fixpoint fits_nr (c : cfg) (wp : N) (ops : list dop) : bool :=
  match ops with
  | [] => true
  | Put m :: r => (N.of_nat (length m) <? 2147483648) && (wp + 4 + N.of_nat (length m) <=? c_max c)
                  && fits_nr c (wp + 4 + N.of_nat (length m)) r
  | CloseReopen :: _ => false
  | _ :: r => fits_nr c wp r
  end.

Fixpoint puts (ops : list dop) : list bytes :=
  match ops with [] => [] | Put m :: r => m :: puts r | _ :: r => puts r end.

Theorem run_rinv c ops : forall d E k,
  rinv c d E k -> fits_nr c (writePos d) ops = true ->
  exists d' k', snd (dq_run c (Some d) ops) = Some d' /\ rinv c d' (E ++ puts ops) k'.
Proof.
  induction ops as [|o ops IH]; intros d E k I F.
  - exists d, k. cbn. rewrite app_nil_r. auto.
  - destruct o as [m| | |]; cbn [fits_nr] in F; try discriminate.
    + apply andb_true_iff in F as [F F3]. apply andb_true_iff in F as [F1 F2].
      destruct (rinv_put c d E k m I ltac:(lia) ltac:(lia)) as [d1 [E1 [I1 W1]]].
      destruct (IH d1 (E ++ [m]) k I1 ltac:(rewrite W1; exact F3)) as [d' [k' [R I']]].
      exists d', k'. cbn [dq_run dq_step puts]. rewrite E1.
      destruct (dq_run c (Some d1) ops) as [outs dl]. cbn [snd] in *. split; [exact R|].
      rewrite <- app_assoc in I'. exact I'.
    + cbn [dq_run dq_step puts].
      destruct (skipn k E) as [|m q] eqn:Hsk.
      * assert (Hr' : ready d = false) by (destruct (ri_q c d E k I) as [_ _ _ _ _ _ _ _ Hh]; rewrite Hsk in Hh; tauto).
        rewrite Hr'. destruct (IH d E k I F) as [d' [k' [R I']]]. exists d', k'.
        destruct (dq_run c (Some d) ops) as [outs dl]. cbn [snd] in *. auto.
      * assert (Hr' : ready d = true) by (destruct (ri_q c d E k I) as [_ _ _ _ _ _ _ _ Hh]; rewrite Hsk in Hh; tauto).
        rewrite Hr'.
        destruct (rinv_get c d E k m q I Hsk) as [d1 [E1 [I1 W1]]]. rewrite E1.
        destruct (IH d1 E (S k) I1 ltac:(rewrite W1; exact F)) as [d' [k' [R I']]]. exists d', k'.
        destruct (dq_run c (Some d1) ops) as [outs dl]. cbn [snd] in *. auto.
    + cbn [dq_run dq_step puts].
      destruct (rinv_tick c d E k I) as [d1 [E1 [I1 W1]]]. rewrite E1.
      destruct (IH d1 E k I1 ltac:(rewrite W1; exact F)) as [d' [k' [R I']]]. exists d', k'.
      destruct (dq_run c (Some d1) ops) as [outs dl]. cbn [snd] in *. auto.
Qed.

(* ---- from a fresh directory ---- *)
Lemma open_rinv c : exists d, dq_open c fs_empty [] = Some d /\ rinv c d [] 0 /\ writePos d = 0.
Proof.
  destruct (open_empty c) as [d [E [I [W T]]]].
  exists d. split; [exact E|]. split; [|exact W].
  (* the same state, explicitly *)
  set (r := {| readPos := 0; writePos := 0; readFileNum := 0; writeFileNum := 0; depth := 0%Z; nextReadPos := 0; nextReadFileNum := 0;
               needSync := false; count := 0%Z; rfile := None; wopen := false; pending := []; ready := false; fs := fs_empty; trace := [] |}).
  assert (E0 : dq_open c fs_empty [] = Some (setr (presync c r) (pending (presync c r)) false)).
  { unfold dq_open. cbn [f_meta fs_empty]. unfold LOOP_FUEL. rewrite loop_top_unfold. cbv zeta. fold r.
    pose proof (presync_fields c r) as P. cbv zeta in P.
    destruct P as [P1 [P2 [P3 [P4 _]]]]. cbn [r readPos writePos readFileNum writeFileNum] in P1, P2, P3, P4.
    rewrite P1, P2, P3, P4. reflexivity. }
  rewrite E0 in E. inversion E as [Ed]. clear E.
  assert (C0 : crashable [] fs_empty 0 0).
  { exists 0%nat. repeat split; try lia. left. auto. }
  destruct (sync_entries c r [] 0) as [S1 S2]; try reflexivity; try lia.
  - left. reflexivity.
  - exists 0%nat, 0%nat. split; [exact C0 | lia].
  - intros l f [].
  - subst d. constructor; try assumption.
    + cbn [length]. lia.
    + pose proof (presync_fields c r) as P. cbv zeta in P. destruct P as [_ [_ [_ [_ [_ [_ [_ [_ [_ [_ P11]]]]]]]]]].
      unfold seg0. cbn [setr fs]. rewrite P11. reflexivity.
    + pose proof (presync_fields c r) as P. cbv zeta in P. destruct P as [P1 _]. cbn [setr readPos]. rewrite P1. reflexivity.
    + intros m [].
Qed.

(* The theorem.  For every history of puts, gets and sync ticks that stays in the first segment, every file
   system state the queue passed through (the crash points: after each segment write, fsync, metadata temp
   write and metadata rename) is recovered by NewDiskQueue without panic into a queue whose complete drain is
   a contiguous run E[sr .. sw) of the enqueued messages, intact and in order, where sr does not exceed the
   number of messages handed to the consumer. *)
Theorem crash_recovery c ops limit :
  fits_nr c 0 ops = true -> (length (puts ops) <= limit)%nat ->
  exists dfin kfin,
    snd (dq_run c (dq_open c fs_empty []) ops) = Some dfin /\ (kfin <= length (puts ops))%nat /\
    forall l f, In (l, f) (trace dfin) ->
      exists sr sw d,
        (sr <= sw)%nat /\ (sw <= length (puts ops))%nat /\ (sr <= kfin)%nat /\
        dq_open c f [] = Some d /\
        dq_drain c limit d = firstn (sw - sr) (skipn sr (puts ops)).
Proof.
  intros F Hl. destruct (open_rinv c) as [d0 [E0 [I0 W0]]]. rewrite E0.
  destruct (run_rinv c ops d0 [] 0 I0 ltac:(rewrite W0; exact F)) as [dfin [kfin [R I]]].
  cbn [app] in I. exists dfin, kfin. split; [exact R|]. split; [exact (ri_k _ _ _ _ I)|].
  intros l f Hin. destruct (ri_trace _ _ _ _ I l f Hin) as [sr [sw [C Hsr]]].
  assert (Hmax : N.of_nat (pos (puts ops) (length (puts ops))) <= c_max c).
  { rewrite <- (ri_wp _ _ _ _ I). exact (qi_room _ _ _ (ri_q _ _ _ _ I)). }
  destruct (recover c (puts ops) f sr sw C (ri_small _ _ _ _ I) Hmax) as [d [Eo Iq]].
  destruct C as [p [H1 [H2 [H3 _]]]].
  exists sr, sw, d. repeat split; try lia; try exact Eo.
  apply drain_all; [exact Iq|]. rewrite firstn_length, skipn_length. lia.
Qed.
