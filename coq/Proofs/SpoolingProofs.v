(* C07: no handed-off line is lost uncounted, for every schedule of outages, recoveries and interleavings. *)
From CRNG Require Import Base.Bytes Model.Spooling.
From Coq Require Import ZifyN ZifyNat ZifyBool.
Local Open Scope N_scope.

Definition located (s : sst) (id : N) : Prop :=
  In id (s_recv s) \/ In id (s_q s) \/ In id (s_keep s) \/ In id (s_spool s) \/ In id (s_slow s) \/ In id (s_slowspool s).

Definition safe (s : sst) : Prop := forall id, In id (s_handed s) -> located s id.

Lemma memb_In x l : memb x l = true <-> In x l.
Proof.
  unfold memb. rewrite existsb_exists. split.
  - intros [y [Hy E]]. apply N.eqb_eq in E. subst. exact Hy.
  - intros H. exists x. split; [exact H | apply N.eqb_refl].
Qed.

Ltac loc_solve :=
  unfold located in *; cbn [s_recv s_q s_keep s_spool s_slow s_slowspool s_handed] in *;
  repeat match goal with
         | H : In _ (_ ++ _) |- _ => apply in_app_or in H
         | H : In _ (_ :: _) |- _ => destruct H as [H|H]; subst
         | H : _ \/ _ |- _ => destruct H as [H|H]
         end;
  auto 12 using in_or_app, in_eq, in_cons.

Lemma step_safe s e s' : sstep s e = Some s' -> safe s -> safe s'.
Proof.
  intros H S. destruct e; cbn [sstep] in H.
  - (* SIn *)
    destruct (s_conn s); destruct room; inversion H; subst; clear H; intros x Hx; cbn [s_handed] in Hx;
      (destruct Hx as [<-|Hx]; [loc_solve | specialize (S x Hx); loc_solve]).
  - (* SUnspool *)
    destruct (s_conn s && negb (s_now s) && negb (s_last s)); [|discriminate].
    destruct (s_spool s) as [|h t] eqn:Es; [discriminate|].
    destruct room; inversion H; subst; clear H; intros x Hx; cbn [s_handed] in Hx;
      specialize (S x Hx); unfold located in *; rewrite Es in S; loc_solve.
  - (* STake *)
    destruct (s_q s) as [|h t] eqn:Eq; [discriminate|].
    inversion H; subst; clear H. intros x Hx. cbn [s_handed] in Hx. specialize (S x Hx).
    unfold located in *. rewrite Eq in S. loc_solve.
  - (* SDeliver *)
    destruct (s_alive s); [|discriminate]. destruct (s_wire s) as [|h t]; [discriminate|].
    inversion H; subst; clear H. intros x Hx. specialize (S x Hx). loc_solve.
  - (* SBreak *)
    destruct (s_alive s); [|discriminate]. inversion H; subst; clear H. intros x Hx. specialize (S x Hx). loc_solve.
  - (* SNotice *)
    destruct (s_conn s && negb (s_alive s)); [|discriminate].
    inversion H; subst; clear H. intros x Hx. specialize (S x Hx). loc_solve.
  - (* SForget *)
    inversion H; subst; clear H. intros x Hx. specialize (S x Hx).
    unfold located in *. cbn [s_recv s_q s_keep s_spool s_slow s_slowspool] in *.
    destruct S as [S|[S|[S|S]]]; auto.
    destruct (memb x (s_recv s)) eqn:E.
    + left. apply memb_In. exact E.
    + right. right. left. apply filter_In. split; [exact S | rewrite E; reflexivity].
  - (* SConnUp *)
    destruct (s_conn s); [discriminate|]. inversion H; subst; clear H. intros x Hx. specialize (S x Hx). loc_solve.
  - (* STick *)
    inversion H; subst; clear H. intros x Hx. specialize (S x Hx). loc_solve.
Qed.

Theorem run_safe evs : forall s s', srun s evs = Some s' -> safe s -> safe s'.
Proof.
  induction evs as [|e evs IH]; cbn [srun]; intros s s' H S.
  - inversion H; subst; exact S.
  - destruct (sstep s e) as [s1|] eqn:E; [|discriminate]. eapply IH; [exact H|]. eapply step_safe; eauto.
Qed.

Lemma init_safe : safe sinit.
Proof. intros x []. Qed.

(* once everything has drained (queues empty, whatever keepSafe still holds has been received),
   the distinct lines never received are at most slow_conn + slow_spool *)
Definition drained (s : sst) : Prop :=
  s_q s = [] /\ s_spool s = [] /\ forall x, In x (s_keep s) -> In x (s_recv s).

Theorem missing_bounded s missing :
  safe s -> drained s -> NoDup missing ->
  (forall x, In x missing -> In x (s_handed s) /\ ~ In x (s_recv s)) ->
  (length missing <= length (s_slow s) + length (s_slowspool s))%nat.
Proof.
  intros S [Hq [Hs Hk]] Hnd Hm.
  rewrite <- app_length. apply NoDup_incl_length; [exact Hnd|].
  intros x Hx. destruct (Hm x Hx) as [Hh Hr]. specialize (S x Hh).
  unfold located in S. rewrite Hq, Hs in S.
  destruct S as [S|[S|[S|[S|[S|S]]]]]; try contradiction; try (exfalso; exact S).
  - exfalso. apply Hr. apply Hk. exact S.
  - apply in_or_app. left. exact S.
  - apply in_or_app. right. exact S.
Qed.

(* lines in flight when the break is noticed are put into the spool: nothing of conn.In or keepSafe is dropped *)
Theorem notice_replays s s' :
  sstep s SNotice = Some s' ->
  forall x, In x (s_q s) \/ In x (s_keep s) -> In x (s_spool s').
Proof.
  cbn [sstep]. destruct (s_conn s && negb (s_alive s)); [|discriminate].
  intros H x Hx. inversion H; subst; clear H. cbn [s_spool].
  apply in_or_app. right. apply in_or_app. tauto.
Qed.

(* progress while the endpoint stays up and the conn is not slow: each of the three moves is enabled as long as
   its queue is non-empty, and each shortens spool + conn.In + wire by handing one line on *)
Definition backlog (s : sst) : nat := (2 * length (s_spool s) + 2 * length (s_q s) + length (s_wire s))%nat.

Theorem drain_progress s :
  s_conn s = true -> s_alive s = true -> s_now s = false -> s_last s = false ->
  (s_spool s <> [] -> exists s', sstep s (SUnspool true) = Some s' /\ (backlog s' <= backlog s)%nat /\ length (s_spool s') = pred (length (s_spool s))) /\
  (s_q s <> [] -> exists s', sstep s STake = Some s' /\ (backlog s' < backlog s)%nat) /\
  (s_wire s <> [] -> exists s', sstep s SDeliver = Some s' /\ (backlog s' < backlog s)%nat).
Proof.
  intros Hc Ha Hn Hl. unfold backlog. repeat split.
  - intros Hne. cbn [sstep]. rewrite Hc, Hn, Hl. cbn [andb negb].
    destruct (s_spool s) as [|h t]; [contradiction|]. eexists. split; [reflexivity|].
    cbn [s_spool s_q s_wire length]. rewrite app_length. cbn [length]. split; [lia | reflexivity].
  - intros Hne. cbn [sstep]. destruct (s_q s) as [|h t]; [contradiction|]. eexists. split; [reflexivity|].
    cbn [s_spool s_q s_wire length]. rewrite Ha. rewrite app_length. cbn [length]. lia.
  - intros Hne. cbn [sstep]. rewrite Ha. destruct (s_wire s) as [|h t]; [contradiction|]. eexists. split; [reflexivity|].
    cbn [s_spool s_q s_wire length]. lia.
Qed.

(* a schedule with an outage right after a hand-off (the line sits in the dead conn's queue), a replay,
   a second outage during unspooling, and a full drain: every line arrives *)
Example spooling_example :
  match srun sinit [SConnUp; SIn 1 true; STake; SDeliver; SIn 2 true; STake; SBreak; SIn 3 true; SNotice; SIn 4 true;
                    SConnUp; SUnspool true; STake; SBreak; SNotice; SConnUp;
                    SUnspool true; SUnspool true; SUnspool true; SUnspool true; STake; STake; STake; STake;
                    SDeliver; SDeliver; SDeliver; SDeliver; SForget] with
  | Some s => (s_q s, s_spool s, s_keep s, s_slow s, forallb (fun x => memb x (s_recv s)) [1;2;3;4])
  | None => ([], [], [], [], false)
  end = ([], [], [], [], true).
Proof. vm_compute. reflexivity. Qed.
