(* C17: retry until acknowledged, nothing skipped, order kept, shutdown drains. *)
From CRNG Require Import Base.ListX Base.Bytes Model.GrafanaNet.
Local Open Scope nat_scope.

Lemma retry_spec faults used rest :
  retry faults = Some (used, rest) ->
  faults = used ++ rest /\ exists fails, used = fails ++ [Ok2xx] /\ forallb (fun o => negb (is_ok o)) fails = true.
Proof.
  revert used rest; induction faults as [|o r IH]; intros used rest H; simpl in H; [discriminate|].
  destruct (is_ok o) eqn:E.
  - inversion H; subst. split; [reflexivity|]. exists []. destruct o; try discriminate. auto.
  - destruct (retry r) as [[u rs]|] eqn:ER; [|discriminate]. inversion H; subst.
    destruct (IH u rest eq_refl) as [-> [fails [-> Hf]]]. split; [reflexivity|].
    exists (o :: fails). split; [reflexivity|]. simpl. rewrite E, Hf. reflexivity.
Qed.

Lemma retry_total faults : In Ok2xx faults -> retry faults <> None.
Proof.
  induction faults as [|o r IH]; intros H; [destruct H|]. simpl. destruct (is_ok o) eqn:E; [discriminate|].
  destruct H as [->|H]; [discriminate|]. specialize (IH H). destruct (retry r) as [[u rs]|]; [discriminate|contradiction].
Qed.

Section W.
  Variable A : Type.
  Variable flush_max : nat.
  Notation wstate := (wstate A).
  Notation acked := (acked A).

  Lemma acked_app (p1 p2 : list (list A * outcome)) (q : list A) (b : list A) (f : list outcome) (d : bool) :
    acked {| w_queue := q; w_batch := b; w_posts := p1 ++ p2; w_faults := f; w_done := d |} =
    acked {| w_queue := q; w_batch := b; w_posts := p1; w_faults := f; w_done := d |} ++
    flat_map (fun p => if is_ok (snd p) then fst p else []) p2.
  Proof. unfold GrafanaNet.acked. simpl. apply flat_map_app. Qed.

  Lemma acked_of_attempts (b : list A) fails :
    forallb (fun o => negb (is_ok o)) fails = true ->
    flat_map (fun p : list A * outcome => if is_ok (snd p) then fst p else []) (map (fun o => (b, o)) (fails ++ [Ok2xx])) = b.
  Proof.
    induction fails as [|o fails IH]; simpl; intros H; [apply app_nil_r|].
    apply andb_true_iff in H as [H1 H2]. apply negb_true_iff in H1. rewrite H1. simpl. apply IH; exact H2.
  Qed.

  (* the conservation-and-order invariant of one shard: acknowledged ++ in the batch ++ still queued = received, in order *)
  Definition total (w : wstate) : list A := acked w ++ w_batch A w ++ w_queue A w.

  Lemma do_flush_spec w w' :
    do_flush A w = Some w' ->
    total w' = total w /\ w_batch A w' = [] /\ w_queue A w' = w_queue A w /\ w_done A w' = w_done A w /\
    (* every attempt of this flush carried the same body, only the last one was acknowledged *)
    exists attempts, w_posts A w' = w_posts A w ++ map (fun o => (w_batch A w, o)) attempts /\
                     (w_batch A w = [] -> attempts = []) /\
                     (w_batch A w <> [] -> exists fails, attempts = fails ++ [Ok2xx] /\ forallb (fun o => negb (is_ok o)) fails = true).
  Proof.
    unfold do_flush. destruct (w_batch A w) as [|m b] eqn:EB.
    - intros H; inversion H; subst. rewrite EB. repeat split; auto. exists []. rewrite app_nil_r. repeat split; auto. intros Hc; contradiction.
    - destruct (retry (w_faults A w)) as [[used rest]|] eqn:ER; [|discriminate].
      intros H; inversion H; subst; simpl. apply retry_spec in ER as [_ [fails [-> Hf]]].
      unfold total. simpl. rewrite acked_app, acked_of_attempts by exact Hf.
      split; [|repeat split; auto].
      + unfold GrafanaNet.acked. simpl. rewrite EB. rewrite <- !app_assoc. reflexivity.
      + exists (fails ++ [Ok2xx]). repeat split; [discriminate|]. intros _. exists fails. auto.
  Qed.

  Lemma take_spec w w' : take A flush_max w = Some w' -> total w' = total w /\ w_done A w' = w_done A w /\
    length (w_queue A w') = length (w_queue A w) - 1.
  Proof.
    unfold take. destruct (w_queue A w) as [|m q] eqn:EQ; [intros H; inversion H; subst; rewrite EQ; auto|].
    set (w1 := {| w_queue := q; w_batch := w_batch A w ++ [m]; w_posts := w_posts A w; w_faults := w_faults A w; w_done := w_done A w |}).
    assert (T1 : total w1 = total w).
    { unfold total, w1, GrafanaNet.acked. simpl. rewrite EQ, <- !app_assoc. reflexivity. }
    destruct (Nat.eqb (length (w_batch A w1)) flush_max).
    - intros H. destruct (do_flush_spec _ _ H) as [Ht [_ [Hq [Hd _]]]]. rewrite Ht, T1, Hq, Hd. simpl. repeat split; lia.
    - intros H; inversion H; subst. rewrite T1. simpl. repeat split; lia.
  Qed.

  Lemma drain_spec fuel : forall w w', length (w_queue A w) <= fuel -> drain A flush_max fuel w = Some w' ->
    total w' = total w /\ w_queue A w' = [] /\ w_done A w' = w_done A w.
  Proof.
    induction fuel as [|f IH]; intros w w' Hl H; simpl in H.
    - inversion H; subst. destruct (w_queue A w'); [auto|simpl in Hl; lia].
    - destruct (w_queue A w) as [|m q] eqn:EQ; [inversion H; subst; auto|].
      destruct (take A flush_max w) as [w1|] eqn:ET; [|discriminate].
      destruct (take_spec _ _ ET) as [T1 [D1 L1]].
      destruct (IH w1 w' ltac:(rewrite L1, EQ in *; simpl in *; lia) H) as [T2 [Q2 D2]].
      rewrite T2, T1, D2, D1. auto.
  Qed.

  (* every step of a worker keeps the invariant *)
  Theorem step_total w e w' : wstep A flush_max w e = Some w' -> total w' = total w.
  Proof.
    unfold wstep. destruct (w_done A w); [intros H; inversion H; reflexivity|].
    destruct e.
    - intros H. apply take_spec in H. tauto.
    - intros H. apply do_flush_spec in H. tauto.
    - destruct (drain A flush_max (length (w_queue A w)) w) as [w1|] eqn:ED; [|discriminate].
      destruct (do_flush A w1) as [w2|] eqn:EF; [|discriminate].
      intros H; inversion H; subst. destruct (drain_spec _ _ _ (le_n _) ED) as [T1 _].
      destruct (do_flush_spec _ _ EF) as [T2 _]. unfold total in *. simpl in *. unfold GrafanaNet.acked in *. simpl in *. congruence.
  Qed.

  (* what was acknowledged is always a prefix, in receive order, of what the shard received *)
  Corollary acked_prefix w : exists rest, total w = acked w ++ rest.
  Proof. unfold total. eauto. Qed.

  (* shutdown: the worker takes in everything still queued, flushes, and reports done: nothing is left behind *)
  Theorem shutdown_drains w w' :
    w_done A w = false -> wstep A flush_max w WShutdown = Some w' ->
    w_done A w' = true /\ w_queue A w' = [] /\ w_batch A w' = [] /\ acked w' = total w.
  Proof.
    intros Hd. unfold wstep. rewrite Hd.
    destruct (drain A flush_max (length (w_queue A w)) w) as [w1|] eqn:ED; [|discriminate].
    destruct (do_flush A w1) as [w2|] eqn:EF; [|discriminate].
    intros H; inversion H; subst; simpl.
    destruct (drain_spec _ _ _ (le_n _) ED) as [T1 [Q1 _]].
    destruct (do_flush_spec _ _ EF) as [T2 [B2 [Q2 _]]].
    repeat split; [congruence|exact B2|].
    unfold total in *. rewrite B2, Q2, Q1 in T2. simpl in T2. rewrite app_nil_r in T2.
    unfold GrafanaNet.acked in *. simpl. rewrite T2. rewrite Q1 in T1. exact T1.
  Qed.

  (* a full queue: non-blocking mode drops and reports it, blocking mode is simply not enabled (nothing is dropped) *)
  Theorem buffer_full blocking cap q m :
    cap <= length q ->
    enqueue A blocking cap q m = if blocking then None else Some (q, true).
  Proof. intros H. unfold enqueue. apply Nat.ltb_ge in H. rewrite H. reflexivity. Qed.

  Theorem buffer_room blocking cap q m : length q < cap -> enqueue A blocking cap q m = Some (q ++ [m], false).
  Proof. intros H. unfold enqueue. apply Nat.ltb_lt in H. rewrite H. reflexivity. Qed.
End W.
