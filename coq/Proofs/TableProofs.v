(* Theorems about Model.Table (C01, C11 and the dispatch side of C02/C19),
   for every table and every line, with the regex search an arbitrary function. *)
From CRNG Require Import Base.ListX Base.Bytes Lib.Regex Model.Fields Model.Validate Model.Matcher Model.Rewriter
  Model.Hashing Model.Table.
Local Open Scope nat_scope.

(* indices (counted from i) of the elements accepted by f, ascending *)
Fixpoint accepting {A} (f : A -> bool) (l : list A) (i : nat) : list nat :=
  match l with
  | [] => []
  | x :: l' => if f x then i :: accepting f l' (S i) else accepting f l' (S i)
  end.

Fixpoint accepting_el {A} (f : A -> bool) (l : list A) (i : nat) : list (nat * A) :=
  match l with
  | [] => []
  | x :: l' => if f x then (i, x) :: accepting_el f l' (S i) else accepting_el f l' (S i)
  end.

Lemma accepting_el_fst {A} (f : A -> bool) l i : map fst (accepting_el f l i) = accepting f l i.
Proof. revert i; induction l as [|x l IH]; intros i; simpl; [reflexivity|]. destruct (f x); simpl; rewrite IH; reflexivity. Qed.

Lemma accepting_spec {A} (f : A -> bool) l i j :
  In j (accepting f l i) <-> (i <= j /\ exists x, nth_error l (j - i) = Some x /\ f x = true).
Proof.
  revert i; induction l as [|x l IH]; intros i; simpl.
  - split; [intros [] | intros [_ [y [H _]]]; destruct (j - i); discriminate].
  - destruct (f x) eqn:E; simpl; rewrite IH; split.
    + intros [<-|[H [y [Hy Fy]]]].
      * split; [lia|]. exists x. rewrite Nat.sub_diag. auto.
      * split; [lia|]. exists y. replace (j - i) with (S (j - S i)) by lia. auto.
    + intros [H [y [Hy Fy]]]. destruct (Nat.eq_dec i j) as [->|N]; [left; reflexivity|right].
      split; [lia|]. exists y. replace (j - i) with (S (j - S i)) in Hy by lia. auto.
    + intros [H [y [Hy Fy]]]. split; [lia|]. exists y. replace (j - i) with (S (j - S i)) by lia. auto.
    + intros [H [y [Hy Fy]]]. destruct (Nat.eq_dec i j) as [->|N].
      * rewrite Nat.sub_diag in Hy. simpl in Hy. congruence.
      * split; [lia|]. exists y. replace (j - i) with (S (j - S i)) in Hy by lia. auto.
Qed.

Lemma accepting_lb {A} (f : A -> bool) l i j : In j (accepting f l i) -> i <= j.
Proof. intros H. apply accepting_spec in H. tauto. Qed.

Lemma accepting_nodup {A} (f : A -> bool) l i : NoDup (accepting f l i).
Proof.
  revert i; induction l as [|x l IH]; intros i; simpl; [constructor|].
  destruct (f x); [|apply IH]. constructor; [|apply IH].
  intros H. apply accepting_lb in H. lia.
Qed.

Section WithSearch.
  Variable search : rx -> bytes -> bool.
  Notation mmatch := (mmatch search).

  Lemma send_all_spec ds i line :
    send_all search ds i line = accepting (fun d => mmatch (d_matcher d) (name_of line)) ds i.
  Proof. revert i; induction ds as [|d ds IH]; intros i; simpl; [reflexivity|]. rewrite IH. reflexivity. Qed.

  Lemma send_first_spec ds i line :
    send_first search ds i line = firstn 1 (accepting (fun d => mmatch (d_matcher d) (name_of line)) ds i).
  Proof.
    revert i; induction ds as [|d ds IH]; intros i; simpl; [reflexivity|].
    destruct (mmatch (d_matcher d) (name_of line)); [reflexivity|apply IH].
  Qed.

  Lemma send_hash_at_most_one ds line : length (send_hash ds line) <= 1.
  Proof.
    unfold send_hash. destruct (index_byte 32 line) as [[|n]|]; simpl; try lia.
    destruct (dest_index _ _ _ _); simpl; lia.
  Qed.

  Definition route_accepts (name : bytes) (r : route) : bool := mmatch (r_matcher r) name.

  Lemma route_loop_routes rs i name line :
    fst (route_loop search rs i name line) = map (fun j => (j, line)) (accepting (route_accepts name) rs i).
  Proof.
    revert i; induction rs as [|r rs IH]; intros i; simpl; [reflexivity|].
    specialize (IH (S i)). destruct (route_loop search rs (S i) name line) as [a b]. simpl in IH.
    unfold route_accepts at 1. destruct (mmatch (r_matcher r) name); simpl; congruence.
  Qed.

  (* destination hand-offs: for every matching route, in order, what that route's Dispatch selects *)
  Lemma route_loop_dests rs i name line :
    snd (route_loop search rs i name line) =
    flat_map (fun jr => map (fun d => (fst jr, d, line)) (route_dispatch search (snd jr) line))
             (accepting_el (route_accepts name) rs i).
  Proof.
    revert i; induction rs as [|r rs IH]; intros i; simpl; [reflexivity|].
    specialize (IH (S i)). destruct (route_loop search rs (S i) name line) as [a b]. simpl in IH.
    unfold route_accepts at 1. destruct (mmatch (r_matcher r) name); simpl; congruence.
  Qed.

  (* ---- the dispatch pipeline, case by case --------------------------- *)
  Definition passes_validation (t : table) (buf : bytes) (val_ok ts_ok : bool) : Prop :=
    snd (validate_packet buf (t_ll t) (t_lm t) val_ok ts_ok) = None.

  Lemma dispatch_invalid t om buf v s ts e :
    snd (validate_packet buf (t_ll t) (t_lm t) v s) = Some e ->
    let '(om', o) := dispatch search t om buf v s ts in
    om' = om /\ o_invalid o = true /\ o_routes o = [] /\ o_dests o = [] /\ o_agg_consumed o = [] /\
    o_out_of_order o = false /\ o_blacklisted o = false /\ o_unroutable o = false /\
    o_bad o = Some (fst (validate_packet buf (t_ll t) (t_lm t) v s), BadInvalid e).
  Proof.
    unfold dispatch. destruct (validate_packet buf (t_ll t) (t_lm t) v s) as [key [e'|]]; simpl; [|discriminate].
    intros H; inversion H; subst. repeat split; reflexivity.
  Qed.

  Lemma validate_three_fields buf ll lm v s key :
    validate_packet buf ll lm v s = (key, None) -> exists f0 f1 f2, fields buf = [f0; f1; f2] /\ key = strip_dot f0.
  Proof.
    unfold validate_packet. destruct (fields buf) as [|f0 [|f1 [|f2 [|? ?]]]]; try discriminate.
    intros H. exists f0, f1, f2. split; [reflexivity|].
    destruct (match get_version f0 with Legacy => _ | M20 => _ | M20NoEquals => _ end); [discriminate|].
    destruct (negb v); [discriminate|]. destruct (negb s); [discriminate|]. inversion H; reflexivity.
  Qed.

  (* the full statement for a line that is valid, in order, not blacklisted and not dropped *)
  Theorem dispatch_routes_exact t om buf v s ts f0 f1 f2 :
    validate_packet buf (t_ll t) (t_lm t) v s = (strip_dot f0, None) ->
    fields buf = [f0; f1; f2] ->
    (t_order t = true -> snd (ordered om (strip_dot f0) ts) = true) ->
    existsb (fun m => mmatch m f0) (t_blacklist t) = false ->
    snd (agg_loop search (t_aggs t) 0 (rewrite_all (t_rewriters t) f0)) = false ->
    let name := rewrite_all (t_rewriters t) f0 in
    let final := name ++ [32%N] ++ f1 ++ [32%N] ++ f2 in
    let o := snd (dispatch search t om buf v s ts) in
    o_routes o = map (fun j => (j, final)) (accepting (route_accepts name) (t_routes t) 0) /\
    o_dests o = flat_map (fun jr => map (fun d => (fst jr, d, final)) (route_dispatch search (snd jr) final))
                         (accepting_el (route_accepts name) (t_routes t) 0) /\
    (o_unroutable o = true <-> accepting (route_accepts name) (t_routes t) 0 = []) /\
    o_invalid o = false /\ o_out_of_order o = false /\ o_blacklisted o = false /\ o_bad o = None.
  Proof.
    intros Hv Hf Ho Hb Ha name final. unfold dispatch. rewrite Hv.
    assert (E : (if t_order t then ordered om (strip_dot f0) ts else (om, true)) =
                ((if t_order t then fst (ordered om (strip_dot f0) ts) else om), true)).
    { destruct (t_order t); [|reflexivity]. specialize (Ho eq_refl).
      destruct (ordered om (strip_dot f0) ts) as [a b]. simpl in *. subst. reflexivity. }
    rewrite E. simpl. rewrite Hf, Hb.
    fold name. change (snd (agg_loop search (t_aggs t) 0 name) = false) in Ha.
    destruct (agg_loop search (t_aggs t) 0 name) as [consumed dropped] eqn:EA.
    simpl in Ha. subst dropped.
    pose proof (route_loop_routes (t_routes t) 0 name final) as HR.
    pose proof (route_loop_dests (t_routes t) 0 name final) as HD.
    change (name ++ 32%N :: f1 ++ 32%N :: f2) with final.
    destruct (route_loop search (t_routes t) 0 name final) as [rts dsts]. simpl in *.
    subst rts dsts. repeat split; try reflexivity.
    - destruct (accepting (route_accepts name) (t_routes t) 0); [reflexivity|discriminate].
    - intros ->. reflexivity.
  Qed.

  Theorem dispatch_blacklisted t om buf v s ts f0 f1 f2 :
    validate_packet buf (t_ll t) (t_lm t) v s = (strip_dot f0, None) ->
    fields buf = [f0; f1; f2] ->
    (t_order t = true -> snd (ordered om (strip_dot f0) ts) = true) ->
    existsb (fun m => mmatch m f0) (t_blacklist t) = true ->
    let o := snd (dispatch search t om buf v s ts) in
    o_blacklisted o = true /\ o_routes o = [] /\ o_dests o = [] /\ o_agg_consumed o = [] /\
    o_unroutable o = false /\ o_invalid o = false /\ o_bad o = None.
  Proof.
    intros Hv Hf Ho Hb. unfold dispatch. rewrite Hv.
    assert (E : (if t_order t then ordered om (strip_dot f0) ts else (om, true)) =
                ((if t_order t then fst (ordered om (strip_dot f0) ts) else om), true)).
    { destruct (t_order t); [|reflexivity]. specialize (Ho eq_refl).
      destruct (ordered om (strip_dot f0) ts) as [a b]. simpl in *. subst. reflexivity. }
    rewrite E. simpl. rewrite Hf, Hb. simpl. repeat split; reflexivity.
  Qed.

  (* DispatchAggregate looks at the routes only *)
  Theorem dispatch_aggregate_routes rs buf :
    let o := dispatch_aggregate search rs buf in
    o_routes o = map (fun j => (j, buf)) (accepting (route_accepts (name_of buf)) rs 0) /\
    o_agg_consumed o = [] /\ o_invalid o = false /\ o_blacklisted o = false /\ o_bad o = None /\
    (o_unroutable o = true <-> accepting (route_accepts (name_of buf)) rs 0 = []).
  Proof.
    unfold dispatch_aggregate.
    pose proof (route_loop_routes rs 0 (name_of buf) buf) as HR.
    destruct (route_loop search rs 0 (name_of buf) buf) as [rts dsts]. simpl in *. subst rts.
    repeat split; try reflexivity.
    - destruct (accepting _ rs 0); [reflexivity|discriminate].
    - intros ->. reflexivity.
  Qed.
End WithSearch.

(* ---- C03 at the sites: decisions depend on the metric name only -------- *)
Section Sites.
  Variable search : rx -> bytes -> bool.

  Lemma send_all_name_only ds i l l' : name_of l = name_of l' -> send_all search ds i l = send_all search ds i l'.
  Proof. intros H. rewrite !send_all_spec, H. reflexivity. Qed.

  Lemma send_first_name_only ds i l l' : name_of l = name_of l' -> send_first search ds i l = send_first search ds i l'.
  Proof. intros H. rewrite !send_first_spec, H. reflexivity. Qed.

  Lemma aggregate_routes_name_only rs l l' :
    name_of l = name_of l' ->
    map fst (o_routes (dispatch_aggregate search rs l)) = map fst (o_routes (dispatch_aggregate search rs l')).
  Proof.
    intros H. destruct (dispatch_aggregate_routes search rs l) as [-> _].
    destruct (dispatch_aggregate_routes search rs l') as [-> _].
    rewrite !map_map, H. reflexivity.
  Qed.

  (* an aggregation consumes a point exactly when its complete filter accepts the name *)
  Definition agg_takes (a : agg) (name : bytes) : bool :=
    mpre (a_matcher a) name &&
    (match m_regex (a_matcher a) with Some r => search r name | None => false end
     && negb (match m_notRegex (a_matcher a) with Some r => search r name | None => false end)).

  Lemma agg_takes_spec a name r :
    m_regex (a_matcher a) = Some r ->
    (forall s, search r s = true -> has_prefix (regex_to_prefix (rx_src r)) s = true) ->
    agg_takes a name = spec_accept search (a_matcher a) name.
  Proof.
    intros Hr Hs. unfold agg_takes, mpre, pre_match, spec_accept. rewrite Hr.
    destruct (nonempty (m_prefix (a_matcher a))); destruct (has_prefix (m_prefix (a_matcher a)) name); simpl; try reflexivity;
    destruct (nonempty (m_notPrefix (a_matcher a))); destruct (has_prefix (m_notPrefix (a_matcher a)) name); simpl; try reflexivity;
    destruct (nonempty (m_sub (a_matcher a))); destruct (contains (m_sub (a_matcher a)) name); simpl; try reflexivity;
    destruct (nonempty (m_notSub (a_matcher a))); destruct (contains (m_notSub (a_matcher a)) name); simpl; try reflexivity;
    (destruct (search r name) eqn:S1; simpl; [rewrite (Hs name S1), andb_false_r; reflexivity | rewrite andb_false_r; reflexivity]).
  Qed.

  Lemma agg_loop_consumed aggs i name j :
    In j (fst (agg_loop search aggs i name)) ->
    exists a, nth_error aggs (j - i) = Some a /\ i <= j /\ agg_takes a name = true.
  Proof.
    revert i; induction aggs as [|a aggs IH]; intros i; simpl; [intros []|].
    unfold agg_takes at 1.
    destruct (mpre (a_matcher a) name) eqn:P; simpl.
    - set (takes := (match m_regex (a_matcher a) with Some r => search r name | None => false end
                     && negb (match m_notRegex (a_matcher a) with Some r => search r name | None => false end))).
      destruct (a_dropraw a).
      + destruct takes eqn:T; simpl.
        * intros [<-|[]]. exists a. rewrite Nat.sub_diag. repeat split; auto. unfold agg_takes. rewrite P. exact T.
        * intros H. destruct (IH _ H) as [a' [Hn [Hl Ht]]]. exists a'. replace (j - i) with (S (j - S i)) by lia. auto with arith.
      + destruct (agg_loop search aggs (S i) name) as [l d] eqn:EL. simpl. intros H. apply in_app_or in H as [H|H].
        * destruct takes eqn:T; [|destruct H]. destruct H as [<-|[]]. exists a. rewrite Nat.sub_diag.
          repeat split; auto. unfold agg_takes. rewrite P. exact T.
        * specialize (IH (S i)). rewrite EL in IH. destruct (IH H) as [a' [Hn [Hl Ht]]]. exists a'.
          replace (j - i) with (S (j - S i)) by lia. auto with arith.
    - intros H. destruct (IH _ H) as [a' [Hn [Hl Ht]]]. exists a'. replace (j - i) with (S (j - S i)) by lia. auto with arith.
  Qed.
End Sites.
