(* Disk queue: FIFO refinement across segment roll-over.  Histories of puts and gets with any
   maxBytesPerFile: the writer closes a segment as soon as it grows beyond the limit, the reader
   leaves a segment with the record that crosses the limit, consumed segments are removed. *)
From CRNG Require Import Base.ListX Base.Bytes Base.Decimal Model.DiskQueue Proofs.DQBasics Proofs.DQReader Proofs.DQFifo.
From Coq Require Import ZifyN ZifyNat ZifyBool.
Local Open Scope N_scope.

Definition segn (d : dq) (k : N) : bytes := match seg_get (f_segs (fs d)) k with Some x => x | None => [] end.

Definition handle_okk (C : bytes) (r : option rhandle) (p : nat) (k : N) : Prop :=
  match r with
  | Some h => hinv C h p /\ h_num h = k
  | None => True
  end.

Definition fsize (f : list bytes) : nat := length (frames f).
Definition fpos (f : list bytes) (n : nat) : nat := length (frames (firstn n f)).

(* ---- segment table facts ---- *)
Lemma seg_get_set_other l n c k : k <> n -> seg_get (seg_set l n c) k = seg_get l k.
Proof.
  intros H. induction l as [|[k0 c0] l IH]; cbn [seg_set seg_get].
  - replace (k =? n) with false by lia. reflexivity.
  - destruct (n =? k0) eqn:E1; cbn [seg_get].
    + apply N.eqb_eq in E1. subst k0. replace (k =? n) with false by lia. reflexivity.
    + destruct (n <? k0) eqn:E2; cbn [seg_get].
      * replace (k =? n) with false by lia. reflexivity.
      * destruct (k =? k0); [reflexivity | exact IH].
Qed.

Lemma seg_get_del_other l n k : k <> n -> seg_get (seg_del l n) k = seg_get l k.
Proof.
  intros H. induction l as [|[k0 c0] l IH]; cbn [seg_del seg_get]; [reflexivity|].
  destruct (n =? k0) eqn:E1.
  - apply N.eqb_eq in E1. subst k0. replace (k =? n) with false by lia. reflexivity.
  - cbn [seg_get]. destruct (k =? k0); [reflexivity | exact IH].
Qed.

(* ---- reading the record at the read position of file k ---- *)
Lemma read_at_k c d k C m rest p :
  readFileNum d = k -> seg_get (f_segs (fs d)) k = Some C ->
  readPos d = N.of_nat p ->
  skipn p C = frame m ++ rest ->
  N.of_nat (length m) < 2147483648 ->
  handle_okk C (rfile d) p k ->
  exists h2,
    read_one c d =
      RdOk (if c_max c <? readPos d + 4 + N.of_nat (length m) then
              {| readPos := readPos d; writePos := writePos d; readFileNum := readFileNum d; writeFileNum := writeFileNum d; depth := depth d;
                 nextReadPos := 0; nextReadFileNum := readFileNum d + 1; needSync := needSync d; count := count d;
                 rfile := None; wopen := wopen d; pending := pending d; ready := ready d; fs := fs d; trace := trace d |}
            else
              {| readPos := readPos d; writePos := writePos d; readFileNum := readFileNum d; writeFileNum := writeFileNum d; depth := depth d;
                 nextReadPos := readPos d + 4 + N.of_nat (length m); nextReadFileNum := readFileNum d; needSync := needSync d; count := count d;
                 rfile := Some h2; wopen := wopen d; pending := pending d; ready := ready d; fs := fs d; trace := trace d |}) m
    /\ hinv C h2 (p + 4 + length m) /\ h_num h2 = k.
Proof.
  intros Hrf Hseg Hrp Hdata Hm Hh.
  assert (Hlen : (p + 4 + length m <= length C)%nat).
  { assert (L : length (skipn p C) = length (frame m ++ rest)) by (rewrite Hdata; reflexivity).
    rewrite skipn_length, app_length, frame_length in L. lia. }
  assert (Hfr : firstn (4 + length m) (skipn p C) = frame m).
  { rewrite Hdata. rewrite <- frame_length. rewrite firstn_app, Nat.sub_diag, firstn_all. cbn [firstn]. apply app_nil_r. }
  unfold read_one.
  assert (Hh' : exists h, match rfile d with
                          | Some h0 => Some h0
                          | None => match seg_get (f_segs (fs d)) (readFileNum d) with
                                    | Some _ => Some {| h_num := readFileNum d; h_buf := []; h_off := N.to_nat (readPos d) |}
                                    | None => None
                                    end
                          end = Some h /\ hinv C h p /\ h_num h = k).
  { destruct (rfile d) as [h0|] eqn:Er.
    - exists h0. cbn in Hh. destruct Hh. auto.
    - rewrite Hrf, Hseg. eexists. split; [reflexivity|]. split; [|reflexivity].
      unfold hinv. cbn [h_buf h_off length]. rewrite Hrp, Nat2N.id. repeat split; try lia. }
  destruct Hh' as [h [-> [Hi Hn]]].
  rewrite Hn.
  rewrite Hseg.
  destruct (read_frame C h p m Hi Hm Hfr Hlen) as [h1 [h2 [E1 [E2 [Hi2 Hn2]]]]].
  rewrite E1. rewrite be32_roundtrip by lia.
  replace (2147483648 <=? N.of_nat (length m)) with false by lia.
  rewrite Nat2N.id. rewrite E2.
  exists h2. split; [|split; [exact Hi2 | congruence]].
  destruct (c_max c <? readPos d + 4 + N.of_nat (length m)); reflexivity.
Qed.

(* ---- list facts ---- *)
Lemma frames_firstn_skipn f n : frames f = frames (firstn n f) ++ frames (skipn n f).
Proof. rewrite <- (firstn_skipn n f) at 1. unfold frames. rewrite map_app, concat_app. reflexivity. Qed.

Lemma skipn_fpos f n : skipn (fpos f n) (frames f) = frames (skipn n f).
Proof. unfold fpos. rewrite (frames_firstn_skipn f n) at 1. rewrite skipn_app, Nat.sub_diag, skipn_all. reflexivity. Qed.

Lemma fpos_le f n : (fpos f n <= fsize f)%nat.
Proof. unfold fpos, fsize. rewrite (frames_firstn_skipn f n) at 1. rewrite app_length. lia. Qed.

Lemma fpos_all f n : (length f <= n)%nat -> fpos f n = fsize f.
Proof. intros H. unfold fpos, fsize. rewrite firstn_all2 by exact H. reflexivity. Qed.

Lemma fpos_succ f n m r : skipn n f = m :: r -> fpos f (S n) = (fpos f n + 4 + length m)%nat.
Proof.
  intros H. unfold fpos.
  assert (E : firstn (S n) f = firstn n f ++ [m]).
  { replace (S n) with (n + 1)%nat by lia. rewrite firstn_add_skipn, H. reflexivity. }
  rewrite E, frames_app, app_length, frame_length. lia.
Qed.

Lemma fsize_app f m : fsize (f ++ [m]) = (fsize f + 4 + length m)%nat.
Proof. unfold fsize. rewrite frames_app, app_length, frame_length. lia. Qed.

Lemma last_app_one {A} (l : list A) x d0 : last (l ++ [x]) d0 = x.
Proof. apply last_last. Qed.

(* ---- writeOne, with or without roll-over ---- *)
Lemma write_one_spec c d m C :
  (seg_get (f_segs (fs d)) (writeFileNum d) = Some C \/ (C = [] /\ seg_get (f_segs (fs d)) (writeFileNum d) = None)) ->
  N.to_nat (writePos d) = length C ->
  let wp' := writePos d + 4 + N.of_nat (length m) in
  let d1 := write_one c d m in
  readPos d1 = readPos d /\ readFileNum d1 = readFileNum d /\ depth d1 = (depth d + 1)%Z /\
  nextReadPos d1 = nextReadPos d /\ nextReadFileNum d1 = nextReadFileNum d /\
  rfile d1 = rfile d /\ pending d1 = pending d /\ ready d1 = ready d /\
  (forall k, seg_get (f_segs (fs d1)) k = if k =? writeFileNum d then Some (C ++ frame m) else seg_get (f_segs (fs d)) k) /\
  (if c_max c <? wp' then writeFileNum d1 = writeFileNum d + 1 /\ writePos d1 = 0
   else writeFileNum d1 = writeFileNum d /\ writePos d1 = wp').
Proof.
  intros HC Hw. cbv zeta. unfold write_one. cbv zeta.
  assert (Hold : match seg_get (f_segs (fs d)) (writeFileNum d) with Some x => x | None => [] end = C).
  { destruct HC as [->|[-> ->]]; reflexivity. }
  rewrite Hold, Hw, write_at_end.
  assert (Hget : forall k, seg_get (f_segs (with_segs (fs d) (seg_set (f_segs (fs d)) (writeFileNum d) (C ++ frame m)))) k
                           = if k =? writeFileNum d then Some (C ++ frame m) else seg_get (f_segs (fs d)) k).
  { intros k. unfold with_segs. cbn [f_segs]. destruct (k =? writeFileNum d) eqn:E.
    - apply N.eqb_eq in E. subst k. apply seg_get_set.
    - apply seg_get_set_other. lia. }
  destruct (c_max c <? writePos d + 4 + N.of_nat (length m)) eqn:Er.
  - (* roll-over: new file number, sync, write file closed *)
    match goal with |- context [do_sync ?x] => set (d2 := x) end.
    pose proof (do_sync_fields d2) as F. cbv zeta in F.
    destruct F as [F1 [F2 [F3 [F4 [F5 [F6 [F7 [F8 [F9 [F10 [F11 [F12 F13]]]]]]]]]]]].
    cbn [readPos writePos readFileNum writeFileNum depth nextReadPos nextReadFileNum rfile pending ready fs].
    rewrite F1, F2, F3, F4, F5, F6, F7, F9, F11, F12, F13.
    unfold d2. cbn [readPos writePos readFileNum writeFileNum depth nextReadPos nextReadFileNum rfile pending ready fs].
    repeat split; try reflexivity. exact Hget.
  - cbn [readPos writePos readFileNum writeFileNum depth nextReadPos nextReadFileNum rfile pending ready fs].
    repeat split; try reflexivity. exact Hget.
Qed.

(* ---- the layout of the queue over its segment files ----
   pre: the messages of the closed files readFileNum, readFileNum+1, ... (each grew beyond the limit with its last record);
   w: the messages of the file being written (number readFileNum + length pre);
   off: how many records of the first of these files are already delivered. *)
Definition headf (pre : list (list bytes)) (w : list bytes) : list bytes :=
  match pre with [] => w | f0 :: _ => f0 end.
Definition undel (pre : list (list bytes)) (w : list bytes) (off : nat) : list bytes :=
  match pre with [] => skipn off w | f0 :: pre' => skipn off f0 ++ concat pre' ++ w end.

Definition closed (c : cfg) (f : list bytes) : Prop :=
  (forall n, (n < length f)%nat -> N.of_nat (fpos f n) <= c_max c) /\ c_max c < N.of_nat (fsize f).

Definition small (m : bytes) : Prop := N.of_nat (length m) < 2147483648.

Record sbody (c : cfg) (rf rp wf wp : N) (dep : Z) (segs : list (N * bytes))
             (pre : list (list bytes)) (w : list bytes) (off : nat) : Prop := {
  sb_nums : wf = rf + N.of_nat (length pre);
  sb_closed : forall f, In f pre -> closed c f;
  sb_open : N.of_nat (fsize w) <= c_max c;
  sb_segs : forall i f, nth_error pre i = Some f -> seg_get segs (rf + N.of_nat i) = Some (frames f);
  sb_wseg : seg_get segs wf = Some (frames w) \/ (w = [] /\ seg_get segs wf = None);
  sb_above : forall k, wf < k -> seg_get segs k = None;
  sb_off : (off <= length (headf pre w))%nat /\ (pre <> [] -> (off < length (headf pre w))%nat);
  sb_rpos : rp = N.of_nat (fpos (headf pre w) off);
  sb_wpos : wp = N.of_nat (fsize w);
  sb_depth : dep = Z.of_nat (length (undel pre w off));
  sb_small : forall m, In m (concat pre ++ w) -> small m }.

(* what the loop has read ahead *)
Definition head_ok (c : cfg) (d : dq) (pre : list (list bytes)) (w : list bytes) (off : nat) : Prop :=
  match undel pre w off with
  | [] => ready d = false /\ nextReadPos d = readPos d /\ nextReadFileNum d = readFileNum d /\
          handle_okk (frames (headf pre w)) (rfile d) (N.to_nat (readPos d)) (readFileNum d)
  | m :: _ => ready d = true /\ pending d = m /\
              if c_max c <? readPos d + 4 + N.of_nat (length m)
              then nextReadFileNum d = readFileNum d + 1 /\ nextReadPos d = 0 /\ rfile d = None
              else nextReadFileNum d = readFileNum d /\ nextReadPos d = readPos d + 4 + N.of_nat (length m) /\
                   handle_okk (frames (headf pre w)) (rfile d) (N.to_nat (nextReadPos d)) (readFileNum d) /\ rfile d <> None
  end.

Definition sinv (c : cfg) (d : dq) (pre : list (list bytes)) (w : list bytes) (off : nat) : Prop :=
  sbody c (readFileNum d) (readPos d) (writeFileNum d) (writePos d) (depth d) (f_segs (fs d)) pre w off /\
  head_ok c d pre w off.

(* ---- facts about the layout ---- *)
Lemma frames_pos m q : (4 <= length (frames (m :: q)))%nat.
Proof. apply frames_length_pos. Qed.

Lemma fpos_lt_fsize f n : (n < length f)%nat -> (fpos f n + 4 <= fsize f)%nat.
Proof.
  intros H. unfold fpos, fsize. rewrite (frames_firstn_skipn f n) at 1. rewrite app_length.
  destruct (skipn n f) as [|m r] eqn:E.
  - assert (L : length (skipn n f) = 0%nat) by (rewrite E; reflexivity). rewrite skipn_length in L. lia.
  - pose proof (frames_pos m r). lia.
Qed.

Lemma undel_nil_inv pre w off :
  (off <= length (headf pre w))%nat -> (pre <> [] -> (off < length (headf pre w))%nat) ->
  undel pre w off = [] -> pre = [] /\ off = length w.
Proof.
  intros H1 H2 E. destruct pre as [|f0 pre']; cbn [undel headf] in *.
  - split; [reflexivity|]. assert (L : length (skipn off w) = 0%nat) by (rewrite E; reflexivity). rewrite skipn_length in L. lia.
  - exfalso. specialize (H2 ltac:(discriminate)).
    apply app_eq_nil in E as [E _]. assert (L : length (skipn off f0) = 0%nat) by (rewrite E; reflexivity). rewrite skipn_length in L. lia.
Qed.

Lemma undel_cons_inv pre w off m r :
  (off <= length (headf pre w))%nat -> (pre <> [] -> (off < length (headf pre w))%nat) ->
  undel pre w off = m :: r -> exists r', skipn off (headf pre w) = m :: r' /\ (off < length (headf pre w))%nat.
Proof.
  intros H1 H2 E. destruct pre as [|f0 pre']; cbn [undel headf] in *.
  - exists r. split; [exact E|]. assert (L : length (skipn off w) = S (length r)) by (rewrite E; reflexivity). rewrite skipn_length in L. lia.
  - specialize (H2 ltac:(discriminate)).
    destruct (skipn off f0) as [|m' r'] eqn:E0.
    + assert (L : length (skipn off f0) = 0%nat) by (rewrite E0; reflexivity). rewrite skipn_length in L. lia.
    + cbn [app] in E. inversion E; subst m'. exists r'. split; [reflexivity | exact H2].
Qed.

(* the file the reader is in exists with the expected content whenever something is undelivered *)
Lemma head_seg c rf rp wf wp dep segs pre w off :
  sbody c rf rp wf wp dep segs pre w off -> undel pre w off <> [] ->
  seg_get segs rf = Some (frames (headf pre w)).
Proof.
  intros B Hne. destruct pre as [|f0 pre']; cbn [headf].
  - pose proof (sb_nums _ _ _ _ _ _ _ _ _ _ B) as Hn. cbn [length] in Hn. rewrite N.add_0_r in Hn. subst wf.
    destruct (sb_wseg _ _ _ _ _ _ _ _ _ _ B) as [H|[H _]]; [exact H|]. subst w. cbn [undel] in Hne. rewrite skipn_nil in Hne. contradiction.
  - pose proof (sb_segs _ _ _ _ _ _ _ _ _ _ B 0%nat f0 eq_refl) as H. rewrite N.add_0_r in H. exact H.
Qed.

Lemma in_head_all pre w m : In m (headf pre w) -> In m (concat pre ++ w).
Proof.
  destruct pre as [|f0 pre']; cbn [headf concat app]; intros H; [exact H|].
  apply in_or_app. left. apply in_or_app. left. exact H.
Qed.

(* the loop's result differs from the state after the (optional) sync only in what was read ahead *)
Definition same_files (d' X : dq) : Prop :=
  fs d' = fs X /\ trace d' = trace X /\ readFileNum d' = readFileNum X /\ writeFileNum d' = writeFileNum X /\
  readPos d' = readPos X /\ writePos d' = writePos X /\ depth d' = depth X.

(* ---- the loop, when nothing is read ahead: it reads the next record, if there is one ---- *)
Lemma loop_fresh c d pre w off f :
  sbody c (readFileNum d) (readPos d) (writeFileNum d) (writePos d) (depth d) (f_segs (fs d)) pre w off ->
  nextReadPos d = readPos d -> (undel pre w off = [] -> nextReadFileNum d = readFileNum d) ->
  handle_okk (frames (headf pre w)) (rfile d) (N.to_nat (readPos d)) (readFileNum d) ->
  exists d', loop_top c (S f) d = Some d' /\ sinv c d' pre w off /\ same_files d' (presync c d).
Proof.
  intros B Hnp Hnf Hh. rewrite loop_top_unfold. cbv zeta.
  pose proof (presync_fields c d) as P. cbv zeta in P.
  set (d2 := presync c d) in *.
  destruct P as [P1 [P2 [P3 [P4 [P5 [P6 [P7 [P8 [P9 [P10 P11]]]]]]]]]].
  pose proof (sb_off _ _ _ _ _ _ _ _ _ _ B) as [Ho1 Ho2].
  pose proof (sb_nums _ _ _ _ _ _ _ _ _ _ B) as Hn.
  pose proof (sb_rpos _ _ _ _ _ _ _ _ _ _ B) as Hr.
  pose proof (sb_wpos _ _ _ _ _ _ _ _ _ _ B) as Hw.
  destruct (undel pre w off) as [|m r] eqn:EU.
  - destruct (undel_nil_inv pre w off Ho1 Ho2 EU) as [-> ->].
    cbn [headf length] in *. rewrite N.add_0_r in Hn. rewrite fpos_all in Hr by lia.
    replace ((readFileNum d2 <? writeFileNum d2) || (readPos d2 <? writePos d2)) with false by (rewrite P1, P2, P3, P4; lia).
    eexists. split; [reflexivity|]. refine (conj (conj _ _) (conj eq_refl (conj eq_refl (conj eq_refl (conj eq_refl (conj eq_refl (conj eq_refl eq_refl))))))).
    + cbn [setr readPos writePos readFileNum writeFileNum depth fs]. rewrite P1, P2, P3, P4, P5, P11. exact B.
    + unfold head_ok. rewrite EU. cbn [setr ready nextReadPos readPos nextReadFileNum readFileNum rfile headf].
      rewrite P6, P1, P7, P3, P8. specialize (Hnf eq_refl). auto.
  - destruct (undel_cons_inv pre w off m r Ho1 Ho2 EU) as [r' [Es Hlt]].
    assert (Hreadable : (readFileNum d2 <? writeFileNum d2) || (readPos d2 <? writePos d2) = true).
    { rewrite P1, P2, P3, P4. destruct pre as [|f0 pre']; cbn [headf length] in *.
      - pose proof (fpos_lt_fsize w off Hlt). lia.
      - lia. }
    rewrite Hreadable.
    replace (nextReadPos d2 =? readPos d2) with true by (rewrite P6, P1; lia).
    assert (Hseg : seg_get (f_segs (fs d2)) (readFileNum d) = Some (frames (headf pre w))).
    { rewrite P11. apply (head_seg _ _ _ _ _ _ _ _ _ _ B). rewrite EU. discriminate. }
    assert (Hsm : small m).
    { apply (sb_small _ _ _ _ _ _ _ _ _ _ B). apply in_head_all. apply (In_skipn off). rewrite Es. left. reflexivity. }
    destruct (read_at_k c d2 (readFileNum d) (frames (headf pre w)) m (frames r') (fpos (headf pre w) off)) as [h2 [E [Hi2 Hn2]]].
    + exact P3.
    + exact Hseg.
    + rewrite P1. exact Hr.
    + rewrite skipn_fpos, Es. reflexivity.
    + exact Hsm.
    + rewrite P8. rewrite Hr, Nat2N.id in Hh. exact Hh.
    + rewrite E. eexists. split; [reflexivity|].
      destruct (c_max c <? readPos d2 + 4 + N.of_nat (length m)) eqn:Eroll.
      * refine (conj (conj _ _) (conj eq_refl (conj eq_refl (conj eq_refl (conj eq_refl (conj eq_refl (conj eq_refl eq_refl))))))).
        -- cbn [setr readPos writePos readFileNum writeFileNum depth fs]. rewrite P1, P2, P3, P4, P5, P11. exact B.
        -- unfold head_ok. rewrite EU.
           cbn [setr ready pending nextReadPos readPos nextReadFileNum readFileNum rfile]. rewrite Eroll. auto.
      * refine (conj (conj _ _) (conj eq_refl (conj eq_refl (conj eq_refl (conj eq_refl (conj eq_refl (conj eq_refl eq_refl))))))).
        -- cbn [setr readPos writePos readFileNum writeFileNum depth fs]. rewrite P1, P2, P3, P4, P5, P11. exact B.
        -- unfold head_ok. rewrite EU.
           cbn [setr ready pending nextReadPos readPos nextReadFileNum readFileNum rfile]. rewrite Eroll.
           split; [reflexivity|]. split; [reflexivity|]. split; [reflexivity|]. split; [reflexivity|]. split; [|discriminate].
           cbn [handle_okk]. split; [|rewrite P3; exact Hn2].
           rewrite P1, Hr. replace (N.to_nat (N.of_nat (fpos (headf pre w) off) + 4 + N.of_nat (length m))) with (fpos (headf pre w) off + 4 + length m)%nat by lia.
           exact Hi2.
Qed.

(* ---- the loop, when the next record is already read ahead: it stays (a record that fills a whole
        segment from position 0 is read again, with the same result) ---- *)
Lemma loop_ahead c d pre w off f m r :
  sbody c (readFileNum d) (readPos d) (writeFileNum d) (writePos d) (depth d) (f_segs (fs d)) pre w off ->
  undel pre w off = m :: r ->
  ready d = true -> pending d = m ->
  (if c_max c <? readPos d + 4 + N.of_nat (length m)
   then nextReadFileNum d = readFileNum d + 1 /\ nextReadPos d = 0 /\ rfile d = None
   else nextReadFileNum d = readFileNum d /\ nextReadPos d = readPos d + 4 + N.of_nat (length m) /\
        handle_okk (frames (headf pre w)) (rfile d) (N.to_nat (nextReadPos d)) (readFileNum d) /\ rfile d <> None) ->
  exists d', loop_top c (S f) d = Some d' /\ sinv c d' pre w off /\ same_files d' (presync c d).
Proof.
  intros B EU Hrdy Hpend Hhead.
  destruct (nextReadPos d =? readPos d) eqn:Eq.
  - (* only when the record crosses the limit from position 0 *)
    apply N.eqb_eq in Eq.
    destruct (c_max c <? readPos d + 4 + N.of_nat (length m)) eqn:Eroll.
    + destruct Hhead as [H1 [H2 H3]]. apply loop_fresh; [exact B | exact Eq | rewrite EU; discriminate | rewrite H3; exact I].
    + destruct Hhead as [H1 [H2 _]]. lia.
  - rewrite loop_top_unfold. cbv zeta.
    pose proof (presync_fields c d) as P. cbv zeta in P.
    set (d2 := presync c d) in *.
    destruct P as [P1 [P2 [P3 [P4 [P5 [P6 [P7 [P8 [P9 [P10 P11]]]]]]]]]].
    pose proof (sb_off _ _ _ _ _ _ _ _ _ _ B) as [Ho1 Ho2].
    pose proof (sb_nums _ _ _ _ _ _ _ _ _ _ B) as Hn.
    pose proof (sb_rpos _ _ _ _ _ _ _ _ _ _ B) as Hr.
    pose proof (sb_wpos _ _ _ _ _ _ _ _ _ _ B) as Hw.
    destruct (undel_cons_inv pre w off m r Ho1 Ho2 EU) as [r' [Es Hlt]].
    assert (Hreadable : (readFileNum d2 <? writeFileNum d2) || (readPos d2 <? writePos d2) = true).
    { rewrite P1, P2, P3, P4. destruct pre as [|f0 pre']; cbn [headf length] in *.
      - pose proof (fpos_lt_fsize w off Hlt). lia.
      - lia. }
    rewrite Hreadable. rewrite P6, P1, Eq.
    eexists. split; [reflexivity|]. refine (conj (conj _ _) (conj eq_refl (conj eq_refl (conj eq_refl (conj eq_refl (conj eq_refl (conj eq_refl eq_refl))))))).
    + cbn [setr readPos writePos readFileNum writeFileNum depth fs]. rewrite P1, P2, P3, P4, P5, P11. exact B.
    + unfold head_ok. rewrite EU.
      cbn [setr ready pending nextReadPos readPos nextReadFileNum readFileNum rfile].
      rewrite P9, P6, P1, P7, P3, P8. split; [reflexivity|]. split; [exact Hpend|]. exact Hhead.
Qed.

(* ---- Put ---- *)
Lemma fpos_app_le f m n : (n <= length f)%nat -> fpos (f ++ [m]) n = fpos f n.
Proof. intros H. unfold fpos. rewrite firstn_app. replace (n - length f)%nat with 0%nat by lia. cbn [firstn]. rewrite app_nil_r. reflexivity. Qed.

Lemma undel_put_noroll pre w off m :
  (off <= length (headf pre w))%nat -> undel pre (w ++ [m]) off = undel pre w off ++ [m].
Proof.
  intros H. destruct pre as [|f0 pre']; cbn [undel headf] in *.
  - rewrite skipn_app. replace (off - length w)%nat with 0%nat by lia. reflexivity.
  - rewrite <- !app_assoc. reflexivity.
Qed.

Lemma undel_put_roll pre w off m :
  (off <= length (headf pre w))%nat -> undel (pre ++ [w ++ [m]]) [] off = undel pre w off ++ [m].
Proof.
  intros H. destruct pre as [|f0 pre']; cbn [undel headf app concat] in *.
  - rewrite !app_nil_r. rewrite skipn_app. replace (off - length w)%nat with 0%nat by lia. reflexivity.
  - rewrite concat_app. cbn [concat]. rewrite !app_nil_r, <- !app_assoc. reflexivity.
Qed.

Lemma headf_put_noroll pre w m : exists x, headf pre (w ++ [m]) = headf pre w ++ x /\ (pre <> [] -> x = []).
Proof. destruct pre as [|f0 pre']; cbn [headf]; [exists [m]; split; [reflexivity | intros H; contradiction] | exists []; split; [rewrite app_nil_r; reflexivity | reflexivity]]. Qed.

Lemma nth_error_app_one {A} (l : list A) x i y :
  nth_error (l ++ [x]) i = Some y -> ((i < length l)%nat /\ nth_error l i = Some y) \/ (i = length l /\ y = x).
Proof.
  intros H. destruct (Nat.lt_ge_cases i (length l)) as [L|L].
  - left. split; [exact L|]. rewrite nth_error_app1 in H by exact L. exact H.
  - right. rewrite nth_error_app2 in H by exact L.
    destruct (i - length l)%nat as [|j] eqn:E; cbn in H.
    + inversion H. split; [lia | reflexivity].
    + destruct j; discriminate.
Qed.

Lemma sbody_put c rf rp wf wp dep segs segs' pre w off m :
  sbody c rf rp wf wp dep segs pre w off -> small m ->
  (forall k, seg_get segs' k = if k =? wf then Some (frames w ++ frame m) else seg_get segs k) ->
  if c_max c <? wp + 4 + N.of_nat (length m)
  then sbody c rf rp (wf + 1) 0 (dep + 1) segs' (pre ++ [w ++ [m]]) [] off
  else sbody c rf rp wf (wp + 4 + N.of_nat (length m)) (dep + 1) segs' pre (w ++ [m]) off.
Proof.
  intros B Hm Hsegs.
  destruct B as [Hn Hcl Hop Hsg Hws Hab [Ho1 Ho2] Hr Hw Hd Hsm].
  assert (Hidx : forall i f, nth_error pre i = Some f -> (i < length pre)%nat).
  { intros i f H. apply nth_error_Some. rewrite H. discriminate. }
  assert (Hrpos : forall x, rp = N.of_nat (fpos (headf pre w) off) -> headf pre (w ++ [m]) = headf pre w ++ x ->
                  (x = [] \/ x = [m]) -> rp = N.of_nat (fpos (headf pre w ++ x) off)).
  { intros x E _ [->| ->]; [rewrite app_nil_r; exact E | rewrite fpos_app_le by exact Ho1; exact E]. }
  destruct (c_max c <? wp + 4 + N.of_nat (length m)) eqn:Eroll.
  - (* roll-over *)
    constructor.
    + rewrite app_length. cbn [length]. lia.
    + intros f Hf. apply in_app_or in Hf as [Hf|[<-|[]]]; [apply Hcl; exact Hf|].
      split.
      * intros n Hnl. rewrite app_length in Hnl. cbn [length] in Hnl. rewrite fpos_app_le by lia.
        pose proof (fpos_le w n). lia.
      * rewrite fsize_app. lia.
    + cbn. lia.
    + intros i f Hf. apply nth_error_app_one in Hf as [[Hl Hf]|[-> ->]].
      * rewrite Hsegs. replace (rf + N.of_nat i =? wf) with false by lia. apply Hsg. exact Hf.
      * rewrite Hsegs. replace (rf + N.of_nat (length pre) =? wf) with true by lia. rewrite frames_app. reflexivity.
    + right. split; [reflexivity|]. rewrite Hsegs. replace (wf + 1 =? wf) with false by lia. apply Hab. lia.
    + intros k Hk. rewrite Hsegs. replace (k =? wf) with false by lia. apply Hab. lia.
    + destruct pre as [|f0 pre']; cbn [headf app] in *.
      * rewrite app_length. cbn [length]. split; [lia | intros _; lia].
      * split; [exact Ho1 | intros _; apply Ho2; discriminate].
    + destruct pre as [|f0 pre']; cbn [headf app] in *; [rewrite fpos_app_le by exact Ho1|]; exact Hr.
    + reflexivity.
    + rewrite undel_put_roll by exact Ho1. rewrite app_length. cbn [length]. lia.
    + intros x Hx. rewrite app_nil_r, concat_app in Hx. cbn [concat] in Hx. rewrite app_nil_r in Hx.
      apply in_app_or in Hx as [Hx|Hx]; [apply Hsm; apply in_or_app; left; exact Hx|].
      apply in_app_or in Hx as [Hx|[<-|[]]]; [apply Hsm; apply in_or_app; right; exact Hx | exact Hm].
  - constructor.
    + exact Hn.
    + exact Hcl.
    + rewrite fsize_app. lia.
    + intros i f Hf. rewrite Hsegs. specialize (Hidx i f Hf). replace (rf + N.of_nat i =? wf) with false by lia. apply Hsg. exact Hf.
    + left. rewrite Hsegs, N.eqb_refl, frames_app. reflexivity.
    + intros k Hk. rewrite Hsegs. replace (k =? wf) with false by lia. apply Hab. exact Hk.
    + destruct pre as [|f0 pre']; cbn [headf] in *.
      * rewrite app_length. cbn [length]. split; [lia | intros H; contradiction].
      * split; [exact Ho1 | exact Ho2].
    + destruct pre as [|f0 pre']; cbn [headf] in *; [rewrite fpos_app_le by exact Ho1|]; exact Hr.
    + rewrite fsize_app. lia.
    + rewrite undel_put_noroll by exact Ho1. rewrite app_length. cbn [length]. lia.
    + intros x Hx. rewrite app_assoc in Hx. apply in_app_or in Hx as [Hx|[<-|[]]]; [apply Hsm; exact Hx | exact Hm].
Qed.

Lemma handle_okk_app C r p k extra : handle_okk C r p k -> handle_okk (C ++ extra) r p k.
Proof. destruct r; cbn; [intros [H1 H2]; split; [apply hinv_app; exact H1 | exact H2] | auto]. Qed.

Lemma frames_app_list a b : frames (a ++ b) = frames a ++ frames b.
Proof. unfold frames. rewrite map_app, concat_app. reflexivity. Qed.

(* the loop after a step that left the reader's side alone *)
Lemma loop_settle c d d1 pre w off pre' w' tail f :
  readPos d1 = readPos d -> readFileNum d1 = readFileNum d -> nextReadPos d1 = nextReadPos d ->
  nextReadFileNum d1 = nextReadFileNum d -> rfile d1 = rfile d -> pending d1 = pending d -> ready d1 = ready d ->
  head_ok c d pre w off ->
  sbody c (readFileNum d1) (readPos d1) (writeFileNum d1) (writePos d1) (depth d1) (f_segs (fs d1)) pre' w' off ->
  (exists x, frames (headf pre' w') = frames (headf pre w) ++ x) ->
  undel pre' w' off = undel pre w off ++ tail ->
  exists d', loop_top c (S f) d1 = Some d' /\ sinv c d' pre' w' off /\ same_files d' (presync c d1).
Proof.
  intros E1 E2 E3 E4 E5 E6 E7 Hhead B1 [x Hx] Hu.
  unfold head_ok in Hhead. destruct (undel pre w off) as [|m0 r] eqn:EU.
  - destruct Hhead as [Hrdy [Hnp [Hnf Hh]]].
    apply loop_fresh; [exact B1 | rewrite E3, E1; exact Hnp | intros _; rewrite E4, E2; exact Hnf |].
    rewrite Hx, E5, E1, E2. apply handle_okk_app. exact Hh.
  - destruct Hhead as [Hrdy [Hpend Hif]].
    apply (loop_ahead c d1 pre' w' off f m0 (r ++ tail)); [exact B1 | rewrite Hu; reflexivity | rewrite E7; exact Hrdy | rewrite E6; exact Hpend |].
    rewrite E1, E2, E3, E4, E5, Hx.
    destruct (c_max c <? readPos d + 4 + N.of_nat (length m0)); [exact Hif|].
    destruct Hif as [H1 [H2 [H3 H4]]]. split; [exact H1|]. split; [exact H2|]. split; [apply handle_okk_app; exact H3 | exact H4].
Qed.

Lemma put_stepS c d pre w off m :
  sinv c d pre w off -> small m ->
  exists d' pre' w', loop_top c LOOP_FUEL (write_one c d m) = Some d' /\ sinv c d' pre' w' off /\
                     undel pre' w' off = undel pre w off ++ [m] /\
                     (pre' = pre /\ w' = w ++ [m] \/ pre' = pre ++ [w ++ [m]] /\ w' = []) /\
                     same_files d' (presync c (write_one c d m)).
Proof.
  intros [B Hhead] Hm.
  pose proof (sb_off _ _ _ _ _ _ _ _ _ _ B) as [Ho1 Ho2].
  pose proof (sb_wpos _ _ _ _ _ _ _ _ _ _ B) as Hw.
  assert (HC : seg_get (f_segs (fs d)) (writeFileNum d) = Some (frames w) \/
               (frames w = [] /\ seg_get (f_segs (fs d)) (writeFileNum d) = None)).
  { destruct (sb_wseg _ _ _ _ _ _ _ _ _ _ B) as [H|[-> H]]; [left; exact H | right; split; [reflexivity | exact H]]. }
  pose proof (write_one_spec c d m (frames w) HC ltac:(unfold fsize in Hw; lia)) as F. cbv zeta in F.
  set (d1 := write_one c d m) in *.
  destruct F as [F1 [F2 [F3 [F4 [F5 [F6 [F7 [F8 [F9 F10]]]]]]]]].
  pose proof (sbody_put c _ _ _ _ _ _ (f_segs (fs d1)) pre w off m B Hm F9) as B1.
  unfold LOOP_FUEL.
  destruct (c_max c <? writePos d + 4 + N.of_nat (length m)) eqn:Eroll.
  - (* roll-over *)
    destruct F10 as [G1 G2].
    destruct (loop_settle c d d1 pre w off (pre ++ [w ++ [m]]) [] [m] 63 F1 F2 F4 F5 F6 F7 F8 Hhead) as [d' [E [I FT]]].
    + rewrite F1, F2, F3, G1, G2. exact B1.
    + destruct pre as [|f0 pre']; cbn [headf app]; [exists (frame m); apply frames_app | exists []; rewrite app_nil_r; reflexivity].
    + apply undel_put_roll. exact Ho1.
    + exists d', (pre ++ [w ++ [m]]), []. split; [exact E|]. split; [exact I|]. split; [apply undel_put_roll; exact Ho1|]. split; [right; auto | exact FT].
  - destruct F10 as [G1 G2].
    destruct (loop_settle c d d1 pre w off pre (w ++ [m]) [m] 63 F1 F2 F4 F5 F6 F7 F8 Hhead) as [d' [E [I FT]]].
    + rewrite F1, F2, F3, G1, G2. exact B1.
    + destruct pre as [|f0 pre']; cbn [headf app]; [exists (frame m); apply frames_app | exists []; rewrite app_nil_r; reflexivity].
    + apply undel_put_noroll. exact Ho1.
    + exists d', pre, (w ++ [m]). split; [exact E|]. split; [exact I|]. split; [apply undel_put_noroll; exact Ho1|]. split; [left; auto | exact FT].
Qed.

(* ---- a sync tick ---- *)
Lemma tick_stepS c d pre w off :
  sinv c d pre w off -> exists d', loop_top c LOOP_FUEL (set_needsync d true) = Some d' /\ sinv c d' pre w off /\
                        same_files d' (presync c (set_needsync d true)).
Proof.
  intros [B Hhead]. unfold LOOP_FUEL.
  apply (loop_settle c d (set_needsync d true) pre w off pre w [] 63); try reflexivity; try exact Hhead.
  - exact B.
  - exists []. rewrite app_nil_r. reflexivity.
  - rewrite app_nil_r. reflexivity.
Qed.

(* ---- Get ---- *)
Lemma move_forward_fields d :
  ((nextReadFileNum d <? writeFileNum d) || (nextReadPos d <? writePos d) = true \/
   (nextReadFileNum d = writeFileNum d /\ nextReadPos d = writePos d /\ (depth d - 1 = 0)%Z)) ->
  let r0 := move_forward d in
  readPos r0 = nextReadPos d /\ writePos r0 = writePos d /\ readFileNum r0 = nextReadFileNum d /\ writeFileNum r0 = writeFileNum d /\
  depth r0 = (depth d - 1)%Z /\ nextReadPos r0 = nextReadPos d /\ nextReadFileNum r0 = nextReadFileNum d /\ rfile r0 = rfile d /\
  f_segs (fs r0) = (if negb (readFileNum d =? nextReadFileNum d) then seg_del (f_segs (fs d)) (readFileNum d) else f_segs (fs d)) /\
  needSync r0 = needSync d || negb (readFileNum d =? nextReadFileNum d) /\
  fs r0 = (if negb (readFileNum d =? nextReadFileNum d) then with_segs (fs d) (seg_del (f_segs (fs d)) (readFileNum d)) else fs d) /\
  trace r0 = (if negb (readFileNum d =? nextReadFileNum d) && match seg_get (f_segs (fs d)) (readFileNum d) with Some _ => true | None => false end
              then (L_seg_remove, fs r0) :: trace d else trace d).
Proof.
  intros H. cbv zeta. unfold move_forward. cbv zeta. unfold check_tail.
  cbn [readPos writePos readFileNum writeFileNum depth nextReadPos nextReadFileNum needSync count rfile wopen pending ready fs trace].
  destruct ((nextReadFileNum d <? writeFileNum d) || (nextReadPos d <? writePos d)) eqn:E.
  - cbn [readPos writePos readFileNum writeFileNum depth nextReadPos nextReadFileNum needSync rfile fs trace].
    repeat split; try reflexivity. destruct (negb (readFileNum d =? nextReadFileNum d)); reflexivity.
  - destruct H as [H|[H1 [H2 H3]]]; [discriminate|].
    rewrite H3. cbn [Z.eqb].
    cbn [readPos writePos readFileNum writeFileNum depth nextReadPos nextReadFileNum needSync rfile fs trace].
    rewrite H1, H2, !N.eqb_refl. cbn [negb orb].
    cbn [readPos writePos readFileNum writeFileNum depth nextReadPos nextReadFileNum needSync rfile fs trace].
    repeat split; try reflexivity; try (symmetry; assumption).
    destruct (negb (readFileNum d =? writeFileNum d)); reflexivity.
Qed.

Lemma closed_nonempty c f : closed c f -> f <> [].
Proof. intros [_ H] ->. cbn in H. lia. Qed.

Lemma undel_zero pre w : undel pre w 0 = concat pre ++ w.
Proof. destruct pre; cbn [undel skipn concat]; [reflexivity | rewrite app_assoc; reflexivity]. Qed.

Lemma fsize_zero w : fsize w = 0%nat -> w = [].
Proof. intros H. apply frames_nil_iff. apply length_zero_iff_nil. exact H. Qed.

Lemma skipn_next {A} (l : list A) n x r : skipn n l = x :: r -> skipn (S n) l = r.
Proof. intros H. replace (S n) with (n + 1)%nat by lia. rewrite <- skipn_skipn', H. reflexivity. Qed.

Lemma fsize_split f n : fsize f = (fpos f n + fsize (skipn n f))%nat.
Proof. unfold fsize, fpos. rewrite (frames_firstn_skipn f n) at 1. apply app_length. Qed.

Lemma get_stepS c d pre w off m r :
  sinv c d pre w off -> undel pre w off = m :: r ->
  exists d' pre' off', loop_top c LOOP_FUEL (move_forward d) = Some d' /\ sinv c d' pre' w off' /\ undel pre' w off' = r /\
                       ((pre' = pre /\ off' = S off /\ fs (move_forward d) = fs d /\ trace (move_forward d) = trace d /\
                         readFileNum (move_forward d) = readFileNum d /\ writeFileNum (move_forward d) = writeFileNum d) \/
                        ((exists f0, pre = f0 :: pre' /\ S off = length f0) /\ off' = 0%nat /\
                         fs (move_forward d) = with_segs (fs d) (seg_del (f_segs (fs d)) (readFileNum d)) /\
                         trace (move_forward d) = (L_seg_remove, fs (move_forward d)) :: trace d /\
                         needSync (move_forward d) = true /\ readFileNum (move_forward d) = readFileNum d + 1 /\
                         writeFileNum (move_forward d) = writeFileNum d)) /\
                       same_files d' (presync c (move_forward d)).
Proof.
  intros [B Hhead] EU. unfold head_ok in Hhead. rewrite EU in Hhead. destruct Hhead as [Hrdy [Hpend Hif]].
  destruct B as [Hn Hcl Hop Hsg Hws Hab [Ho1 Ho2] Hr Hw Hd Hsm].
  destruct (undel_cons_inv pre w off m r Ho1 Ho2 EU) as [r' [Es Hlt]].
  pose proof (fpos_succ _ _ _ _ Es) as Hnext.
  pose proof (skipn_next _ _ _ _ Es) as Es'.
  unfold LOOP_FUEL.
  destruct (c_max c <? readPos d + 4 + N.of_nat (length m)) eqn:Eroll.
  - (* the record crossed the limit: on to the next file, the old one is removed *)
    destruct Hif as [H1 [H2 H3]].
    destruct pre as [|f0 pre']; cbn [headf] in *.
    { exfalso. pose proof (fpos_le w (S off)). lia. }
    assert (Hlast : S off = length f0).
    { destruct (Nat.eq_dec (S off) (length f0)) as [E|E]; [exact E|]. exfalso.
      destruct (Hcl f0 (or_introl eq_refl)) as [Hc _]. specialize (Hc (S off) ltac:(lia)). lia. }
    assert (Hr'nil : r' = []).
    { assert (L : length (skipn (S off) f0) = 0%nat) by (rewrite skipn_length; lia). rewrite Es' in L. destruct r'; [reflexivity | discriminate]. }
    rewrite Hr'nil in Es, Es'. clear Hr'nil r'. cbn [undel] in EU, Hd. rewrite Es in EU, Hd. cbn [app] in EU, Hd. inversion EU as [Hr0]. clear EU.
    cbn [length] in Hn.
    assert (Hpre : (nextReadFileNum d <? writeFileNum d) || (nextReadPos d <? writePos d) = true \/
                   (nextReadFileNum d = writeFileNum d /\ nextReadPos d = writePos d /\ (depth d - 1 = 0)%Z)).
    { destruct pre' as [|f1 pre''].
      - destruct w as [|m1 w'].
        + right. cbn in Hw. cbn [concat app length] in Hd. cbn [length] in Hn. split; [lia|]. split; lia.
        + left. pose proof (frames_pos m1 w'). unfold fsize in Hw. lia.
      - left. cbn [length] in Hn. lia. }
    pose proof (move_forward_fields d Hpre) as F. cbv zeta in F.
    set (r0 := move_forward d) in *.
    destruct F as [F1 [F2 [F3 [F4 [F5 [F6 [F7 [F8 [F9 [F10 [F11 F12]]]]]]]]]]].
    replace (negb (readFileNum d =? nextReadFileNum d)) with true in F9, F10, F11, F12 by (rewrite H1; lia).
    pose proof (Hsg 0%nat f0 eq_refl) as Hs0. rewrite N.add_0_r in Hs0. rewrite Hs0 in F12.
    cbn [andb] in F12. rewrite orb_true_r in F10.
    destruct (loop_fresh c r0 pre' w 0 63) as [d' [E [I FT]]].
    + rewrite F1, F2, F3, F4, F5, F9, H1, H2. constructor.
      * lia.
      * intros f Hf. apply Hcl. right. exact Hf.
      * exact Hop.
      * intros i f Hf. rewrite seg_get_del_other by lia.
        replace (readFileNum d + 1 + N.of_nat i) with (readFileNum d + N.of_nat (S i)) by lia. apply Hsg. exact Hf.
      * rewrite seg_get_del_other by lia. exact Hws.
      * intros k Hk. rewrite seg_get_del_other by lia. apply Hab. exact Hk.
      * split; [lia|]. intros Hne. destruct pre' as [|f1 pre'']; [contradiction|]. cbn [headf].
        pose proof (closed_nonempty c f1 (Hcl f1 (or_intror (or_introl eq_refl)))) as Hf1. destruct f1; [contradiction | cbn [length]; lia].
      * reflexivity.
      * exact Hw.
      * rewrite undel_zero. cbn [length] in Hd. lia.
      * intros x Hx. apply Hsm. cbn [concat]. rewrite <- app_assoc. apply in_or_app. right. exact Hx.
    + rewrite F6, F1. reflexivity.
    + intros _. rewrite F7, F3. reflexivity.
    + rewrite F8, H3. exact I.
    + exists d', pre', 0%nat. split; [exact E|]. split; [exact I|]. split; [rewrite undel_zero; first [reflexivity | symmetry; exact Hr0]|].
      split; [right; split; [exists f0; split; [reflexivity | exact Hlast]|]; split; [reflexivity|]; split; [exact F11|]; split; [exact F12|]; split; [exact F10|]; split; [rewrite F3, H1; reflexivity | exact F4] | exact FT].
  - (* the next record of the same file *)
    destruct Hif as [H1 [H2 [H3 H4]]].
    assert (Hsucc : pre <> [] -> (S off < length (headf pre w))%nat).
    { intros Hne. destruct pre as [|f0 pre']; [contradiction|]. cbn [headf] in *.
      destruct (Nat.eq_dec (S off) (length f0)) as [E|E]; [|lia]. exfalso.
      destruct (Hcl f0 (or_introl eq_refl)) as [_ Hc]. rewrite <- (fpos_all f0 (S off)) in Hc by lia. lia. }
    assert (Hund : undel pre w (S off) = r).
    { destruct pre as [|f0 pre']; cbn [undel headf] in *.
      - rewrite Es'. rewrite Es in EU. inversion EU. reflexivity.
      - rewrite Es'. rewrite Es in EU. cbn [app] in EU. inversion EU. reflexivity. }
    assert (Hpre : (nextReadFileNum d <? writeFileNum d) || (nextReadPos d <? writePos d) = true \/
                   (nextReadFileNum d = writeFileNum d /\ nextReadPos d = writePos d /\ (depth d - 1 = 0)%Z)).
    { destruct pre as [|f0 pre']; cbn [headf length] in *.
      - pose proof (fsize_split w (S off)) as Hsp.
        destruct (skipn (S off) w) as [|m1 w1] eqn:Ew.
        + right. change (fsize []) with 0%nat in Hsp.
          assert (Hrn : r = []) by (rewrite <- Hund; cbn [undel]; exact Ew).
          rewrite EU, Hrn in Hd. cbn [length] in Hd. split; [lia|]. split; lia.
        + left. pose proof (frames_pos m1 w1). unfold fsize in Hsp at 2. lia.
      - left. lia. }
    pose proof (move_forward_fields d Hpre) as F. cbv zeta in F.
    set (r0 := move_forward d) in *.
    destruct F as [F1 [F2 [F3 [F4 [F5 [F6 [F7 [F8 [F9 [F10 [F11 F12]]]]]]]]]]].
    replace (negb (readFileNum d =? nextReadFileNum d)) with false in F9, F10, F11, F12 by (rewrite H1; lia).
    cbn [andb] in F12.
    destruct (loop_fresh c r0 pre w (S off) 63) as [d' [E [I FT]]].
    + rewrite F1, F2, F3, F4, F5, F9, H1, H2. constructor; try assumption.
      * split; [lia | exact Hsucc].
      * lia.
      * rewrite Hund. rewrite EU in Hd. cbn [length] in Hd. lia.
    + rewrite F6, F1. reflexivity.
    + intros _. rewrite F7, F3. reflexivity.
    + rewrite F8, F1, F3, H1. exact H3.
    + exists d', pre, (S off). split; [exact E|]. split; [exact I|]. split; [exact Hund|].
      split; [left; split; [reflexivity|]; split; [reflexivity|]; split; [exact F11|]; split; [exact F12|]; split; [rewrite F3, H1; reflexivity | exact F4] | exact FT].
Qed.

(* ---- a clean restart ---- *)
Lemma reopen_stepS c d pre w off :
  sinv c d pre w off ->
  exists d', dq_open c (fs (dq_close d)) (trace (dq_close d)) = Some d' /\ sinv c d' pre w off /\
             depth (dq_close d) = Z.of_nat (length (undel pre w off)).
Proof.
  intros [B Hhead].
  pose proof (sb_depth _ _ _ _ _ _ _ _ _ _ B) as Hd.
  unfold dq_close, persist_meta, mutate.
  cbn [readPos writePos readFileNum writeFileNum depth fs trace f_tmp f_segs f_bad f_meta].
  rewrite write_at_zero.
  unfold dq_open. cbn [f_meta].
  rewrite meta_roundtrip.
  unfold LOOP_FUEL.
  match goal with |- context [loop_top c _ ?x] => set (r := x) end.
  destruct (loop_fresh c r pre w off 63) as [d' [E [I _]]].
  - cbn [r readPos writePos readFileNum writeFileNum depth fs f_segs]. exact B.
  - reflexivity.
  - intros _. reflexivity.
  - exact I.
  - exists d'. split; [exact E|]. split; [exact I | exact Hd].
Qed.

(* ---- a fresh directory ---- *)
Definition fresh_state : dq :=
  {| readPos := 0; writePos := 0; readFileNum := 0; writeFileNum := 0; depth := 0%Z; nextReadPos := 0; nextReadFileNum := 0;
     needSync := false; count := 0%Z; rfile := None; wopen := false; pending := []; ready := false; fs := fs_empty; trace := [] |}.

Lemma open_emptyS c : exists d, dq_open c fs_empty [] = Some d /\ sinv c d [] [] 0 /\
  same_files d (presync c fresh_state).
Proof.
  unfold dq_open. cbn [f_meta fs_empty]. unfold LOOP_FUEL.
  match goal with |- context [loop_top c _ ?x] => set (r := x) end.
  destruct (loop_fresh c r [] [] 0 63) as [d' [E [I FT]]].
  - cbn [r readPos writePos readFileNum writeFileNum depth fs f_segs fs_empty]. constructor.
    + reflexivity.
    + intros f [].
    + cbn. lia.
    + intros i f H. destruct i; discriminate.
    + right. split; reflexivity.
    + intros k _. reflexivity.
    + cbn [headf length]. split; [lia | intros H; contradiction].
    + reflexivity.
    + reflexivity.
    + reflexivity.
    + intros m [].
  - reflexivity.
  - intros _. reflexivity.
  - exact I.
  - exists d'. split; [exact E|]. split; [exact I | exact FT].
Qed.

(* ---- refinement: any maxBytesPerFile, any syncEvery, any message sizes below 2^31 ---- *)
Fixpoint smallops (ops : list dop) : bool :=
  match ops with
  | [] => true
  | Put m :: r => (N.of_nat (length m) <? 2147483648) && smallops r
  | _ :: r => smallops r
  end.

Theorem fifo_refinement_segments c ops : forall d pre w off,
  sinv c d pre w off -> smallops ops = true ->
  fst (dq_run c (Some d) ops) = fifo_run (undel pre w off) ops.
Proof.
  induction ops as [|o ops IH]; intros d pre w off I F; [reflexivity|].
  destruct o as [m| | |]; cbn [smallops] in F.
  - (* Put *)
    apply andb_true_iff in F as [F1 F2].
    destruct (put_stepS c d pre w off m I ltac:(unfold small; lia)) as [d' [pre' [w' [E [I' [U _]]]]]].
    cbn [dq_run dq_step fifo_run]. rewrite E.
    specialize (IH d' pre' w' off I' F2). rewrite U in IH.
    destruct (dq_run c (Some d') ops) as [outs dl]. cbn [fst] in *. rewrite IH. reflexivity.
  - (* Get *)
    cbn [dq_run dq_step fifo_run].
    destruct (undel pre w off) as [|m q'] eqn:EU.
    + destruct I as [B Hh]. pose proof Hh as Hh'. unfold head_ok in Hh'. rewrite EU in Hh'. destruct Hh' as [Hr _]. rewrite Hr.
      specialize (IH d pre w off (conj B Hh) F). rewrite EU in IH.
      destruct (dq_run c (Some d) ops) as [outs dl]. cbn [fst] in *. rewrite IH. reflexivity.
    + pose proof I as [B Hh]. unfold head_ok in Hh. rewrite EU in Hh. destruct Hh as [Hr [Hp _]]. rewrite Hr, Hp.
      destruct (get_stepS c d pre w off m q' I EU) as [d' [pre' [off' [E [I' [U _]]]]]]. rewrite E.
      specialize (IH d' pre' w off' I' F). rewrite U in IH.
      destruct (dq_run c (Some d') ops) as [outs dl]. cbn [fst] in *. rewrite IH. reflexivity.
  - (* SyncTick *)
    cbn [dq_run dq_step fifo_run].
    destruct (tick_stepS c d pre w off I) as [d' [E [I' _]]]. rewrite E.
    specialize (IH d' pre w off I' F).
    destruct (dq_run c (Some d') ops) as [outs dl]. cbn [fst] in *. rewrite IH. reflexivity.
  - (* CloseReopen *)
    cbn [dq_run dq_step fifo_run]. cbv zeta.
    destruct (reopen_stepS c d pre w off I) as [d' [E [I' D']]]. rewrite E, D'.
    specialize (IH d' pre w off I' F).
    destruct (dq_run c (Some d') ops) as [outs dl]. cbn [fst] in *. rewrite IH. reflexivity.
Qed.

Theorem fifo_from_empty_segments c ops :
  smallops ops = true ->
  fst (dq_run c (dq_open c fs_empty []) ops) = fifo_run [] ops.
Proof.
  intros F. destruct (open_emptyS c) as [d [E [I _]]]. rewrite E.
  apply (fifo_refinement_segments c ops d [] [] 0 I F).
Qed.
