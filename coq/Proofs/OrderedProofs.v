(* C19: validate.Ordered is a per-name max register (under no FNV collision). *)
From CRNG Require Import Base.ListX Base.Bytes Lib.Fnv Lib.Regex Model.Fields Model.Validate Model.Matcher Model.Table.

Lemma omap_get_set m k v k' : omap_get (omap_set m k v) k' = if k' =? k then v else omap_get m k'.
Proof.
  induction m as [|[k0 v0] m IH]; simpl.
  - destruct (k' =? k); reflexivity.
  - destruct (k =? k0) eqn:E; simpl.
    + apply N.eqb_eq in E. subst. destruct (k' =? k0); reflexivity.
    + destruct (k' =? k0) eqn:E2.
      * apply N.eqb_eq in E2. subst. rewrite N.eqb_sym, E. reflexivity.
      * exact IH.
Qed.

(* the accepted points so far, newest first; the register value of a name *)
Fixpoint maxts (acc : list (bytes * N)) (n : bytes) : N :=
  match acc with
  | [] => 0
  | (n', t) :: acc' => if beqb n n' then N.max t (maxts acc' n) else maxts acc' n
  end.

Lemma maxts_lt acc n ts : maxts acc n < ts <-> (0 < ts /\ forall t, In (n, t) acc -> t < ts).
Proof.
  induction acc as [|[n' t'] acc IH]; simpl.
  - split; [intros H; split; [exact H|intros t []] | intros [H _]; exact H].
  - destruct (beqb n n') eqn:E.
    + apply beqb_eq in E. subst n'. rewrite N.max_lub_lt_iff, IH. split.
      * intros [H1 [H2 H3]]. split; [exact H2|]. intros t [H|H]; [inversion H; subst; exact H1|apply H3; exact H].
      * intros [H1 H2]. split; [apply H2; left; reflexivity|]. split; [exact H1|]. intros t H; apply H2; right; exact H.
    + rewrite IH. apply beqb_neq in E. split; intros [H1 H2]; (split; [exact H1|]).
      * intros t [H|H]; [inversion H; subst; contradiction|apply H2; exact H].
      * intros t H; apply H2; right; exact H.
Qed.

Section Register.
  (* the set of names in play, on which the hash is injective *)
  Variable U : bytes -> Prop.
  Hypothesis NoCollision : forall a b, U a -> U b -> fnv64a a = fnv64a b -> a = b.

  Definition Inv (m : omap) (acc : list (bytes * N)) : Prop :=
    forall n, U n -> omap_get m (fnv64a n) = maxts acc n.

  Lemma ordered_step m acc name ts :
    Inv m acc -> U name ->
    let '(m', ok) := ordered m name ts in
    ok = (maxts acc name <? ts) /\ Inv m' (if ok then (name, ts) :: acc else acc).
  Proof.
    intros Hi Hu. unfold ordered. rewrite (Hi name Hu).
    destruct (maxts acc name <? ts) eqn:E; split; try reflexivity; [|exact Hi].
    intros n Hn. rewrite omap_get_set. simpl.
    destruct (fnv64a n =? fnv64a name) eqn:EH.
    - apply N.eqb_eq in EH. apply NoCollision in EH; [|exact Hn|exact Hu]. subst n.
      rewrite beqb_refl. apply N.ltb_lt in E. lia.
    - destruct (beqb n name) eqn:EB; [apply beqb_eq in EB; subst; rewrite N.eqb_refl in EH; discriminate|].
      apply Hi; exact Hn.
  Qed.

  (* run a history of (name, timestamp) points *)
  Fixpoint orun (m : omap) (h : list (bytes * N)) : list bool :=
    match h with
    | [] => []
    | (n, t) :: h' => let '(m', ok) := ordered m n t in ok :: orun m' h'
    end.

  (* the specification: a point is accepted iff its timestamp is positive and exceeds
     every timestamp previously accepted for its name *)
  Fixpoint spec_run (acc : list (bytes * N)) (h : list (bytes * N)) : list bool :=
    match h with
    | [] => []
    | (n, t) :: h' => let ok := maxts acc n <? t in ok :: spec_run (if ok then (n, t) :: acc else acc) h'
    end.

  Theorem max_register h : forall m acc,
    Inv m acc -> (forall n t, In (n, t) h -> U n) -> orun m h = spec_run acc h.
  Proof.
    induction h as [|[n t] h IH]; intros m acc Hi Hu; simpl; [reflexivity|].
    pose proof (ordered_step m acc n t Hi (Hu n t (or_introl eq_refl))) as S.
    destruct (ordered m n t) as [m' ok]. destruct S as [-> Hi']. f_equal.
    apply IH; [exact Hi'|]. intros n' t' H. eapply Hu. right; exact H.
  Qed.

  Lemma inv_init : Inv [] [].
  Proof. intros n _. reflexivity. Qed.
End Register.

(* the specification read back in the property's words *)
Theorem spec_accept_iff acc n t :
  (maxts acc n <? t) = true <-> (0 < t /\ forall t', In (n, t') acc -> t' < t).
Proof. rewrite N.ltb_lt. apply maxts_lt. Qed.

(* accepted timestamps of one name are strictly increasing in acceptance order:
   in the accepted list (newest first) every earlier point of the name is smaller *)
Inductive increasing : list (bytes * N) -> Prop :=
| inc_nil : increasing []
| inc_cons n t acc : (forall t', In (n, t') acc -> t' < t) -> increasing acc -> increasing ((n, t) :: acc).

Fixpoint spec_acc (acc : list (bytes * N)) (h : list (bytes * N)) : list (bytes * N) :=
  match h with
  | [] => acc
  | (n, t) :: h' => spec_acc (if maxts acc n <? t then (n, t) :: acc else acc) h'
  end.

Theorem accepted_increasing h : forall acc, increasing acc -> increasing (spec_acc acc h).
Proof.
  induction h as [|[n t] h IH]; intros acc Hi; simpl; [exact Hi|].
  apply IH. destruct (maxts acc n <? t) eqn:E; [|exact Hi].
  constructor; [|exact Hi]. apply spec_accept_iff in E. tauto.
Qed.

(* a rejected point is reported and forwarded nowhere *)
Theorem dispatch_out_of_order search t om buf v s ts key :
  validate_packet buf (t_ll t) (t_lm t) v s = (key, None) ->
  t_order t = true -> snd (ordered om key ts) = false ->
  let o := snd (dispatch search t om buf v s ts) in
  o_out_of_order o = true /\ o_bad o = Some (key, BadOutOfOrder) /\ o_routes o = [] /\ o_dests o = [] /\
  o_agg_consumed o = [] /\ o_invalid o = false /\ o_unroutable o = false /\ fst (dispatch search t om buf v s ts) = om.
Proof.
  intros Hv Ho Hr. unfold dispatch. rewrite Hv, Ho.
  unfold ordered in *. destruct (omap_get om (fnv64a key) <? ts); simpl in *; [discriminate|].
  repeat split; reflexivity.
Qed.
