(* C11: without raw input an aggregator can only drain: however many ticks
   arrive, it emits at most what its open buckets hold (no loop, no amplification). *)
From CRNG Require Import Base.ListX Base.Bytes Model.Aggregator Proofs.AggregatorProofs.
Local Open Scope nat_scope.

Section Bound.
  Variable F P : Type.
  Variable pnew : F -> N -> P.
  Variable padd : P -> F -> N -> P.
  Variable pflush : P -> list (bytes * F).
  Variables interval wait : N.

  Definition lines_of (out : list (N * list (bytes * F))) : nat := length (flat_map (fun qb => snd qb) out).

  (* the number of lines the open buckets would produce if all were flushed now *)
  Definition capacity (bs : list (bucket P)) : nat :=
    length (flat_map (fun b => emit_bucket F P pflush (snd b)) bs).

  Lemma split_flush_capacity bs c :
    capacity bs = capacity (fst (split_flush P bs c)) + capacity (snd (split_flush P bs c)).
  Proof.
    unfold capacity. induction bs as [|[q ks] bs IH]; simpl; [reflexivity|].
    destruct (c <? q)%N; simpl; [reflexivity|].
    destruct (split_flush P bs c) as [fl rest]. simpl in *. rewrite !app_length, IH. lia.
  Qed.

  Lemma tick_lines st t :
    let '(st', out) := astep F P pnew padd pflush interval wait st (ATick F t) in
    capacity (a_buckets P st) = lines_of out + capacity (a_buckets P st').
  Proof.
    simpl. unfold flush. pose proof (split_flush_capacity (a_buckets P st) (cutoff_of wait t)) as H.
    destruct (split_flush P (a_buckets P st) (cutoff_of wait t)) as [fl rest]. simpl in *.
    rewrite H. f_equal. unfold lines_of, capacity. rewrite !flat_map_concat_map, map_map. reflexivity.
  Qed.

  Fixpoint tick_run (st : astate P) (ts : list N) : nat :=
    match ts with
    | [] => 0
    | t :: r => let '(st', out) := astep F P pnew padd pflush interval wait st (ATick F t) in lines_of out + tick_run st' r
    end.

  Theorem ticks_bounded ts : forall st, tick_run st ts <= capacity (a_buckets P st).
  Proof.
    induction ts as [|t r IH]; intros st; cbn [tick_run]; [lia|].
    pose proof (tick_lines st t) as H.
    destruct (astep F P pnew padd pflush interval wait st (ATick F t)) as [st' out].
    cbv beta iota in H. specialize (IH st'). lia.
  Qed.
End Bound.
