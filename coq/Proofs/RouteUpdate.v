(* C11: a route filter changed at run time takes effect on the aggregate path at once, and only for that route. *)
From CRNG Require Import Base.ListX Base.Bytes Lib.Regex Model.Fields Model.Validate Model.Matcher Model.Rewriter
  Model.Hashing Model.Table Proofs.TableProofs.
From Coq Require Import Lia.

Lemma nth_set_nth_route rs : forall ri m j,
  nth_error (set_nth_route rs ri m) j =
  match nth_error rs j with
  | Some r => Some (if Nat.eqb j ri then {| r_kind := r_kind r; r_matcher := m; r_dests := r_dests r |} else r)
  | None => None
  end.
Proof.
  induction rs as [|r rs IH]; intros ri m j.
  - destruct ri, j; reflexivity.
  - destruct ri as [|ri], j as [|j]; cbn [set_nth_route nth_error Nat.eqb]; try reflexivity.
    + destruct (nth_error rs j); reflexivity.
    + apply IH.
Qed.

Lemma length_set_nth_route rs : forall ri m, length (set_nth_route rs ri m) = length rs.
Proof. induction rs as [|r rs IH]; intros [|ri] m; cbn [set_nth_route length]; auto. Qed.

Section WithSearch.
  Variable search : rx -> bytes -> bool.

  Theorem aggregate_routing_follows_update rs ri m buf j :
    In (j, buf) (o_routes (dispatch_aggregate search (set_nth_route rs ri m) buf)) <->
    exists r, nth_error rs j = Some r /\
              mmatch search (if Nat.eqb j ri then m else r_matcher r) (name_of buf) = true.
  Proof.
    destruct (dispatch_aggregate_routes search (set_nth_route rs ri m) buf) as [Hr _]. rewrite Hr.
    rewrite in_map_iff. split.
    - intros [k [E Hk]]. inversion E; subst k. apply accepting_spec in Hk as [_ [x [Hx Hf]]].
      rewrite Nat.sub_0_r, nth_set_nth_route in Hx. destruct (nth_error rs j) as [r|]; [|discriminate].
      exists r. split; [reflexivity|]. inversion Hx; subst x. unfold route_accepts in Hf.
      destruct (Nat.eqb j ri); exact Hf.
    - intros [r [Hn Hm]]. exists j. split; [reflexivity|]. apply accepting_spec. split; [lia|].
      rewrite Nat.sub_0_r, nth_set_nth_route, Hn. eexists. split; [reflexivity|]. unfold route_accepts.
      destruct (Nat.eqb j ri); exact Hm.
  Qed.
End WithSearch.
