(* The Go ring and carbon's ConsistentHashRing pick the same node. *)
From CRNG Require Import Base.ListX Base.Bytes Base.Decimal Base.Order Model.Hashing Proofs.HashingProofs.
From Coq Require Import Permutation.

Definition opt_inst (i : bytes) : option bytes := match i with [] => None | _ => Some i end.

Lemma optle_opt i j : optle (opt_inst i) (opt_inst j) = bleb i j.
Proof. destruct i, j; reflexivity. Qed.

Lemma optle_total_order : total_order optle.
Proof.
  split.
  - intros [a|] [b|]; simpl; auto. apply bleb_total.
  - intros [a|] [b|] [c|]; simpl; auto; try discriminate. apply bleb_trans.
  - intros [a|] [b|]; simpl; auto; try discriminate. intros H1 H2. f_equal. apply bleb_antisym; assumption.
Qed.

Lemma centry_le_total_order : total_order centry_le.
Proof.
  apply lex_total_order; [apply N_leb_total_order|].
  apply lex_total_order; [apply bleb_total_order|apply optle_total_order].
Qed.

Definition cconv (k : ekey) : centry := (fst k, cnode_of (snd k)).

Lemma cconv_le a b : centry_le (cconv a) (cconv b) = ekey_le a b.
Proof.
  destruct a as [pa [ha ia]], b as [pb [hb ib]].
  unfold centry_le, ekey_le, cconv, cnode_of, lex_le; destruct ia, ib; reflexivity.
Qed.

Lemma cnode_str_of n : cnode_str (cnode_of n) = n.
Proof. destruct n as [h [|x i]]; reflexivity. Qed.

Lemma insort_perm x l : Permutation (x :: l) (insort x l).
Proof.
  induction l as [|y l IH]; simpl; [reflexivity|].
  destruct (centry_le y x); [|reflexivity]. rewrite perm_swap. constructor. exact IH.
Qed.

Lemma insort_sorted x l : sorted centry_le l -> sorted centry_le (insort x l).
Proof.
  pose proof centry_le_total_order as TO.
  induction 1 as [|y l Hy Hs IH]; simpl.
  - constructor; [intros ? []|constructor].
  - destruct (centry_le y x) eqn:E.
    + constructor; [|exact IH]. intros z Hz.
      apply (Permutation_in _ (Permutation_sym (insort_perm x l))) in Hz. destruct Hz as [<-|Hz]; auto.
    + assert (centry_le x y = true) as Exy by (destruct (to_total _ TO x y); congruence).
      constructor; [|constructor; assumption].
      intros z [<-|Hz]; [exact Exy|]. eapply (to_trans _ TO); eauto.
Qed.

Lemma fold_insort {A} (f : A -> centry) l r0 :
  sorted centry_le r0 ->
  sorted centry_le (fold_left (fun r x => insort (f x) r) l r0) /\
  Permutation (fold_left (fun r x => insort (f x) r) l r0) (r0 ++ map f l).
Proof.
  revert r0; induction l as [|x l IH]; intros r0 Hs; simpl.
  - rewrite app_nil_r. split; [exact Hs|reflexivity].
  - destruct (IH (insort (f x) r0) (insort_sorted _ _ Hs)) as [S P]. split; [exact S|].
    rewrite P. rewrite <- insort_perm. simpl. apply Permutation_middle.
Qed.

Section Carbon.
  Variable pos : bytes -> N.
  Variable replicas : nat.

  Lemma carbon_ring_spec (ds : list hdest) r0 :
    sorted centry_le r0 ->
    let r := fold_left (carbon_add_node pos replicas) (map (fun d => cnode_of (node_of_dest d)) ds) r0 in
    sorted centry_le r /\ Permutation r (r0 ++ map cconv (all_keys pos replicas ds)).
  Proof.
    revert r0; induction ds as [|d ds IH]; intros r0 Hs; simpl.
    - rewrite app_nil_r. split; [exact Hs|reflexivity].
    - unfold carbon_add_node at 2.
      destruct (fold_insort (fun i => (pos (replica_key (cnode_str (cnode_of (node_of_dest d))) i), cnode_of (node_of_dest d)))
                  (seq 0 replicas) r0 Hs) as [S P].
      destruct (IH _ S) as [S2 P2]. split; [exact S2|].
      rewrite P2, P. rewrite map_app, app_assoc. apply Permutation_app; [|reflexivity].
      apply Permutation_app; [reflexivity|]. unfold node_keys. rewrite map_map.
      rewrite cnode_str_of. reflexivity.
  Qed.

  Lemma sorted_cconv l : sorted ekey_le l -> sorted centry_le (map cconv l).
  Proof.
    induction 1 as [|x l Hx Hs IH]; simpl; constructor; [|exact IH].
    intros y Hy. apply in_map_iff in Hy as [k [<- Hk]]. rewrite cconv_le. auto.
  Qed.

  Lemma carbon_ring_eq ds :
    carbon_ring pos replicas (map (fun d => cnode_of (node_of_dest d)) ds) = map cconv (keys_of pos replicas ds).
  Proof.
    unfold carbon_ring.
    destruct (carbon_ring_spec ds [] (sorted_nil _)) as [S P]. simpl in S, P.
    apply (sorted_perm_eq _ centry_le_total_order); [exact S | apply sorted_cconv, keys_of_sorted |].
    rewrite P. apply Permutation_map. apply Permutation_sym, keys_of_perm.
  Qed.

  Lemma find_cconv p (l : list ekey) :
    find (fun e : centry => p <=? fst e) (map cconv l) = option_map cconv (find (fun k : ekey => p <=? fst k) l).
  Proof.
    induction l as [|k l IH]; simpl; [reflexivity|]. destruct (p <=? fst k); [reflexivity|exact IH].
  Qed.

  Theorem agrees_with_carbon ds name :
    carbon_get_node pos replicas (map (fun d => cnode_of (node_of_dest d)) ds) name =
    option_map cnode_of (node_for pos replicas ds name).
  Proof.
    unfold carbon_get_node. rewrite carbon_ring_eq, node_for_keys, find_cconv. unfold lookupK.
    unfold ekey in *.
    match goal with |- context [find ?f ?l] => destruct (find f l) as [k|] end; simpl; [reflexivity|].
    destruct (keys_of pos replicas ds); reflexivity.
  Qed.
End Carbon.
