(* C03: Match is the documented conjunction provided the static prefix derived
   from a regex is sound; PreMatch is a necessary condition; the aggregator's
   match cache is transparent. *)
From CRNG Require Import Base.ListX Base.Bytes Lib.Regex Model.Matcher.

Section WithSearch.
  Variable search : rx -> bytes -> bool.

  (* soundness of the prefix shortcut for the regexes of a matcher *)
  Definition prefix_sound (r : rx) : Prop :=
    forall s, search r s = true -> has_prefix (regex_to_prefix (rx_src r)) s = true.

  Definition opt_sound (o : option rx) : Prop := match o with Some r => prefix_sound r | None => True end.

  Lemma nonempty_false_prefix p s : nonempty p = false -> has_prefix p s = true.
  Proof. destruct p; [reflexivity|discriminate]. Qed.

  Theorem match_is_conjunction m s :
    opt_sound (m_regex m) -> opt_sound (m_notRegex m) ->
    matcher_match search m s = spec_accept search m s.
  Proof.
    intros H1 H2. unfold matcher_match, spec_accept.
    destruct (nonempty (m_prefix m)) eqn:E1; destruct (has_prefix (m_prefix m) s) eqn:P1; simpl; try reflexivity;
    destruct (nonempty (m_notPrefix m)) eqn:E2; destruct (has_prefix (m_notPrefix m) s) eqn:P2; simpl; try reflexivity;
    destruct (nonempty (m_sub m)) eqn:E3; destruct (contains (m_sub m) s) eqn:P3; simpl; try reflexivity;
    destruct (nonempty (m_notSub m)) eqn:E4; destruct (contains (m_notSub m) s) eqn:P4; simpl; try reflexivity;
    (destruct (m_regex m) as [r|]; simpl;
     [ destruct (search r s) eqn:S1; simpl;
       [ rewrite (H1 s S1); rewrite andb_false_r; simpl | rewrite orb_true_r; reflexivity ] | ]);
    (destruct (m_notRegex m) as [nr|]; simpl; [| reflexivity]);
    (destruct (search nr s) eqn:S2; simpl;
     [ rewrite (H2 s S2); rewrite orb_true_r; reflexivity | rewrite andb_false_r; reflexivity ]).
  Qed.

  Theorem prematch_necessary m s :
    opt_sound (m_regex m) ->
    pre_match m s = false -> spec_accept search m s = false.
  Proof.
    intros H1. unfold pre_match, spec_accept.
    destruct (nonempty (m_prefix m)) eqn:E1; destruct (has_prefix (m_prefix m) s) eqn:P1; simpl; try reflexivity;
    destruct (nonempty (m_notPrefix m)) eqn:E2; destruct (has_prefix (m_notPrefix m) s) eqn:P2; simpl; try reflexivity;
    destruct (nonempty (m_sub m)) eqn:E3; destruct (contains (m_sub m) s) eqn:P3; simpl; try reflexivity;
    destruct (nonempty (m_notSub m)) eqn:E4; destruct (contains (m_notSub m) s) eqn:P4; simpl; try reflexivity;
    try discriminate;
    (destruct (m_regex m) as [r|]; simpl; [|discriminate]);
    (destruct (search r s) eqn:S1; simpl; [rewrite (H1 s S1), andb_false_r; discriminate | reflexivity]).
  Qed.

  (* ---- the per-aggregator match cache --------------------------------- *)
  (* f is what matchWithCache computes on a miss (MatchRegexAndExpand) *)
  Variable A : Type.
  Variable f : bytes -> A.

  Definition cache := list (bytes * A).
  Fixpoint cache_get (c : cache) (k : bytes) : option A :=
    match c with [] => None | (k', v) :: c' => if beqb k k' then Some v else cache_get c' k end.

  Definition cached_lookup (c : cache) (k : bytes) : cache * A :=
    match cache_get c k with
    | Some v => (c, v)
    | None => ((k, f k) :: c, f k)
    end.

  (* operations: a lookup, or an expiry sweep that deletes any subset of entries *)
  Inductive cop := Lookup (k : bytes) | Expire (keep : bytes -> bool).

  Definition cstep (c : cache) (o : cop) : cache * option A :=
    match o with
    | Lookup k => let '(c', v) := cached_lookup c k in (c', Some v)
    | Expire keep => (filter (fun e => keep (fst e)) c, None)
    end.

  Definition cache_inv (c : cache) : Prop := forall k v, In (k, v) c -> v = f k.

  Lemma cache_get_in c k v : cache_get c k = Some v -> exists k', In (k', v) c /\ k = k'.
  Proof.
    induction c as [|[k' v'] c IH]; simpl; [discriminate|].
    destruct (beqb k k') eqn:E.
    - intros H; inversion H; subst. apply beqb_eq in E. exists k'. auto.
    - intros H. destruct (IH H) as [k2 [Hin ->]]. exists k2. auto.
  Qed.

  Lemma cstep_inv c o : cache_inv c -> cache_inv (fst (cstep c o)).
  Proof.
    intros Hi. destruct o as [k|keep]; simpl.
    - unfold cached_lookup. destruct (cache_get c k); simpl; [exact Hi|].
      intros k' v [H|H]; [inversion H; reflexivity|apply Hi; exact H].
    - intros k v H. apply filter_In in H as [H _]. apply Hi; exact H.
  Qed.

  Lemma cstep_out c k : cache_inv c -> snd (cstep c (Lookup k)) = Some (f k).
  Proof.
    intros Hi. simpl. unfold cached_lookup. destruct (cache_get c k) eqn:G; simpl; [|reflexivity].
    apply cache_get_in in G as [k' [Hin ->]]. f_equal. apply Hi; exact Hin.
  Qed.

  (* every lookup in every history of lookups and expiry sweeps returns the uncached value *)
  Fixpoint crun (c : cache) (ops : list cop) : list (option A) :=
    match ops with
    | [] => []
    | o :: ops' => snd (cstep c o) :: crun (fst (cstep c o)) ops'
    end.

  Definition spec_out (o : cop) : option A :=
    match o with Lookup k => Some (f k) | Expire _ => None end.

  Theorem cache_run_transparent ops : forall c, cache_inv c -> crun c ops = map spec_out ops.
  Proof.
    induction ops as [|o ops IH]; intros c Hi; simpl; [reflexivity|].
    rewrite (IH _ (cstep_inv c o Hi)). f_equal.
    destruct o as [k|keep]; [apply cstep_out; exact Hi | reflexivity].
  Qed.
End WithSearch.
