(* C13: the protocol 0 pickler model (text opcodes) is decoded into the equivalent plain-text lines, given that parsing
   the repr() of a float gives back the float. *)
From CRNG Require Import Base.ListX Base.Bytes Base.Decimal Model.PickleVM Model.Reencode Model.PickleIn Model.PyPickle
  Proofs.ReencodeProofs Proofs.PickleInProofs Proofs.PickleIn1 Proofs.DQBasics.
From Coq Require Import ZifyN ZifyNat ZifyBool.
Ltac Zify.zify_post_hook ::= Z.div_mod_to_equations.
Local Open Scope N_scope.

(* ---- lines ---- *)
Lemma cut_app c l rest : ~ In c l -> cut c (l ++ c :: rest) = (l, Some rest).
Proof.
  induction l as [|x l IH]; intros H; cbn [app cut].
  - rewrite N.eqb_refl. reflexivity.
  - replace (x =? c) with false by (symmetry; apply N.eqb_neq; intros ->; apply H; left; reflexivity).
    rewrite IH by (intros Hin; apply H; right; exact Hin). reflexivity.
Qed.

Lemma strip_cr_id l : ~ In 13 l -> strip_cr l = l.
Proof.
  intros H. unfold strip_cr. destruct (rev l) as [|x r] eqn:E; [reflexivity|].
  destruct (N.eq_dec x 13) as [->|Hx].
  - exfalso. apply H. apply in_rev. rewrite E. left. reflexivity.
  - destruct x as [|p]; [reflexivity|]. repeat (destruct p as [p|p|]; try reflexivity). congruence.
Qed.

Lemma read_line_app l rest : ~ In 10 l -> ~ In 13 l -> read_line (l ++ 10 :: rest) = Some (l, rest).
Proof.
  intros H10 H13. unfold read_line. destruct (l ++ 10 :: rest) eqn:E; [destruct l; discriminate|].
  rewrite <- E. rewrite cut_app by exact H10. rewrite strip_cr_id by exact H13. reflexivity.
Qed.

(* ---- decimal text ---- *)
Lemma digits_no c ds : forallb is_digit ds = true -> (c <? 48) || (57 <? c) = true -> ~ In c ds.
Proof.
  intros Hd Hc Hin. rewrite forallb_forall in Hd. specialize (Hd c Hin). unfold is_digit in Hd. lia.
Qed.

Lemma dec_parse_print n : dec_parse (N_to_dec n) = Some n.
Proof.
  destruct (N_to_dec_spec n) as [ds [E [Hne [Hd Hp]]]]. rewrite E. unfold dec_parse. destruct ds as [|d ds']; [contradiction|].
  specialize (Hp 0 []). rewrite app_nil_r in Hp. rewrite Hp. cbn [dec_parse_acc]. f_equal; try lia.
Qed.

Lemma dec_no_newline n : ~ In 10 (N_to_dec n) /\ ~ In 13 (N_to_dec n).
Proof.
  destruct (N_to_dec_spec n) as [ds [E [Hne [Hd Hp]]]]. rewrite E. split; (apply digits_no; [exact Hd | reflexivity]).
Qed.

Lemma parse_int_print n : parse_int (N_to_dec n) = Some (Z.of_N n).
Proof.
  pose proof (dec_parse_print n) as H. destruct (N_to_dec_head n) as [d [ds [E Hd]]]. unfold parse_int. rewrite E in *.
  unfold is_digit in Hd.
  replace (match d with 45 => _ | _ => _ end) with (match dec_parse (d :: ds) with Some n0 => Some (Z.of_N n0) | None => None end).
  - rewrite H. reflexivity.
  - destruct (N.eq_dec d 45) as [->|H45]; [lia|]. destruct (N.eq_dec d 43) as [->|H43]; [lia|].
    destruct d as [|p]; [reflexivity|]. repeat (destruct p as [p|p|]; try reflexivity); congruence.
Qed.

Lemma dec_not_bool n : beqb (N_to_dec n) [48; 48] = false /\ beqb (N_to_dec n) [48; 49] = false.
Proof.
  pose proof (dec_parse_print n) as H.
  split.
  - destruct (beqb (N_to_dec n) [48; 48]) eqn:E; [|reflexivity]. apply beqb_eq in E. rewrite E in H. cbn in H. inversion H. subst n. discriminate E.
  - destruct (beqb (N_to_dec n) [48; 49]) eqn:E; [|reflexivity]. apply beqb_eq in E. rewrite E in H. cbn in H. inversion H. subst n. discriminate E.
Qed.

Definition small_int (n : N) : Prop := n < 2147483648.

Section Steps0.
  Variable pf : bytes -> option N.
  Variable frepr : N -> bytes.
  Hypothesis pf_repr : forall b, pf (frepr b) = Some b.
  Hypothesis repr_line : forall b, ~ In 10 (frepr b) /\ ~ In 13 (frepr b).
  Notation R := (run pf false).

  (* the opcodes used, as equations *)
  Lemma step_put m s : step pf false m 112 s =
    with_line s (fun l r => match stk m with [] => SFail RErr | v :: _ => SNext {| stk := stk m; memo := memo_put l v (memo m) |} r end).
  Proof. reflexivity. Qed.
  Lemma step_int m s : step pf false m 73 s =
    with_line s (fun l r =>
      if beqb l [48; 48] then SNext (push (VBool false) m) r
      else if beqb l [48; 49] then SNext (push (VBool true) m) r
      else match parse_int l with
           | Some z => if in_int64 z then SNext (push (VInt z) m) r else SFail RErr
           | None => SFail RErr
           end).
  Proof. reflexivity. Qed.
  Lemma step_float m s : step pf false m 70 s =
    with_line s (fun l r => match pf l with Some b => SNext (push (VFloat b) m) r | None => SFail RErr end).
  Proof. reflexivity. Qed.
  Lemma step_unicode m s : step pf false m 86 s =
    with_line s (fun l r => match v_decode (length l) l [] with
                            | VOk b => SNext (push (VStr b) m) r | VBad => SFail RErr | VUnsup => SFail RUnsupported end).
  Proof. reflexivity. Qed.

  Lemma run_put0 f st mem v i rest b :
    R (S f) {| stk := v :: st; memo := mem |} (put0 i ++ rest) b
    = R f {| stk := v :: st; memo := memo_put (N_to_dec i) v mem |} rest false.
  Proof.
    unfold put0. cbn [app]. rewrite <- app_assoc. cbn [app]. rewrite run_step, step_put. unfold with_line.
    destruct (dec_no_newline i) as [H1 H2]. rewrite read_line_app by assumption. reflexivity.
  Qed.

  Lemma run_enc_num0 f st mem x rest b :
    num_ok x = true ->
    R (S f) {| stk := st; memo := mem |} (enc_num0 frepr x ++ rest) b
    = R f {| stk := num_val x :: st; memo := mem |} rest false.
  Proof.
    intros Hx. destruct x as [n|bits]; cbn [num_ok] in Hx; cbn [enc_num0 num_val app]; rewrite <- app_assoc; cbn [app].
    - rewrite run_step, step_int. unfold with_line.
      destruct (dec_no_newline n) as [H1 H2]. rewrite read_line_app by assumption.
      destruct (dec_not_bool n) as [-> ->]. rewrite parse_int_print.
      replace (in_int64 (Z.of_N n)) with true by (unfold in_int64; lia). reflexivity.
    - rewrite run_step, step_float. unfold with_line.
      destruct (repr_line bits) as [H1 H2]. rewrite read_line_app by assumption. rewrite pf_repr. reflexivity.
  Qed.

  Lemma v_decode_plain s : forall acc, forallb plain_char s = true -> v_decode (length s) s acc = VOk (rev acc ++ s).
  Proof.
    induction s as [|c s IH]; intros acc H; cbn [length v_decode].
    - rewrite app_nil_r. reflexivity.
    - cbn [forallb] in H. apply andb_true_iff in H as [Hc Hs]. unfold plain_char in Hc.
      destruct (c =? 39) eqn:E39.
      + apply N.eqb_eq in E39. subst c. rewrite (IH (39 :: acc) Hs). cbn [rev]. rewrite <- app_assoc. reflexivity.
      + replace (c =? 92) with false by lia. replace (c <? 128) with true by lia.
        rewrite (IH (c :: acc) Hs). cbn [rev]. rewrite <- app_assoc. reflexivity.
  Qed.

  Lemma plain_no c s : forallb plain_char s = true -> plain_char c = false -> ~ In c s.
  Proof. intros H Hc Hin. rewrite forallb_forall in H. rewrite (H c Hin) in Hc. discriminate. Qed.

  Lemma run_name0 f st mem s rest b :
    forallb plain_char s = true ->
    R (S f) {| stk := st; memo := mem |} (86 :: s ++ 10 :: rest) b
    = R f {| stk := VStr s :: st; memo := mem |} rest false.
  Proof.
    intros Hs. rewrite run_step, step_unicode. unfold with_line.
    rewrite read_line_app by (apply (plain_no _ _ Hs); reflexivity).
    rewrite (v_decode_plain s [] Hs). reflexivity.
  Qed.

  Lemma run_enc_item0 f xs st mem d i rest b :
    dp_ok0 d = true ->
    exists mem', R (11 + f) {| stk := VList xs :: st; memo := mem |} (enc_item0 frepr d i ++ rest) b
                 = R f {| stk := VList (xs ++ [item_val d]) :: st; memo := mem' |} rest false.
  Proof.
    intros Hd. unfold dp_ok0 in Hd. apply andb_true_iff in Hd as [Hd Hv]. apply andb_true_iff in Hd as [Hn Ht].
    unfold enc_item0. rewrite <- !app_assoc. cbn [Nat.add app].
    rewrite run_mark.
    rewrite (run_name0 _ _ _ _ _ _ Hn).
    rewrite run_put0. rewrite run_mark.
    rewrite (run_enc_num0 _ _ _ _ _ _ Ht), (run_enc_num0 _ _ _ _ _ _ Hv).
    cbn [app]. rewrite run_tuple_nums. rewrite run_put0.
    cbn [app]. rewrite run_tuple_item. rewrite run_put0.
    eexists. reflexivity.
  Qed.

  Lemma run_enc_items0 ds : forall f xs st mem i rest b,
    forallb dp_ok0 ds = true ->
    exists mem', R (11 * length ds + f) {| stk := VList xs :: st; memo := mem |} (enc_items0 frepr ds i ++ rest) b
                 = R f {| stk := VList (xs ++ map item_val ds) :: st; memo := mem' |} rest
                     (match ds with [] => b | _ => false end).
  Proof.
    induction ds as [|d ds IH]; intros f xs st mem i rest b Hok.
    - exists mem. cbn [map]. rewrite app_nil_r. reflexivity.
    - cbn [forallb] in Hok. apply andb_true_iff in Hok as [Hd Hok].
      cbn [enc_items0 length map]. rewrite <- app_assoc.
      replace (11 * S (length ds) + f)%nat with (11 + (11 * length ds + f))%nat by lia.
      destruct (run_enc_item0 (11 * length ds + f) xs st mem d i (enc_items0 frepr ds (i + 3) ++ rest) b Hd) as [m1 ->].
      destruct (IH f (xs ++ [item_val d]) st m1 (i + 3) rest false Hok) as [m2 E].
      exists m2. rewrite E. rewrite <- app_assoc. cbn [app].
      destruct ds; reflexivity.
  Qed.

  Lemma length_enc_items0 ds : forall i, (11 * length ds <= length (enc_items0 frepr ds i))%nat.
  Proof.
    induction ds as [|d ds IH]; intros i; cbn [enc_items0 length]; [lia|].
    rewrite app_length. specialize (IH (i + 3)).
    assert (11 <= length (enc_item0 frepr d i))%nat; [|lia].
    unfold enc_item0, put0. repeat (rewrite app_length || cbn [length]).
    assert (forall x, 2 <= length (enc_num0 frepr x))%nat by (intros x; destruct x; cbn [enc_num0 length]; rewrite app_length; cbn [length]; lia).
    pose proof (H (d_ts d)). pose proof (H (d_val d)). lia.
  Qed.

  Theorem unpickle_py_dumps0 ds :
    forallb dp_ok0 ds = true ->
    unpickle pf false (py_dumps0 frepr ds) = RDone (VList (map item_val ds)).
  Proof.
    intros Hok. unfold unpickle.
    assert (HK : R (11 * length ds + 4) vm0 (py_dumps0 frepr ds) true = RDone (VList (map item_val ds))).
    { unfold py_dumps0. cbn [app]. replace (11 * length ds + 4)%nat with (S (S (S (11 * length ds + 1)))) by lia.
      unfold vm0. rewrite run_mark.
      rewrite run_step.
      change (step pf false {| stk := [VMark]; memo := [] |} 108 ?s) with (SNext {| stk := [VList []]; memo := [] |} s).
      cbv beta iota.
      rewrite run_put0.
      destruct (run_enc_items0 ds 1 [] [] (memo_put (N_to_dec 0) (VList []) []) 1 [46] false Hok) as [m1 E].
      rewrite E. cbn [app]. rewrite run_step. reflexivity. }
    rewrite (run_more pf false (11 * length ds + 4)); [exact HK | rewrite HK; discriminate |].
    unfold py_dumps0. rewrite !app_length. pose proof (length_enc_items0 ds 1) as L.
    unfold put0. cbn [length]. rewrite app_length. cbn [length]. lia.
  Qed.
End Steps0.

(* ---------- the connection ---------- *)
Section Conn0.
  Variable pf : bytes -> option N.
  Variable frepr : N -> bytes.
  Hypothesis pf_repr : forall b, pf (frepr b) = Some b.
  Hypothesis repr_line : forall b, ~ In 10 (frepr b) /\ ~ In 13 (frepr b).
  Variable fmt6 fmt0 : N -> bytes.

  Definition frame_ok0 (ds : list pydp) : Prop :=
    forallb dp_ok0 ds = true /\ N.of_nat (length (py_dumps0 frepr ds)) <= max_payload.

  Lemma handle_frame0 f ds rest :
    frame_ok0 ds ->
    handle_stream pf fmt6 fmt0 (S f) (frame_of (py_dumps0 frepr ds) ++ rest)
    = let (evs, fn) := handle_stream pf fmt6 fmt0 f rest in
      (map (fun d => EvLine (line_of fmt6 fmt0 d)) ds ++ evs, fn).
  Proof.
    intros [Hok Hmax]. unfold frame_of.
    rewrite <- (app_assoc (be_bytes 4 (N.of_nat (length (py_dumps0 frepr ds)))) (py_dumps0 frepr ds) rest).
    set (p := py_dumps0 frepr ds) in *.
    assert (Hp3 : exists t, p = 40 :: 108 :: t) by (unfold p, py_dumps0; cbn [app]; eexists; reflexivity).
    destruct Hp3 as [t Ep].
    cbn [handle_stream].
    assert (Hne : exists c r, be_bytes 4 (N.of_nat (length p)) ++ p ++ rest = c :: r).
    { unfold be_bytes. cbn [le_bytes rev app]. rewrite <- ?app_assoc. cbn [app]. eexists _, _. reflexivity. }
    destruct Hne as [c0 [r0 E0]]. rewrite E0, <- E0.
    assert (Ht : take 4 (be_bytes 4 (N.of_nat (length p)) ++ p ++ rest) = Some (be_bytes 4 (N.of_nat (length p)), p ++ rest)).
    { replace 4%nat with (length (be_bytes 4 (N.of_nat (length p)))) at 1
        by (unfold be_bytes; rewrite rev_length; apply length_le_bytes).
      apply take_app. }
    rewrite Ht. cbv zeta. rewrite be_num_be_bytes.
    change (256 ^ N.of_nat 4) with 4294967296.
    unfold max_payload in *. rewrite N.mod_small by lia.
    replace (524288000 <? N.of_nat (length p)) with false by lia.
    replace (check_protocol (p ++ rest)) with true by (rewrite Ep; reflexivity).
    cbn [negb]. rewrite take_n_app.
    unfold p. rewrite (unpickle_py_dumps0 pf frepr pf_repr repr_line ds Hok).
    destruct (handle_stream pf fmt6 fmt0 f rest) as [evs fn].
    rewrite map_map. f_equal. f_equal. apply map_ext. intros d. apply handle_item_val.
  Qed.
End Conn0.
