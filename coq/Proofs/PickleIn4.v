(* C13: protocol 4 pickles (FRAME, SHORT_BINUNICODE, MEMOIZE) decode to the datapoints as well, and a connection
   may mix frames of protocols 2, 3 and 4. *)
From CRNG Require Import Base.ListX Base.Bytes Base.Decimal Model.PickleVM Model.Reencode Model.PickleIn Model.PyPickle
  Proofs.ReencodeProofs Proofs.PickleInProofs Proofs.PickleIn1.
From Coq Require Import ZifyN ZifyNat ZifyBool.
Ltac Zify.zify_post_hook ::= Z.div_mod_to_equations.
Local Open Scope N_scope.

Section Steps4.
  Variable pf : bytes -> option N.
  Notation R := (run pf false).

  Lemma run_memoize f st mem v rest b :
    exists mem', R (S f) {| stk := v :: st; memo := mem |} (148 :: rest) b
                 = R f {| stk := v :: st; memo := mem' |} rest false.
  Proof. rewrite run_step. eexists. reflexivity. Qed.

  Lemma run_enc_str4 f st mem s rest b :
    N.of_nat (length s) < 2147483648 ->
    exists mem', R (S (S f)) {| stk := st; memo := mem |} (enc_str4 s ++ rest) b
                 = R f {| stk := VStr s :: st; memo := mem' |} rest false.
  Proof.
    intros Hl. unfold enc_str4. cbv zeta. rewrite <- app_assoc.
    destruct (N.of_nat (length s) <? 256) eqn:E.
    - cbn [app]. rewrite run_step.
      change (step pf false {| stk := st; memo := mem |} 140 (N.of_nat (length s) :: s ++ 148 :: rest))
        with (with_take_n (le_num [N.of_nat (length s)]) (s ++ 148 :: rest)
                (fun b0 r' => SNext (push (VStr b0) {| stk := st; memo := mem |}) r')).
      replace (le_num [N.of_nat (length s)]) with (N.of_nat (length s)) by (cbn; lia).
      unfold with_take_n. rewrite take_n_app. cbv beta iota. unfold push. cbn [stk memo app].
      apply run_memoize.
    - cbn [app]. rewrite run_step, <- app_assoc.
      change (step pf false {| stk := st; memo := mem |} 88 (le_bytes 4 (N.of_nat (length s)) ++ s ++ 148 :: rest))
        with (with_take 4 (le_bytes 4 (N.of_nat (length s)) ++ s ++ 148 :: rest) (fun a r =>
                if 2147483648 <=? le_num a then SNext (push (VStr []) {| stk := st; memo := mem |}) r
                else with_take_n (le_num a) r (fun b0 r' => SNext (push (VStr b0) {| stk := st; memo := mem |}) r'))).
      unfold with_take. rewrite take_le_bytes, le_num_le_bytes.
      change (256 ^ N.of_nat 4) with 4294967296. rewrite N.mod_small by lia.
      replace (2147483648 <=? N.of_nat (length s)) with false by lia.
      unfold with_take_n. rewrite take_n_app. cbv beta iota. unfold push. cbn [stk memo app].
      apply run_memoize.
  Qed.

  Lemma run_enc_item4 f st mem d rest b :
    dp_ok d = true ->
    exists mem', R (8 + f) {| stk := st; memo := mem |} (enc_item4 d ++ rest) b
                 = R f {| stk := item_val d :: st; memo := mem' |} rest false.
  Proof.
    intros Hd. unfold dp_ok in Hd. apply andb_true_iff in Hd as [Hd Hv]. apply andb_true_iff in Hd as [Hn Ht].
    unfold enc_item4. rewrite <- !app_assoc. cbn [Nat.add].
    destruct (run_enc_str4 (S (S (S (S (S (S f)))))) st mem (d_name d)
                (enc_num (d_ts d) ++ enc_num (d_val d) ++ [134; 148; 134; 148] ++ rest) b ltac:(lia)) as [m1 ->].
    rewrite (run_enc_num _ _ _ _ _ _ _ Ht), (run_enc_num _ _ _ _ _ _ _ Hv).
    cbn [app]. rewrite run_tuple2.
    destruct (run_memoize (S (S f)) (VStr (d_name d) :: st) m1 (VTuple [num_val (d_ts d); num_val (d_val d)])
                (134 :: 148 :: rest) false) as [m2 ->].
    rewrite run_tuple2.
    destruct (run_memoize f st m2 (VTuple [VStr (d_name d); VTuple [num_val (d_ts d); num_val (d_val d)]]) rest false) as [m3 ->].
    exists m3. reflexivity.
  Qed.

  Lemma run_enc_items4 ds : forall f st mem rest b,
    forallb dp_ok ds = true ->
    exists mem', R (8 * length ds + f) {| stk := st; memo := mem |} (enc_items4 ds ++ rest) b
                 = R f {| stk := rev (map item_val ds) ++ st; memo := mem' |} rest
                     (match ds with [] => b | _ => false end).
  Proof.
    induction ds as [|d ds IH]; intros f st mem rest b Hok.
    - exists mem. reflexivity.
    - cbn [forallb] in Hok. apply andb_true_iff in Hok as [Hd Hok].
      cbn [enc_items4 length map rev]. rewrite <- app_assoc.
      replace (8 * S (length ds) + f)%nat with (8 + (8 * length ds + f))%nat by lia.
      destruct (run_enc_item4 (8 * length ds + f) st mem d (enc_items4 ds ++ rest) b Hd) as [m1 ->].
      destruct (IH f (item_val d :: st) m1 rest false Hok) as [m2 E].
      exists m2. rewrite E. rewrite <- app_assoc. cbn [app]. destruct ds; reflexivity.
  Qed.

  Lemma length_enc_items4 ds : (8 * length ds <= length (enc_items4 ds))%nat.
  Proof.
    induction ds as [|d ds IH]; cbn [enc_items4 length]; [lia|].
    rewrite app_length.
    assert (8 <= length (enc_item4 d))%nat; [|lia].
    assert (En : forall x, (2 <= length (enc_num x))%nat).
    { intros [n|b]; cbn [enc_num].
      - destruct (n <? 256); [cbn; lia|]. destruct (n <? 65536); cbn [length]; rewrite length_le_bytes; lia.
      - cbn [length]. unfold be_bytes. rewrite rev_length, length_le_bytes. lia. }
    pose proof (En (d_ts d)). pose proof (En (d_val d)).
    unfold enc_item4, enc_str4. cbv zeta. repeat (rewrite app_length || cbn [length]).
    destruct (N.of_nat (length (d_name d)) <? 256); cbn [length]; lia.
  Qed.

  (* the body, without PROTO and FRAME *)
  Lemma run_body4 ds :
    forallb dp_ok ds = true ->
    forall b, R (8 * length ds + 5) vm0 (body4 ds) b = RDone (VList (map item_val ds)).
  Proof.
    intros Hok b. unfold body4. cbn [app].
    replace (8 * length ds + 5)%nat with (S (S (8 * length ds + 3))) by lia.
    rewrite run_step.
    match goal with |- context [step pf false ?m 93 ?s] => change (step pf false m 93 s) with (SNext (push (VList []) m) s) end.
    cbv beta iota. unfold push, vm0. cbn [stk memo].
    destruct (run_memoize (8 * length ds + 3) [] [] (VList [])
                (match ds with [] => [] | [d] => enc_item4 d ++ [97] | _ :: _ :: _ => 40 :: enc_items4 ds ++ [101] end ++ [46]) false)
      as [m0 ->].
    destruct ds as [|d [|d2 ds]].
    - cbn [app length Nat.mul Nat.add]. reflexivity.
    - cbn [forallb] in Hok. apply andb_true_iff in Hok as [Hd _].
      rewrite <- app_assoc. cbn [length].
      replace (8 * 1 + 3)%nat with (8 + 3)%nat by lia.
      destruct (run_enc_item4 3 [VList []] m0 d ([97] ++ [46]) false Hd) as [m1 ->].
      reflexivity.
    - remember (d :: d2 :: ds) as dl eqn:Edl.
      cbn [app]. rewrite <- app_assoc.
      replace (8 * length dl + 3)%nat with (S (8 * length dl + 2)) by lia.
      rewrite run_step.
      match goal with |- context [step pf false ?m 40 ?s] => change (step pf false m 40 s) with (SNext (push VMark m) s) end.
      cbv beta iota. unfold push. cbn [stk memo].
      destruct (run_enc_items4 dl 2 [VMark; VList []] m0 ([101] ++ [46]) false Hok) as [m1 E].
      rewrite E. replace (match dl with [] => false | _ :: _ => false end) with false by (destruct dl; reflexivity).
      cbn [app]. rewrite run_step.
      assert (Hsm : split_mark (rev (map item_val dl) ++ [VMark; VList []]) [] = Some (map item_val dl, [VList []])).
      { rewrite (split_mark_rev (map item_val dl) [VList []] []); [rewrite app_nil_r; reflexivity|].
        intros v Hv. apply in_map_iff in Hv as [x [<- _]]. discriminate. }
      change (step pf false {| stk := rev (map item_val dl) ++ [VMark; VList []]; memo := m1 |} 101 [46])
        with (match split_mark (rev (map item_val dl) ++ [VMark; VList []]) [] with
              | Some (items, VList xs :: r) =>
                  SNext (set_stk (VList (xs ++ items) :: r) {| stk := rev (map item_val dl) ++ [VMark; VList []]; memo := m1 |}) [46]
              | _ => SFail RErr
              end).
      rewrite Hsm. reflexivity.
  Qed.

  Lemma length_body4 ds : (8 * length ds + 3 <= length (body4 ds))%nat.
  Proof.
    unfold body4. rewrite !app_length. destruct ds as [|d [|d2 ds]].
    - cbn [length]. lia.
    - pose proof (length_enc_items4 [d]) as L. cbn [enc_items4] in L. rewrite app_nil_r in L.
      rewrite app_length. cbn [length] in *. lia.
    - pose proof (length_enc_items4 (d :: d2 :: ds)) as L. rewrite !app_length. cbn [length] in *. lia.
  Qed.

  Theorem unpickle_py_dumps4 ds :
    forallb dp_ok ds = true ->
    unpickle pf false (py_dumps4 ds) = RDone (VList (map item_val ds)).
  Proof.
    intros Hok. unfold unpickle, py_dumps4. cbv zeta.
    pose proof (length_body4 ds) as Lb.
    destruct (N.of_nat (length (body4 ds)) <? 4) eqn:E.
    - (* no frame *)
      cbn [app].
      assert (HK : R (S (8 * length ds + 5)) vm0 (128 :: 4 :: body4 ds) true = RDone (VList (map item_val ds))).
      { rewrite run_step. change (step pf false vm0 128 ?s) with (SNext vm0 (tl s)). cbv beta iota. cbn [tl].
        apply run_body4. exact Hok. }
      rewrite (run_more pf false (S (8 * length ds + 5))); [exact HK | rewrite HK; discriminate |].
      cbn [length]. lia.
    - cbn [app].
      assert (HK : R (S (S (8 * length ds + 5))) vm0 (128 :: 4 :: 149 :: le_bytes 8 (N.of_nat (length (body4 ds))) ++ body4 ds) true
                   = RDone (VList (map item_val ds))).
      { rewrite run_step. change (step pf false vm0 128 ?s) with (SNext vm0 (tl s)). cbv beta iota. cbn [tl].
        rewrite run_step.
        change (step pf false vm0 149 (le_bytes 8 (N.of_nat (length (body4 ds))) ++ body4 ds))
          with (with_take 8 (le_bytes 8 (N.of_nat (length (body4 ds))) ++ body4 ds) (fun _ r => SNext vm0 r)).
        unfold with_take. rewrite take_le_bytes. apply run_body4. exact Hok. }
      rewrite (run_more pf false (S (S (8 * length ds + 5)))); [exact HK | rewrite HK; discriminate |].
      cbn [length]. rewrite app_length, length_le_bytes. lia.
  Qed.
End Steps4.

(* ---------- a connection mixing protocols ---------- *)
Section Conn4.
  Variable pf : bytes -> option N.
  Variable fmt6 fmt0 : N -> bytes.

  Definition frame_ok4 (pd : N * list pydp) : Prop :=
    forallb dp_ok (snd pd) = true /\ 3 * N.of_nat (length (snd pd)) + 1 < 4294967296 /\
    N.of_nat (length (payload pd)) <= max_payload.

  Lemma check_protocol_payload pd rest : check_protocol (payload pd ++ rest) = true.
  Proof.
    unfold payload. destruct (fst pd =? 4).
    - unfold py_dumps4. cbv zeta. destruct (N.of_nat (length (body4 (snd pd))) <? 4); reflexivity.
    - destruct (fst pd =? 1); reflexivity.
  Qed.

  Lemma unpickle_payload pd : frame_ok4 pd -> unpickle pf false (payload pd) = RDone (VList (map item_val (snd pd))).
  Proof.
    intros [Hok [Hn _]]. unfold payload. destruct (fst pd =? 4).
    - apply unpickle_py_dumps4. exact Hok.
    - destruct (fst pd =? 1); [apply unpickle_py_dumps1 | apply unpickle_py_dumps]; assumption.
  Qed.

  Lemma handle_frame4 f pd rest :
    frame_ok4 pd ->
    handle_stream pf fmt6 fmt0 (S f) (frame_of (payload pd) ++ rest)
    = let (evs, fn) := handle_stream pf fmt6 fmt0 f rest in
      (map (fun d => EvLine (line_of fmt6 fmt0 d)) (snd pd) ++ evs, fn).
  Proof.
    intros Hf. pose proof Hf as [Hok [Hn Hmax]]. unfold frame_of.
    rewrite <- (app_assoc (be_bytes 4 (N.of_nat (length (payload pd)))) (payload pd) rest).
    set (p := payload pd) in *.
    cbn [handle_stream].
    assert (Hne : exists c r, be_bytes 4 (N.of_nat (length p)) ++ p ++ rest = c :: r).
    { unfold be_bytes. cbn [le_bytes rev app]. rewrite <- ?app_assoc. cbn [app]. eexists _, _. reflexivity. }
    destruct Hne as [c0 [r0 E0]]. rewrite E0, <- E0.
    assert (Ht : take 4 (be_bytes 4 (N.of_nat (length p)) ++ p ++ rest) = Some (be_bytes 4 (N.of_nat (length p)), p ++ rest)).
    { replace 4%nat with (length (be_bytes 4 (N.of_nat (length p)))) at 1
        by (unfold be_bytes; rewrite rev_length; apply length_le_bytes).
      apply take_app. }
    rewrite Ht. cbv zeta. rewrite be_num_be_bytes.
    change (256 ^ N.of_nat 4) with 4294967296.
    unfold max_payload in *. rewrite N.mod_small by lia.
    replace (524288000 <? N.of_nat (length p)) with false by lia.
    unfold p. rewrite check_protocol_payload. cbn [negb]. rewrite take_n_app.
    rewrite (unpickle_payload pd Hf).
    destruct (handle_stream pf fmt6 fmt0 f rest) as [evs fn].
    rewrite map_map. f_equal. f_equal. apply map_ext. intros d. apply handle_item_val.
  Qed.

  Theorem handle_frames4 (pss : list (N * list pydp)) : forall f,
    Forall frame_ok4 pss -> (length pss < f)%nat ->
    handle_stream pf fmt6 fmt0 f (concat (map (fun pd => frame_of (payload pd)) pss))
    = (concat (map (fun pd => map (fun d => EvLine (line_of fmt6 fmt0 d)) (snd pd)) pss), FinOk).
  Proof.
    induction pss as [|pd pss IH]; intros f Hall Hf.
    - destruct f; [lia|]. reflexivity.
    - destruct f as [|f]; [cbn in Hf; lia|].
      inversion Hall as [|? ? H1 H2]; subst. cbn [map concat].
      rewrite (handle_frame4 f pd _ H1).
      rewrite (IH f H2 ltac:(cbn [length] in Hf; lia)). reflexivity.
  Qed.

  Theorem handle_conn_frames4 (pss : list (N * list pydp)) :
    Forall frame_ok4 pss ->
    handle_conn pf fmt6 fmt0 (concat (map (fun pd => frame_of (payload pd)) pss))
    = (concat (map (fun pd => map (fun d => EvLine (line_of fmt6 fmt0 d)) (snd pd)) pss), FinOk).
  Proof.
    intros Hall. unfold handle_conn. apply handle_frames4; [exact Hall|].
    assert (G : forall l : list (N * list pydp),
               (length l <= length (concat (map (fun pd => frame_of (payload pd)) l)))%nat).
    { induction l as [|x l IHl]; cbn [map concat length]; [lia|].
      rewrite app_length. unfold frame_of at 1. rewrite app_length. unfold be_bytes. rewrite rev_length, length_le_bytes. lia. }
    specialize (G pss). lia.
  Qed.
End Conn4.

(* ---------- a connection mixing all five protocols ---------- *)
From CRNG Require Import Proofs.PickleIn0.
Section ConnAll.
  Variable pf : bytes -> option N.
  Variable frepr : N -> bytes.
  Hypothesis pf_repr : forall b, pf (frepr b) = Some b.
  Hypothesis repr_line : forall b, ~ In 10 (frepr b) /\ ~ In 13 (frepr b).
  Variable fmt6 fmt0 : N -> bytes.

  Definition frame_okr (pd : N * list pydp) : Prop :=
    if fst pd =? 0 then frame_ok0 frepr (snd pd) else frame_ok4 pd.

  Lemma handle_framer f pd rest :
    frame_okr pd ->
    handle_stream pf fmt6 fmt0 (S f) (frame_of (payload_r frepr pd) ++ rest)
    = let (evs, fn) := handle_stream pf fmt6 fmt0 f rest in
      (map (fun d => EvLine (line_of fmt6 fmt0 d)) (snd pd) ++ evs, fn).
  Proof.
    unfold frame_okr, payload_r. destruct (fst pd =? 0); intros H.
    - apply (handle_frame0 pf frepr pf_repr repr_line fmt6 fmt0 f (snd pd) rest H).
    - apply (handle_frame4 pf fmt6 fmt0 f pd rest H).
  Qed.

  Theorem handle_conn_frames_all (pss : list (N * list pydp)) :
    Forall frame_okr pss ->
    handle_conn pf fmt6 fmt0 (concat (map (fun pd => frame_of (payload_r frepr pd)) pss))
    = (concat (map (fun pd => map (fun d => EvLine (line_of fmt6 fmt0 d)) (snd pd)) pss), FinOk).
  Proof.
    intros Hall. unfold handle_conn.
    assert (G : forall l : list (N * list pydp),
               (length l <= length (concat (map (fun pd => frame_of (payload_r frepr pd)) l)))%nat).
    { induction l as [|x l IHl]; cbn [map concat length]; [lia|].
      rewrite app_length. unfold frame_of at 1. rewrite app_length. unfold be_bytes. rewrite rev_length, length_le_bytes. lia. }
    assert (K : forall (l : list (N * list pydp)) f, Forall frame_okr l -> (length l < f)%nat ->
               handle_stream pf fmt6 fmt0 f (concat (map (fun pd => frame_of (payload_r frepr pd)) l))
               = (concat (map (fun pd => map (fun d => EvLine (line_of fmt6 fmt0 d)) (snd pd)) l), FinOk)).
    { induction l as [|pd l IH]; intros f Hl Hf.
      - destruct f; [lia|]. reflexivity.
      - destruct f as [|f]; [cbn in Hf; lia|].
        inversion Hl as [|? ? H1 H2]; subst. cbn [map concat].
        rewrite (handle_framer f pd _ H1). rewrite (IH f H2 ltac:(cbn [length] in Hf; lia)). reflexivity. }
    apply K; [exact Hall|]. specialize (G pss). lia.
  Qed.
End ConnAll.
