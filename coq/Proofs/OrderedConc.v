(* C19, concurrency: the acceptor hist_ok (Check/C19check.v) never rejects a history of the model.
   Model of the locked section of validate.Ordered: calls run atomically in some global order sigma
   (any interleaving of the threads' program orders); each is accepted iff its timestamp exceeds every
   timestamp accepted before for its name.  For every sigma, the per-thread histories that the dispatchers
   observe pass every condition hist_ok tests. *)
From CRNG Require Import Base.ListX Base.Bytes Lib.Regex Model.Table Proofs.OrderedProofs Check.Common Check.TableCheck Check.C19check.
From Coq Require Import ZifyN ZifyNat ZifyBool.
Local Open Scope N_scope.

Definition gev : Type := nat * (bytes * N).            (* thread, (name, timestamp) *)

(* the calls in the order the locked sections ran, each with its index in its own thread *)
Fixpoint annot (sigma : list gev) (acc : list (bytes * N)) (cnt : nat -> nat) : list ccall :=
  match sigma with
  | [] => []
  | (g, (n, t)) :: sigma' =>
      let ok := maxts acc n <? t in
      (g, cnt g, (n, t, ok)) ::
      annot sigma' (if ok then (n, t) :: acc else acc) (fun x => if Nat.eqb x g then S (cnt g) else cnt x)
  end.

(* ---- call_ok only looks at which calls are in the list ---- *)
Lemma call_ok_ext cs cs' c : (forall x, In x cs <-> In x cs') -> call_ok cs c = call_ok cs' c.
Proof.
  intros H. unfold call_ok. destruct c as [[g i] [[n t] a]]. destruct a.
  - f_equal. apply eq_true_iff_eq. rewrite !forallb_forall. split; intros F x Hx; apply F; apply H; exact Hx.
  - f_equal. apply eq_true_iff_eq. rewrite !existsb_exists. split; intros [x [Hx Fx]]; exists x; (split; [apply H; exact Hx | exact Fx]).
Qed.

(* ---- the invariant along sigma ---- *)
Definition acc_sound (L : list ccall) (acc : list (bytes * N)) : Prop :=
  (forall g i n t, In (g, i, (n, t, true)) L -> In (n, t) acc /\ 0 < t) /\
  (forall n t, In (n, t) acc -> exists g i, In (g, i, (n, t, true)) L).

Definition idx_bound (L : list ccall) (cnt : nat -> nat) : Prop :=
  forall g i c, In (g, i, c) L -> (i < cnt g)%nat.

Definition all_ok (L : list ccall) : Prop := forall c, In c L -> call_ok L c = true.

Lemma maxts_ge acc n t : In (n, t) acc -> t <= maxts acc n.
Proof.
  induction acc as [|[n' t'] acc IH]; cbn [maxts In]; [intros []|].
  intros [H|H].
  - inversion H; subst. rewrite beqb_refl. lia.
  - destruct (beqb n n'); [specialize (IH H); lia | exact (IH H)].
Qed.

Lemma maxts_attained acc n : 0 < maxts acc n -> In (n, maxts acc n) acc.
Proof.
  induction acc as [|[n' t'] acc IH]; cbn [maxts In]; [lia|].
  destruct (beqb n n') eqn:E.
  - apply beqb_eq in E. subst n'. intros H.
    destruct (N.max_spec t' (maxts acc n)) as [[Hlt ->]|[Hle ->]].
    + right. apply IH. lia.
    + left. reflexivity.
  - intros H. right. apply IH. exact H.
Qed.

(* adding one call at the end *)
Lemma call_ok_snoc_old L y c :
  call_ok L c = true ->
  (match c, y with
   | (g, i, (n, t, true)), (g', i', (n', t', true)) =>
       beqb n n' = true -> (g = g' -> (i < i')%nat /\ t < t') /\ (g <> g' -> t <> t')
   | _, _ => True
   end) ->
  call_ok (L ++ [y]) c = true.
Proof.
  intros H Hy. unfold call_ok in *. destruct c as [[g i] [[n t] a]]. destruct a.
  - apply andb_true_iff in H as [H0 H1]. apply andb_true_iff. split; [exact H0|].
    rewrite forallb_app. apply andb_true_iff. split; [exact H1|].
    cbn [forallb]. rewrite andb_true_r.
    destruct y as [[g' i'] [[n' t'] a']]. destruct a'; [|reflexivity].
    destruct (beqb n n') eqn:En; [|reflexivity].
    cbn [andb].
    destruct (Nat.eqb g g' && Nat.eqb i i') eqn:Esame.
    + reflexivity.
    + cbn [negb]. specialize (Hy eq_refl) as [Hs Hd].
      destruct (Nat.eqb g g') eqn:Eg.
      * apply Nat.eqb_eq in Eg. destruct (Hs Eg) as [Hi Ht].
        replace (Nat.ltb i' i) with false by (symmetry; apply Nat.ltb_ge; lia). lia.
      * apply Nat.eqb_neq in Eg. specialize (Hd Eg). lia.
  - apply orb_true_iff in H as [H|H]; apply orb_true_iff; [left; exact H|right].
    rewrite existsb_app. apply orb_true_iff. left. exact H.
Qed.

Lemma step_inv L acc cnt g n t :
  acc_sound L acc -> idx_bound L cnt -> all_ok L ->
  let ok := maxts acc n <? t in
  let y := (g, cnt g, (n, t, ok)) in
  acc_sound (L ++ [y]) (if ok then (n, t) :: acc else acc) /\
  idx_bound (L ++ [y]) (fun x => if Nat.eqb x g then S (cnt g) else cnt x) /\
  all_ok (L ++ [y]).
Proof.
  intros [A1 A2] B G. cbv zeta.
  destruct (maxts acc n <? t) eqn:Eok.
  - (* accepted *)
    assert (Hlt : maxts acc n < t) by lia.
    split; [|split].
    + split.
      * intros g0 i0 n0 t0 Hin. apply in_app_or in Hin as [Hin|[Hin|[]]].
        -- destruct (A1 _ _ _ _ Hin) as [Ha Hp]. split; [right; exact Ha | exact Hp].
        -- inversion Hin; subst. split; [left; reflexivity | lia].
      * intros n0 t0 [Hin|Hin].
        -- inversion Hin; subst. exists g, (cnt g). apply in_or_app. right. left. reflexivity.
        -- destruct (A2 _ _ Hin) as [g0 [i0 H0]]. exists g0, i0. apply in_or_app. left. exact H0.
    + intros g0 i0 c0 Hin. apply in_app_or in Hin as [Hin|[Hin|[]]].
      * specialize (B _ _ _ Hin). destruct (Nat.eqb g0 g) eqn:E; [apply Nat.eqb_eq in E; subst; lia | exact B].
      * inversion Hin; subst. rewrite Nat.eqb_refl. lia.
    + intros c Hin. apply in_app_or in Hin as [Hin|[Hin|[]]].
      * (* an old call against the new accepted one *)
        apply call_ok_snoc_old; [apply G; exact Hin|].
        destruct c as [[g0 i0] [[n0 t0] a0]]. destruct a0; [|exact I].
        intros En. apply beqb_eq in En. subst n0.
        destruct (A1 _ _ _ _ Hin) as [Ha _]. pose proof (maxts_ge _ _ _ Ha) as Hge.
        split.
        -- intros ->. split; [exact (B _ _ _ Hin) | lia].
        -- intros _. lia.
      * (* the new accepted call against everybody *)
        subst c. unfold call_ok. apply andb_true_iff. split; [lia|].
        apply forallb_forall. intros [[g' i'] [[n' t'] a']] Hx.
        destruct a'; [|reflexivity]. destruct (beqb n n') eqn:En; [|reflexivity]. cbn [andb].
        apply beqb_eq in En. subst n'.
        apply in_app_or in Hx as [Hx|[Hx|[]]].
        -- destruct (A1 _ _ _ _ Hx) as [Ha _]. pose proof (maxts_ge _ _ _ Ha) as Hge.
           pose proof (B _ _ _ Hx) as Hb.
           destruct (Nat.eqb g g' && Nat.eqb (cnt g) i') eqn:Es; [reflexivity|]. cbn [negb].
           destruct (Nat.eqb g g') eqn:Eg.
           ++ apply Nat.eqb_eq in Eg. subst g'.
              replace (Nat.ltb i' (cnt g)) with true by (symmetry; apply Nat.ltb_lt; exact Hb). lia.
           ++ lia.
        -- inversion Hx; subst. rewrite !Nat.eqb_refl. reflexivity.
  - (* rejected *)
    assert (Hge : t <= maxts acc n) by lia.
    split; [|split].
    + split.
      * intros g0 i0 n0 t0 Hin. apply in_app_or in Hin as [Hin|[Hin|[]]]; [exact (A1 _ _ _ _ Hin) | inversion Hin].
      * intros n0 t0 Hin. destruct (A2 _ _ Hin) as [g0 [i0 H0]]. exists g0, i0. apply in_or_app. left. exact H0.
    + intros g0 i0 c0 Hin. apply in_app_or in Hin as [Hin|[Hin|[]]].
      * specialize (B _ _ _ Hin). destruct (Nat.eqb g0 g) eqn:E; [apply Nat.eqb_eq in E; subst; lia | exact B].
      * inversion Hin; subst. rewrite Nat.eqb_refl. lia.
    + intros c Hin. apply in_app_or in Hin as [Hin|[Hin|[]]].
      * apply call_ok_snoc_old; [apply G; exact Hin|].
        destruct c as [[g0 i0] [[n0 t0] a0]]. destruct a0; exact I.
      * subst c. unfold call_ok. apply orb_true_iff.
        destruct (N.eq_dec t 0) as [->|Hnz]; [left; reflexivity | right].
        assert (Hpos : 0 < maxts acc n) by lia.
        pose proof (maxts_attained acc n Hpos) as Hatt.
        destruct (A2 _ _ Hatt) as [g' [i' H']].
        apply existsb_exists. exists (g', i', (n, maxts acc n, true)). split.
        -- apply in_or_app. left. exact H'.
        -- cbn [andb]. rewrite beqb_refl. cbn [andb].
           apply andb_true_iff. split; [lia|].
           destruct (Nat.eqb g g') eqn:Eg; [|reflexivity].
           apply Nat.eqb_eq in Eg. subst g'. pose proof (B _ _ _ H') as Hb.
           cbn [andb]. replace (Nat.ltb (cnt g) i') with false by (symmetry; apply Nat.ltb_ge; lia). reflexivity.
Qed.

Lemma annot_inv sigma : forall L acc cnt,
  acc_sound L acc -> idx_bound L cnt -> all_ok L ->
  all_ok (L ++ annot sigma acc cnt).
Proof.
  induction sigma as [|[g [n t]] sigma IH]; intros L acc cnt A B G; cbn [annot].
  - rewrite app_nil_r. exact G.
  - destruct (step_inv L acc cnt g n t A B G) as [A' [B' G']]. cbv zeta in A', B', G'.
    change (L ++ (g, cnt g, (n, t, maxts acc n <? t)) :: annot sigma (if maxts acc n <? t then (n, t) :: acc else acc)
                   (fun x => if Nat.eqb x g then S (cnt g) else cnt x))
      with (L ++ [(g, cnt g, (n, t, maxts acc n <? t))] ++ annot sigma (if maxts acc n <? t then (n, t) :: acc else acc)
                   (fun x => if Nat.eqb x g then S (cnt g) else cnt x)).
    rewrite app_assoc. apply IH; assumption.
Qed.

(* every call of every interleaving passes the acceptor's test against all the calls *)
Theorem interleaving_ok sigma : all_ok (annot sigma [] (fun _ => O)).
Proof.
  apply (annot_inv sigma [] [] (fun _ => O)).
  - split; [intros ? ? ? ? [] | intros ? ? []].
  - intros ? ? ? [].
  - intros ? [].
Qed.

(* ---- what the dispatchers see: one history per thread ---- *)
Definition in_thread (g : nat) (x : ccall) : bool := Nat.eqb (fst (fst x)) g.
Definition thread_calls (L : list ccall) (g : nat) : list call := map (fun x : ccall => snd x) (filter (in_thread g) L).
Definition history (L : list ccall) (T : nat) : list (list call) := map (thread_calls L) (seq 0 T).

Lemma in_index_from {A} (l : list A) : forall k i x, In (i, x) (index_from k l) <-> (k <= i)%nat /\ nth_error l (i - k) = Some x.
Proof.
  induction l as [|y l IH]; intros k i x; cbn [index_from In].
  - split; [intros [] | intros [_ H]; destruct (i - k)%nat; discriminate].
  - rewrite IH. split.
    + intros [E|[H1 H2]].
      * inversion E; subst. split; [lia|]. rewrite Nat.sub_diag. reflexivity.
      * split; [lia|]. replace (i - k)%nat with (S (i - S k)) by lia. exact H2.
    + intros [H1 H2]. destruct (Nat.eq_dec i k) as [->|Hne].
      * rewrite Nat.sub_diag in H2. inversion H2. left. reflexivity.
      * right. split; [lia|]. replace (i - k)%nat with (S (i - S k)) in H2 by lia. exact H2.
Qed.

Lemma in_coords h g i c : In (g, i, c) (coords h) <-> exists th, nth_error h g = Some th /\ nth_error th i = Some c.
Proof.
  unfold coords. rewrite in_flat_map. split.
  - intros [[g' th] [Hg Hin]]. apply in_index_from in Hg as [_ Hg]. rewrite Nat.sub_0_r in Hg.
    cbn [fst snd] in Hin. apply in_map_iff in Hin as [[i' c'] [E Hi]]. cbn [fst snd] in E. inversion E; subst.
    apply in_index_from in Hi as [_ Hi]. rewrite Nat.sub_0_r in Hi. exists th. auto.
  - intros [th [Hg Hi]]. exists (g, th). split.
    + apply in_index_from. split; [lia|]. rewrite Nat.sub_0_r. exact Hg.
    + cbn [fst snd]. apply in_map_iff. exists (i, c). split; [reflexivity|].
      apply in_index_from. split; [lia|]. rewrite Nat.sub_0_r. exact Hi.
Qed.

(* annot numbers each thread's calls consecutively *)
Lemma annot_indices sigma : forall acc cnt g,
  map (fun x : ccall => snd (fst x)) (filter (in_thread g) (annot sigma acc cnt))
  = seq (cnt g) (length (filter (in_thread g) (annot sigma acc cnt))).
Proof.
  induction sigma as [|[g0 [n t]] sigma IH]; intros acc cnt g; cbn [annot filter]; [reflexivity|].
  destruct (in_thread g (g0, cnt g0, (n, t, maxts acc n <? t))) eqn:E; unfold in_thread in E; cbn [fst] in E.
  - apply Nat.eqb_eq in E. subst g0. cbn [map length seq snd fst]. f_equal.
    rewrite IH. rewrite Nat.eqb_refl. reflexivity.
  - rewrite IH. rewrite Nat.eqb_sym, E. reflexivity.
Qed.

Lemma annot_threads sigma : forall acc cnt g i c, In (g, i, c) (annot sigma acc cnt) -> exists e, In e sigma /\ fst e = g.
Proof.
  induction sigma as [|[g0 [n t]] sigma IH]; intros acc cnt g i c H; cbn [annot] in H; [destruct H|].
  destruct H as [H|H].
  - inversion H; subst. eexists. split; [left; reflexivity | reflexivity].
  - destruct (IH _ _ _ _ _ H) as [e [He Hg]]. exists e. split; [right; exact He | exact Hg].
Qed.

Lemma nth_filter_index (L : list ccall) g base :
  map (fun x : ccall => snd (fst x)) (filter (in_thread g) L) = seq base (length (filter (in_thread g) L)) ->
  forall i c, In (g, i, c) L <-> (base <= i)%nat /\ nth_error (thread_calls L g) (i - base) = Some c.
Proof.
  unfold thread_calls. induction L as [|x L IH] in base |- *; cbn [filter]; intros Hs i c.
  - split; [intros [] | intros [_ H]; destruct (i - base)%nat; discriminate].
  - destruct (in_thread g x) eqn:E.
    + cbn [map length seq] in Hs. inversion Hs as [[Hx Hrest]].
      destruct x as [[gx ix] cx]. unfold in_thread in E. cbn [fst snd] in *. apply Nat.eqb_eq in E. subst gx ix.
      cbn [In map nth_error]. rewrite (IH (S base) Hrest). split.
      * intros [H|[H1 H2]].
        -- inversion H; subst. split; [lia|]. rewrite Nat.sub_diag. reflexivity.
        -- split; [lia|]. replace (i - base)%nat with (S (i - S base)) by lia. exact H2.
      * intros [H1 H2]. destruct (Nat.eq_dec i base) as [->|Hne].
        -- rewrite Nat.sub_diag in H2. inversion H2. left. reflexivity.
        -- right. split; [lia|]. replace (i - base)%nat with (S (i - S base)) in H2 by lia. exact H2.
    + cbn [In]. rewrite (IH base Hs). split; [|tauto].
      intros [H|H]; [|exact H]. subst x. unfold in_thread in E. cbn [fst] in E. rewrite Nat.eqb_refl in E. discriminate.
Qed.

Lemma nth_error_seq_ n : forall base i, (i < n)%nat -> nth_error (seq base n) i = Some (base + i)%nat.
Proof.
  induction n as [|n IH]; intros base i H; [lia|]. destruct i; cbn [seq nth_error]; [f_equal; lia|].
  rewrite IH by lia. f_equal. lia.
Qed.

(* The theorem: for every global order of the locked sections (every interleaving of any number of
   dispatchers, any names, any timestamps), the per-thread histories pass the acceptor's test call by call. *)
Theorem hist_ok_accepts_every_interleaving (sigma : list gev) (T : nat) :
  (forall e, In e sigma -> (fst e < T)%nat) ->
  let h := history (annot sigma [] (fun _ => O)) T in
  forallb (call_ok (coords h)) (coords h) = true.
Proof.
  intros HT. cbv zeta. set (L := annot sigma [] (fun _ => O)).
  assert (Hsame : forall x, In x (coords (history L T)) <-> In x L).
  { intros [[g i] c]. rewrite in_coords. unfold history.
    pose proof (nth_filter_index L g 0 (annot_indices sigma [] (fun _ => O) g) i c) as HI.
    rewrite Nat.sub_0_r in HI. split.
    - intros [th [Hg Hi]]. apply HI. split; [lia|].
      assert (g < T)%nat.
      { assert (Hl : (g < length (map (thread_calls L) (seq 0 T)))%nat) by (apply nth_error_Some; congruence).
        rewrite map_length, seq_length in Hl. exact Hl. }
      rewrite nth_error_map in Hg. rewrite nth_error_seq_ in Hg by lia. cbn in Hg. inversion Hg; subst th. exact Hi.
    - intros Hin. destruct (annot_threads _ _ _ _ _ _ Hin) as [e [He Hg]]. specialize (HT e He). rewrite Hg in HT.
      exists (thread_calls L g). split.
      + rewrite nth_error_map, nth_error_seq_ by lia. reflexivity.
      + apply HI. exact Hin. }
  apply forallb_forall. intros x Hx.
  rewrite (call_ok_ext _ L x Hsame). apply interleaving_ok. apply Hsame. exact Hx.
Qed.
