(* C17: the shard of a tagged series does not depend on the order of its tags. *)
From CRNG Require Import Base.ListX Base.Bytes Lib.Fnv Model.GrafanaNet.
From Coq Require Import Permutation ZifyN ZifyNat ZifyBool.
Ltac Zify.zify_post_hook ::= Z.div_mod_to_equations.
Local Open Scope N_scope.

Definition hsum (l : list bytes) : N := fold_right (fun part acc => (fnv32a part + acc) mod 4294967296) 0 l.

Lemma hsum_perm l l' : Permutation l l' -> hsum l = hsum l'.
Proof.
  induction 1 as [|x l l' _ IH|x y l|l l' l'' _ IH1 _ IH2]; cbn [hsum fold_right] in *.
  - reflexivity.
  - fold (hsum l) (hsum l') in *. rewrite IH. reflexivity.
  - fold (hsum l). rewrite !N.add_mod_idemp_r by lia. f_equal. lia.
  - congruence.
Qed.

Definition no_sep (s : bytes) : Prop := ~ In 59 s.

Lemma split_on_nosep s : no_sep s -> split_on 59 s = [s].
Proof.
  induction s as [|x s IH]; intros H; cbn [split_on]; [reflexivity|].
  replace (x =? 59) with false by (symmetry; apply N.eqb_neq; intros ->; apply H; left; reflexivity).
  rewrite IH by (intros Hin; apply H; right; exact Hin). reflexivity.
Qed.

Lemma split_on_app s rest : no_sep s -> split_on 59 (s ++ 59 :: rest) = s :: split_on 59 rest.
Proof.
  induction s as [|x s IH]; intros H; cbn [app split_on].
  - rewrite N.eqb_refl. reflexivity.
  - replace (x =? 59) with false by (symmetry; apply N.eqb_neq; intros ->; apply H; left; reflexivity).
    rewrite IH by (intros Hin; apply H; right; exact Hin). reflexivity.
Qed.

Lemma split_on_join l : l <> [] -> Forall no_sep l -> split_on 59 (join [59] l) = l.
Proof.
  induction l as [|x l IH]; intros Hne Hall; [contradiction|].
  inversion Hall as [|? ? Hx Hl]; subst.
  destruct l as [|y l'].
  - cbn [join]. apply split_on_nosep. exact Hx.
  - change (join [59] (x :: y :: l')) with (x ++ [59] ++ join [59] (y :: l')). cbn [app].
    rewrite split_on_app by exact Hx. rewrite IH; [reflexivity | discriminate | exact Hl].
Qed.

Theorem series_hash_key name tags :
  no_sep name -> Forall no_sep tags -> series_hash (join [59] (name :: tags)) = hsum (name :: tags).
Proof.
  intros Hn Ht. unfold series_hash. rewrite split_on_join; [reflexivity | discriminate | constructor; assumption].
Qed.

(* the same series, its tags listed in any order, is handled by the same worker *)
Theorem shard_tag_order conc name tags tags' :
  no_sep name -> Forall no_sep tags -> Permutation tags tags' ->
  shard_of conc (join [59] (name :: tags)) = shard_of conc (join [59] (name :: tags')).
Proof.
  intros Hn Ht Hp. unfold shard_of.
  assert (Ht' : Forall no_sep tags') by (apply (Permutation_Forall Hp); exact Ht).
  rewrite !series_hash_key by assumption. f_equal. apply hsum_perm. constructor. exact Hp.
Qed.

(* an untagged name: the plain fnv32a hash, as before the repair *)
Lemma fnv32a_bound s : fnv32a s < 4294967296.
Proof.
  unfold fnv32a. rewrite <- fold_left_rev_right. generalize (rev s). intros l.
  induction l as [|x l IH]; cbn [fold_right]; [lia|].
  change 4294967295 with (N.ones 32). rewrite N.land_ones. apply N.mod_lt. discriminate.
Qed.

Theorem shard_untagged conc name : no_sep name -> shard_of conc name = fnv32a name mod conc.
Proof.
  intros H. unfold shard_of, series_hash. rewrite split_on_nosep by exact H. cbn [fold_right].
  rewrite N.add_0_r. rewrite (N.mod_small (fnv32a name) 4294967296) by apply fnv32a_bound. reflexivity.
Qed.
