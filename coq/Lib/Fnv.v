(* hash/fnv New64a / New32a *)
From CRNG Require Import Base.Bytes.

Definition fnv64a (s : bytes) : N :=
  fold_left (fun h b => N.land (N.lxor h b * 1099511628211) 18446744073709551615) s 14695981039346656037.

Definition fnv32a (s : bytes) : N :=
  fold_left (fun h b => N.land (N.lxor h b * 16777619) 4294967295) s 2166136261.

Example fnv64a_a : fnv64a [97] = 12638187200555641996. Proof. vm_compute. reflexivity. Qed.
Example fnv32a_a : fnv32a [97] = 3826002220. Proof. vm_compute. reflexivity. Qed.
