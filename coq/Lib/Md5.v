(* RFC 1321 MD5 over byte lists.  Executable stand-in for crypto/md5; the
   theorems of C15 take the position function as a parameter, this engine is
   what the correspondence check runs (and is itself compared with Go's md5
   through route.computeRingPosition on every run). *)
From CRNG Require Import Base.Bytes.

Definition M32 : N := 4294967296.
Definition w32 (x : N) : N := N.land x 4294967295.
Definition not32 (x : N) : N := 4294967295 - x.
Definition rotl32 (x c : N) : N := N.lor (w32 (N.shiftl x c)) (N.shiftr x (32 - c)).

Definition md5_K : list N := [3614090360; 3905402710; 606105819; 3250441966; 4118548399; 1200080426; 2821735955; 4249261313; 1770035416; 2336552879; 4294925233; 2304563134; 1804603682; 4254626195; 2792965006; 1236535329; 4129170786; 3225465664; 643717713; 3921069994; 3593408605; 38016083; 3634488961; 3889429448; 568446438; 3275163606; 4107603335; 1163531501; 2850285829; 4243563512; 1735328473; 2368359562; 4294588738; 2272392833; 1839030562; 4259657740; 2763975236; 1272893353; 4139469664; 3200236656; 681279174; 3936430074; 3572445317; 76029189; 3654602809; 3873151461; 530742520; 3299628645; 4096336452; 1126891415; 2878612391; 4237533241; 1700485571; 2399980690; 4293915773; 2240044497; 1873313359; 4264355552; 2734768916; 1309151649; 4149444226; 3174756917; 718787259; 3951481745].
Definition md5_S : list N := [7; 12; 17; 22; 7; 12; 17; 22; 7; 12; 17; 22; 7; 12; 17; 22; 5; 9; 14; 20; 5; 9; 14; 20; 5; 9; 14; 20; 5; 9; 14; 20; 4; 11; 16; 23; 4; 11; 16; 23; 4; 11; 16; 23; 4; 11; 16; 23; 6; 10; 15; 21; 6; 10; 15; 21; 6; 10; 15; 21; 6; 10; 15; 21].

Definition le32 (b0 b1 b2 b3 : N) : N :=
  b0 + N.shiftl b1 8 + N.shiftl b2 16 + N.shiftl b3 24.

Fixpoint words_le (fuel : nat) (s : bytes) : list N :=
  match fuel with
  | O => []
  | S f => match s with
           | b0 :: b1 :: b2 :: b3 :: s' => le32 b0 b1 b2 b3 :: words_le f s'
           | _ => []
           end
  end.

Definition bytes_le (n : nat) (x : N) : bytes :=
  map (fun i => N.land (N.shiftr x (8 * N.of_nat i)) 255) (seq 0 n).

Definition md5_pad (msg : bytes) : bytes :=
  let len := length msg in
  let zeros := ((55 + 64 - (len mod 64)) mod 64)%nat in
  msg ++ [128] ++ repeat 0 zeros ++ bytes_le 8 (8 * N.of_nat len).

Definition md5_round (i : nat) (st : N * N * N * N) (m : list N) : N * N * N * N :=
  let '(a, b, c, d) := st in
  let '(f, g) :=
    match (i / 16)%nat with
    | 0%nat => (N.lor (N.land b c) (N.land (not32 b) d), i)
    | 1%nat => (N.lor (N.land d b) (N.land (not32 d) c), ((5 * i + 1) mod 16)%nat)
    | 2%nat => (N.lxor (N.lxor b c) d, ((3 * i + 5) mod 16)%nat)
    | _ => (N.lxor c (N.lor b (not32 d)), ((7 * i) mod 16)%nat)
    end in
  let f' := w32 (f + a + nth i md5_K 0 + nth g m 0) in
  (d, w32 (b + rotl32 f' (nth i md5_S 0)), b, c).

Definition md5_block (st : N * N * N * N) (m : list N) : N * N * N * N :=
  let '(a0, b0, c0, d0) := st in
  let '(a, b, c, d) := fold_left (fun s i => md5_round i s m) (seq 0 64) st in
  (w32 (a0 + a), w32 (b0 + b), w32 (c0 + c), w32 (d0 + d)).

Fixpoint md5_blocks (fuel : nat) (st : N * N * N * N) (ws : list N) : N * N * N * N :=
  match fuel with
  | O => st
  | S f => match ws with
           | [] => st
           | _ => md5_blocks f (md5_block st (firstn 16 ws)) (skipn 16 ws)
           end
  end.

Definition md5 (msg : bytes) : bytes :=
  let p := md5_pad msg in
  let ws := words_le (length p) p in
  let '(a, b, c, d) := md5_blocks (S (length ws)) (1732584193, 4023233417, 2562383102, 271733878) ws in
  bytes_le 4 a ++ bytes_le 4 b ++ bytes_le 4 c ++ bytes_le 4 d.

(* route.computeRingPosition: first two digest bytes, big endian *)
Definition md5_pos (key : bytes) : N :=
  match md5 key with
  | b0 :: b1 :: _ => b0 * 256 + b1
  | _ => 0
  end.

Example md5_empty : md5 [] = [212;29;140;217;143;0;178;4;233;128;9;152;236;248;66;126].
Proof. vm_compute. reflexivity. Qed.
Example md5_abc : md5 [97;98;99] = [144;1;80;152;60;210;79;176;214;150;63;125;40;225;127;114].
Proof. vm_compute. reflexivity. Qed.
