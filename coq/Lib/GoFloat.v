(* binary64 values for executing the aggregation model: Coq's primitive floats
   (kernel primitives, IEEE 754 binary64, round-to-nearest-even), conversion
   from the bit pattern the harness reports, and Go's "%f" (six decimals,
   correctly rounded on the exact value, as strconv does). *)
From Coq Require Import Floats ZArith List.
From CRNG Require Import Base.Bytes Base.Decimal.
Import ListNotations.

Definition float_of_bits (b : Z) : float :=
  let sign := Z.odd (Z.shiftr b 63) in
  let ex := Z.land (Z.shiftr b 52) 2047 in
  let man := Z.land b 4503599627370495 in
  if (ex =? 0)%Z then
    match man with
    | Zpos p => SF2Prim (S754_finite sign p (-1074))
    | _ => SF2Prim (S754_zero sign)
    end
  else if (ex =? 2047)%Z then
    if (man =? 0)%Z then SF2Prim (S754_infinity sign) else nan
  else
    match (man + 4503599627370496)%Z with
    | Zpos p => SF2Prim (S754_finite sign p (ex - 1075))
    | _ => nan
    end.

(* |x| * 10^6 rounded half-even to an integer, for finite x = m * 2^e *)
Definition scaled6 (m : positive) (e : Z) : Z :=
  let n := (Zpos m * 1000000)%Z in
  if (0 <=? e)%Z then (n * 2 ^ e)%Z
  else
    let d := (2 ^ (- e))%Z in
    let q := (n / d)%Z in
    let r := (n mod d)%Z in
    if (2 * r <? d)%Z then q
    else if (d <? 2 * r)%Z then (q + 1)%Z
    else if Z.even q then q else (q + 1)%Z.

Fixpoint pad6 (s : bytes) (n : nat) : bytes :=
  match n with O => s | S n' => if Nat.ltb (length s) 6 then pad6 (48%N :: s) n' else s end.

Definition format_f6 (x : float) : bytes :=
  match Prim2SF x with
  | S754_nan => [78; 97; 78]%N
  | S754_infinity s => (if s then [45; 73; 110; 102] else [43; 73; 110; 102])%N
  | S754_zero s => ((if s then [45] else []) ++ [48; 46; 48; 48; 48; 48; 48; 48])%N
  | S754_finite s m e =>
      let v := scaled6 m e in
      ((if s then [45] else []) ++ Z_to_dec (v / 1000000) ++ [46] ++ pad6 (Z_to_dec (v mod 1000000)) 6)%N
  end.

(* |x| rounded half-even to an integer, for finite x = m * 2^e; Go's "%.0f" *)
Definition scaled0 (m : positive) (e : Z) : Z :=
  if (0 <=? e)%Z then (Zpos m * 2 ^ e)%Z
  else
    let d := (2 ^ (- e))%Z in
    let q := (Zpos m / d)%Z in
    let r := (Zpos m mod d)%Z in
    if (2 * r <? d)%Z then q
    else if (d <? 2 * r)%Z then (q + 1)%Z
    else if Z.even q then q else (q + 1)%Z.

Definition format_f0 (x : float) : bytes :=
  match Prim2SF x with
  | S754_nan => [78; 97; 78]%N
  | S754_infinity s => (if s then [45; 73; 110; 102] else [43; 73; 110; 102])%N
  | S754_zero s => ((if s then [45] else []) ++ [48])%N
  | S754_finite s m e => ((if s then [45] else []) ++ Z_to_dec (scaled0 m e))%N
  end.

Example fmt0_1 : format_f0 (float_of_bits 4612811918334230528) = [50]%N.  (* 2.5 -> "2" *)
Proof. vm_compute. reflexivity. Qed.
Example fmt0_2 : format_f0 (float_of_bits 4615063718147915776) = [52]%N.  (* 3.5 -> "4" *)
Proof. vm_compute. reflexivity. Qed.

Definition float_of_N (n : N) : float := of_uint63 (Uint63.of_Z (Z.of_N n)).

Example fmt1 : format_f6 (float_of_bits 4609434218613702656) = [49;46;53;48;48;48;48;48]%N.  (* 1.5 *)
Proof. vm_compute. reflexivity. Qed.
Example fmt2 : format_f6 (PrimFloat.div (float_of_N 5) (float_of_N 3)) = [49;46;54;54;54;54;54;55]%N.
Proof. vm_compute. reflexivity. Qed.
Example fmt3 : format_f6 (PrimFloat.sqrt (float_of_N 2)) = [49;46;52;49;52;50;49;52]%N.
Proof. vm_compute. reflexivity. Qed.
Example fmt4 : format_f6 (PrimFloat.opp (PrimFloat.div (float_of_N 1) (float_of_N 4000000))) = [45;48;46;48;48;48;48;48;48]%N.
Proof. vm_compute. reflexivity. Qed.
