(* unicode/utf8 as Go implements it: the width of the well-formed encoding at
   the head of a byte string (0 = not well formed, what DecodeRune reports as
   RuneError with width 1), validity of a whole string, and EncodeRune. *)
From CRNG Require Import Base.Bytes.
Local Open Scope N_scope.

Definition is_cont (c : N) : bool := (128 <=? c) && (c <=? 191).

(* Go's acceptRanges table: second-byte range depends on the lead byte *)
Definition utf8_width (s : bytes) : nat :=
  match s with
  | [] => O
  | c :: t =>
      if c <? 128 then 1%nat
      else if c <? 194 then O
      else if c <=? 223 then
        match t with c1 :: _ => if is_cont c1 then 2%nat else O | _ => O end
      else if c <=? 239 then
        match t with
        | c1 :: c2 :: _ =>
            let lo := if c =? 224 then 160 else 128 in
            let hi := if c =? 237 then 159 else 191 in
            if (lo <=? c1) && (c1 <=? hi) && is_cont c2 then 3%nat else O
        | _ => O
        end
      else if c <=? 244 then
        match t with
        | c1 :: c2 :: c3 :: _ =>
            let lo := if c =? 240 then 144 else 128 in
            let hi := if c =? 244 then 143 else 191 in
            if (lo <=? c1) && (c1 <=? hi) && is_cont c2 && is_cont c3 then 4%nat else O
        | _ => O
        end
      else O
  end.

Fixpoint utf8_valid_go (fuel : nat) (s : bytes) : bool :=
  match fuel with
  | O => match s with [] => true | _ => false end
  | S f =>
      match s with
      | [] => true
      | _ => match utf8_width s with
             | O => false
             | w => utf8_valid_go f (skipn w s)
             end
      end
  end.
Definition utf8_valid (s : bytes) : bool := utf8_valid_go (length s) s.

(* utf8.EncodeRune (surrogates and out-of-range code points become U+FFFD) *)
Definition utf8_encode (r : N) : bytes :=
  if r <? 128 then [r]
  else if r <? 2048 then [192 + r / 64; 128 + r mod 64]
  else if ((55296 <=? r) && (r <=? 57343)) || (1114111 <? r) then [239; 191; 189]
  else if r <? 65536 then [224 + r / 4096; 128 + (r / 64) mod 64; 128 + r mod 64]
  else [240 + r / 262144; 128 + (r / 4096) mod 64; 128 + (r / 64) mod 64; 128 + r mod 64].
