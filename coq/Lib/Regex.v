(* Executable stand-in for Go's regexp (RE2 syntax, leftmost-first
   semantics) on an AST subset: a backtracking rmatcher with captures whose
   priority order is RE2's.  It is an *engine*: theorems take the regex
   functions as Section variables; this is what the correspondence check
   runs, and every generated (pattern, input) pair is also sent to Go's
   regexp so that a disagreement is attributed to the engine.  Limits:
   ASCII inputs, star/plus bodies never nullable, no named groups. *)
From CRNG Require Import Base.Bytes.

Inductive re :=
| Eps
| Chr (c : N)
| Any                                   (* .  (anything but \n) *)
| Cls (neg : bool) (rs : list (N * N))  (* [a-z0-9], [^.] ... *)
| Cat (a b : re)
| Alt (a b : re)
| Star (greedy : bool) (a : re)
| Plus (greedy : bool) (a : re)
| Opt (greedy : bool) (a : re)
| Rep (greedy : bool) (lo : nat) (hi : option nat) (a : re)   (* {lo,hi} / {lo,} *)
| Grp (i : nat) (a : re)                (* capturing group number i >= 1 *)
| Bol | Eol.

Definition caps := list (option (nat * nat)).

Fixpoint set_cap (i : nat) (v : nat * nat) (c : caps) : caps :=
  match i, c with
  | O, [] => [Some v]
  | O, _ :: c' => Some v :: c'
  | S i', [] => None :: set_cap i' v []
  | S i', x :: c' => x :: set_cap i' v c'
  end.

Definition get_cap (i : nat) (c : caps) : option (nat * nat) := nth i c None.

Fixpoint in_ranges (x : N) (rs : list (N * N)) : bool :=
  match rs with
  | [] => false
  | (lo, hi) :: rs' => ((lo <=? x) && (x <=? hi)) || in_ranges x rs'
  end.

Definition cont := nat -> bytes -> caps -> option caps.
Definition rmatcher := nat -> bytes -> caps -> cont -> option caps.

Definition orelse (a b : option caps) : option caps :=
  match a with Some _ => a | None => b end.

Fixpoint star_loop (g : bool) (ma : rmatcher) (fuel : nat) (pos : nat) (s : bytes) (c : caps) (k : cont) : option caps :=
  match fuel with
  | O => k pos s c
  | S f =>
      let more := ma pos s c (fun p s' c' => if Nat.ltb pos p then star_loop g ma f p s' c' k else None) in
      if g then orelse more (k pos s c) else orelse (k pos s c) more
  end.

Fixpoint rep_min (ma : rmatcher) (n : nat) (pos : nat) (s : bytes) (c : caps) (k : cont) : option caps :=
  match n with
  | O => k pos s c
  | S n' => ma pos s c (fun p s' c' => rep_min ma n' p s' c' k)
  end.

Fixpoint rep_opt (g : bool) (ma : rmatcher) (n : nat) (pos : nat) (s : bytes) (c : caps) (k : cont) : option caps :=
  match n with
  | O => k pos s c
  | S n' =>
      let more := ma pos s c (fun p s' c' => rep_opt g ma n' p s' c' k) in
      if g then orelse more (k pos s c) else orelse (k pos s c) more
  end.

Fixpoint mt (r : re) (pos : nat) (s : bytes) (c : caps) (k : cont) {struct r} : option caps :=
  match r with
  | Eps => k pos s c
  | Chr x => match s with y :: s' => if x =? y then k (S pos) s' c else None | [] => None end
  | Any => match s with y :: s' => if y =? 10 then None else k (S pos) s' c | [] => None end
  | Cls neg rs => match s with
                  | y :: s' => if xorb neg (in_ranges y rs) then k (S pos) s' c else None
                  | [] => None
                  end
  | Cat a b => mt a pos s c (fun p s' c' => mt b p s' c' k)
  | Alt a b => orelse (mt a pos s c k) (mt b pos s c k)
  | Star g a => star_loop g (mt a) (S (length s)) pos s c k
  | Plus g a => mt a pos s c (fun p s' c' => star_loop g (mt a) (S (length s')) p s' c' k)
  | Opt g a => rep_opt g (mt a) 1 pos s c k
  | Rep g lo hi a =>
      rep_min (mt a) lo pos s c
        (fun p s' c' => match hi with
                        | Some h => rep_opt g (mt a) (h - lo) p s' c' k
                        | None => star_loop g (mt a) (S (length s')) p s' c' k
                        end)
  | Grp i a => mt a pos s c (fun p s' c' => k p s' (set_cap i (pos, p) c'))
  | Bol => if Nat.eqb pos 0 then k pos s c else None
  | Eol => match s with [] => k pos s c | _ => None end
  end.

(* leftmost match starting at or after position [pos] (the text before is
   context: ^ only matches at absolute position 0) *)
Fixpoint find_from (r : re) (fuel : nat) (pos : nat) (s : bytes) : option caps :=
  match mt r pos s [] (fun p _ c => Some (set_cap 0 (pos, p) c)) with
  | Some c => Some c
  | None => match fuel, s with
            | S f, _ :: s' => find_from r f (S pos) s'
            | _, _ => None
            end
  end.

(* Regexp.FindSubmatchIndex *)
Definition re_find (r : re) (s : bytes) : option caps := find_from r (length s) 0 s.
(* Regexp.Match *)
Definition re_search (r : re) (s : bytes) : bool :=
  match re_find r s with Some _ => true | None => false end.

Definition sub_bytes (s : bytes) (a b : nat) : bytes := firstn (b - a) (skipn a s).

(* ---- Regexp.Expand -------------------------------------------------- *)
Definition is_word (c : N) : bool :=
  ((48 <=? c) && (c <=? 57)) || ((65 <=? c) && (c <=? 90)) || ((97 <=? c) && (c <=? 122)) || (c =? 95).

Fixpoint span_word (s : bytes) : bytes * bytes :=
  match s with
  | c :: s' => if is_word c then let '(a, b) := span_word s' in (c :: a, b) else ([], s)
  | [] => ([], [])
  end.

(* the group number of an all-digit name without leading zero, None otherwise *)
Fixpoint name_num (name : bytes) (acc : N) : option N :=
  match name with
  | [] => Some acc
  | c :: n' => if ((48 <=? c) && (c <=? 57)) && (acc <? 100000000)
               then name_num n' (acc * 10 + (c - 48)) else None
  end.
Definition group_num (name : bytes) : option N :=
  match name with
  | 48 :: _ :: _ => None
  | _ => name_num name 0
  end.

(* extract: (name, rest) or None when malformed *)
Definition extract (t : bytes) : option (bytes * bytes) :=
  match t with
  | [] => None
  | 123 :: t' =>
      let '(name, rest) := span_word t' in
      match name, rest with
      | [], _ => None
      | _, 125 :: rest' => Some (name, rest')
      | _, _ => None
      end
  | _ =>
      let '(name, rest) := span_word t in
      match name with [] => None | _ => Some (name, rest) end
  end.

Fixpoint expand_tpl (fuel : nat) (t : bytes) (src : bytes) (c : caps) : bytes :=
  match fuel with
  | O => t
  | S f =>
      match cut 36 t with
      | (_, None) => t
      | (before, Some after) =>
          match after with
          | 36 :: after' => before ++ [36] ++ expand_tpl f after' src c
          | _ =>
              match extract after with
              | None => before ++ [36] ++ expand_tpl f after src c
              | Some (name, rest) =>
                  before ++
                  (match group_num name with
                   | Some n => match get_cap (N.to_nat n) c with
                               | Some (a, b) => sub_bytes src a b
                               | None => []
                               end
                   | None => []          (* named groups are not generated *)
                   end) ++ expand_tpl f rest src c
              end
          end
      end
  end.

Definition re_expand (tpl src : bytes) (c : caps) : bytes := expand_tpl (S (length tpl)) tpl src c.

(* ---- Regexp.ReplaceAll (ASCII: rune width 1) -------------------------- *)
Fixpoint replace_all_loop (r : re) (fuel : nat) (src : bytes) (tpl : bytes)
         (last_end search_pos : nat) : bytes :=
  match fuel with
  | O => skipn last_end src
  | S f =>
      if Nat.ltb (length src) search_pos then skipn last_end src else
      match find_from r (length src - search_pos) search_pos (skipn search_pos src) with
      | None => skipn last_end src
      | Some c =>
          match get_cap 0 c with
          | None => skipn last_end src
          | Some (a0, a1) =>
              let gap := sub_bytes src last_end a0 in
              let ins := if Nat.ltb last_end a1 || Nat.eqb a0 0 then re_expand tpl src c else [] in
              let width := if Nat.ltb search_pos (length src) then 1%nat else 0%nat in
              let sp := if Nat.ltb a1 (search_pos + width) then (search_pos + width)%nat
                        else if Nat.ltb a1 (search_pos + 1) then S search_pos
                        else a1 in
              gap ++ ins ++ replace_all_loop r f src tpl a1 sp
          end
      end
  end.

Definition re_replace_all (r : re) (src tpl : bytes) : bytes :=
  replace_all_loop r (S (S (length src))) src tpl 0 0.
