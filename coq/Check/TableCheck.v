(* Correspondence checker for everything that goes through table.Dispatch /
   DispatchAggregate (C01 C02 C03-sites C04 C11 C19): replays the observed
   events through Model.Table and compares the projected observables. *)
From Coq Require Import Floats.
From CRNG Require Import Base.ListX Base.Bytes Base.Decimal Lib.Regex Lib.GoFloat Model.Fields Model.Validate Model.Matcher Model.Rewriter
  Model.Hashing Model.Table Model.Aggregator Check.Common.

Record ev_obs := {
  eo_cnt : list Z;                          (* in, invalid, out_of_order, blacklist, unroutable deltas *)
  eo_bad : option (bytes * bytes * (N * N));(* key, text, (reason class, argument) *)
  eo_newbad : nat;
  eo_routes : list (nat * bytes);
  eo_dests : list (nat * nat * Z);
  eo_aggs : list Z;
  eo_val_ok : bool; eo_ts_ok : bool; eo_ts : N;
  eo_bits : Z }.                             (* float64 bits of the value token (oracle) *)

Inductive event := ELine (b : bytes) | EAgg (b : bytes) | ENow (now : N) | ETick (now : N)
  | EModRoute (ri : nat) (m : matcher).   (* Table.UpdateRoute at run time: route ri gets the filter m (in place, nothing republished) *)


Definition verr_code (e : verr) : N * N :=
  match e with
  | ErrWrongNumFields => (1, 0) | ErrValNotNumber => (2, 0) | ErrTsNotTs => (3, 0) | ErrEmptyNode => (4, 0)
  | ErrEmptyKey => (5, 0) | ErrMixEqualsTypes => (6, 0) | ErrNoUnit => (7, 0) | ErrNoMType => (8, 0)
  | ErrNotEnoughTags => (9, 0) | ErrInvalidTagAppendix => (10, 0)
  | ErrNullAt p => (11, N.of_nat p) | ErrIllegalChar c => (12, c) | ErrNonAscii c => (13, c)
  end.
Definition reason_code (r : bad_reason) : N * N :=
  match r with BadInvalid e => verr_code e | BadOutOfOrder => (20, 0) end.

Definition b2z (b : bool) : Z := if b then 1%Z else 0%Z.

Definition pair_eqb {A B} (ea : A -> A -> bool) (eb : B -> B -> bool) (x y : A * B) : bool :=
  ea (fst x) (fst y) && eb (snd x) (snd y).

Definition count_dest (l : list (nat * nat * bytes)) (r d : nat) : Z :=
  Z.of_nat (length (filter (fun x => Nat.eqb (fst (fst x)) r && Nat.eqb (snd (fst x)) d) l)).

Definition dest_counts (t : table) (l : list (nat * nat * bytes)) : list (nat * nat * Z) :=
  flat_map (fun ri => let r := nth ri (t_routes t) {| r_kind := Other; r_matcher := {| m_prefix := []; m_notPrefix := []; m_sub := []; m_notSub := []; m_regex := None; m_notRegex := None |}; r_dests := [] |} in
                      flat_map (fun di => let c := count_dest l ri di in if (c =? 0)%Z then [] else [(ri, di, c)])
                               (seq 0 (length (r_dests r))))
           (seq 0 (length (t_routes t))).

Definition bit (mask : N) (i : N) : bool := N.testbit mask i.

(* mask bits: 0 counters, 1 bad-metrics report, 2 which routes, 3 line content, 4 destinations, 5 aggregators *)
Definition outcome_ok (mask : N) (t : table) (line : bytes) (o : outcome) (isline : bool) (e : ev_obs) : bool :=
  (negb (bit mask 0) ||
   list_eqb Z.eqb (eo_cnt e) [b2z isline; b2z (o_invalid o); b2z (o_out_of_order o); b2z (o_blacklisted o); b2z (o_unroutable o)])
  && (negb (bit mask 1) ||
      match o_bad o, eo_bad e with
      | Some (k, r), Some (k', msg, rc) =>
          beqb k k' && beqb msg line && N.eqb (fst (reason_code r)) (fst rc)
          && (negb (N.eqb (fst rc) 11) || N.eqb (snd (reason_code r)) (snd rc))
      | None, None => Nat.eqb (eo_newbad e) 0
      | _, _ => false
      end)
  && (negb (bit mask 2) || list_eqb Nat.eqb (map fst (o_routes o)) (map fst (eo_routes e)))
  && (negb (bit mask 3) || list_eqb beqb (map snd (o_routes o)) (map snd (eo_routes e)))
  && (negb (bit mask 4) ||
      list_eqb (pair_eqb (pair_eqb Nat.eqb Nat.eqb) Z.eqb) (dest_counts t (o_dests o)) (eo_dests e))
  && (negb (bit mask 5) ||
      list_eqb Z.eqb (map (fun i => b2z (existsb (Nat.eqb i) (o_agg_consumed o))) (seq 0 (length (t_aggs t)))) (eo_aggs e)).

(* ---- the system: table + aggregators (primitive binary64 floats) ---------- *)
Definition pf_lt (a b : float) : bool := PrimFloat.ltb a b.
Definition S_proc := proc float.
Definition S_step (f : fn) := astep float S_proc (proc_new float f) (proc_add float PrimFloat.add pf_lt)
  (proc_flush float PrimFloat.add PrimFloat.sub PrimFloat.mul PrimFloat.div PrimFloat.sqrt pf_lt float_of_N).

Definition agg_cfg : Type := fn * N * N.       (* function, interval, wait *)
Definition sys_state : Type := omap * list (astate S_proc) * N.    (* order registers, aggregator states, clock *)

Fixpoint update_nth {A} (l : list A) (i : nat) (f : A -> A) : list A :=
  match l, i with
  | [], _ => []
  | x :: l', O => f x :: l'
  | x :: l', S i' => x :: update_nth l' i' f
  end.

(* feed the consumed point to the aggregators that took it *)
Definition feed_aggs (t : table) (cfgs : list agg_cfg) (sts : list (astate S_proc)) (o : outcome) (bits : Z) (ts now : N)
  : list (astate S_proc) :=
  fold_left (fun sts i =>
    match nth_error (t_aggs t) i, nth_error cfgs i with
    | Some a, Some (f, interval, wait) =>
        match match_regex_and_expand (a_matcher a) (o_name o) (a_outfmt a) with
        | Some k => update_nth sts i (fun st => fst (S_step f interval wait st (APoint float k (float_of_bits bits) ts now)))
        | None => sts
        end
    | _, _ => sts
    end) (o_agg_consumed o) sts.

Definition line_of (q : N) (kv : bytes * float) : bytes :=
  fst kv ++ [32] ++ format_f6 (snd kv) ++ [32] ++ N_to_dec q.

(* tick every aggregator: new states and all emitted lines *)
Fixpoint tick_aggs (cfgs : list agg_cfg) (sts : list (astate S_proc)) (now : N) : list (astate S_proc) * list bytes :=
  match cfgs, sts with
  | (f, interval, wait) :: cfgs', st :: sts' =>
      let '(st', out) := S_step f interval wait st (ATick float now) in
      let '(sts'', lines) := tick_aggs cfgs' sts' now in
      (st' :: sts'', flat_map (fun qb => map (line_of (fst qb)) (snd qb)) out ++ lines)
  | _, _ => (sts, [])
  end.

Fixpoint remove_one (x : bytes) (l : list bytes) : option (list bytes) :=
  match l with
  | [] => None
  | y :: l' => if beqb x y then Some l' else option_map (cons y) (remove_one x l')
  end.
Fixpoint perm_eqb (a b : list bytes) : bool :=
  match a with
  | [] => match b with [] => true | _ => false end
  | x :: a' => match remove_one x b with Some b' => perm_eqb a' b' | None => false end
  end.

(* a tick: every emitted line goes through DispatchAggregate; per route the captured lines are compared as a multiset
   (aggregators flush concurrently) *)
Definition tick_ok (mask : N) (t : table) (lines : list bytes) (e : ev_obs) : bool :=
  let outs := map (dispatch_aggregate rx_search (t_routes t)) lines in
  let unroutable := Z.of_nat (length (filter o_unroutable outs)) in
  (negb (bit mask 0) || list_eqb Z.eqb (eo_cnt e) [0; 0; 0; 0; unroutable]%Z)
  && (negb (bit mask 2) ||
      forallb (fun ri => perm_eqb (flat_map (fun o => map snd (filter (fun x => Nat.eqb (fst x) ri) (o_routes o))) outs)
                                  (map snd (filter (fun x => Nat.eqb (fst x) ri) (eo_routes e))))
              (seq 0 (length (t_routes t))))
  && (negb (bit mask 1) || Nat.eqb (eo_newbad e) 0)
  && (negb (bit mask 5) || forallb (fun z => (z =? 0)%Z) (eo_aggs e)).

Fixpoint table_run (mask : N) (t : table) (cfgs : list agg_cfg) (st : sys_state) (evs : list (event * ev_obs)) (i : nat) : option nat :=
  let '(om, sts, now) := st in
  match evs with
  | [] => None
  | (ELine b, e) :: evs' =>
      let '(om', o) := dispatch rx_search t om b (eo_val_ok e) (eo_ts_ok e) (eo_ts e) in
      if outcome_ok mask t b o true e
      then table_run mask t cfgs (om', feed_aggs t cfgs sts o (eo_bits e) (eo_ts e) now, now) evs' (S i) else Some i
  | (EAgg b, e) :: evs' =>
      let o := dispatch_aggregate rx_search (t_routes t) b in
      if outcome_ok mask t b o false e then table_run mask t cfgs st evs' (S i) else Some i
  | (ENow n, _) :: evs' => table_run mask t cfgs (om, sts, n) evs' (S i)
  | (ETick n, e) :: evs' =>
      let '(sts', lines) := tick_aggs cfgs sts n in
      if tick_ok mask t lines e then table_run mask t cfgs (om, sts', n) evs' (S i) else Some i
  | (EModRoute ri m, _) :: evs' => table_run mask (mod_route t ri m) cfgs st evs' (S i)
  end.

Record table_case := { tc_mask : N; tc_table : table; tc_aggcfg : list agg_cfg; tc_events : list (event * ev_obs); tc_mutated : bool;
                        tc_agg_keys : option (list bytes) }.   (* stalled-aggregator runs: series names finally emitted *)

(* series names the aggregations must emit: one per consumed (rewritten) name, plus the warm-up point *)
Fixpoint expected_keys (t : table) (om : omap) (evs : list (event * ev_obs)) : list bytes :=
  match evs with
  | [] => []
  | (ELine b, e) :: evs' =>
      let '(om', o) := dispatch rx_search t om b (eo_val_ok e) (eo_ts_ok e) (eo_ts e) in
      flat_map (fun i => match nth_error (t_aggs t) i with
                         | Some a => match match_regex_and_expand (a_matcher a) (o_name o) (a_outfmt a) with
                                     | Some k => [k] | None => [] end
                         | None => [] end) (o_agg_consumed o)
      ++ expected_keys t om' evs'
  | (EModRoute ri m, _) :: evs' => expected_keys (mod_route t ri m) om evs'
  | _ :: evs' => expected_keys t om evs'
  end.

Definition warm_keys (t : table) : list bytes :=
  flat_map (fun a => if mpre (a_matcher a) [119; 97; 114; 109] then
                       match match_regex_and_expand (a_matcher a) [119; 97; 114; 109] (a_outfmt a) with
                       | Some k => [k] | None => [] end else []) (t_aggs t).

Definition subset (a b : list bytes) : bool := forallb (fun x => existsb (beqb x) b) a.

(* the table model pins every projected observable: a difference is a violation of the property under check *)
Definition table_verdict (c : table_case) : N :=
  if tc_mutated c then 2 else
  match table_run (tc_mask c) (tc_table c) (tc_aggcfg c) ([], map (fun _ => a_init S_proc) (tc_aggcfg c), 0) (tc_events c) 0 with
  | None =>
      match tc_agg_keys c with
      | None => 0
      | Some ks => let ex := expected_keys (tc_table c) [] (tc_events c) in
                   if subset ks ex && subset ex ks then 0 else 2
      end
  | Some _ => 2
  end.

Definition table_first_bad (c : table_case) : option nat :=
  table_run (tc_mask c) (tc_table c) (tc_aggcfg c) ([], map (fun _ => a_init S_proc) (tc_aggcfg c), 0) (tc_events c) 0.

(* what the model expects for event i (diagnostics) *)
Fixpoint table_expected (t : table) (om : omap) (evs : list (event * ev_obs)) : list outcome :=
  match evs with
  | [] => []
  | (ELine b, e) :: evs' =>
      let '(om', o) := dispatch rx_search t om b (eo_val_ok e) (eo_ts_ok e) (eo_ts e) in o :: table_expected t om' evs'
  | (EAgg b, e) :: evs' => dispatch_aggregate rx_search (t_routes t) b :: table_expected t om evs'
  | (EModRoute ri m, _) :: evs' => no_outcome :: table_expected (mod_route t ri m) om evs'
  | _ :: evs' => no_outcome :: table_expected t om evs'
  end.
Definition table_diag (c : table_case) : option (nat * option outcome) :=
  match table_first_bad c with
  | None => None
  | Some i => Some (i, nth_error (table_expected (tc_table c) [] (tc_events c)) i)
  end.
