From CRNG Require Import Base.ListX Base.Bytes Base.Decimal Model.DiskQueue Check.Common.

Definition fsys_eqb (a b : fsys) : bool :=
  list_eqb (fun x y => N.eqb (fst x) (fst y) && beqb (snd x) (snd y)) (f_segs a) (f_segs b)
  && list_eqb (fun x y => N.eqb (fst x) (fst y) && beqb (snd x) (snd y)) (f_bad a) (f_bad b)
  && option_eqb beqb (f_meta a) (f_meta b) && option_eqb beqb (f_tmp a) (f_tmp b).

Definition dout_eqb (a b : dout) : bool :=
  match a, b with
  | OPut, OPut => true
  | OGet x, OGet y => option_eqb beqb x y
  | OTick, OTick => true
  | OReopen _, OReopen _ => true
  | _, _ => false
  end.

(* ---- C09: op by op ---------------------------------------------------------- *)
Record c09_case := {
  q_cfg : cfg; q_ops : list dop;
  q_out : list dout; q_depth : list Z;        (* observed output and Depth() at rest after every op *)
  q_final : fsys }.                           (* directory after the final Close *)

Fixpoint c09_run (c : cfg) (d : dq) (ops : list dop) (outs : list dout) (depths : list Z) : option dq :=
  match ops, outs, depths with
  | [], [], [] => Some d
  | o :: ops', out :: outs', dep :: depths' =>
      match dq_step c d o with
      | (Some d', mout) => if dout_eqb mout out && (depth d' =? dep)%Z then c09_run c d' ops' outs' depths' else None
      | (None, _) => None
      end
  | _, _, _ => None
  end.

Definition c09_verdict (c : c09_case) : N :=
  match dq_open (q_cfg c) fs_empty [] with
  | None => 2
  | Some d0 =>
      match c09_run (q_cfg c) d0 (q_ops c) (q_out c) (q_depth c) with
      | Some d => if fsys_eqb (fs (dq_close d)) (q_final c) then 0 else 2
      | None => 2
      end
  end.

(* ---- C08: every crash point ------------------------------------------------- *)
(* ghost: (messages enqueued so far, handed to the consumer so far, enqueued / consumed at the last completed sync) *)
Definition ghost : Type := nat * nat * nat * nat.

(* the new trace entries of one op, oldest first *)
Definition new_entries (before after : list (N * fsys)) : list (N * fsys) :=
  rev (firstn (length after - length before) after).

(* annotate the crash points of one op with the ghost counters *)
Fixpoint annotate (es : list (N * fsys)) (g : ghost) : list (fsys * ghost) * ghost :=
  match es with
  | [] => ([], g)
  | (l, f) :: es' =>
      let '(p, c, sw, sr) := g in
      let g' := if l =? L_meta_rename then (p, c, p, c) else g in
      let '(r, gl) := annotate es' g' in ((f, g') :: r, gl)
  end.

Fixpoint c08_points (c : cfg) (d : dq) (ops : list dop) (g : ghost) : list (fsys * ghost) :=
  match ops with
  | [] => []
  | o :: ops' =>
      let '(p, k, sw, sr) := g in
      let g1 := match o with
                | Put _ => (S p, k, sw, sr)
                | Get => if ready d then (p, S k, sw, sr) else g
                | _ => g
                end in
      match dq_step c d o with
      | (Some d', _) =>
          let '(pts, g2) := annotate (new_entries (trace d) (trace d')) g1 in
          pts ++ c08_points c d' ops' g2
      | (None, _) => []
      end
  end.

(* distinct consecutive file-system states *)
Fixpoint dedupe (prev : fsys) (l : list (fsys * ghost)) : list (fsys * ghost) :=
  match l with
  | [] => []
  | (f, g) :: l' => if fsys_eqb f prev then
                      (* same files: the crash point carries the later ghost (a later sync may have completed) *)
                      dedupe prev l'
                    else (f, g) :: dedupe f l'
  end.

Fixpoint puts_of (ops : list dop) : list bytes :=
  match ops with [] => [] | Put m :: r => m :: puts_of r | _ :: r => puts_of r end.

(* the recovered run is E[a .. a+len) with  consumed-at-sync <= a <= delivered  and  a+len >= written-at-sync *)
Definition recover_ok (E : list bytes) (g : ghost) (drained : list bytes) : bool :=
  let '(p, k, sw, sr) := g in
  existsb (fun a => list_eqb beqb drained (firstn (length drained) (skipn a (firstn p E)))
                    && Nat.leb (a + length drained) p && Nat.leb sw (a + length drained))
          (seq sr (S (k - sr))).

Record c08_case := {
  k_cfg : cfg; k_ops : list dop;
  k_snaps : list (fsys * list bytes) }.     (* observed: each distinct file-system state and what a queue reopened on it delivers *)

Definition model_drain (c : cfg) (f : fsys) (limit : nat) : option (list bytes) :=
  match dq_open c f [] with
  | Some d => Some (dq_drain c limit d)
  | None => None
  end.

(* all crash points are looked at: a property violation anywhere wins over a mere difference from the model *)
Fixpoint c08_check (c : cfg) (E : list bytes) (limit : nat) (model : list (fsys * ghost)) (obs : list (fsys * list bytes)) : N :=
  match model, obs with
  | [], [] => 0
  | (mf, g) :: model', (ofs, dr) :: obs' =>
      let rest := c08_check c E limit model' obs' in
      if negb (recover_ok E g dr) then 2
      else if rest =? 2 then 2
      else if negb (fsys_eqb mf ofs) then 1
      else match model_drain c mf limit with
           | Some md => if list_eqb beqb md dr then rest else 1
           | None => 1
           end
  | _, _ => 1
  end.

(* the ghost of a state shared by several consecutive crash points: recover_ok must hold for the weakest one;
   dedupe keeps the first, whose sync counters are the smallest *)
Definition c08_verdict (c : c08_case) : N :=
  match dq_open (k_cfg c) fs_empty [] with
  | None => 2
  | Some d0 =>
      let '(p0, g0) := annotate (rev (trace d0)) (O, O, O, O) in
      let pts := (fs_empty, (O, O, O, O)) :: dedupe fs_empty (p0 ++ c08_points (k_cfg c) d0 (k_ops c) g0) in
      c08_check (k_cfg c) (puts_of (k_ops c)) (length (k_ops c) + 5) pts (k_snaps c)
  end.
