From CRNG Require Import Base.ListX Base.Bytes Base.Decimal Model.Config Check.Common.

Definition sb (l : list N) : bytes := l.

(* documented defaults per entry kind (docs/config.md); mandatory settings have no default and are always given *)
Definition S_cache := sb [99;97;99;104;101].                      Definition S_dropRaw := sb [100;114;111;112;82;97;119].
Definition S_not := sb [110;111;116].
Definition S_sslverify := sb [115;115;108;118;101;114;105;102;121]. Definition S_blocking := sb [98;108;111;99;107;105;110;103].
Definition S_concurrency := sb [99;111;110;99;117;114;114;101;110;99;121].
Definition S_bufSize := sb [98;117;102;83;105;122;101].            Definition S_flushMaxNum := sb [102;108;117;115;104;77;97;120;78;117;109].
Definition S_flushMaxWait := sb [102;108;117;115;104;77;97;120;87;97;105;116].
Definition S_timeout := sb [116;105;109;101;111;117;116].          Definition S_orgId := sb [111;114;103;73;100].
Definition S_errBackoffMin := sb [101;114;114;66;97;99;107;111;102;102;77;105;110].
Definition S_errBackoffFactor := sb [101;114;114;66;97;99;107;111;102;102;70;97;99;116;111;114].

Definition defaults_of (kind : N) : list kv :=
  match kind with
  | 1 => matcher_defaults                                                          (* blacklist entry *)
  | 2 => [(S_not, [])]                                                             (* rewriter *)
  | 3 => matcher_defaults ++ [(S_cache, S_true); (S_dropRaw, S_false)]             (* aggregation, command syntax *)
  | 4 => matcher_defaults ++ [(S_cache, S_false); (S_dropRaw, S_false)]            (* aggregation, TOML section (documented exception) *)
  | 5 => matcher_defaults                                                          (* carbon route *)
  | 6 => dest_defaults                                                             (* carbon destination *)
  | 7 => matcher_defaults ++                                                       (* grafanaNet route *)
         [(S_sslverify, S_true); (S_spool, S_false); (S_blocking, S_false); (S_concurrency, N_to_dec 100);
          (S_bufSize, N_to_dec 10000000); (S_flushMaxNum, N_to_dec 5000); (S_flushMaxWait, N_to_dec 500);
          (S_timeout, N_to_dec 10000); (S_orgId, N_to_dec 1); (S_errBackoffMin, N_to_dec 100);
          (S_errBackoffFactor, sb [49;46;53])]
  | _ => []
  end.

(* expected: (kind, options given); observed: the settings of the resulting table entry *)
Definition entry_ok (e : N * list kv) (obs : list kv) : bool :=
  forallb (fun kvp => option_eqb beqb (kv_get obs (fst kvp)) (Some (snd kvp))) (entry (defaults_of (fst e)) (snd e)).

Fixpoint entries_ok (es : list (N * list kv)) (obs : list (list kv)) : bool :=
  match es, obs with
  | [], [] => true
  | e :: es', o :: obs' => entry_ok e o && entries_ok es' obs'
  | _, _ => false
  end.

Definition kvs_eqb (a b : list kv) : bool :=
  forallb (fun kvp => option_eqb beqb (kv_get b (fst kvp)) (Some (snd kvp))) a.

Inductive c20_case :=
| KTable (expected : list (N * list kv)) (observed : list (list kv))
         (dest_tokens : option (list tok)) (observed_dests : list (list kv))     (* the destination part of a command, tokenised *)
| KExpand (vars : list kv) (texts : list (bytes * bytes)).                     (* text, observed result *)

Definition c20_verdict (c : c20_case) : N :=
  match c with
  | KTable es obs toks dobs =>
      if negb (entries_ok es obs) then 2
      else match toks with
           | None => 0
           | Some ts => match read_destinations (S (length ts)) ts with
                        | Some ds => if list_eqb kvs_eqb ds dobs then 0 else 1
                        | None => 1
                        end
           end
  | KExpand vars texts => if forallb (fun p => beqb (expand vars (fst p)) (snd p)) texts then 0 else 2
  end.
