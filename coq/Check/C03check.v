From CRNG Require Import Base.ListX Base.Bytes Lib.Regex Model.Matcher Model.Table Proofs.PrefixSound Check.Common Check.TableCheck.

(* one observed name: (name, (Match, PreMatch), (Go regexp on regex, on notRegex)) *)
Definition m_obs : Type := bytes * (bool * bool) * (bool * bool).

Record matcher_case := {
  mc_m : matcher;
  mc_has_ast : bool;                 (* the ASTs in mc_m are meaningful: validate the engine too *)
  mc_prefix : bytes; mc_notprefix : bytes;      (* observed regexToPrefix results *)
  mc_obs : list m_obs }.

Definition src_is (o : option rx) (r : rx) : bool :=
  match o with Some r' => beqb (rx_src r) (rx_src r') | None => false end.

(* Go's regexp as an oracle for this name *)
Definition oracle (m : matcher) (re nre : bool) : rx -> bytes -> bool :=
  fun r _ => if src_is (m_regex m) r then re else nre.

Definition m_obs_verdict (c : matcher_case) (o : m_obs) : N :=
  let '(name, (omatch, opre), (re, nre)) := o in
  let m := mc_m c in
  let orc := oracle m re nre in
  (* the property: Match is the documented conjunction; PreMatch never rejects an acceptable name *)
  if negb (Bool.eqb (spec_accept orc m name) omatch) then 2
  else if negb opre && spec_accept orc m name then 2
  (* the engine agrees with Go's regexp on this pair (else the case says nothing about /repo) *)
  else if mc_has_ast c &&
          negb (Bool.eqb (match m_regex m with Some r => rx_search r name | None => false end) re
                && Bool.eqb (match m_notRegex m with Some r => rx_search r name | None => false end) nre) then 7
  (* the model: same decisions, same shortcuts *)
  else if negb (Bool.eqb (matcher_match orc m name) omatch && Bool.eqb (pre_match m name) opre) then 1
  else 0.

Fixpoint max_verdict (l : list N) : N :=
  match l with [] => 0 | x :: l' => let y := max_verdict l' in if (x =? 2) || (y =? 2) then 2 else N.max x y end.

Definition matcher_verdict (c : matcher_case) : N :=
  let v := max_verdict (map (m_obs_verdict c) (mc_obs c)) in
  if v =? 0 then
    if beqb (match m_regex (mc_m c) with Some r => regex_to_prefix (rx_src r) | None => [] end) (mc_prefix c)
       && beqb (match m_notRegex (mc_m c) with Some r => regex_to_prefix (rx_src r) | None => [] end) (mc_notprefix c)
    then
      (* the regexes satisfy the side condition of C03_match_is_conjunction: the prefix found in the text is an
         initial part of the prefix the syntax tree forces (Proofs/PrefixSound.v) *)
      if negb (mc_has_ast c) || (opt_prefix_ok (m_regex (mc_m c)) && opt_prefix_ok (m_notRegex (mc_m c))) then 0 else 1
    else 1
  else v.

Inductive c03_case := CM (c : matcher_case) | CT (c : table_case).

Definition c03_verdict (c : c03_case) : N :=
  match c with CM m => matcher_verdict m | CT t => table_verdict t end.
