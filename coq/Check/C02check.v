From CRNG Require Import Base.ListX Base.Bytes Model.Fields Model.Validate Model.Table Check.Common Check.TableCheck.

(* one line: text, observed key, observed error class (0 = valid) with argument, oracle booleans *)
Definition v_obs : Type := bytes * bytes * (N * N) * (bool * bool).

Record validate_case := {
  vc_ll : bytes; vc_lm : bytes;            (* level names as written in the configuration *)
  vc_rejected : bool;                      (* the level names were refused *)
  vc_obs : list v_obs }.

Definition v_obs_ok (ll : level_legacy) (lm : level_m20) (o : v_obs) : bool :=
  let '(line, okey, (ocode, oarg), (vok, tok)) := o in
  match validate_packet line ll lm vok tok with
  | (key, None) => beqb key okey && (ocode =? 0)
  | (key, Some e) => beqb key okey && (fst (verr_code e) =? ocode)
                     && (negb (ocode =? 11) || (snd (verr_code e) =? oarg))
  end.

Definition validate_verdict (c : validate_case) : N :=
  match parse_level_legacy (vc_ll c), parse_level_m20 (vc_lm c) with
  | Some ll, Some lm =>
      if vc_rejected c then 2
      else if forallb (v_obs_ok ll lm) (vc_obs c) then 0 else 2
  | _, _ => if vc_rejected c then 0 else 2
  end.

Inductive c02_case := CV (c : validate_case) | CT2 (c : table_case).
Definition c02_verdict (c : c02_case) : N :=
  match c with CV v => validate_verdict v | CT2 t => table_verdict t end.
