From CRNG Require Import Base.ListX Base.Bytes Model.BufWriter Check.Common.
Local Open Scope nat_scope.

(* ---- scripted writer: op by op against the model --------------------------------------------- *)
Inductive wop := WWrite (p : bytes) | WFlush.
(* observed: for a write (taken, error), for a flush (0, error); Buffered() afterwards *)
Definition wobs : Type := nat * bool * nat.

Fixpoint writer_run (b : bw) (ops : list (wop * wobs)) : option bw :=
  match ops with
  | [] => Some b
  | (WWrite p, (n, e, buffered)) :: r =>
      match bw_write (WFUEL p) b p 0 with
      | Some (b', n', e') =>
          if Nat.eqb n n' && Bool.eqb e e' && Nat.eqb buffered (length (bw_buf b')) then writer_run b' r else None
      | None => None
      end
  | (WFlush, (_, e, buffered)) :: r =>
      let '(b', e') := bw_flush b in
      if Bool.eqb e e' && Nat.eqb buffered (length (bw_buf b')) then writer_run b' r else None
  end.

(* ---- live connection: the acceptor ------------------------------------------------------------ *)
Fixpoint split_nl (s : bytes) (acc : bytes) : list bytes :=      (* pieces between newlines; the last piece is what follows the last newline *)
  match s with
  | [] => [rev_append acc []]
  | c :: s' => if (c =? 10)%N then rev_append acc [] :: split_nl s' [] else split_nl s' (c :: acc)
  end.

(* greedy subsequence test (sent lines are pairwise distinct) *)
Fixpoint is_subseq (l m : list bytes) : bool :=
  match l, m with
  | [], _ => true
  | _ :: _, [] => false
  | x :: l', y :: m' => if beqb x y then is_subseq l' m' else is_subseq l m'
  end.

(* the received stream is whole sent lines, each followed by one newline, in hand-off order, none twice,
   and exactly `drops` of the sent lines are missing *)
Definition stream_ok (sent : list bytes) (received : bytes) (drops : nat) : bool :=
  let pieces := split_nl received [] in
  match rev pieces with
  | [] => false
  | last :: body_rev =>
      let body := rev body_rev in
      match last with [] => true | _ => false end      (* the stream ends right after a newline *)
      && is_subseq body sent
      && Nat.eqb (length body + drops) (length sent)
  end.

Inductive c05_case :=
| KWriter (cap : nat) (script : list wresp) (ops : list (wop * wobs)) (emitted : bytes)
| KLive (sent : list bytes) (received : bytes) (drops : nat).

Definition c05_verdict (c : c05_case) : N :=
  match c with
  | KWriter cap script ops emitted =>
      match writer_run {| bw_cap := cap; bw_buf := []; bw_err := false; bw_out := []; bw_script := script |} ops with
      | Some b => if beqb (bw_out b) emitted then 0%N else 2%N
      | None => 2%N
      end
  | KLive sent received drops => if stream_ok sent received drops then 0%N else 2%N
  end.
