From CRNG Require Import Base.ListX Base.Bytes Lib.Regex Model.Table Check.Common Check.TableCheck.

(* a call: name, timestamp, accepted? *)
Definition call : Type := bytes * N * bool.
Definition ccall : Type := nat * nat * call.        (* thread, index in thread, call *)

Fixpoint index_from {A} (i : nat) (l : list A) : list (nat * A) :=
  match l with [] => [] | x :: l' => (i, x) :: index_from (S i) l' end.

Definition coords (h : list (list call)) : list ccall :=
  flat_map (fun gt => map (fun ic => (fst gt, fst ic, snd ic)) (index_from 0 (snd gt))) (index_from 0 h).

(* necessary conditions for a history of concurrent calls to be a linearizable
   per-name max-register history (every linearizable history satisfies them):
   - an accepted timestamp is positive, and no two accepted calls of one name carry the same timestamp;
   - within one thread, accepted timestamps of a name increase in program order;
   - a rejected call (name, ts) is explained by an accepted call of that name with ts' >= ts
     that does not follow it in its own thread (or ts = 0) *)
Definition call_ok (cs : list ccall) (c : ccall) : bool :=
  let '(g, i, (n, t, a)) := c in
  if a then
    (0 <? t) &&
    forallb (fun c' => let '(g', i', (n', t', a')) := c' in
                       if a' && beqb n n' && negb (Nat.eqb g g' && Nat.eqb i i') then
                         if Nat.eqb g g' then (if Nat.ltb i' i then t' <? t else t <? t') else negb (t =? t')
                       else true) cs
  else
    (t =? 0) ||
    existsb (fun c' => let '(g', i', (n', t', a')) := c' in
                       a' && beqb n n' && (t <=? t') && negb (Nat.eqb g g' && Nat.ltb i i')) cs.

Definition hist_ok (h : list (list call)) (ooo : Z) : bool :=
  let cs := coords h in
  forallb (call_ok cs) cs &&
  (Z.of_nat (length (filter (fun c => negb (snd (snd c))) cs)) =? ooo)%Z.

Inductive c19_case := CSeq (c : table_case) | CConc (h : list (list call)) (ooo : Z).

Definition c19_verdict (c : c19_case) : N :=
  match c with
  | CSeq t => table_verdict t
  | CConc h ooo => if hist_ok h ooo then 0 else 2
  end.
