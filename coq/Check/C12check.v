From CRNG Require Import Base.ListX Base.Bytes Model.Plain Check.Common.

Inductive c12_case :=
| KPlain (script : list rres) (lines : list bytes) (st : N)      (* observed lines and status code *)
| KUdp (body : bytes) (lines : list bytes)
| KUdpBurst (bodies : list bytes) (lines : list bytes)   (* datagrams in arrival order: each is a stream of its own *)
| KAmqp (body : bytes) (lines : list bytes).

Definition status_code (s : status) : N :=
  match s with SOk => 0 | SErr => 1 | STooLong => 2 | SNoProgress => 3 | SBlocked => 9 end.

(* the model pins the processed lines completely *)
Definition c12_verdict (c : c12_case) : N :=
  match c with
  | KPlain script lines st =>
      let '(ml, ms) := plain_fast script in    (* = plain script, Proofs.PlainProofs.plain_fast_eq *)
      if list_eqb beqb ml lines && (status_code ms =? st) then 0 else 2
  | KUdp body lines => if list_eqb beqb (fst (plain_fast [RData body; REof])) lines then 0 else 2
  | KUdpBurst bodies lines =>
      if list_eqb beqb (concat (map (fun body => fst (plain_fast [RData body; REof])) bodies)) lines then 0 else 2
  | KAmqp body lines => if list_eqb beqb (amqp_lines_fast body) lines then 0 else 2
  end.
