From CRNG Require Import Base.ListX Base.Bytes Lib.Fnv Model.GrafanaNet Check.Common.
Local Open Scope nat_scope.

Definition point : Type := bytes * bytes * bytes.          (* name, value text, timestamp text *)
Definition point_eqb (a b : point) : bool :=
  beqb (fst (fst a)) (fst (fst b)) && beqb (snd (fst a)) (snd (fst b)) && beqb (snd a) (snd b).
Definition pname (p : point) : bytes := fst (fst p).

Record c17_case := {
  g_conc : N; g_sent : list point; g_drops : nat;
  g_posts : list (list point * bool);          (* body, acknowledged (2xx)? *)
  g_shutdown : bool; g_returned : bool }.

Fixpoint is_subseq_p (l m : list point) : bool :=
  match l, m with
  | [], _ => true
  | _ :: _, [] => false
  | x :: l', y :: m' => if point_eqb x y then is_subseq_p l' m' else is_subseq_p l m'
  end.

Fixpoint nodup_p (l : list point) : bool :=
  match l with [] => true | x :: l' => negb (existsb (point_eqb x) l') && nodup_p l' end.

Definition shard_of_post (conc : N) (p : list point * bool) : N :=
  match fst p with [] => 0%N | x :: _ => shard_of conc (pname x) end.

(* a failed body is posted again, unchanged, before anything else of its shard *)
Definition same_shard (conc : N) (p q : list point * bool) : bool :=
  N.eqb (shard_of_post conc q) (shard_of_post conc p).

Definition retried (conc : N) (p : list point * bool) (rest : list (list point * bool)) : bool :=
  match find (same_shard conc p) rest with
  | Some q => list_eqb point_eqb (fst q) (fst p)
  | None => false                     (* never retried *)
  end.

Fixpoint retry_ok (conc : N) (posts : list (list point * bool)) : bool :=
  match posts with
  | [] => true
  | p :: rest => (snd p || retried conc p rest) && retry_ok conc rest
  end.

Definition gn_ok (c : c17_case) : bool :=
  let acked := flat_map (fun p : list point * bool => if snd p then fst p else []) (g_posts c) in
  (* shutting down returns *)
  (negb (g_shutdown c) || g_returned c)
  (* every accepted metric is in an acknowledged POST, exactly the dropped ones are missing, nothing invented or repeated *)
  && forallb (fun a => existsb (point_eqb a) (g_sent c)) acked
  && nodup_p acked
  && Nat.eqb (length acked + g_drops c) (length (g_sent c))
  (* the points of one series are acknowledged in the order they were received *)
  && forallb (fun a => is_subseq_p (filter (fun x => beqb (pname x) (pname a)) acked)
                                   (filter (fun x => beqb (pname x) (pname a)) (g_sent c))) acked
  (* one body never mixes shards, and failed bodies are retried unchanged *)
  && forallb (fun p => forallb (fun x => N.eqb (shard_of (g_conc c) (pname x)) (shard_of_post (g_conc c) p)) (fst p)) (g_posts c)
  && retry_ok (g_conc c) (g_posts c).

Definition c17_verdict (c : c17_case) : N := if gn_ok c then 0%N else 2%N.
