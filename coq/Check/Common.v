(* Shared by the per-property correspondence checkers: a verdict is
   0 = implementation agrees with the model on the projected observables,
   1 = it differs from the model but the property's acceptor still holds,
   2 = the property's acceptor rejects the observed behaviour. *)
From CRNG Require Import Base.Bytes.

Fixpoint mismatches_from {A} (f : A -> N) (i : nat) (l : list A) : list (nat * N) :=
  match l with
  | [] => []
  | x :: l' => let v := f x in
               if v =? 0 then mismatches_from f (S i) l' else (i, v) :: mismatches_from f (S i) l'
  end.
Definition mismatches {A} (f : A -> N) (l : list A) : list (nat * N) := mismatches_from f O l.

Fixpoint list_eqb {A} (eqb : A -> A -> bool) (a b : list A) : bool :=
  match a, b with
  | [], [] => true
  | x :: a', y :: b' => eqb x y && list_eqb eqb a' b'
  | _, _ => false
  end.

Lemma list_eqb_eq {A} (eqb : A -> A -> bool) :
  (forall x y, eqb x y = true <-> x = y) -> forall a b, list_eqb eqb a b = true <-> a = b.
Proof.
  intros H a; induction a as [|x a IH]; intros [|y b]; simpl; split; intro E;
    try reflexivity; try discriminate.
  - apply andb_true_iff in E as [E1 E2]. apply H in E1. apply IH in E2. congruence.
  - inversion E; subst. apply andb_true_iff. split; [apply H|apply IH]; reflexivity.
Qed.

Definition option_eqb {A} (eqb : A -> A -> bool) (a b : option A) : bool :=
  match a, b with
  | Some x, Some y => eqb x y
  | None, None => true
  | _, _ => false
  end.
