From CRNG Require Import Base.ListX Base.Bytes Model.Params Check.Common.
Local Open Scope N_scope.

Record c14_sub := { u_cmds : list (param * bool);      (* a modelled command and whether the relay answered ok *)
                    u_crashed : bool }.                (* the child process died / exited *)
Record c14_case := { c_subs : list c14_sub }.

Definition sub_code (u : c14_sub) : N :=
  if u_crashed u then 2
  else if forallb (fun pb => Bool.eqb (accepts (fst pb)) (snd pb)) (u_cmds u) then 0 else 1.

Fixpoint maxN (l : list N) : N := match l with [] => 0 | x :: r => N.max x (maxN r) end.
Definition c14_verdict (c : c14_case) : N := maxN (map sub_code (c_subs c)).
