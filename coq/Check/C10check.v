From Coq Require Import Floats.
From CRNG Require Import Base.ListX Base.Bytes Base.Decimal Lib.Regex Lib.GoFloat Model.Matcher Model.Aggregator Check.Common.

(* the model instantiated with the kernel's binary64 floats *)
Definition pf_lt (a b : float) : bool := PrimFloat.ltb a b.
Definition P_proc := proc float.
Definition P_new (f : fn) := proc_new float f.
Definition P_add := proc_add float PrimFloat.add pf_lt.
Definition P_flush := proc_flush float PrimFloat.add PrimFloat.sub PrimFloat.mul PrimFloat.div PrimFloat.sqrt pf_lt float_of_N.
Definition P_step (f : fn) := astep float P_proc (P_new f) P_add P_flush.

Inductive c10_ev :=
| EvPoint (name : bytes) (bits : Z) (ts : N) (now : N)
| EvTick (now : N).

(* observed per event: emitted lines, TooOld delta, direction=in delta *)
Definition c10_obs : Type := list bytes * Z * Z.

Record c10_case := {
  ca_m : matcher; ca_fun : fn; ca_outfmt : bytes; ca_interval : N; ca_wait : N;
  ca_events : list (c10_ev * c10_obs) }.

Definition line_of (q : N) (kv : bytes * float) : bytes :=
  fst kv ++ [32] ++ format_f6 (snd kv) ++ [32] ++ N_to_dec q.

(* remove one occurrence *)
Fixpoint remove_one (x : bytes) (l : list bytes) : option (list bytes) :=
  match l with
  | [] => None
  | y :: l' => if beqb x y then Some l' else option_map (cons y) (remove_one x l')
  end.
Fixpoint perm_eqb (a b : list bytes) : bool :=
  match a with
  | [] => match b with [] => true | _ => false end
  | x :: a' => match remove_one x b with Some b' => perm_eqb a' b' | None => false end
  end.

(* the emitted lines must be the model's buckets in ascending order, the lines of one bucket in any order *)
Fixpoint out_ok (model : list (N * list (bytes * float))) (obs : list bytes) : bool :=
  match model with
  | [] => match obs with [] => true | _ => false end
  | (q, kvs) :: model' =>
      let n := length kvs in
      perm_eqb (map (line_of q) kvs) (firstn n obs) && out_ok model' (skipn n obs)
  end.

Fixpoint c10_run (c : c10_case) (st : astate P_proc) (evs : list (c10_ev * c10_obs)) : bool :=
  match evs with
  | [] => true
  | (EvPoint name bits ts now, (out, tooold, inn)) :: evs' =>
      let key := if pre_match (ca_m c) name then match_regex_and_expand (ca_m c) name (ca_outfmt c) else None in
      match key with
      | None => (match out with [] => true | _ => false end) && (tooold =? 0)%Z && (inn =? 0)%Z && c10_run c st evs'
      | Some k =>
          let '(st', _) := P_step (ca_fun c) (ca_interval c) (ca_wait c) st (APoint float k (float_of_bits bits) ts now) in
          (match out with [] => true | _ => false end) && (inn =? 1)%Z
          && (tooold =? Z.of_N (a_too_old P_proc st' - a_too_old P_proc st))%Z && c10_run c st' evs'
      end
  | (EvTick now, (out, tooold, inn)) :: evs' =>
      let '(st', emitted) := P_step (ca_fun c) (ca_interval c) (ca_wait c) st (ATick float now) in
      out_ok emitted out && (tooold =? 0)%Z && (inn =? 0)%Z && c10_run c st' evs'
  end.

(* the model pins the emitted text (up to the order inside one bucket) *)
Definition c10_verdict (c : c10_case) : N :=
  if c10_run c (a_init P_proc) (ca_events c) then 0 else 2.
