From CRNG Require Import Base.ListX Base.Bytes Base.Decimal Lib.GoFloat Model.PickleVM Model.PickleIn Model.PyPickle Check.Common.
Local Open Scope N_scope.

Record c13_case := {
  p_stream : bytes;                               (* all the bytes of the connection, in order *)
  p_floats : list (bytes * option N);             (* oracle: strconv.ParseFloat on FLOAT opcode arguments *)
  p_events : list ev;                             (* observed Dispatch / IncNumInvalid calls, in order *)
  p_err : bool;                                   (* Handle returned an error *)
  p_spec : option (list ev * bool);               (* from the Python-level data: expected events, connection must end with an error *)
  p_prefix : list ev;                             (* corrupted streams: events of the intact frames before the corruption *)
  p_py : list (N * list pydp * bytes);            (* protocol, Python-level datapoints, what pickle.dumps made of them: validates Model/PyPickle.v *)
  p_reprs : list (N * bytes)                      (* oracle: repr() of the floats of the protocol-0 frames, by bits *)
}.

Definition ev_eqb (a b : ev) : bool :=
  match a, b with
  | EvLine x, EvLine y => beqb x y
  | EvInvalid, EvInvalid => true
  | _, _ => false
  end.

Definition fmt6 (b : N) : bytes := format_f6 (float_of_bits (Z.of_N b)).
Definition fmt0 (b : N) : bytes := format_f0 (float_of_bits (Z.of_N b)).
Definition pf_of (tbl : list (bytes * option N)) (t : bytes) : option N :=
  match find (fun e => beqb (fst e) t) tbl with Some e => snd e | None => None end.

Definition model_of (c : c13_case) : list ev * fin := handle_conn (pf_of (p_floats c)) fmt6 fmt0 (p_stream c).

Fixpoint is_prefix (a b : list ev) : bool :=
  match a, b with
  | [], _ => true
  | x :: a', y :: b' => ev_eqb x y && is_prefix a' b'
  | _ :: _, [] => false
  end.

Definition frepr_of (tbl : list (N * bytes)) (b : N) : bytes :=
  match find (fun e => fst e =? b) tbl with Some e => snd e | None => [] end.

Definition pymodel_ok (c : c13_case) : bool :=
  forallb (fun x => match x with (proto, ds, b) => beqb (payload_rL4 (frepr_of (p_reprs c)) (proto, ds)) b end) (p_py c).

Definition c13_verdict (c : c13_case) : N :=
  if negb (pymodel_ok c) then 7 else
  let spec_ok :=
    match p_spec c with
    | Some (evs, e) => list_eqb ev_eqb evs (p_events c) && Bool.eqb e (p_err c)
    | None => is_prefix (p_prefix c) (p_events c)
    end in
  if negb spec_ok then 2
  else
    match model_of c with
    | (_, FinUnsupported) => 0
    | (evs, fn) =>
        if list_eqb ev_eqb evs (p_events c) && Bool.eqb (match fn with FinErr => true | _ => false end) (p_err c)
        then 0 else 1
    end.
