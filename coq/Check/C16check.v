From CRNG Require Import Base.ListX Base.Bytes Base.Decimal Lib.Regex Model.Fields Model.Matcher Model.PickleVM
  Model.Reencode Check.Common.
Local Open Scope N_scope.

Record c16_line := {
  l_bytes : bytes;
  l_probe : bytes;                    (* generator: the name as Graphite presents it *)
  l_val : option N;                   (* oracle: ParseFloat of the second field *)
  l_match : list bool;                (* oracle: Go regexp, rule i on l_probe *)
  l_frame : option bytes;             (* destination.ParseDataPoint + Pickle *)
  l_py : option (bytes * Z * N);      (* CPython: pickle.loads(frame[4:]) as (name, ts, float bits), None if it is not of that shape *)
  l_md : option mdata;                (* route.parseMetric *)
  l_const_ok : bool                   (* Mtype = gauge, Unit = unknown *)
}.

Record c16_case := {
  k_rules : list rule;
  k_load_ok : bool;
  k_org : Z;
  k_lines : list c16_line;
  k_live : option (bytes * N);        (* bytes received from a pickle-mode destination, bad_pickle counter *)
  k_gn : option (list mdata)          (* points decoded from the grafanaNet POST bodies *)
}.

Definition mdata_eqb (a b : mdata) : bool :=
  beqb (md_name a) (md_name b) && list_eqb beqb (md_tags a) (md_tags b) && (md_val a =? md_val b)
  && (md_time a =? md_time b) && (md_org a =? md_org b)%Z && (md_interval a =? md_interval b)%Z.

Definition pfl (l : c16_line) : bytes -> option N := fun _ => l_val l.

(* the engine agrees with Go's regexp on this probe *)
Definition engine_ok (rs : list rule) (l : c16_line) : bool :=
  list_eqb Bool.eqb (map (fun r => rx_search (r_rx r) (l_probe l)) rs) (l_match l).

(* 0 same bytes, 1 different bytes but decodes to the datapoint, 2 wrong *)
Definition frame_code (l : c16_line) : N :=
  match parse_dp (pfl l) (l_bytes l), l_frame l with
  | None, None => 0
  | Some (n, b, ts), Some fr =>
      match take 4 fr with
      | Some (hdr, body) =>
          if (be_num hdr =? N.of_nat (length body))
             && match unpickle (fun _ => None) true body with
                | RDone (VList [VTuple [VStr n'; VTuple [VInt ts'; VFloat b']]]) =>
                    beqb n n' && (ts' =? Z.of_N ts)%Z && (b' =? b)
                | _ => false
                end
             && match l_py l with
                | Some (n', ts', b') => beqb n n' && (ts' =? Z.of_N ts)%Z && (b' =? b)
                | None => false
                end
          then (if beqb fr (pickle_frame n ts b) then 0 else 1)
          else 2
      | None => 2
      end
  | _, _ => 2
  end.

Definition md_code (c : c16_case) (l : c16_line) : N :=
  if negb (k_load_ok c) then 0 else
  match parse_metric (pfl l) rx_search (k_rules c) (k_org c) (l_bytes l), l_md l with
  | None, None => 0
  | Some m, Some m' => if mdata_eqb m m' && l_const_ok l then 0 else 2
  | _, _ => 2
  end.

Fixpoint maxN (l : list N) : N := match l with [] => 0 | x :: r => N.max x (maxN r) end.

Definition live_code (c : c16_case) : N :=
  match k_live c with
  | None => 0
  | Some (recv, bad) =>
      let ws := map (fun l => pickle_write (pfl l) (l_bytes l)) (k_lines c) in
      if beqb recv (concat (map fst ws)) && (bad =? N.of_nat (length (filter (fun w => snd w) ws))) then 0 else 2
  end.

Fixpoint keep_some {A} (l : list (option A)) : list A :=
  match l with [] => [] | Some x :: r => x :: keep_some r | None :: r => keep_some r end.

Definition gn_code (c : c16_case) : N :=
  match k_gn c with
  | None => 0
  | Some pts =>
      let want := keep_some (map (fun l => parse_metric (pfl l) rx_search (k_rules c) (k_org c) (l_bytes l)) (k_lines c)) in
      if list_eqb mdata_eqb want pts then 0 else 2
  end.

Definition c16_verdict (c : c16_case) : N :=
  if negb (forallb (engine_ok (k_rules c)) (k_lines c)) then 7
  else
    let lc := if Bool.eqb (schemas_ok (k_rules c)) (k_load_ok c) then 0 else 1 in
    maxN (lc :: live_code c :: gn_code c :: map frame_code (k_lines c) ++ map (md_code c) (k_lines c)).

(* what the model says, for the replay file *)
Definition c16_expected (c : c16_case) :=
  (schemas_ok (k_rules c),
   map (fun l => (parse_dp (pfl l) (l_bytes l),
                  parse_metric (pfl l) rx_search (k_rules c) (k_org c) (l_bytes l))) (k_lines c)).
