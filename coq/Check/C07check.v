From CRNG Require Import Base.ListX Base.Bytes Model.Relay Check.Common.
Local Open Scope N_scope.

Record c07_case := {
  q_sent : N; q_missing : N; q_foreign : N; q_backlog : N;
  q_slow : N; q_slowspool : N; q_noconn : N;
  q_log : bytes;                 (* the relay loop's event marks *)
  q_max_us : N; q_bound_us : N }.

(* the property's acceptor: distinct lines never received <= slow_conn + slow_spool, nothing corrupted,
   the backlog drained once the endpoint stayed up, nothing counted as conn_down_no_spool (spooling is on),
   and handing over never stalled *)
Definition c07_accept (c : c07_case) : bool :=
  (q_missing c <=? q_slow c + q_slowspool c) && (q_foreign c =? 0) && (q_backlog c =? 0) && (q_noconn c =? 0)
  && (q_max_us c <=? q_bound_us c).

Definition c07_replay_ok (c : c07_case) : bool :=
  match replay (S (length (q_log c))) (rinit true) (q_log c) with
  | Some s => (n_slow s =? q_slow c) && (n_slowspool s =? q_slowspool c) && (n_noconn s =? 0) && (n_in s =? q_sent c)
  | None => false
  end.

Definition c07_verdict (c : c07_case) : N :=
  if negb (c07_accept c) then 2 else if negb (c07_replay_ok c) then 1 else 0.
