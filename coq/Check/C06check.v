From CRNG Require Import Base.ListX Base.Bytes Model.Relay Check.Common.
Local Open Scope N_scope.

Record c06_dest := { d_spool : bool; d_log : bytes; d_slow : N; d_noconn : N; d_slowspool : N }.
Inductive pkind := PUp | PDown | PTransition.
Record c06_phase := { ph_kind : pkind; ph_handed : N; ph_recv : N; ph_slow : N; ph_noconn : N }.
Record c06_case := {
  k_dests : list c06_dest;
  k_phases : list c06_phase;
  k_max_us : N;              (* slowest Route.Dispatch call *)
  k_bound_us : N }.

(* the steady-state identities of the property *)
Definition phase_ok (p : c06_phase) : bool :=
  match ph_kind p with
  | PUp => (ph_handed p =? ph_recv p + ph_slow p) && (ph_noconn p =? 0)
  | PDown => (ph_handed p =? ph_noconn p) && (ph_recv p =? 0) && (ph_slow p =? 0)
  | PTransition => ph_recv p + ph_slow p + ph_noconn p <=? ph_handed p
  end.

(* the loop's own event marks replayed through the model: every branch taken must be enabled in the model state
   and produce the marked outcome, and the model's counters must end where the real counters are *)
Definition dest_ok (d : c06_dest) : bool :=
  match replay (S (length (d_log d))) (rinit (d_spool d)) (d_log d) with
  | Some s => (n_slow s =? d_slow d) && (n_noconn s =? d_noconn d) && (n_slowspool s =? d_slowspool d)
  | None => false
  end.

Definition c06_verdict (c : c06_case) : N :=
  if k_bound_us c <? k_max_us c then 2
  else if negb (forallb phase_ok (k_phases c)) then 2
  else if negb (forallb dest_ok (k_dests c)) then 1
  else 0.
