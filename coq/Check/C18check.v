From CRNG Require Import Base.ListX Base.Bytes Check.Common.
Local Open Scope nat_scope.

(* entries are identified by the id the harness gave them *)
Inductive aop :=
| AddRoute (id : bytes) | DelRoute (key : bytes)
| AddBlack (id : bytes) | DelBlack (i : nat)
| AddRw (id : bytes) | DelRw (i : nat)
| AddAgg (id : bytes) | DelAgg (i : nat)
| AddDest (key id : bytes) | DelDest (key : bytes) (i : nat)
(* modRoute / modDest: the options given (index into prefix, notPrefix, sub, notSub, regex, notRegex; new text) and whether all of
   them are acceptable (oracle: the regexes compile) — an update with an unacceptable option must change nothing *)
| ModRoute (key : bytes) (upd : list (nat * bytes)) (valid : bool)
| ModDest (key : bytes) (i : nat) (upd : list (nat * bytes)) (valid : bool).

Record tview := { v_black : list bytes; v_rw : list bytes; v_aggs : list bytes;
                  v_routes : list (bytes * list bytes);        (* route key, destination ids *)
                  v_filters : list (bytes * list bytes) }.     (* "r:key" / "d:key:id" -> the six filter options *)

Definition rname (k : bytes) : bytes := ([114; 58]%N ++ k).
Definition dname (k id : bytes) : bytes := ([100; 58]%N ++ k ++ [58]%N ++ id).
Definition no_filter : list bytes := [[]; []; []; []; []; []].
Fixpoint set_nth (i : nat) (x : bytes) (l : list bytes) : list bytes :=
  match l, i with
  | [], _ => []
  | _ :: r, O => x :: r
  | y :: r, S j => y :: set_nth j x r
  end.
Definition apply_upd (upd : list (nat * bytes)) (f : list bytes) : list bytes :=
  fold_left (fun acc u => set_nth (fst u) (snd u) acc) upd f.
Fixpoint filt_update (fs : list (bytes * list bytes)) (n : bytes) (upd : list (nat * bytes)) : list (bytes * list bytes) :=
  match fs with
  | [] => []
  | (n', f) :: r => if beqb n n' then (n', apply_upd upd f) :: r else (n', f) :: filt_update r n upd
  end.
Definition filt_remove (fs : list (bytes * list bytes)) (keep : bytes -> bool) : list (bytes * list bytes) :=
  filter (fun e => keep (fst e)) fs.
Definition route_dests (rs : list (bytes * list bytes)) (k : bytes) : option (list bytes) :=
  match find (fun e => beqb k (fst e)) rs with Some e => Some (snd e) | None => None end.
Definition with_filters (v : tview) (fs : list (bytes * list bytes)) : tview :=
  {| v_black := v_black v; v_rw := v_rw v; v_aggs := v_aggs v; v_routes := v_routes v; v_filters := fs |}.

Definition del_nth {A} (i : nat) (l : list A) : list A := firstn i l ++ skipn (S i) l.

Fixpoint route_update (rs : list (bytes * list bytes)) (k : bytes) (f : list bytes -> option (list bytes)) : option (list (bytes * list bytes)) :=
  match rs with
  | [] => None
  | (k', ds) :: rs' => if beqb k k' then match f ds with Some ds' => Some ((k', ds') :: rs') | None => None end
                       else match route_update rs' k f with Some r => Some ((k', ds) :: r) | None => None end
  end.

Fixpoint route_del (rs : list (bytes * list bytes)) (k : bytes) : list (bytes * list bytes) :=
  match rs with [] => [] | (k', ds) :: rs' => if beqb k k' then rs' else (k', ds) :: route_del rs' k end.

(* the table view after an operation, and whether the operation reports an error *)
Definition admin_step (v : tview) (o : aop) : tview * bool :=
  match o with
  | AddRoute id => ({| v_black := v_black v; v_rw := v_rw v; v_aggs := v_aggs v; v_routes := v_routes v ++ [(id, [])]; v_filters := v_filters v ++ [(rname id, no_filter)] |}, false)
  | DelRoute k => ({| v_black := v_black v; v_rw := v_rw v; v_aggs := v_aggs v; v_routes := route_del (v_routes v) k;
                    v_filters := filt_remove (v_filters v) (fun n => negb (beqb n (rname k)) && negb (has_prefix ([100; 58]%N ++ k ++ [58]%N) n)) |}, false)
  | AddBlack id => ({| v_black := v_black v ++ [id]; v_rw := v_rw v; v_aggs := v_aggs v; v_routes := v_routes v; v_filters := v_filters v |}, false)
  | DelBlack i => if Nat.ltb i (length (v_black v))
                  then ({| v_black := del_nth i (v_black v); v_rw := v_rw v; v_aggs := v_aggs v; v_routes := v_routes v; v_filters := v_filters v |}, false)
                  else (v, true)
  | AddRw id => ({| v_black := v_black v; v_rw := v_rw v ++ [id]; v_aggs := v_aggs v; v_routes := v_routes v; v_filters := v_filters v |}, false)
  | DelRw i => if Nat.ltb i (length (v_rw v))
               then ({| v_black := v_black v; v_rw := del_nth i (v_rw v); v_aggs := v_aggs v; v_routes := v_routes v; v_filters := v_filters v |}, false)
               else (v, true)
  | AddAgg id => ({| v_black := v_black v; v_rw := v_rw v; v_aggs := v_aggs v ++ [id]; v_routes := v_routes v; v_filters := v_filters v |}, false)
  | DelAgg i => if Nat.ltb i (length (v_aggs v))
                then ({| v_black := v_black v; v_rw := v_rw v; v_aggs := del_nth i (v_aggs v); v_routes := v_routes v; v_filters := v_filters v |}, false)
                else (v, true)
  | AddDest k id => match route_update (v_routes v) k (fun ds => Some (ds ++ [id])) with
                    | Some rs => ({| v_black := v_black v; v_rw := v_rw v; v_aggs := v_aggs v; v_routes := rs;
                                    v_filters := v_filters v ++ [(dname k id, no_filter)] |}, false)
                    | None => (v, true)
                    end
  | DelDest k i => match route_update (v_routes v) k (fun ds => if Nat.ltb i (length ds) then Some (del_nth i ds) else None) with
                   | Some rs => ({| v_black := v_black v; v_rw := v_rw v; v_aggs := v_aggs v; v_routes := rs;
                                   v_filters := match route_dests (v_routes v) k with
                                                | Some ds => filt_remove (v_filters v) (fun n => negb (beqb n (dname k (nth i ds []))))
                                                | None => v_filters v
                                                end |}, false)
                   | None => (v, true)
                   end
  | ModRoute k upd valid =>
      match route_dests (v_routes v) k with
      | Some _ => if valid then (with_filters v (filt_update (v_filters v) (rname k) upd), false) else (v, true)
      | None => (v, true)
      end
  | ModDest k i upd valid =>
      match route_dests (v_routes v) k with
      | Some ds => if Nat.ltb i (length ds) && valid
                   then (with_filters v (filt_update (v_filters v) (dname k (nth i ds [])) upd), false) else (v, true)
      | None => (v, true)
      end
  end.

Definition tview_eqb (a b : tview) : bool :=
  list_eqb beqb (v_black a) (v_black b) && list_eqb beqb (v_rw a) (v_rw b) && list_eqb beqb (v_aggs a) (v_aggs b)
  && list_eqb (fun x y => beqb (fst x) (fst y) && list_eqb beqb (snd x) (snd y)) (v_routes a) (v_routes b)
  && list_eqb (fun x y => beqb (fst x) (fst y) && list_eqb beqb (snd x) (snd y)) (v_filters a) (v_filters b).

(* observed per op: error?, view afterwards, did a previously published slice change? *)
Definition aobs : Type := bool * tview * bool.

Fixpoint admin_run (v : tview) (ops : list (aop * aobs)) : N :=
  match ops with
  | [] => 0%N
  | (o, (err, ov, stale)) :: r =>
      let '(v', e) := admin_step v o in
      if stale then 2%N                               (* a reader holding the old configuration saw it change: not atomic *)
      else if Bool.eqb e err && tview_eqb v' ov then admin_run v' r else 2%N
  end.

Definition c18_verdict (ops : list (aop * aobs)) : N :=
  admin_run {| v_black := []; v_rw := []; v_aggs := []; v_routes := []; v_filters := [] |} ops.
