From CRNG Require Import Base.ListX Base.Bytes Base.Decimal Base.Order Lib.Md5 Model.Hashing Check.Common.

Inductive c15op := Add (addr : bytes) | Del (idx : nat) | Q (name : bytes) | Mod (idx : nat) (addr : bytes).   (* Mod: modDest addr= *)

Definition hdest_of_addr (addr : bytes) : hdest := addr_instance_split addr.

(* results: Add -> -2, Del ok -> -2, Del error -> -3, Q -> index, -9 = empty-ring panic.
   The ring is rebuilt from the destination list on every change, as the
   route does (consistentHashingConfigExtender), and shared by the queries. *)
Fixpoint c15_run (ds : list hdest) (ring : list entry) (ops : list c15op) : list Z :=
  match ops with
  | [] => []
  | Add a :: ops' =>
      let ds' := ds ++ [hdest_of_addr a] in
      (-2)%Z :: c15_run ds' (ring_of md5_pos 100 ds') ops'
  | Del i :: ops' =>
      if Nat.ltb i (length ds) then
        let ds' := firstn i ds ++ skipn (S i) ds in
        (-2)%Z :: c15_run ds' (ring_of md5_pos 100 ds') ops'
      else (-3)%Z :: c15_run ds ring ops'
  | Mod i a :: ops' =>
      if Nat.ltb i (length ds) then
        let ds' := firstn i ds ++ [hdest_of_addr a] ++ skipn (S i) ds in
        (-2)%Z :: c15_run ds' (ring_of md5_pos 100 ds') ops'
      else (-3)%Z :: c15_run ds ring ops'
  | Q name :: ops' =>
      match option_map snd (lookup (md5_pos name) ring) with
      | Some i => Z.of_nat i
      | None => (-9)%Z
      end :: c15_run ds ring ops'
  end.

Definition c15_case : Type := list bytes * list c15op.

Definition c15_expected (c : c15_case) : list Z :=
  let ds := map hdest_of_addr (fst c) in c15_run ds (ring_of md5_pos 100 ds) (snd c).

(* the property pins the result completely (Proofs.HashingProofs / CarbonProofs):
   a difference from the model is a difference from carbon's ring *)
Definition c15_verdict (co : c15_case * list Z) : N :=
  if list_eqb Z.eqb (c15_expected (fst co)) (snd co) then 0 else 2.
