(* Re-encoding a forwarded line:
   - destination.ParseDataPoint + destination.Pickle (og-rek's encoder for
     []interface{}{Tuple{string, Tuple{uint32, float64}}}) and the 4-byte frame;
   - route.parseMetric: name / tags split, sort, storage-schemas rule selection
     (persister.ReadWhisperSchemas ordering, WhisperSchemas.Match), the first
     retention's precision (old and new syntax), schema.MetricData.Validate. *)
From CRNG Require Import Base.Bytes Base.Decimal Base.Order Lib.Utf8 Lib.Regex
  Model.Fields Model.Matcher Model.PickleVM.
Local Open Scope N_scope.

(* strconv.ParseUint(s, 10, 32) *)
Definition parse_uint32 (s : bytes) : option N :=
  match dec_parse s with
  | Some n => if n <? 4294967296 then Some n else None
  | None => None
  end.

Fixpoint le_bytes (k : nat) (n : N) : bytes :=
  match k with O => [] | S k' => n mod 256 :: le_bytes k' (n / 256) end.
Definition be_bytes (k : nat) (n : N) : bytes := rev (le_bytes k n).

(* og-rek encodeInt on int64(uint32) *)
Definition og_int (i : N) : bytes :=
  if (0 <? i) && (i <? 255) then [75; i]
  else if (0 <? i) && (i <? 65535) then 77 :: le_bytes 2 i
  else if i <=? 2147483647 then 74 :: le_bytes 4 i
  else 73 :: N_to_dec i ++ [10].
Definition og_str (s : bytes) : bytes :=
  let l := N.of_nat (length s) in
  if l <? 256 then 85 :: l :: s else 84 :: le_bytes 4 l ++ s.
Definition og_float (bits : N) : bytes := 71 :: be_bytes 8 bits.

Definition og_pickle_dp (name : bytes) (ts bits : N) : bytes :=
  [93; 40] ++ [40] ++ og_str name ++ [40] ++ og_int ts ++ og_float bits ++ [116] ++ [116] ++ [101; 46].
Definition pickle_frame (name : bytes) (ts bits : N) : bytes :=
  let p := og_pickle_dp name ts bits in be_bytes 4 (N.of_nat (length p)) ++ p.

(* ---- storage-schemas ---- *)
Record rule := { r_rx : rx; r_prio : Z; r_ret : bytes }.

Definition trim_sp (s : bytes) : bytes :=
  let dropl := fix go (s : bytes) := match s with c :: r => if (c =? 32) || (c =? 9) then go r else s | [] => [] end in
  rev (dropl (rev (dropl s))).

Definition unit_mult (c : N) : option Z :=
  if c =? 115 then Some 1%Z else if c =? 109 then Some 60%Z else if c =? 104 then Some 3600%Z
  else if c =? 100 then Some 86400%Z else if c =? 119 then Some 604800%Z else if c =? 121 then Some 31536000%Z
  else None.
Definition in_int32 (z : Z) : bool := ((- 2147483648 <=? z) && (z <=? 2147483647))%Z.

Fixpoint span_dig (s : bytes) : bytes * bytes :=
  match s with
  | c :: r => if is_digit c then let (a, b) := span_dig r in (c :: a, b) else ([], s)
  | [] => ([], [])
  end.

(* whisper.parseRetentionPart; None = error (or the panic on an over-long digit run) *)
Definition retention_part (s : bytes) : option Z :=
  match parse_int s with
  | Some z => if in_int32 z then Some z else
      (* out of int32: falls to the regexp, which needs unit letters *) None
  | None =>
      let (ds, us) := span_dig s in
      match ds, us with
      | _ :: _, u :: _ =>
          if forallb (fun c => match unit_mult c with Some _ => true | None => false end) us then
            match dec_parse ds, unit_mult u with
            | Some n, Some m => if in_int32 (Z.of_N n) then Some (m * Z.of_N n)%Z else None
            | _, _ => None
            end
          else None
      | _, _ => None
      end
  end.

(* one retention definition -> its precision (seconds per point) *)
Definition retention_precision (def : bytes) : option Z :=
  match split_on 58 (trim_sp def) with
  | [a; b] =>
      match parse_int a, parse_int b with
      | Some x, Some _ => Some x                                    (* old syntax seconds:points *)
      | _, _ =>
          match retention_part a, retention_part b with
          | Some x, Some _ => if (x =? 0)%Z then None (* integer divide by zero *) else Some x
          | _, _ => None
          end
      end
  | _ => None
  end.

Fixpoint all_some {A} (l : list (option A)) : option (list A) :=
  match l with
  | [] => Some []
  | Some x :: r => match all_some r with Some xs => Some (x :: xs) | None => None end
  | None :: _ => None
  end.
Definition retentions (s : bytes) : option (list Z) := all_some (map retention_precision (split_on 44 s)).
Definition first_precision (s : bytes) : option Z :=
  match retentions s with Some (p :: _) => Some p | _ => None end.

(* route.getSchemas accepts the file *)
Definition schemas_ok (rs : list rule) : bool :=
  existsb (fun r => beqb (rx_src (r_rx r)) [46; 42]) rs
  && forallb (fun r => match retentions (r_ret r) with
                       | Some ps => forallb (fun p => negb (p =? 0)%Z) ps
                       | None => false end) rs.

Definition rkey (ir : nat * rule) : Z := (r_prio (snd ir) * 4294967296 - Z.of_nat (fst ir))%Z.
Definition rle (a b : nat * rule) : bool := (rkey b <=? rkey a)%Z.            (* descending *)
Definition index_rules (rs : list rule) : list (nat * rule) := combine (seq 0 (length rs)) rs.
Definition ordered (rs : list rule) : list (nat * rule) := isort rle (index_rules rs).

(* ---- schema.MetricData.Validate ---- *)
Definition eat_dots (name : bytes) : bytes :=
  join [46] (filter nonempty (split_on 46 name)).

Definition has_any (cs : bytes) (s : bytes) : bool := existsb (fun c => has_byte c s) cs.

Definition valid_tag (t : bytes) : bool :=
  (3 <=? length t)%nat &&
  match cut 61 t with
  | (k, Some v) =>
      nonempty k && nonempty v && utf8_valid t
      && negb (has_any [59; 33; 94; 61] k)
      && negb (match v with 126 :: _ => true | _ => false end)
      && negb (has_byte 59 v)
  | (_, None) => false
  end.

Record mdata := { md_name : bytes; md_tags : list bytes; md_val : N; md_time : N; md_org : Z; md_interval : Z }.

(* the series name as Graphite presents it to storage-schemas *)
Definition presented (name : bytes) (tags : list bytes) : bytes :=
  match tags with [] => name | _ => name ++ [59] ++ join [59] tags end.

Section Reencode.
  Variable pf : bytes -> option N.            (* strconv.ParseFloat(text, 64) as IEEE bits *)
  Variable search : rx -> bytes -> bool.      (* Regexp.MatchString *)

  Definition parse_dp (line : bytes) : option (bytes * N * N) :=
    match fields line with
    | [n; v; t] =>
        match pf v with
        | Some b => match parse_uint32 t with Some ts => Some (n, b, ts) | None => None end
        | None => None
        end
    | _ => None
    end.

  (* Conn.Write in pickle mode: what goes to the buffered writer, and whether bad_pickle is counted *)
  Definition pickle_write (line : bytes) : bytes * bool :=
    match parse_dp line with
    | Some (n, b, ts) => (pickle_frame n ts b, false)
    | None => ([], true)
    end.

  Definition select (rs : list rule) (key : bytes) : option (nat * rule) :=
    find (fun ir => search (r_rx (snd ir)) key) (ordered rs).

  Definition parse_metric (rs : list rule) (org : Z) (line : bytes) : option mdata :=
    match fields line with
    | [nwt; v; t] =>
        match pf v, parse_uint32 t with
        | Some b, Some ts =>
            let els := split_on 59 nwt in
            let name := hd [] els in
            let tags := isort bleb (tl els) in
            match select rs (presented name tags) with
            | Some ir =>
                match first_precision (r_ret (snd ir)) with
                | Some iv =>
                    let name' := eat_dots name in
                    if negb (org =? 0)%Z && negb (iv =? 0)%Z && nonempty name' && utf8_valid name'
                       && forallb valid_tag tags
                    then Some {| md_name := name'; md_tags := tags; md_val := b; md_time := ts;
                                 md_org := org; md_interval := iv |}
                    else None
                | None => None
                end
            | None => None
            end
        | _, _ => None
        end
    | _ => None
    end.
End Reencode.
