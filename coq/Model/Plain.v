(* input/plain.go (bufio.Scanner with ScanLines, 64 KiB tokens), the UDP path
   (one Handle per datagram) and input/amqp.go (bufio.Reader.ReadLine, pieces
   of an over-long line put back together). *)
From CRNG Require Import Base.Bytes.

(* what one Read call returns *)
Inductive rres := RData (b : bytes) | RDataEof (b : bytes) | RDataErr (b : bytes) | REof | RErr.
Inductive status := SOk | SErr | STooLong | SNoProgress | SBlocked.

Definition MAX_TOKEN : N := 65536.

Definition drop_cr (l : bytes) : bytes :=
  match rev l with c :: r => if c =? 13 then rev r else l | [] => l end.

(* complete lines of buf (terminator and one trailing CR removed) and the unterminated remainder; acc = current line, reversed *)
Fixpoint split_lines (buf : bytes) (acc : bytes) : list bytes * bytes :=
  match buf with
  | [] => ([], rev acc)
  | c :: buf' => if c =? 10 then let '(ls, r) := split_lines buf' [] in (drop_cr (rev acc) :: ls, r)
                 else split_lines buf' (c :: acc)
  end.

(* the specification: the lines of a complete stream *)
Definition spec_lines (s : bytes) : list bytes :=
  let '(ls, rest) := split_lines s [] in
  ls ++ match rest with [] => [] | _ => [drop_cr rest] end.

Definition finish (pending : bytes) : list bytes := match pending with [] => [] | _ => [drop_cr pending] end.

(* the same walk with the scanner's token limit: a raw line that reaches MAX_TOKEN bytes before its
   newline is seen cannot be buffered; n = length of acc *)
Fixpoint scan_lines (buf : bytes) (acc : bytes) (n : N) : list bytes * bytes * bool :=
  match buf with
  | [] => ([], rev acc, false)
  | c :: buf' =>
      if c =? 10 then let '(ls, r, tl) := scan_lines buf' [] 0 in (drop_cr (rev acc) :: ls, r, tl)
      else if MAX_TOKEN <=? n + 1 then ([], rev acc, true)
      else scan_lines buf' (c :: acc) (n + 1)
  end.

(* the scanner: pending = buffered bytes after the last newline; empties = consecutive empty reads *)
Fixpoint plain_handle (script : list rres) (pending : bytes) (empties : nat) : list bytes * status :=
  match script with
  | [] => ([], SBlocked)                       (* the reader would block: scripts end with EOF or an error *)
  | r :: script' =>
      let '(data, fin) := match r with
                          | RData b => (b, None) | RDataEof b => (b, Some SOk) | RDataErr b => (b, Some SErr)
                          | REof => ([], Some SOk) | RErr => ([], Some SErr)
                          end in
      let '(ls, rest, toolong) := scan_lines data (rev pending) (N.of_nat (length pending)) in
      if toolong then (ls, STooLong) else
      match fin with
      | Some st => (ls ++ finish rest, st)
      | None =>
          match data with
          | [] => if Nat.leb 100 empties then (ls ++ finish rest, SNoProgress)
                  else let '(ls', st) := plain_handle script' rest (S empties) in (ls ++ ls', st)
          | _ => let '(ls', st) := plain_handle script' rest 0 in (ls ++ ls', st)
          end
      end
  end.

Definition plain (script : list rres) : list bytes * status := plain_handle script [] 0.

(* UDP: each datagram is handled on its own *)
Definition udp (datagram : bytes) : list bytes * status := plain [RData datagram; REof].

(* AMQP: ReadLine drops "\n" or "\r\n" of terminated lines; the unterminated last line is kept verbatim *)
Definition amqp_lines (body : bytes) : list bytes :=
  let '(ls, rest) := split_lines body [] in
  ls ++ match rest with [] => [] | _ => [rest] end.

(* ---- the same functions with a linear-time reverse, for execution (List.rev is quadratic);
   Proofs/PlainProofs.v shows they are equal to the ones above -------------------------------- *)
Definition lrev (l : bytes) : bytes := rev_append l [].

Definition drop_cr_fast (l : bytes) : bytes :=
  match lrev l with c :: r => if c =? 13 then lrev r else l | [] => l end.

Fixpoint scan_lines_fast (buf : bytes) (acc : bytes) (n : N) : list bytes * bytes * bool :=
  match buf with
  | [] => ([], lrev acc, false)
  | c :: buf' =>
      if c =? 10 then let '(ls, r, tl) := scan_lines_fast buf' [] 0 in (drop_cr_fast (lrev acc) :: ls, r, tl)
      else if MAX_TOKEN <=? n + 1 then ([], lrev acc, true)
      else scan_lines_fast buf' (c :: acc) (n + 1)
  end.

Definition finish_fast (pending : bytes) : list bytes := match pending with [] => [] | _ => [drop_cr_fast pending] end.

Fixpoint plain_handle_fast (script : list rres) (pending : bytes) (empties : nat) : list bytes * status :=
  match script with
  | [] => ([], SBlocked)
  | r :: script' =>
      let '(data, fin) := match r with
                          | RData b => (b, None) | RDataEof b => (b, Some SOk) | RDataErr b => (b, Some SErr)
                          | REof => ([], Some SOk) | RErr => ([], Some SErr)
                          end in
      let '(ls, rest, toolong) := scan_lines_fast data (lrev pending) (N.of_nat (length pending)) in
      if toolong then (ls, STooLong) else
      match fin with
      | Some st => (ls ++ finish_fast rest, st)
      | None =>
          match data with
          | [] => if Nat.leb 100 empties then (ls ++ finish_fast rest, SNoProgress)
                  else let '(ls', st) := plain_handle_fast script' rest (S empties) in (ls ++ ls', st)
          | _ => let '(ls', st) := plain_handle_fast script' rest 0 in (ls ++ ls', st)
          end
      end
  end.

Definition plain_fast (script : list rres) : list bytes * status := plain_handle_fast script [] 0.

Fixpoint split_lines_fast (buf : bytes) (acc : bytes) : list bytes * bytes :=
  match buf with
  | [] => ([], lrev acc)
  | c :: buf' => if c =? 10 then let '(ls, r) := split_lines_fast buf' [] in (drop_cr_fast (lrev acc) :: ls, r)
                 else split_lines_fast buf' (c :: acc)
  end.
Definition amqp_lines_fast (body : bytes) : list bytes :=
  let '(ls, rest) := split_lines_fast body [] in
  ls ++ match rest with [] => [] | _ => [rest] end.
