(* Configuration: the documented entry of every kind as "defaults updated by the options given"
   (docs/config.md, docs/tcp-admin-interface.md typed in), the token loop of
   imperatives.readDestination(s), and the configuration-file interpolation. *)
From CRNG Require Import Base.Bytes Base.Decimal.

Definition kv : Type := bytes * bytes.            (* field name, value as text (numbers in decimal, true/false) *)

Fixpoint kv_set (m : list kv) (k v : bytes) : list kv :=
  match m with
  | [] => [(k, v)]
  | (k', v') :: m' => if beqb k k' then (k', v) :: m' else (k', v') :: kv_set m' k v
  end.
Fixpoint kv_get (m : list kv) (k : bytes) : option bytes :=
  match m with [] => None | (k', v) :: m' => if beqb k k' then Some v else kv_get m' k end.

Definition s (l : list N) : bytes := l.

(* ---- documented defaults ------------------------------------------------------------------ *)
Definition S_prefix := s [112;114;101;102;105;120].             Definition S_notPrefix := s [110;111;116;80;114;101;102;105;120].
Definition S_sub := s [115;117;98].                              Definition S_notSub := s [110;111;116;83;117;98].
Definition S_regex := s [114;101;103;101;120].                   Definition S_notRegex := s [110;111;116;82;101;103;101;120].
Definition S_flush := s [102;108;117;115;104].                   Definition S_reconn := s [114;101;99;111;110;110].
Definition S_pickle := s [112;105;99;107;108;101].               Definition S_spool := s [115;112;111;111;108].
Definition S_connbuf := s [99;111;110;110;98;117;102].           Definition S_iobuf := s [105;111;98;117;102].
Definition S_spoolbuf := s [115;112;111;111;108;98;117;102].
Definition S_spoolmaxbytesperfile := s [115;112;111;111;108;109;97;120;98;121;116;101;115;112;101;114;102;105;108;101].
Definition S_spoolsyncevery := s [115;112;111;111;108;115;121;110;99;101;118;101;114;121].
Definition S_spoolsyncperiod := s [115;112;111;111;108;115;121;110;99;112;101;114;105;111;100].
Definition S_spoolsleep := s [115;112;111;111;108;115;108;101;101;112].
Definition S_unspoolsleep := s [117;110;115;112;111;111;108;115;108;101;101;112].
Definition S_addr := s [97;100;100;114].
Definition S_true := s [116;114;117;101].                        Definition S_false := s [102;97;108;115;101].

Definition matcher_defaults : list kv :=
  [(S_prefix, []); (S_notPrefix, []); (S_sub, []); (S_notSub, []); (S_regex, []); (S_notRegex, [])].

(* carbon destination (docs/config.md "carbon destination") *)
Definition dest_defaults : list kv :=
  matcher_defaults ++
  [(S_flush, N_to_dec 1000); (S_reconn, N_to_dec 10000); (S_pickle, S_false); (S_spool, S_false);
   (S_connbuf, N_to_dec 30000); (S_iobuf, N_to_dec 2000000); (S_spoolbuf, N_to_dec 10000);
   (S_spoolmaxbytesperfile, N_to_dec 209715200); (S_spoolsyncevery, N_to_dec 10000); (S_spoolsyncperiod, N_to_dec 1000);
   (S_spoolsleep, N_to_dec 500); (S_unspoolsleep, N_to_dec 10)].

Definition entry (defaults : list kv) (assigns : list kv) : list kv :=
  fold_left (fun m a => kv_set m (fst a) (snd a)) assigns defaults.

(* ---- the destination option loop ------------------------------------------------------------ *)
Inductive tok := TWord (b : bytes) | TNum (n : N) | TBool (b : bool) | TOpt (name : bytes) | TSep.
Inductive vtype := VStr | VNum | VBool.

Definition opt_type (name : bytes) : option vtype :=
  if existsb (beqb name) [S_prefix; S_notPrefix; S_sub; S_notSub; S_regex; S_notRegex] then Some VStr
  else if existsb (beqb name) [S_flush; S_reconn; S_connbuf; S_iobuf; S_spoolbuf; S_spoolmaxbytesperfile; S_spoolsyncevery;
                               S_spoolsyncperiod; S_spoolsleep; S_unspoolsleep] then Some VNum
  else if existsb (beqb name) [S_pickle; S_spool] then Some VBool
  else None.

Definition bool_txt (b : bool) : bytes := if b then S_true else S_false.

(* readDestination after the address: returns the settings and the tokens left (starting at the separator, if any) *)
Fixpoint read_opts (ts : list tok) (acc : list kv) : option (list kv * list tok) :=
  match ts with
  | [] => Some (acc, [])                                  (* EOF *)
  | TSep :: r => Some (acc, r)
  | TOpt name :: v :: r =>
      match opt_type name, v with
      | Some VStr, TWord w => read_opts r (kv_set acc name w)
      | Some VNum, TNum n => read_opts r (kv_set acc name (N_to_dec n))
      | Some VBool, TBool b => read_opts r (kv_set acc name (bool_txt b))
      | _, _ => None                                      (* wrong kind of value / unknown option: error *)
      end
  | _ => None
  end.

Definition read_destination (ts : list tok) : option (list kv * list tok) :=
  match ts with
  | TWord addr :: r => read_opts r (kv_set dest_defaults S_addr addr)
  | _ => None                                             (* "addr not set for endpoint" *)
  end.

(* readDestinations: separators skipped, one destination after the other *)
Fixpoint read_destinations (fuel : nat) (ts : list tok) : option (list (list kv)) :=
  match fuel with
  | O => None
  | S f =>
      match ts with
      | [] => Some []
      | TSep :: r => read_destinations f r
      | _ => match read_destination ts with
             | Some (d, r) => match read_destinations f r with Some ds => Some (d :: ds) | None => None end
             | None => None
             end
      end
  end.

(* how an option and its value are written *)
Inductive aval := AStr (b : bytes) | ANum (n : N) | ABool (b : bool).
Definition aval_type (v : aval) : vtype := match v with AStr _ => VStr | ANum _ => VNum | ABool _ => VBool end.
Definition aval_txt (v : aval) : bytes := match v with AStr b => b | ANum n => N_to_dec n | ABool b => bool_txt b end.
Definition assign_tokens (a : bytes * aval) : list tok :=
  [TOpt (fst a); match snd a with AStr b => TWord b | ANum n => TNum n | ABool b => TBool b end].
Definition assign_kv (a : bytes * aval) : kv := (fst a, aval_txt (snd a)).

(* ---- configuration-file interpolation (after the repair): only the documented variables ------- *)
Definition is_name_char (c : N) : bool :=
  ((48 <=? c) && (c <=? 57)) || ((65 <=? c) && (c <=? 90)) || ((97 <=? c) && (c <=? 122)) || (c =? 95).

Fixpoint span_name (t : bytes) : bytes * bytes :=
  match t with
  | c :: t' => if is_name_char c then let '(a, b) := span_name t' in (c :: a, b) else ([], t)
  | [] => ([], [])
  end.

(* vars: the documented names with their values *)
Fixpoint expand_go (fuel : nat) (vars : list kv) (t : bytes) : bytes :=
  match fuel with
  | O => t
  | S f =>
      match t with
      | [] => []
      | c :: t' =>
          if negb (c =? 36) then c :: expand_go f vars t' else
          let plain :=                                        (* $NAME *)
              let '(name, rest) := span_name t' in
              match name with
              | _ :: _ => match kv_get vars name with
                          | Some v => v ++ expand_go f vars rest
                          | None => 36 :: name ++ expand_go f vars rest
                          end
              | [] => 36 :: expand_go f vars t'
              end in
          match t' with
          | c2 :: t'' =>
              if c2 =? 123 then                               (* ${NAME} *)
                let '(name, rest) := span_name t'' in
                match name, rest with
                | _ :: _, c3 :: rest' =>
                    if c3 =? 125 then
                      match kv_get vars name with
                      | Some v => v ++ expand_go f vars rest'
                      | None => 36 :: 123 :: name ++ 125 :: expand_go f vars rest'
                      end
                    else 36 :: expand_go f vars t'
                | _, _ => 36 :: expand_go f vars t'
                end
              else plain
          | [] => plain
          end
      end
  end.

Definition expand (vars : list kv) (t : bytes) : bytes := expand_go (S (length t)) vars t.

(* the names a text refers to, as the interpolation reads them *)
Fixpoint refs (fuel : nat) (t : bytes) : list bytes :=
  match fuel with
  | O => []
  | S f =>
      match t with
      | [] => []
      | c :: t' =>
          if negb (c =? 36) then refs f t' else
          let plain := let '(name, rest) := span_name t' in
                       match name with _ :: _ => name :: refs f rest | [] => refs f t' end in
          match t' with
          | c2 :: t'' =>
              if c2 =? 123 then
                let '(name, rest) := span_name t'' in
                match name, rest with
                | _ :: _, c3 :: rest' => if c3 =? 125 then name :: refs f rest' else refs f t'
                | _, _ => refs f t'
                end
              else plain
          | [] => plain
          end
      end
  end.
