(* table.Table.Dispatch / DispatchAggregate, route.*.Dispatch, the consumption
   decision of aggregator.AddMaybe, validate.Ordered.  One line in, one
   [outcome] out: counter deltas and every hand-off, in order. *)
From CRNG Require Import Base.Bytes Base.Decimal Lib.Regex Lib.Fnv Lib.Md5
  Model.Fields Model.Validate Model.Matcher Model.Rewriter Model.Hashing.

Inductive route_kind := SendAll | SendFirst | ConsHash | Other.

Record dest := { d_matcher : matcher; d_addr : bytes (* as given: host[:port[:instance]] *) }.
Record route := { r_kind : route_kind; r_matcher : matcher; r_dests : list dest }.
Record agg := { a_matcher : matcher; a_dropraw : bool; a_outfmt : bytes }.

Record table := {
  t_ll : level_legacy; t_lm : level_m20; t_order : bool;
  t_blacklist : list matcher; t_rewriters : list rw; t_aggs : list agg; t_routes : list route }.

(* Table.UpdateRoute at run time (modRoute): route ri gets the filter m, in place *)
Fixpoint set_nth_route (rs : list route) (ri : nat) (m : matcher) : list route :=
  match rs, ri with
  | [], _ => []
  | r :: rs', O => {| r_kind := r_kind r; r_matcher := m; r_dests := r_dests r |} :: rs'
  | r :: rs', S k => r :: set_nth_route rs' k m
  end.
Definition mod_route (t : table) (ri : nat) (m : matcher) : table :=
  {| t_ll := t_ll t; t_lm := t_lm t; t_order := t_order t; t_blacklist := t_blacklist t; t_rewriters := t_rewriters t;
     t_aggs := t_aggs t; t_routes := set_nth_route (t_routes t) ri m |}.

(* validate.Ordered: map keyed by fnv64a(name); accept iff ts > last (absent = 0) *)
Definition omap := list (N * N).
Fixpoint omap_get (m : omap) (k : N) : N :=
  match m with [] => 0 | (k', v) :: m' => if k =? k' then v else omap_get m' k end.
Fixpoint omap_set (m : omap) (k v : N) : omap :=
  match m with
  | [] => [(k, v)]
  | (k', v') :: m' => if k =? k' then (k, v) :: m' else (k', v') :: omap_set m' k v
  end.
Definition ordered (m : omap) (key : bytes) (ts : N) : omap * bool :=
  let k := fnv64a key in
  if omap_get m k <? ts then (omap_set m k ts, true) else (m, false).

Inductive bad_reason := BadInvalid (e : verr) | BadOutOfOrder.

Record outcome := {
  o_invalid : bool; o_out_of_order : bool; o_blacklisted : bool; o_unroutable : bool;
  o_bad : option (bytes * bad_reason);            (* key under which the line is reported *)
  o_agg_consumed : list nat;                      (* aggregators that take the point (pre-match and regex) *)
  o_dropped_raw : bool;
  o_name : bytes;                                 (* the rewritten name, once the line got that far *)
  o_routes : list (nat * bytes);                  (* (route index, line handed to Route.Dispatch), in order *)
  o_dests : list (nat * nat * bytes) }.           (* (route index, destination index, line), in order *)

Definition no_outcome : outcome :=
  {| o_invalid := false; o_out_of_order := false; o_blacklisted := false; o_unroutable := false;
     o_bad := None; o_agg_consumed := []; o_dropped_raw := false; o_name := []; o_routes := []; o_dests := [] |}.

(* the metric name of a line: the text before the first space *)
Definition name_of (line : bytes) : bytes := fst (cut 32 line).

Section WithSearch.
Variable search : rx -> bytes -> bool.     (* Regexp.Match: an oracle in the theorems, Lib/Regex.v in execution *)

Definition mmatch := matcher_match search.
Definition mpre := pre_match.

(* what each destination-selecting route does with a line *)
Fixpoint send_all (ds : list dest) (i : nat) (line : bytes) : list nat :=
  match ds with
  | [] => []
  | d :: ds' => if mmatch (d_matcher d) (name_of line) then i :: send_all ds' (S i) line
                else send_all ds' (S i) line
  end.
Fixpoint send_first (ds : list dest) (i : nat) (line : bytes) : list nat :=
  match ds with
  | [] => []
  | d :: ds' => if mmatch (d_matcher d) (name_of line) then [i] else send_first ds' (S i) line
  end.
Definition send_hash (ds : list dest) (line : bytes) : list nat :=
  match index_byte 32 line with
  | Some (S _) =>
      match dest_index md5_pos 100 (map (fun d => addr_instance_split (d_addr d)) ds) (name_of line) with
      | Some i => [i]
      | None => []            (* empty ring: the real code panics (C14) *)
      end
  | _ => []                   (* "could not parse" *)
  end.

Definition route_dispatch (r : route) (line : bytes) : list nat :=
  match r_kind r with
  | SendAll => send_all (r_dests r) 0 line
  | SendFirst => send_first (r_dests r) 0 line
  | ConsHash => send_hash (r_dests r) line
  | Other => []
  end.

(* route loop shared by Dispatch and DispatchAggregate *)
Fixpoint route_loop (rs : list route) (i : nat) (name line : bytes) : list (nat * bytes) * list (nat * nat * bytes) :=
  match rs with
  | [] => ([], [])
  | r :: rs' =>
      let '(a, b) := route_loop rs' (S i) name line in
      if mmatch (r_matcher r) name
      then ((i, line) :: a, map (fun j => (i, j, line)) (route_dispatch r line) ++ b)
      else (a, b)
  end.

(* aggregator loop: indices consuming the point, and whether a drop-raw one stopped the line *)
Fixpoint agg_loop (aggs : list agg) (i : nat) (name : bytes) : list nat * bool :=
  match aggs with
  | [] => ([], false)
  | a :: aggs' =>
      if negb (mpre (a_matcher a) name) then agg_loop aggs' (S i) name
      else
        let takes := match m_regex (a_matcher a) with Some r => search r name | None => false end
                     && negb (match m_notRegex (a_matcher a) with Some r => search r name | None => false end) in
        if a_dropraw a then
          if takes then ([i], true) else agg_loop aggs' (S i) name
        else
          let '(l, d) := agg_loop aggs' (S i) name in
          ((if takes then [i] else []) ++ l, d)
  end.

Definition dispatch (t : table) (om : omap) (buf : bytes) (val_ok ts_ok : bool) (ts : N) : omap * outcome :=
  match validate_packet buf (t_ll t) (t_lm t) val_ok ts_ok with
  | (key, Some e) =>
      (om, {| o_invalid := true; o_out_of_order := false; o_blacklisted := false; o_unroutable := false;
              o_bad := Some (key, BadInvalid e); o_agg_consumed := []; o_dropped_raw := false; o_name := [];
              o_routes := []; o_dests := [] |})
  | (key, None) =>
      let '(om', fresh) := if t_order t then ordered om key ts else (om, true) in
      if negb fresh then
        (om', {| o_invalid := false; o_out_of_order := true; o_blacklisted := false; o_unroutable := false;
                 o_bad := Some (key, BadOutOfOrder); o_agg_consumed := []; o_dropped_raw := false; o_name := [];
                 o_routes := []; o_dests := [] |})
      else
        match fields buf with
        | [f0; f1; f2] =>
            if existsb (fun m => mmatch m f0) (t_blacklist t) then
              (om', {| o_invalid := false; o_out_of_order := false; o_blacklisted := true; o_unroutable := false;
                       o_bad := None; o_agg_consumed := []; o_dropped_raw := false; o_name := []; o_routes := []; o_dests := [] |})
            else
              let name := rewrite_all (t_rewriters t) f0 in
              let '(consumed, dropped) := agg_loop (t_aggs t) 0 name in
              if dropped then
                (om', {| o_invalid := false; o_out_of_order := false; o_blacklisted := false; o_unroutable := false;
                         o_bad := None; o_agg_consumed := consumed; o_dropped_raw := true; o_name := name; o_routes := []; o_dests := [] |})
              else
                let final := name ++ [32] ++ f1 ++ [32] ++ f2 in
                let '(rts, dsts) := route_loop (t_routes t) 0 name final in
                (om', {| o_invalid := false; o_out_of_order := false; o_blacklisted := false;
                         o_unroutable := match rts with [] => true | _ => false end;
                         o_bad := None; o_agg_consumed := consumed; o_dropped_raw := false; o_name := name;
                         o_routes := rts; o_dests := dsts |})
        | _ => (om', no_outcome)    (* unreachable: validation guarantees three fields *)
        end
  end.

(* DispatchAggregate: routes only *)
Definition dispatch_aggregate (routes : list route) (buf : bytes) : outcome :=
  let '(rts, dsts) := route_loop routes 0 (name_of buf) buf in
  {| o_invalid := false; o_out_of_order := false; o_blacklisted := false;
     o_unroutable := match rts with [] => true | _ => false end;
     o_bad := None; o_agg_consumed := []; o_dropped_raw := false; o_name := name_of buf; o_routes := rts; o_dests := dsts |}.

End WithSearch.
