(* C14, the accepted-then-crash class: the numeric parameters of aggregations and carbon destinations,
   what the constructors accept (aggregator.New, destination.New after the fixes), and the places that
   later use those values in an operation that panics for some of them:
     clock.AlignedTick       adjusted % period                 (integer divide by zero)
     time.NewTicker d        periodFlush, periodReConn, syncTimeout   (non-positive interval)
     destination.NewWriter   size <= 0 / make([]byte, size)
     make(chan []byte, n)    conn.In, spool.queueBuffer        (size out of range)
   Go's int and time.Duration are int64: the arithmetic that produces the values wraps. *)
From CRNG Require Import Base.Bytes.
Local Open Scope Z_scope.

Definition wrap64 (z : Z) : Z := (z + 9223372036854775808) mod 18446744073709551616 - 9223372036854775808.
Definition in_int64 (z : Z) : bool := (- 9223372036854775808 <=? z) && (z <=? 9223372036854775807).

Definition second : Z := 1000000000.
Definition millisecond : Z := 1000000.
Definition microsecond : Z := 1000.
Definition dur (n unit : Z) : Z := wrap64 (n * unit).       (* time.Duration(n) * unit *)

Definition max_alloc : Z := 281474976710656.                (* 2^48, linux/amd64 *)
Definition maxint32 : Z := 2147483647.

(* ---- the operations that can panic ---- *)
Definition aligned_tick_ok (period : Z) : bool := negb (period =? 0).
Definition new_ticker_ok (d : Z) : bool := 0 <? d.
Definition make_chan_ok (n : Z) : bool := (0 <=? n) && (n * 24 <=? max_alloc).      (* elements are slice headers *)
Definition new_writer_ok (size : Z) : bool := (0 <? size) && (size <=? max_alloc).

Inductive rtype := RAll | RFirst | RHash.
Record dopts := {
  o_flush : Z; o_reconn : Z; o_connbuf : Z; o_iobuf : Z; o_spool : bool; o_spoolbuf : Z; o_maxbytes : Z;
  o_syncevery : Z; o_syncperiod : Z; o_spoolsleep : Z; o_unspoolsleep : Z }.

(* grafanaNet route options as written in the command (defaults when absent) *)
Record gnopts := { g_concurrency : Z; g_bufsize : Z; g_flushmaxnum : Z; g_flushmaxwait : Z; g_timeout : Z; g_orgid : Z; g_backoffmin : Z }.

Inductive param :=
| PAgg (has_regex : bool) (interval wait : Z)
| PRoute (t : rtype) (ds : list dopts)
| PGn (o : gnopts).

(* strconv.Atoi on a run of digits *)
Definition atoi_ok (z : Z) : bool := (0 <=? z) && (z <=? 9223372036854775807).

(* ---- what is accepted ---- *)
Definition dest_accepts (o : dopts) : bool :=
  forallb atoi_ok [o_flush o; o_reconn o; o_connbuf o; o_iobuf o; o_spoolbuf o; o_maxbytes o; o_syncevery o; o_syncperiod o;
                   o_spoolsleep o; o_unspoolsleep o]
  && (0 <? dur (o_flush o) millisecond) && (0 <? dur (o_reconn o) millisecond)
  && (0 <? o_iobuf o) && (o_iobuf o <=? maxint32) && (0 <=? o_connbuf o) && (o_connbuf o <=? maxint32)
  && (negb (o_spool o)
      || ((0 <? dur (o_syncperiod o) millisecond) && (0 <=? o_spoolbuf o) && (o_spoolbuf o <=? maxint32)
          && (0 <=? dur (o_spoolsleep o) microsecond) && (0 <=? dur (o_unspoolsleep o) microsecond))).

Definition accepts (p : param) : bool :=
  match p with
  | PAgg has_regex interval wait =>
      atoi_ok interval && atoi_ok wait && has_regex && (1 <=? interval) && (interval <=? 9223372036)
  | PRoute t ds =>
      forallb dest_accepts ds && match t with RHash => (2 <=? Z.of_nat (length ds)) | _ => true end
  | PGn o =>
      forallb atoi_ok [g_concurrency o; g_bufsize o; g_flushmaxnum o; g_flushmaxwait o; g_timeout o; g_orgid o; g_backoffmin o]
      && (1 <=? g_orgid o) && (1 <=? g_concurrency o) && (g_concurrency o <=? 65536)
      && (0 <=? g_bufsize o) && (g_bufsize o <=? maxint32)
  end.

(* ---- what runs later with the accepted values ---- *)
Definition dest_runs_ok (o : dopts) : bool :=
  new_ticker_ok (dur (o_flush o) millisecond)          (* Conn.HandleData *)
  && new_ticker_ok (dur (o_reconn o) millisecond)      (* Destination.relay *)
  && new_writer_ok (o_iobuf o)                         (* NewConn *)
  && make_chan_ok (o_connbuf o)                        (* NewConn *)
  && (negb (o_spool o)
      || (new_ticker_ok (dur (o_syncperiod o) millisecond)       (* DiskQueue.ioLoop *)
          && make_chan_ok (o_spoolbuf o))).                      (* NewSpool *)

Definition runs_ok (p : param) : bool :=
  match p with
  | PAgg _ interval _ => aligned_tick_ok (dur interval second)
  | PRoute t ds => forallb dest_runs_ok ds && match t with RHash => negb (Nat.eqb (length ds) 0) | _ => true end
  | PGn o =>
      negb (g_concurrency o =? 0)                                       (* Dispatch: hash mod Concurrency; BufSize / Concurrency *)
      && (0 <=? g_concurrency o) && (g_concurrency o * 8 <=? max_alloc)   (* make([]chan []byte, Concurrency) *)
      && make_chan_ok (g_bufsize o / g_concurrency o)                    (* make(chan []byte, BufSize/Concurrency) *)
  end.
