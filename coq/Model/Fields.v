(* bytes.Fields: split around runs of white space as unicode.IsSpace sees it.
   Lead bytes are never continuation bytes, so a white-space rune can only
   start at a rune boundary; scanning byte by byte for the encodings of the
   White_Space code points is therefore exactly FieldsFunc(s, IsSpace)
   (an invalid sequence is one non-space byte). *)
From CRNG Require Import Base.Bytes.

(* width of the white-space rune at the head of s, 0 if none *)
Definition space_width (s : bytes) : nat :=
  match s with
  | 9 :: _ | 10 :: _ | 11 :: _ | 12 :: _ | 13 :: _ | 32 :: _ => 1%nat
  | 194 :: 133 :: _ | 194 :: 160 :: _ => 2%nat                  (* U+0085 U+00A0 *)
  | 225 :: 154 :: 128 :: _ => 3%nat                              (* U+1680 *)
  | 226 :: 128 :: c :: _ =>
      if ((128 <=? c) && (c <=? 138)) || (c =? 168) || (c =? 169) || (c =? 175) then 3%nat else 0%nat
                                                                 (* U+2000-200A 2028 2029 202F *)
  | 226 :: 129 :: 159 :: _ => 3%nat                              (* U+205F *)
  | 227 :: 128 :: 128 :: _ => 3%nat                              (* U+3000 *)
  | _ => 0%nat
  end.

(* cur = field being accumulated (reversed), skip = bytes of a space rune still to drop *)
Fixpoint fields_go (s : bytes) (cur : bytes) (skip : nat) : list bytes :=
  match s with
  | [] => match cur with [] => [] | _ => [rev cur] end
  | c :: s' =>
      match skip with
      | S k => fields_go s' cur k
      | O =>
          match space_width s with
          | O => fields_go s' (c :: cur) O
          | S w => match cur with
                   | [] => fields_go s' [] w
                   | _ => rev cur :: fields_go s' [] w
                   end
          end
      end
  end.

Definition fields (s : bytes) : list bytes := fields_go s [] O.
