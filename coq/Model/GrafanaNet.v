(* route/grafananet.go: sharding, the per-shard worker (run / retryFlush), Dispatch in
   blocking and non-blocking mode, Shutdown (as repaired: every worker is told, drains its
   queue, flushes, reports done). *)
From CRNG Require Import Base.Bytes Lib.Fnv.
Local Open Scope nat_scope.

(* Dispatch: the shard of a series key name;tag;tag...: the sum (uint32, wrapping) of the fnv32a hashes of the name and of
   each tag, so that the order in which a client lists the tags does not matter (as repaired; it was the hash of the whole key) *)
Definition series_hash (key : bytes) : N :=
  fold_right (fun part acc => ((fnv32a part + acc) mod 4294967296)%N) 0%N (split_on 59 key).
Definition shard_of (conc : N) (key : bytes) : N := (series_hash key mod conc)%N.

(* what the endpoint answers to one POST *)
Inductive outcome := Ok2xx | Http4xx | Http5xx | Timeout | Reset.
Definition is_ok (o : outcome) : bool := match o with Ok2xx => true | _ => false end.

(* retryFlush: POST the same body until a 2xx arrives; returns the outcomes consumed (all failures, then the Ok)
   and the rest of the fault sequence; None = the sequence ran out without an Ok (the real loop keeps retrying) *)
Fixpoint retry (faults : list outcome) : option (list outcome * list outcome) :=
  match faults with
  | [] => None
  | o :: r => if is_ok o then Some ([o], r)
              else match retry r with Some (used, rest) => Some (o :: used, rest) | None => None end
  end.

Section Worker.
  Variable A : Type.                    (* a parsed metric *)
  Variable flush_max : nat.             (* FlushMaxNum *)

  Record wstate := {
    w_queue : list A;                   (* the shard's channel *)
    w_batch : list A;                   (* metrics collected since the last flush *)
    w_posts : list (list A * outcome);  (* every POST of this shard, in order: body, answer *)
    w_faults : list outcome;            (* the endpoint's future answers *)
    w_done : bool }.                    (* the worker has returned (and told the WaitGroup) *)

  Inductive wevent := WRecv | WTimer | WShutdown.

  (* one flush: nothing to do for an empty batch; otherwise retry until acknowledged *)
  Definition do_flush (w : wstate) : option wstate :=
    match w_batch w with
    | [] => Some w
    | b => match retry (w_faults w) with
           | Some (used, rest) =>
               Some {| w_queue := w_queue w; w_batch := []; w_posts := w_posts w ++ map (fun o => (b, o)) used;
                       w_faults := rest; w_done := w_done w |}
           | None => None
           end
    end.

  (* take one metric from the queue into the batch, flushing when the batch is full *)
  Definition take (w : wstate) : option wstate :=
    match w_queue w with
    | [] => Some w
    | m :: q =>
        let w1 := {| w_queue := q; w_batch := w_batch w ++ [m]; w_posts := w_posts w; w_faults := w_faults w; w_done := w_done w |} in
        if Nat.eqb (length (w_batch w1)) flush_max then do_flush w1 else Some w1
    end.

  (* on shutdown: everything still queued is taken in, then the last flush *)
  Fixpoint drain (fuel : nat) (w : wstate) : option wstate :=
    match fuel with
    | O => Some w
    | S f => match w_queue w with
             | [] => Some w
             | _ => match take w with Some w' => drain f w' | None => None end
             end
    end.

  Definition wstep (w : wstate) (e : wevent) : option wstate :=
    if w_done w then Some w else
    match e with
    | WRecv => take w
    | WTimer => do_flush w
    | WShutdown =>
        match drain (length (w_queue w)) w with
        | Some w1 => match do_flush w1 with
                     | Some w2 => Some {| w_queue := w_queue w2; w_batch := w_batch w2; w_posts := w_posts w2; w_faults := w_faults w2; w_done := true |}
                     | None => None
                     end
        | None => None
        end
    end.

  (* Dispatch into a shard queue of capacity cap: (new queue, dropped?) ; blocking mode never drops (the caller waits) *)
  Definition enqueue (blocking : bool) (cap : nat) (q : list A) (m : A) : option (list A * bool) :=
    if Nat.ltb (length q) cap then Some (q ++ [m], false)
    else if blocking then None             (* the step is not enabled: the caller blocks until there is room *)
    else Some (q, true).

  Definition acked (w : wstate) : list A :=
    flat_map (fun p => if is_ok (snd p) then fst p else []) (w_posts w).
End Worker.
