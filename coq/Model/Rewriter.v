(* rewriter/rewriter.go *)
From CRNG Require Import Base.Bytes Lib.Regex Model.Matcher.

Inductive rw_err := ErrEmptyOld | ErrMaxTooLow | ErrInvalidRegexpMax.

Record rw := {
  rw_old : bytes; rw_new : bytes; rw_not : bytes; rw_max : Z;
  rw_re : option re;        (* compiled /old/ *)
  rw_notre : option re }.   (* compiled /not/ *)

Definition is_slashed (s : bytes) : bool :=
  match s with
  | 47 :: _ :: _ => N.eqb (last s 0) 47
  | _ => false
  end.

(* New: the AST arguments stand for regexp.Compile of the text between the slashes *)
Definition rw_new_ (old new not : bytes) (max : Z) (re_old re_not : re) : rw_err + rw :=
  match old with
  | [] => inl ErrEmptyOld
  | _ =>
      if (max <? -1)%Z then inl ErrMaxTooLow
      else if is_slashed old && negb (max =? -1)%Z then inl ErrInvalidRegexpMax
      else inr {| rw_old := old; rw_new := new; rw_not := not; rw_max := max;
                  rw_re := if is_slashed old then Some re_old else None;
                  rw_notre := if is_slashed not then Some re_not else None |}
  end.

(* bytes.Replace(s, old, new, n) for non-empty old: first n non-overlapping occurrences, n < 0 = all *)
Fixpoint replace_n (fuel : nat) (s old new : bytes) (n : Z) : bytes :=
  match fuel with
  | O => s
  | S f =>
      if (n =? 0)%Z then s else
      match s with
      | [] => []
      | c :: s' =>
          if has_prefix old s then new ++ replace_n f (skipn (length old) s) old new (if (n <? 0)%Z then n else n - 1)%Z
          else c :: replace_n f s' old new n
      end
  end.

Definition rw_do (r : rw) (buf : bytes) : bytes :=
  if (match rw_notre r with
      | Some nr => re_search nr buf
      | None => nonempty (rw_not r) && contains (rw_not r) buf
      end) then buf
  else match rw_re r with
       | Some rr => re_replace_all rr buf (rw_new r)
       | None => replace_n (S (length buf)) buf (rw_old r) (rw_new r) (rw_max r)
       end.

Definition rewrite_all (rws : list rw) (name : bytes) : bytes := fold_left (fun n r => rw_do r n) rws name.
