(* Go slices over shared backing arrays, as the table and route configuration use them:
   a header (array id, length) is what config.Store publishes; append writes in place when the
   capacity allows; the two ways of deleting an element. *)
From CRNG Require Import Base.Bytes.
Local Open Scope nat_scope.

Section Slices.
  Variable A : Type.

  Definition heap := list (list A).                 (* array id = position; an array's length is its capacity *)
  Record header := { h_arr : nat; h_len : nat }.

  Definition arr (h : heap) (i : nat) : list A := nth i h [].
  Definition view (h : heap) (s : header) : list A := firstn (h_len s) (arr h (h_arr s)).

  Fixpoint set_nth {B} (l : list B) (i : nat) (x : B) : list B :=
    match l, i with
    | [], _ => []
    | _ :: l', O => x :: l'
    | y :: l', S i' => y :: set_nth l' i' x
    end.

  (* append(s, x): in place when len < cap, else a new array of doubled capacity *)
  Definition go_append (h : heap) (s : header) (x : A) (filler : A) : heap * header :=
    if Nat.ltb (h_len s) (length (arr h (h_arr s))) then
      (set_nth h (h_arr s) (set_nth (arr h (h_arr s)) (h_len s) x), {| h_arr := h_arr s; h_len := S (h_len s) |})
    else
      let cap' := Nat.max 1 (2 * length (arr h (h_arr s))) in
      let na := view h s ++ [x] ++ repeat filler (cap' - S (h_len s)) in
      (h ++ [na], {| h_arr := length h; h_len := S (h_len s) |}).

  (* append(s[:i], s[i+1:]...): shifts the tail down inside the same array *)
  Definition del_inplace (h : heap) (s : header) (i : nat) : heap * header :=
    let a := arr h (h_arr s) in
    let a' := firstn i a ++ skipn (S i) (firstn (h_len s) a) ++ skipn (h_len s - 1) a in
    (set_nth h (h_arr s) a', {| h_arr := h_arr s; h_len := h_len s - 1 |}).

  (* a fresh array holding the other elements *)
  Definition del_copy (h : heap) (s : header) (i : nat) : heap * header :=
    let v := view h s in
    (h ++ [firstn i v ++ skipn (S i) v], {| h_arr := length h; h_len := h_len s - 1 |}).

  Inductive sop := SAppend (x : A) | SDel (i : nat).

  (* the writer: the current header is the one last stored; every header ever stored may still be held by a reader *)
  Record wstate := { w_heap : heap; w_cur : header; w_published : list header }.

  Definition wstep (del : heap -> header -> nat -> heap * header) (filler : A) (w : wstate) (o : sop) : wstate :=
    match o with
    | SAppend x => let '(h', s') := go_append (w_heap w) (w_cur w) x filler in
                   {| w_heap := h'; w_cur := s'; w_published := s' :: w_published w |}
    | SDel i => if Nat.ltb i (h_len (w_cur w)) then
                  let '(h', s') := del (w_heap w) (w_cur w) i in
                  {| w_heap := h'; w_cur := s'; w_published := s' :: w_published w |}
                else w                                                     (* "Invalid index": nothing changes *)
    end.
End Slices.
