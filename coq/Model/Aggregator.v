(* aggregator/aggregator.go (AddOrCreate, Flush, the run loop) and
   aggregator/processor.go, generic in the float type: no algebraic law of
   floating point is assumed anywhere. *)
From CRNG Require Import Base.Bytes Base.Decimal Lib.Regex Model.Matcher.

Inductive fn := FAvg | FCount | FDelta | FDerive | FLast | FMax | FMin | FStdev | FSum | FPercentiles.

Section Agg.
  Variable F : Type.
  Variables (fadd fsub fmul fdiv : F -> F -> F) (fsqrt : F -> F) (flt : F -> F -> bool) (of_N : N -> F).

  Inductive proc :=
  | PAvg (sum : F) (cnt : N) | PCount (cnt : N) | PDelta (mx mn : F)
  | PDerive (ots nts : N) (ov nv : F) | PLast (v : F) | PMax (v : F) | PMin (v : F)
  | PStdev (sum : F) (vals : list F) | PPerc (vals : list F) | PSum (s : F).

  Definition proc_new (f : fn) (v : F) (ts : N) : proc :=
    match f with
    | FAvg => PAvg v 1 | FCount => PCount 1 | FDelta => PDelta v v | FDerive => PDerive ts ts v v
    | FLast => PLast v | FMax => PMax v | FMin => PMin v | FStdev => PStdev v [v]
    | FPercentiles => PPerc [v] | FSum => PSum v
    end.

  Definition proc_add (p : proc) (v : F) (ts : N) : proc :=
    match p with
    | PAvg s c => PAvg (fadd s v) (c + 1)
    | PCount c => PCount (c + 1)
    | PDelta mx mn => PDelta (if flt mx v then v else mx) (if flt v mn then v else mn)
    | PDerive ots nts ov nv =>
        let '(nts', nv') := if nts <? ts then (ts, v) else (nts, nv) in
        let '(ots', ov') := if ts <? ots then (ts, v) else (ots, ov) in
        PDerive ots' nts' ov' nv'
    | PLast _ => PLast v
    | PMax m => PMax (if flt m v then v else m)
    | PMin m => PMin (if flt v m then v else m)
    | PStdev s vs => PStdev (fadd s v) (vs ++ [v])
    | PPerc vs => PPerc (vs ++ [v])
    | PSum s => PSum (fadd s v)
    end.

  (* sort.Float64s on values without NaN *)
  Fixpoint finsert (x : F) (l : list F) : list F :=
    match l with [] => [x] | y :: l' => if flt y x then y :: finsert x l' else x :: l end.
  Definition fsort (l : list F) : list F := fold_right finsert [] l.

  (* int(rank) for 0 <= rank: the largest k <= bound with of_N k <= rank *)
  Fixpoint ftrunc (rank : F) (bound : nat) : N :=
    match bound with
    | O => 0
    | S b => if flt rank (of_N (N.of_nat bound)) then ftrunc rank b else N.of_nat bound
    end.

  Definition percentile (sorted : list F) (percent : N) : F :=
    let size := N.of_nat (length sorted) in
    let rank := fmul (fdiv (of_N percent) (of_N 100)) (fadd (of_N size) (of_N 1)) in
    let fl := ftrunc rank (S (length sorted)) in
    if flt rank (of_N 1) then nth 0 sorted (of_N 0)
    else if size <=? fl then nth (length sorted - 1) sorted (of_N 0)
    else
      let frac := fsub rank (of_N fl) in
      let lo := nth (N.to_nat fl - 1) sorted (of_N 0) in
      let hi := nth (N.to_nat fl) sorted (of_N 0) in
      fadd lo (fmul frac (fsub hi lo)).

  Definition S_p (n : list N) : bytes := n.

  (* Flush: (suffix, value) results; [] = nothing to report *)
  Definition proc_flush (p : proc) : list (bytes * F) :=
    match p with
    | PAvg s c => [([], fdiv s (of_N c))]
    | PCount c => [([], of_N c)]
    | PDelta mx mn => [([], fsub mx mn)]
    | PDerive ots nts ov nv => if nts =? ots then [] else [([], fdiv (fsub nv ov) (of_N (nts - ots)))]
    | PLast v => [([], v)]
    | PMax v => [([], v)]
    | PMin v => [([], v)]
    | PStdev s vs =>
        let n := of_N (N.of_nat (length vs)) in
        let mean := fdiv s n in
        let var := fold_left (fun acc t => fadd acc (fmul (fsub t mean) (fsub t mean))) vs (of_N 0) in
        [([], fsqrt (fdiv var n))]
    | PPerc vs =>
        let sorted := fsort vs in
        map (fun pn => ([112] ++ N_to_dec pn, percentile sorted pn)) [25; 50; 75; 90; 95; 99]
    | PSum s => [([], s)]
    end.

End Agg.

(* ---- the aggregator, generic in the per-key state P ------------------------
   P = proc for the real thing; P = list of contributed points for the
   specification (Proofs/AggregatorProofs.v relates the two). *)
Section Buckets.
  Variable F : Type.
  Variable P : Type.
  Variable pnew : F -> N -> P.
  Variable padd : P -> F -> N -> P.
  Variable pflush : P -> list (bytes * F).

  Definition bucket : Type := N * list (bytes * P).       (* quantized timestamp, per-key state (insertion order) *)
  Record astate := { a_buckets : list bucket;               (* ascending timestamp = tsList order *)
                     a_too_old : N }.
  Definition a_init : astate := {| a_buckets := []; a_too_old := 0 |}.

  Definition W64 : N := 18446744073709551616.
  Definition usub (a b : N) : N := (a + W64 - b mod W64) mod W64.     (* Go's uint subtraction *)

  Fixpoint key_update (l : list (bytes * P)) (k : bytes) (f : P -> P) : option (list (bytes * P)) :=
    match l with
    | [] => None
    | (k', p) :: l' => if beqb k k' then Some ((k', f p) :: l')
                       else match key_update l' k f with Some r => Some ((k', p) :: r) | None => None end
    end.

  (* find bucket q (buckets ascending); create it empty when missing *)
  Fixpoint with_bucket (bs : list bucket) (q : N) (f : list (bytes * P) -> list (bytes * P)) : list bucket :=
    match bs with
    | [] => [(q, f [])]
    | (q', ks) :: bs' =>
        if q =? q' then (q', f ks) :: bs'
        else if q <? q' then (q, f []) :: bs
        else (q', ks) :: with_bucket bs' q f
    end.

  Fixpoint bucket_keys (bs : list bucket) (q : N) : option (list (bytes * P)) :=
    match bs with [] => None | (q', ks) :: bs' => if q =? q' then Some ks else bucket_keys bs' q end.

  (* AddOrCreate *)
  Definition add_or_create (wait : N) (st : astate) (key : bytes) (ts q : N) (v : F) (now : N) : astate :=
    let ks := match bucket_keys (a_buckets st) q with Some ks => ks | None => [] end in
    match key_update ks key (fun p => padd p v ts) with
    | Some ks' => {| a_buckets := with_bucket (a_buckets st) q (fun _ => ks'); a_too_old := a_too_old st |}
    | None =>
        if usub now wait <? q
        then {| a_buckets := with_bucket (a_buckets st) q (fun ks => ks ++ [(key, pnew v ts)]);
                a_too_old := a_too_old st |}
        else {| a_buckets := with_bucket (a_buckets st) q (fun ks => ks);     (* the empty bucket stays behind *)
                a_too_old := a_too_old st + 1 |}
    end.

  Definition emit_bucket (ks : list (bytes * P)) : list (bytes * F) :=
    flat_map (fun kp => map (fun r => (match fst r with [] => fst kp | sfx => fst kp ++ [46] ++ sfx end, snd r))
                            (pflush (snd kp))) ks.

  (* Flush cutoff: walk the ordered list while ts <= cutoff; those buckets are reported and removed *)
  Fixpoint split_flush (bs : list bucket) (cutoff : N) : list bucket * list bucket :=
    match bs with
    | [] => ([], [])
    | (q, ks) :: bs' =>
        if cutoff <? q then ([], bs)
        else let '(fl, rest) := split_flush bs' cutoff in ((q, ks) :: fl, rest)
    end.

  Definition flush (bs : list bucket) (cutoff : N) : list (N * list (bytes * F)) * list bucket :=
    let '(fl, rest) := split_flush bs cutoff in (map (fun b => (fst b, emit_bucket (snd b))) fl, rest).

  Inductive aevent :=
  | APoint (key : bytes) (v : F) (ts : N) (now : N)      (* a point whose expanded output name is key *)
  | ATick (t : N).                                       (* tick at unix time t *)

  Variables interval wait : N.

  Definition cutoff_of (t : N) : N := usub t wait.         (* uint(thresh.Unix()), thresh = t - wait seconds *)

  Definition astep (st : astate) (e : aevent) : astate * list (N * list (bytes * F)) :=
    match e with
    | APoint key v ts now =>
        let q := ts - ts mod interval in
        (add_or_create wait st key ts q v now, [])
    | ATick t =>
        let '(out, rest) := flush (a_buckets st) (cutoff_of t) in
        ({| a_buckets := rest; a_too_old := a_too_old st |}, out)
    end.
End Buckets.
