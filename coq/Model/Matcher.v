(* matcher/matcher.go *)
From CRNG Require Import Base.Bytes Lib.Regex.

(* a compiled regex option: its source text and (for execution) its AST *)
Record rx := { rx_src : bytes; rx_ast : re }.

Record matcher := {
  m_prefix : bytes; m_notPrefix : bytes; m_sub : bytes; m_notSub : bytes;
  m_regex : option rx; m_notRegex : option rx }.

Definition is_prefix_char (ch : N) : bool :=
  ((97 <=? ch) && (ch <=? 122)) || ((65 <=? ch) && (ch <=? 90)) || ((48 <=? ch) && (ch <=? 57))
  || (ch =? 95) || (ch =? 45).

(* the loop body of regexToPrefix for i >= 1; acc is the prefix so far, reversed.
   A quantifier (star, question mark, opening brace) makes the literal just before it optional, so that
   literal is dropped again. *)
Fixpoint prefix_scan (s : bytes) (acc : bytes) : bytes :=
  match s with
  | [] => rev acc
  | ch :: s' =>
      if is_prefix_char ch then prefix_scan s' (ch :: acc)
      else match ch, s' with
           | 92, 46 :: s'' => prefix_scan s'' (46 :: acc)
           | _, _ => if (ch =? 42) || (ch =? 63) || (ch =? 123) then rev (tl acc) else rev acc
           end
  end.

Fixpoint has_byte (c : N) (s : bytes) : bool :=
  match s with [] => false | x :: s' => (x =? c) || has_byte c s' end.

(* no static prefix unless the regex starts with ^; none either when it
   contains an alternation (the other branch need not share the prefix) *)
Definition regex_to_prefix (src : bytes) : bytes :=
  match src with
  | 94 :: s' => if has_byte 124 src then [] else prefix_scan s' []
  | _ => []
  end.

Definition nonempty (b : bytes) : bool := match b with [] => false | _ => true end.

Section WithEngine.
  Variable search : rx -> bytes -> bool.      (* Regexp.Match *)

  Definition matcher_match (m : matcher) (s : bytes) : bool :=
    if nonempty (m_prefix m) && negb (has_prefix (m_prefix m) s) then false
    else if nonempty (m_notPrefix m) && has_prefix (m_notPrefix m) s then false
    else if nonempty (m_sub m) && negb (contains (m_sub m) s) then false
    else if nonempty (m_notSub m) && contains (m_notSub m) s then false
    else if (match m_regex m with
             | Some r => let p := regex_to_prefix (rx_src r) in
                         (nonempty p && negb (has_prefix p s)) || negb (search r s)
             | None => false
             end) then false
    else if (match m_notRegex m with
             | Some r => let p := regex_to_prefix (rx_src r) in
                         (negb (nonempty p) || has_prefix p s) && search r s
             | None => false
             end) then false
    else true.

  Definition pre_match (m : matcher) (s : bytes) : bool :=
    if nonempty (m_prefix m) && negb (has_prefix (m_prefix m) s) then false
    else if nonempty (m_notPrefix m) && has_prefix (m_notPrefix m) s then false
    else if nonempty (m_sub m) && negb (contains (m_sub m) s) then false
    else if nonempty (m_notSub m) && contains (m_notSub m) s then false
    else match m_regex m with
         | Some r => let p := regex_to_prefix (rx_src r) in
                     negb (nonempty p && negb (has_prefix p s))
         | None => true
         end.

  (* the documented meaning of a filter *)
  Definition spec_accept (m : matcher) (s : bytes) : bool :=
    (negb (nonempty (m_prefix m)) || has_prefix (m_prefix m) s)
    && negb (nonempty (m_notPrefix m) && has_prefix (m_notPrefix m) s)
    && (negb (nonempty (m_sub m)) || contains (m_sub m) s)
    && negb (nonempty (m_notSub m) && contains (m_notSub m) s)
    && (match m_regex m with Some r => search r s | None => true end)
    && negb (match m_notRegex m with Some r => search r s | None => false end).
End WithEngine.

(* execution: the engine *)
Definition rx_search (r : rx) (s : bytes) : bool := re_search (rx_ast r) s.

(* MatchRegexAndExpand: the regex must match and notRegex must not
   (a nil regex panics in the real code: None here is "no match") *)
Definition match_regex_and_expand (m : matcher) (key tpl : bytes) : option bytes :=
  match m_regex m with
  | None => None
  | Some r => match re_find (rx_ast r) key with
              | None => None
              | Some c => if (match m_notRegex m with Some nr => rx_search nr key | None => false end)
                          then None else Some (re_expand tpl key c)
              end
  end.
