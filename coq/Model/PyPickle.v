(* What CPython's pickler (protocols 2 and 3, the ones carbon's own clients use) writes for a list
   of (name, (timestamp, value)) tuples whose objects are all distinct: PROTO, EMPTY_LIST, BINPUT,
   then per item BINUNICODE name BINPUT, the two numbers (BININT1 / BININT2 / BININT for
   0 <= n < 2^31, BINFLOAT), TUPLE2 BINPUT, TUPLE2 BINPUT; one item is APPENDed, several are
   bracketed by MARK ... APPENDS (batches of 1000: lists of at most 1000 items here).
   The generator compares this model byte for byte with pickle.dumps on every run. *)
From CRNG Require Import Base.Bytes Base.Decimal Model.PickleVM Model.Reencode.
Local Open Scope N_scope.

Inductive pynum := PyInt (n : N) | PyFloat (bits : N).
Record pydp := { d_name : bytes; d_ts : pynum; d_val : pynum }.

Definition put (i : N) : bytes := if i <? 256 then [113; i] else 114 :: le_bytes 4 i.
Definition enc_str (s : bytes) (i : N) : bytes :=
  88 :: le_bytes 4 (N.of_nat (length s)) ++ s ++ put i.
Definition enc_num (x : pynum) : bytes :=
  match x with
  | PyInt n => if n <? 256 then [75; n] else if n <? 65536 then 77 :: le_bytes 2 n else 74 :: le_bytes 4 n
  | PyFloat b => 71 :: be_bytes 8 b
  end.
Definition enc_item (d : pydp) (i : N) : bytes :=
  enc_str (d_name d) i ++ enc_num (d_ts d) ++ enc_num (d_val d) ++ [134] ++ put (i + 1) ++ [134] ++ put (i + 2).
Fixpoint enc_items (ds : list pydp) (i : N) : bytes :=
  match ds with [] => [] | d :: r => enc_item d i ++ enc_items r (i + 3) end.

Definition py_dumps (proto : N) (ds : list pydp) : bytes :=
  [128; proto; 93] ++ put 0 ++
  match ds with
  | [] => []
  | [d] => enc_item d 1 ++ [97]
  | _ => [40] ++ enc_items ds 1 ++ [101]
  end ++ [46].

Definition frame_of (p : bytes) : bytes := be_bytes 4 (N.of_nat (length p)) ++ p.

(* the equivalent plain-text line *)
Section Spec.
  Variable fmt6 fmt0 : N -> bytes.
  Definition num_text (f : N -> bytes) (x : pynum) : bytes :=
    match x with PyInt n => N_to_dec n | PyFloat b => f b end.
  Definition line_of (d : pydp) : bytes :=
    d_name d ++ [32] ++ num_text fmt6 (d_val d) ++ [32] ++ num_text fmt0 (d_ts d).
End Spec.

Definition num_ok (x : pynum) : bool :=
  match x with PyInt n => n <? 2147483648 | PyFloat b => b <? 18446744073709551616 end.
Definition dp_ok (d : pydp) : bool :=
  (N.of_nat (length (d_name d)) <? 2147483648) && num_ok (d_ts d) && num_ok (d_val d).

(* ---- protocol 4 (the default since Python 3.8): PROTO 4, one FRAME around the body when it has at least 4
   bytes (bodies below 64 KiB: a single frame), SHORT_BINUNICODE for names below 256 bytes, MEMOIZE instead of
   BINPUT ---- *)
Definition enc_str4 (s : bytes) : bytes :=
  let l := N.of_nat (length s) in
  (if l <? 256 then 140 :: l :: s else 88 :: le_bytes 4 l ++ s) ++ [148].
Definition enc_item4 (d : pydp) : bytes :=
  enc_str4 (d_name d) ++ enc_num (d_ts d) ++ enc_num (d_val d) ++ [134; 148; 134; 148].
Fixpoint enc_items4 (ds : list pydp) : bytes :=
  match ds with [] => [] | d :: r => enc_item4 d ++ enc_items4 r end.
Definition body4 (ds : list pydp) : bytes :=
  [93; 148] ++
  match ds with
  | [] => []
  | [d] => enc_item4 d ++ [97]
  | _ => [40] ++ enc_items4 ds ++ [101]
  end ++ [46].
Definition py_dumps4 (ds : list pydp) : bytes :=
  let b := body4 ds in
  [128; 4] ++ (if N.of_nat (length b) <? 4 then b else 149 :: le_bytes 8 (N.of_nat (length b)) ++ b).

(* ---- protocol 1 (binary opcodes without the PROTO header; tuples are MARK ... TUPLE, there is no TUPLE2) ---- *)
Definition enc_item1 (d : pydp) (i : N) : bytes :=
  [40] ++ enc_str (d_name d) i ++ [40] ++ enc_num (d_ts d) ++ enc_num (d_val d) ++ [116] ++ put (i + 1) ++ [116] ++ put (i + 2).
Fixpoint enc_items1 (ds : list pydp) (i : N) : bytes :=
  match ds with [] => [] | d :: r => enc_item1 d i ++ enc_items1 r (i + 3) end.
Definition py_dumps1 (ds : list pydp) : bytes :=
  [93] ++ put 0 ++
  match ds with
  | [] => []
  | [d] => enc_item1 d 1 ++ [97]
  | _ => [40] ++ enc_items1 ds 1 ++ [101]
  end ++ [46].

(* ---- protocol 0 (text opcodes): MARK LIST PUT, per item MARK UNICODE name PUT MARK INT/FLOAT INT/FLOAT TUPLE PUT TUPLE PUT APPEND.
   frepr: repr() of the float with the given bits (an oracle value per float, supplied by CPython on every run).
   Names: the characters pickle writes verbatim (ASCII without NUL, LF, CR, SUB and backslash). ---- *)
Section Proto0.
  Variable frepr : N -> bytes.
  Definition put0 (i : N) : bytes := 112 :: N_to_dec i ++ [10].
  Definition enc_num0 (x : pynum) : bytes :=
    match x with PyInt n => 73 :: N_to_dec n ++ [10] | PyFloat b => 70 :: frepr b ++ [10] end.
  Definition enc_item0 (d : pydp) (i : N) : bytes :=
    [40; 86] ++ d_name d ++ [10] ++ put0 i ++ [40] ++ enc_num0 (d_ts d) ++ enc_num0 (d_val d) ++
    [116] ++ put0 (i + 1) ++ [116] ++ put0 (i + 2) ++ [97].
  Fixpoint enc_items0 (ds : list pydp) (i : N) : bytes :=
    match ds with [] => [] | d :: r => enc_item0 d i ++ enc_items0 r (i + 3) end.
  Definition py_dumps0 (ds : list pydp) : bytes := [40; 108] ++ put0 0 ++ enc_items0 ds 1 ++ [46].
End Proto0.

Definition plain_char (c : N) : bool := (c <? 128) && negb (c =? 0) && negb (c =? 10) && negb (c =? 13) && negb (c =? 26) && negb (c =? 92).
Definition dp_ok0 (d : pydp) : bool := forallb plain_char (d_name d) && num_ok (d_ts d) && num_ok (d_val d).

(* what pickle.dumps(ds, protocol) writes, by protocol (1; 2 and 3; 4) *)
Definition payload (pd : N * list pydp) : bytes :=
  if fst pd =? 4 then py_dumps4 (snd pd) else if fst pd =? 1 then py_dumps1 (snd pd) else py_dumps (fst pd) (snd pd).

(* ... protocol 0 included, given the repr() texts of the floats *)
Definition payload_r (frepr : N -> bytes) (pd : N * list pydp) : bytes :=
  if fst pd =? 0 then py_dumps0 frepr (snd pd) else payload pd.

(* ---- protocols 2 and 3 with integers beyond int32: CPython writes LONG1, a length byte k = (bit_length >> 3) + 1 and the k
   little-endian bytes of the two's complement (non-negative integers here: the top byte stays below 128).  A length byte
   above 127 is the recorded og-rek finding C13:known:huge_long and is excluded by num_okL. ---- *)
Definition long_len (n : N) : N := (N.log2 n + 1) / 8 + 1.
Definition enc_numL (x : pynum) : bytes :=
  match x with
  | PyInt n => if n <? 2147483648 then enc_num x else 138 :: long_len n :: le_bytes (N.to_nat (long_len n)) n
  | PyFloat _ => enc_num x
  end.
Definition enc_itemL (d : pydp) (i : N) : bytes :=
  enc_str (d_name d) i ++ enc_numL (d_ts d) ++ enc_numL (d_val d) ++ [134] ++ put (i + 1) ++ [134] ++ put (i + 2).
Fixpoint enc_itemsL (ds : list pydp) (i : N) : bytes :=
  match ds with [] => [] | d :: r => enc_itemL d i ++ enc_itemsL r (i + 3) end.
Definition py_dumpsL (proto : N) (ds : list pydp) : bytes :=
  [128; proto; 93] ++ put 0 ++
  match ds with
  | [] => []
  | [d] => enc_itemL d 1 ++ [97]
  | _ => [40] ++ enc_itemsL ds 1 ++ [101]
  end ++ [46].
Definition num_okL (x : pynum) : bool :=
  match x with PyInt n => (n <? 2147483648) || (long_len n <? 128) | PyFloat b => b <? 18446744073709551616 end.
Definition dp_okL (d : pydp) : bool :=
  (N.of_nat (length (d_name d)) <? 2147483648) && num_okL (d_ts d) && num_okL (d_val d).
Definition payload_rL (frepr : N -> bytes) (pd : N * list pydp) : bytes :=
  if (fst pd =? 2) || (fst pd =? 3) then py_dumpsL (fst pd) (snd pd) else payload_r frepr pd.

(* ---- protocol 4 with integers beyond int32 (LONG1 as in protocols 2 and 3) ---- *)
Definition enc_item4L (d : pydp) : bytes :=
  enc_str4 (d_name d) ++ enc_numL (d_ts d) ++ enc_numL (d_val d) ++ [134; 148; 134; 148].
Fixpoint enc_items4L (ds : list pydp) : bytes :=
  match ds with [] => [] | d :: r => enc_item4L d ++ enc_items4L r end.
Definition body4L (ds : list pydp) : bytes :=
  [93; 148] ++
  match ds with
  | [] => []
  | [d] => enc_item4L d ++ [97]
  | _ => [40] ++ enc_items4L ds ++ [101]
  end ++ [46].
Definition py_dumps4L (ds : list pydp) : bytes :=
  let b := body4L ds in
  [128; 4] ++ (if N.of_nat (length b) <? 4 then b else 149 :: le_bytes 8 (N.of_nat (length b)) ++ b).
(* protocols 2, 3 and 4 *)
Definition payloadL (pd : N * list pydp) : bytes :=
  if fst pd =? 4 then py_dumps4L (snd pd) else py_dumpsL (fst pd) (snd pd).
Definition payload_rL4 (frepr : N -> bytes) (pd : N * list pydp) : bytes :=
  if (fst pd =? 2) || (fst pd =? 3) || (fst pd =? 4) then payloadL pd else payload_r frepr pd.
