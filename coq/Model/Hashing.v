(* Model of route/consistent_hashing.go, destination.addrInstanceSplit and of
   carbon's ConsistentHashRing (carbon/hashing.py as the property describes
   it).  Definitions only. *)
From CRNG Require Import Base.Bytes Base.Decimal Base.Order.

(* destination.addrInstanceSplit *)
Definition addr_instance_split (addr : bytes) : bytes * bytes :=
  if Nat.eqb (count_byte 58 addr) 2 then
    let parts := split_on 58 addr in
    (join [58] (firstn 2 parts), nth 2 parts [])
  else (addr, []).

(* strings.Split(d.Addr, ":")[0] *)
Definition server_of (addr : bytes) : bytes := hd [] (split_on 58 addr).

(* a destination as the hasher sees it: (Addr, Instance) *)
Definition hdest : Type := bytes * bytes.
Definition node : Type := bytes * bytes.           (* (server, instance); [] = no instance *)
Definition node_of_dest (d : hdest) : node := (server_of (fst d), snd d).

Definition str (s : list nat) : bytes := map N.of_nat s.

(* "('<server>', '<inst>'):<i>"  /  "('<server>', None):<i>" *)
Definition replica_key (n : node) (i : nat) : bytes :=
  [40; 39] ++ fst n ++ [39; 44; 32] ++
  (match snd n with [] => [78; 111; 110; 101] | inst => [39] ++ inst ++ [39] end) ++
  [41; 58] ++ nat_to_dec i.

Definition ekey : Type := N * (bytes * bytes).      (* Position, Hostname, Instance *)
Definition entry : Type := ekey * nat.              (* ... DestinationIndex *)
Definition epos (e : entry) : N := fst (fst e).

(* hashRing.Less *)
Definition entry_less (a b : entry) : bool :=
  let '((pa, (ha, ia)), _) := a in
  let '((pb, (hb, ib)), _) := b in
  (pa <? pb) || ((pa =? pb) && bleb ha hb && negb (beqb ha hb))
  || ((pa =? pb) && beqb ha hb && bleb ia ib && negb (beqb ia ib)).

Definition entry_le (a b : entry) : bool := negb (entry_less b a).

Section Ring.
  Variable pos : bytes -> N.          (* computeRingPosition *)
  Variable replicas : nat.            (* 100 *)

  Definition dest_entries (idx : nat) (d : hdest) : list entry :=
    map (fun i => ((pos (replica_key (node_of_dest d) i), node_of_dest d), idx)) (seq 0 replicas).

  (* AddDestination: append the new entries, sort.Sort the whole ring *)
  Definition add_destination (st : list entry * nat) (d : hdest) : list entry * nat :=
    let '(ring, n) := st in
    (isort entry_le (ring ++ dest_entries n d), S n).

  (* NewConsistentHasher *)
  Definition ring_of (ds : list hdest) : list entry :=
    fst (fold_left add_destination ds ([], O)).

  (* GetDestinationIndex: sort.Search for the first Position >= position, modulo len.
     None = the empty-ring panic (integer divide by zero). *)
  Definition lookup (p : N) (ring : list entry) : option entry :=
    match find (fun e => p <=? epos e) ring with
    | Some e => Some e
    | None => hd_error ring
    end.

  Definition dest_index (ds : list hdest) (name : bytes) : option nat :=
    option_map snd (lookup (pos name) (ring_of ds)).

  Definition node_for (ds : list hdest) (name : bytes) : option node :=
    option_map (fun e => snd (fst e)) (lookup (pos name) (ring_of ds)).

  (* --- carbon (Python 2) ------------------------------------------------ *)
  Definition cnode : Type := bytes * option bytes.
  Definition centry : Type := N * cnode.
  Definition optle (a b : option bytes) : bool :=
    match a, b with
    | None, _ => true
    | Some _, None => false
    | Some x, Some y => bleb x y
    end.
  Definition centry_le : centry -> centry -> bool := lex_le N.leb (lex_le bleb optle).

  (* bisect.insort (= insort_right) *)
  Fixpoint insort (x : centry) (l : list centry) : list centry :=
    match l with
    | [] => [x]
    | y :: l' => if centry_le y x then y :: insort x l' else x :: l
    end.

  Definition cnode_of (n : node) : cnode :=
    (fst n, match snd n with [] => None | i => Some i end).
  Definition cnode_str (n : cnode) : node :=
    (fst n, match snd n with None => [] | Some i => i end).

  (* "%s:%d" % (node, i) with Python's repr of the tuple *)
  Definition carbon_add_node (ring : list centry) (n : cnode) : list centry :=
    fold_left (fun r i => insort (pos (replica_key (cnode_str n) i), n) r) (seq 0 replicas) ring.

  Definition carbon_ring (nodes : list cnode) : list centry := fold_left carbon_add_node nodes [].

  (* get_node: bisect_left(ring, (position, None)) % len(ring); in Python 2
     None sorts before every tuple, so ring[i] >= (position, None) iff
     ring[i][0] >= position. *)
  Definition carbon_get_node (nodes : list cnode) (name : bytes) : option cnode :=
    let ring := carbon_ring nodes in
    match find (fun e => pos name <=? fst e) ring with
    | Some e => Some (snd e)
    | None => option_map snd (hd_error ring)
    end.
End Ring.
