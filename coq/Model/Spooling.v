(* C07: where a handed-off line can be while spooling is on.  Lines carry ghost identities.  The relay's
   view of the conn (s_conn) and the conn's real state (s_alive) are separate: between a break and the
   moment the relay notices, lines still go into the dead conn's queue and are rescued by getRedo.
   keepSafe may only forget a line the endpoint has received (the code's 10 s retention assumption,
   encoded as the enabling condition of the forgetting step, not assumed globally). *)
From CRNG Require Import Base.Bytes.
Local Open Scope N_scope.

Record sst := {
  s_conn : bool;  s_alive : bool;
  s_q : list N;          (* conn.In *)
  s_keep : list N;       (* keepSafe, both generations *)
  s_wire : list N;       (* written to the socket, not yet read by the endpoint *)
  s_spool : list N;      (* spool.InRT, queueBuffer, disk queue, slow chan *)
  s_recv : list N;       (* received by some incarnation of the endpoint *)
  s_slow : list N;  s_slowspool : list N;     (* dropped and counted *)
  s_now : bool;  s_last : bool;
  s_handed : list N }.

Definition sinit : sst :=
  {| s_conn := false; s_alive := false; s_q := []; s_keep := []; s_wire := []; s_spool := []; s_recv := [];
     s_slow := []; s_slowspool := []; s_now := false; s_last := false; s_handed := [] |}.

Inductive sev :=
| SIn (id : N) (room : bool)      (* relay: a line from dest.In; room in conn.In resp. spool.InRT *)
| SUnspool (room : bool)          (* relay: the head of the backlog is offered to conn.In *)
| STake                           (* conn.HandleData: take from conn.In, keepSafe.Add, write *)
| SDeliver                        (* the endpoint reads the next written line *)
| SBreak                          (* the connection breaks; what was written and not read is gone *)
| SNotice                         (* relay sees the dead conn: getRedo drains conn.In and keepSafe into the spool *)
| SForget                         (* keepSafe rotation: only lines already received are forgotten *)
| SConnUp
| STick.

Definition memb (x : N) (l : list N) : bool := existsb (N.eqb x) l.

Definition sstep (s : sst) (e : sev) : option sst :=
  match e with
  | SIn id room =>
      if s_conn s then
        Some (if room
              then {| s_conn := true; s_alive := s_alive s; s_q := s_q s ++ [id]; s_keep := s_keep s; s_wire := s_wire s;
                      s_spool := s_spool s; s_recv := s_recv s; s_slow := s_slow s; s_slowspool := s_slowspool s;
                      s_now := s_now s; s_last := s_last s; s_handed := id :: s_handed s |}
              else {| s_conn := true; s_alive := s_alive s; s_q := s_q s; s_keep := s_keep s; s_wire := s_wire s;
                      s_spool := s_spool s; s_recv := s_recv s; s_slow := id :: s_slow s; s_slowspool := s_slowspool s;
                      s_now := true; s_last := s_last s; s_handed := id :: s_handed s |})
      else
        Some (if room
              then {| s_conn := false; s_alive := s_alive s; s_q := s_q s; s_keep := s_keep s; s_wire := s_wire s;
                      s_spool := s_spool s ++ [id]; s_recv := s_recv s; s_slow := s_slow s; s_slowspool := s_slowspool s;
                      s_now := s_now s; s_last := s_last s; s_handed := id :: s_handed s |}
              else {| s_conn := false; s_alive := s_alive s; s_q := s_q s; s_keep := s_keep s; s_wire := s_wire s;
                      s_spool := s_spool s; s_recv := s_recv s; s_slow := s_slow s; s_slowspool := id :: s_slowspool s;
                      s_now := s_now s; s_last := s_last s; s_handed := id :: s_handed s |})
  | SUnspool room =>
      if s_conn s && negb (s_now s) && negb (s_last s) then
        match s_spool s with
        | h :: t =>
            Some (if room
                  then {| s_conn := true; s_alive := s_alive s; s_q := s_q s ++ [h]; s_keep := s_keep s; s_wire := s_wire s;
                          s_spool := t; s_recv := s_recv s; s_slow := s_slow s; s_slowspool := s_slowspool s;
                          s_now := s_now s; s_last := s_last s; s_handed := s_handed s |}
                  else {| s_conn := true; s_alive := s_alive s; s_q := s_q s; s_keep := s_keep s; s_wire := s_wire s;
                          s_spool := t; s_recv := s_recv s; s_slow := h :: s_slow s; s_slowspool := s_slowspool s;
                          s_now := true; s_last := s_last s; s_handed := s_handed s |})
        | [] => None
        end
      else None
  | STake =>
      match s_q s with
      | h :: t =>
          Some {| s_conn := s_conn s; s_alive := s_alive s; s_q := t; s_keep := s_keep s ++ [h];
                  s_wire := if s_alive s then s_wire s ++ [h] else s_wire s;
                  s_spool := s_spool s; s_recv := s_recv s; s_slow := s_slow s; s_slowspool := s_slowspool s;
                  s_now := s_now s; s_last := s_last s; s_handed := s_handed s |}
      | [] => None
      end
  | SDeliver =>
      if s_alive s then
        match s_wire s with
        | h :: t =>
            Some {| s_conn := s_conn s; s_alive := true; s_q := s_q s; s_keep := s_keep s; s_wire := t;
                    s_spool := s_spool s; s_recv := h :: s_recv s; s_slow := s_slow s; s_slowspool := s_slowspool s;
                    s_now := s_now s; s_last := s_last s; s_handed := s_handed s |}
        | [] => None
        end
      else None
  | SBreak =>
      if s_alive s then
        Some {| s_conn := s_conn s; s_alive := false; s_q := s_q s; s_keep := s_keep s; s_wire := [];
                s_spool := s_spool s; s_recv := s_recv s; s_slow := s_slow s; s_slowspool := s_slowspool s;
                s_now := s_now s; s_last := s_last s; s_handed := s_handed s |}
      else None
  | SNotice =>
      if s_conn s && negb (s_alive s) then
        Some {| s_conn := false; s_alive := false; s_q := []; s_keep := []; s_wire := [];
                s_spool := s_spool s ++ s_keep s ++ s_q s; s_recv := s_recv s; s_slow := s_slow s; s_slowspool := s_slowspool s;
                s_now := s_now s; s_last := s_last s; s_handed := s_handed s |}
      else None
  | SForget =>
      Some {| s_conn := s_conn s; s_alive := s_alive s; s_q := s_q s;
              s_keep := filter (fun x => negb (memb x (s_recv s))) (s_keep s); s_wire := s_wire s;
              s_spool := s_spool s; s_recv := s_recv s; s_slow := s_slow s; s_slowspool := s_slowspool s;
              s_now := s_now s; s_last := s_last s; s_handed := s_handed s |}
  | SConnUp =>
      if s_conn s then None else
        Some {| s_conn := true; s_alive := true; s_q := s_q s; s_keep := s_keep s; s_wire := [];
                s_spool := s_spool s; s_recv := s_recv s; s_slow := s_slow s; s_slowspool := s_slowspool s;
                s_now := false; s_last := false; s_handed := s_handed s |}
  | STick =>
      Some {| s_conn := s_conn s; s_alive := s_alive s; s_q := s_q s; s_keep := s_keep s; s_wire := s_wire s;
              s_spool := s_spool s; s_recv := s_recv s; s_slow := s_slow s; s_slowspool := s_slowspool s;
              s_now := false; s_last := s_now s; s_handed := s_handed s |}
  end.

Fixpoint srun (s : sst) (evs : list sev) : option sst :=
  match evs with
  | [] => Some s
  | e :: r => match sstep s e with Some s' => srun s' r | None => None end
  end.
