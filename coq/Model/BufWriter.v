(* destination/bufwriter.go (Write, flush), Conn.Write, the bounded hand-off into conn.In. *)
From CRNG Require Import Base.Bytes.
Local Open Scope nat_scope.

(* what the underlying io.Writer answers to one Write call: bytes accepted, error? *)
Definition wresp : Type := option nat * bool.      (* None = takes everything offered *)

Record bw := { bw_cap : nat; bw_buf : bytes; bw_err : bool;
               bw_out : bytes;                (* ghost: everything the underlying writer accepted, in order *)
               bw_script : list wresp }.      (* the environment: answers still to come *)

Definition next_resp (b : bw) (len : nat) : nat * bool * list wresp :=
  match bw_script b with
  | [] => (len, false, [])                    (* script exhausted: healthy from here on *)
  | (Some n, e) :: r => (Nat.min n len, e, r)
  | (None, e) :: r => (len, e, r)
  end.

(* one call of the underlying writer with p *)
Definition under_write (b : bw) (p : bytes) : nat * bool * bw :=
  let '(n, e, r) := next_resp b (length p) in
  (n, e, {| bw_cap := bw_cap b; bw_buf := bw_buf b; bw_err := bw_err b; bw_out := bw_out b ++ firstn n p; bw_script := r |}).

(* flush: returns the error flag *)
Definition bw_flush (b : bw) : bw * bool :=
  if bw_err b then (b, true)
  else match bw_buf b with
       | [] => (b, false)
       | buf =>
           let '(n, e, b1) := under_write b buf in
           let e' := e || Nat.ltb n (length buf) in              (* io.ErrShortWrite *)
           if e' then ({| bw_cap := bw_cap b1; bw_buf := skipn n buf; bw_err := true; bw_out := bw_out b1; bw_script := bw_script b1 |}, true)
           else ({| bw_cap := bw_cap b1; bw_buf := []; bw_err := false; bw_out := bw_out b1; bw_script := bw_script b1 |}, false)
       end.

Definition avail (b : bw) : nat := bw_cap b - length (bw_buf b).

(* Write: (bytes taken, error) *)
Fixpoint bw_write (fuel : nat) (b : bw) (p : bytes) (nn : nat) : option (bw * nat * bool) :=
  if Nat.ltb (avail b) (length p) && negb (bw_err b) then
    match fuel with
    | O => None                                                    (* only with a writer that accepts nothing and reports no error *)
    | S f =>
        match bw_buf b with
        | [] =>
            let '(n, e, b1) := under_write b p in
            bw_write f {| bw_cap := bw_cap b1; bw_buf := []; bw_err := e; bw_out := bw_out b1; bw_script := bw_script b1 |}
                     (skipn n p) (nn + n)
        | _ =>
            let k := avail b in
            let b1 := {| bw_cap := bw_cap b; bw_buf := bw_buf b ++ firstn k p; bw_err := bw_err b; bw_out := bw_out b; bw_script := bw_script b |} in
            let '(b2, _) := bw_flush b1 in
            bw_write f b2 (skipn k p) (nn + k)
        end
    end
  else if bw_err b then Some (b, nn, true)
  else Some ({| bw_cap := bw_cap b; bw_buf := bw_buf b ++ p; bw_err := false; bw_out := bw_out b; bw_script := bw_script b |},
             nn + length p, false).

Definition WFUEL (p : bytes) : nat := 2 * length p + 4.

(* Conn.Write in plain mode: the line, then a newline if the line went in completely *)
Definition conn_write (b : bw) (line : bytes) : option (bw * bool) :=
  match bw_write (WFUEL line) b line 0 with
  | None => None
  | Some (b1, n, e) =>
      if negb e && Nat.eqb n (length line) then
        match bw_write (WFUEL [10%N]) b1 [10%N] 0 with
        | None => None
        | Some (b2, n2, e2) => Some (b2, e2 || negb (Nat.eqb n2 1))
        end
      else Some (b1, true)
  end.

(* ---- the bounded queue between relay() and HandleData ------------------- *)
Inductive qev := Offer (line : bytes) | Take.
Record qst := { q_items : list bytes; q_cap : nat; q_dropped : nat; q_taken : list bytes }.

(* nonBlockingSend / the receive in HandleData *)
Definition q_step (s : qst) (e : qev) : qst :=
  match e with
  | Offer l => if Nat.ltb (length (q_items s)) (q_cap s)
               then {| q_items := q_items s ++ [l]; q_cap := q_cap s; q_dropped := q_dropped s; q_taken := q_taken s |}
               else {| q_items := q_items s; q_cap := q_cap s; q_dropped := S (q_dropped s); q_taken := q_taken s |}
  | Take => match q_items s with
            | [] => s
            | l :: r => {| q_items := r; q_cap := q_cap s; q_dropped := q_dropped s; q_taken := q_taken s ++ [l] |}
            end
  end.

(* ---- pickle mode: a stream of 4-byte big-endian length-prefixed payloads ------------------- *)
From CRNG Require Import Model.DiskQueue.   (* frame / un_be32: the same framing as the spool records *)

Fixpoint parse_frames (fuel : nat) (s : bytes) : option (list bytes) :=
  match s with
  | [] => Some []
  | _ =>
      match fuel with
      | O => None
      | S f =>
          let n := N.to_nat (un_be32 (firstn 4 s)) in
          if Nat.ltb (length s) (4 + n) then None
          else match parse_frames f (skipn n (skipn 4 s)) with
               | Some r => Some (firstn n (skipn 4 s) :: r)
               | None => None
               end
      end
  end.
