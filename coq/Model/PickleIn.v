(* input/pickle.go: the framed read loop, checkProtocol, and the per-item
   conversion to plain-text lines, on top of the og-rek machine (Model/PickleVM.v). *)
From CRNG Require Import Base.Bytes Base.Decimal Model.PickleVM.
Local Open Scope N_scope.

Inductive ev := EvLine (l : bytes) | EvInvalid.
Inductive fin := FinOk | FinErr | FinUnsupported.

Definition as_seq (v : pv) : option (list pv) :=
  match v with VTuple l => Some l | VList l => Some l | _ => None end.

Section Handle.
  Variable pf : bytes -> option N.          (* strconv.ParseFloat for FLOAT opcodes *)
  Variable fmt6 fmt0 : N -> bytes.          (* fmt "%f" and "%.0f" of a float64 given by its bits *)

  Definition value_text (v : pv) : option bytes :=
    match v with
    | VStr s => Some s
    | VInt z => Some (Z_to_dec z)
    | VLong z => Some (Z_to_dec z)
    | VFloat b => Some (fmt6 b)
    | _ => None
    end.
  Definition ts_text (v : pv) : option bytes :=
    match v with
    | VStr s => Some s
    | VInt z => Some (Z_to_dec z)
    | VLong z => Some (Z_to_dec z)
    | VFloat b => Some (fmt0 b)
    | _ => None
    end.

  Definition handle_item (it : pv) : ev :=
    match as_seq it with
    | Some [VStr name; d] =>
        match as_seq d with
        | Some [t; v] =>
            match value_text v, ts_text t with
            | Some vt, Some tx => EvLine (name ++ [32] ++ vt ++ [32] ++ tx)
            | _, _ => EvInvalid
            end
        | _ => EvInvalid
        end
    | _ => EvInvalid
    end.

  (* checkProtocol peeks into what follows the length prefix (not only this frame) *)
  Definition check_protocol (s : bytes) : bool :=
    match s with
    | [] => false
    | 93 :: _ => true
    | [_] => false
    | 40 :: 108 :: _ => true
    | [_; _] => false
    | 128 :: _ :: c :: _ => (c =? 93) || (c =? 149)
    | _ => false
    end.

  Definition max_payload : N := 524288000.

  Fixpoint handle_stream (fuel : nat) (s : bytes) : list ev * fin :=
    match fuel with
    | O => ([], FinUnsupported)
    | S f =>
        match s with
        | [] => ([], FinOk)
        | _ =>
            match take 4 s with
            | None => ([], FinErr)
            | Some (h, r) =>
                let n := be_num h in
                if max_payload <? n then ([], FinErr)
                else if negb (check_protocol r) then ([], FinErr)
                else match take_n n r with
                     | None => ([], FinErr)
                     | Some (payload, r') =>
                         match unpickle pf false payload with
                         | RDone (VList items) =>
                             let (evs, fn) := handle_stream f r' in (map handle_item items ++ evs, fn)
                         | RDone _ => ([], FinErr)
                         | RErrEOF => ([], FinOk)
                         | RUnsupported => ([], FinUnsupported)
                         | RFuel => ([], FinUnsupported)
                         | _ => ([], FinErr)
                         end
                     end
            end
        end
    end.

  Definition handle_conn (s : bytes) : list ev * fin := handle_stream (S (length s)) s.
End Handle.
