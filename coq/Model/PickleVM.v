(* The pickle virtual machine as github.com/kisielk/og-rek (the version pinned
   in go.mod) implements it, opcode by opcode, with its quirks (BININT read as
   unsigned, the PROTO argument never checked, LONG1 with a length byte above
   127 reading nothing, 'V' strings re-encoded rune by rune).  With [py] set
   the one difference that matters for the opcodes og-rek's own encoder emits
   is switched to CPython's reading (BININT is signed), which makes the same
   machine the specification of "what Python's unpickler decodes" for C16.

   Values are immutable trees; the memo keeps the value as it was when it was
   stored, which is exactly what og-rek does for Go slices (and differs from
   CPython only when one list object is referenced twice).
   Dict opcodes are not modelled: they answer RUnsupported. *)
From CRNG Require Import Base.Bytes Base.Decimal Lib.Utf8.
Local Open Scope N_scope.

Inductive pv :=
| VInt (z : Z)            (* int64 *)
| VLong (z : Z)           (* *big.Int *)
| VFloat (bits : N)       (* float64, IEEE bits *)
| VStr (s : bytes)
| VBool (b : bool)
| VNone
| VTuple (l : list pv)
| VList (l : list pv)
| VMark
| VClass
| VCall.

Inductive vm_res :=
| RDone (v : pv)
| RErrEOF                 (* io.ErrUnexpectedEOF *)
| RErr                    (* any other error *)
| RUnsupported            (* outside the modelled fragment *)
| REOF0                   (* io.EOF before the first opcode *)
| RFuel.

Record vm := { stk : list pv; memo : list (bytes * pv) }.
Definition vm0 : vm := {| stk := []; memo := [] |}.

Fixpoint take (n : nat) (s : bytes) : option (bytes * bytes) :=
  match n with
  | O => Some ([], s)
  | S k => match s with
           | [] => None
           | c :: s' => match take k s' with Some (a, r) => Some (c :: a, r) | None => None end
           end
  end.
(* counted in N so that a hostile 4 GB length costs nothing; linear in the bytes taken *)
Fixpoint take_nl (s : bytes) (n : N) (acc : bytes) : option (bytes * bytes) :=
  if n =? 0 then Some (rev_append acc [], s)
  else match s with
       | [] => None
       | c :: s' => take_nl s' (N.pred n) (c :: acc)
       end.
Definition take_n (n : N) (s : bytes) : option (bytes * bytes) := take_nl s n [].

Definition le_num (bs : bytes) : N := fold_right (fun b acc => b + 256 * acc) 0 bs.
Definition be_num (bs : bytes) : N := le_num (rev bs).

Definition strip_cr (l : bytes) : bytes :=
  match rev l with 13 :: r => rev r | _ => l end.

(* bufio.Reader.ReadLine, reassembled: None = io.EOF *)
Definition read_line (s : bytes) : option (bytes * bytes) :=
  match s with
  | [] => None
  | _ => match cut 10 s with
         | (l, Some rest) => Some (strip_cr l, rest)
         | (l, None) => Some (l, [])
         end
  end.

(* strconv.ParseInt(s, 10, _) / big.Int.SetString(s, 10) without the range check *)
Definition parse_int (s : bytes) : option Z :=
  match s with
  | 45 :: d => match dec_parse d with Some n => Some (- Z.of_N n)%Z | None => None end
  | 43 :: d => match dec_parse d with Some n => Some (Z.of_N n) | None => None end
  | _ => match dec_parse s with Some n => Some (Z.of_N n) | None => None end
  end.
Definition in_int64 (z : Z) : bool := ((- 9223372036854775808 <=? z) && (z <=? 9223372036854775807))%Z.

Fixpoint split_mark (st : list pv) (acc : list pv) : option (list pv * list pv) :=
  match st with
  | [] => None
  | VMark :: r => Some (acc, r)
  | v :: r => split_mark r (v :: acc)
  end.

Definition memo_put (k : bytes) (v : pv) (m : list (bytes * pv)) : list (bytes * pv) :=
  (k, v) :: filter (fun e => negb (beqb (fst e) k)) m.
Definition memo_get (k : bytes) (m : list (bytes * pv)) : option pv :=
  match find (fun e => beqb (fst e) k) m with Some e => Some (snd e) | None => None end.

(* two's complement little-endian, as decodeLong computes it *)
Definition twos (bs : bytes) : Z :=
  match rev bs with
  | [] => 0%Z
  | top :: _ => if 127 <? top then (Z.of_N (le_num bs) - Z.of_N (256 ^ N.of_nat (length bs)))%Z
                else Z.of_N (le_num bs)
  end.

Definition hexval (c : N) : option N :=
  if (48 <=? c) && (c <=? 57) then Some (c - 48)
  else if (97 <=? c) && (c <=? 102) then Some (c - 87)
  else if (65 <=? c) && (c <=? 70) then Some (c - 55)
  else None.
Fixpoint hexnum (s : bytes) (acc : N) : option N :=
  match s with
  | [] => Some acc
  | c :: s' => match hexval c with Some d => hexnum s' (acc * 16 + d) | None => None end
  end.

Inductive vdec := VOk (s : bytes) | VBad | VUnsup.
(* loadUnicode: quotes copied, everything else through strconv.UnquoteChar + WriteRune *)
Fixpoint v_decode (fuel : nat) (s : bytes) (acc : bytes) : vdec :=
  match fuel with
  | O => match s with [] => VOk (rev acc) | _ => VUnsup end
  | S f =>
      match s with
      | [] => VOk (rev acc)
      | c :: r =>
          if c =? 39 then v_decode f r (39 :: acc)
          else if c =? 92 then
            match r with
            | 117 :: r' =>
                match take 4 r' with
                | Some (h, r'') => match hexnum h 0 with
                                   | Some n => v_decode f r'' (rev (utf8_encode n) ++ acc)
                                   | None => VBad
                                   end
                | None => VBad
                end
            | 85 :: r' =>
                match take 8 r' with
                | Some (h, r'') => match hexnum h 0 with
                                   | Some n => if 1114111 <? n then VBad
                                               else v_decode f r'' (rev (utf8_encode n) ++ acc)
                                   | None => VBad
                                   end
                | None => VBad
                end
            | _ => VUnsup
            end
          else if c <? 128 then v_decode f r (c :: acc)
          else match utf8_width s with
               | O => v_decode f r (189 :: 191 :: 239 :: acc)
               | w => v_decode f (skipn w s) (rev (firstn w s) ++ acc)
               end
      end
  end.

Inductive sres := SNext (m : vm) (rest : bytes) | SStop | SFail (r : vm_res).

Definition push (v : pv) (m : vm) : vm := {| stk := v :: stk m; memo := memo m |}.
Definition set_stk (st : list pv) (m : vm) : vm := {| stk := st; memo := memo m |}.

Definition with_take (n : nat) (s : bytes) (k : bytes -> bytes -> sres) : sres :=
  match take n s with Some (a, r) => k a r | None => SFail RErrEOF end.
Definition with_take_n (n : N) (s : bytes) (k : bytes -> bytes -> sres) : sres :=
  match take_n n s with Some (a, r) => k a r | None => SFail RErrEOF end.
Definition with_line (s : bytes) (k : bytes -> bytes -> sres) : sres :=
  match read_line s with Some (l, r) => k l r | None => SFail RErrEOF end.

Section VM.
  Variable pf : bytes -> option N.      (* strconv.ParseFloat(text, 64) as IEEE bits *)
  Variable py : bool.                   (* CPython's reading of BININT *)

  Definition step (m : vm) (c : N) (s : bytes) : sres :=
    if c =? 40 then SNext (push VMark m) s
    else if c =? 46 then SStop
    else if c =? 48 then match stk m with [] => SFail RErr | _ :: r => SNext (set_stk r m) s end
    else if c =? 50 then match stk m with [] => SFail RErr | v :: _ => SNext (push v m) s end
    else if c =? 70 then
      with_line s (fun l r => match pf l with Some b => SNext (push (VFloat b) m) r | None => SFail RErr end)
    else if c =? 73 then
      with_line s (fun l r =>
        if beqb l [48; 48] then SNext (push (VBool false) m) r
        else if beqb l [48; 49] then SNext (push (VBool true) m) r
        else match parse_int l with
             | Some z => if in_int64 z then SNext (push (VInt z) m) r else SFail RErr
             | None => SFail RErr
             end)
    else if c =? 74 then
      with_take 4 s (fun a r =>
        let n := le_num a in
        SNext (push (VInt (if py && (2147483648 <=? n) then (Z.of_N n - 4294967296)%Z else Z.of_N n)) m) r)
    else if c =? 75 then with_take 1 s (fun a r => SNext (push (VInt (Z.of_N (le_num a))) m) r)
    else if c =? 77 then with_take 2 s (fun a r => SNext (push (VInt (Z.of_N (le_num a))) m) r)
    else if c =? 76 then
      with_line s (fun l r =>
        match rev l with
        | 76 :: d => match parse_int (rev d) with
                     | Some z => SNext (push (VLong z) m) r
                     | None => SFail RErr
                     end
        | _ => SFail RErrEOF
        end)
    else if c =? 78 then SNext (push VNone m) s
    else if c =? 82 then
      match stk m with
      | VTuple _ :: VClass :: r => SNext (set_stk (VCall :: r) m) s
      | _ => SFail RErr
      end
    else if c =? 83 then
      with_line s (fun l r =>
        match l with
        | d :: rest =>
            match rev rest with
            | [] => SFail RErrEOF
            | e :: mid =>
                if (d =? 39) || (d =? 34) then
                  if e =? d then SNext (push (VStr (rev mid)) m) r else SFail RErrEOF
                else SFail RErr
            end
        | [] => SFail RErrEOF
        end)
    else if c =? 84 then
      with_take 4 s (fun a r => with_take_n (le_num a) r (fun b r' => SNext (push (VStr b) m) r'))
    else if c =? 85 then
      with_take 1 s (fun a r => with_take_n (le_num a) r (fun b r' => SNext (push (VStr b) m) r'))
    else if c =? 140 then
      with_take 1 s (fun a r => with_take_n (le_num a) r (fun b r' => SNext (push (VStr b) m) r'))
    else if c =? 86 then
      with_line s (fun l r =>
        match v_decode (length l) l [] with
        | VOk b => SNext (push (VStr b) m) r
        | VBad => SFail RErr
        | VUnsup => SFail RUnsupported
        end)
    else if c =? 88 then
      with_take 4 s (fun a r =>
        if 2147483648 <=? le_num a then SNext (push (VStr []) m) r
        else with_take_n (le_num a) r (fun b r' => SNext (push (VStr b) m) r'))
    else if c =? 97 then
      match stk m with
      | v :: VList xs :: r => SNext (set_stk (VList (xs ++ [v]) :: r) m) s
      | _ => SFail RErr
      end
    else if c =? 99 then
      with_line s (fun _ r => with_line r (fun _ r' => SNext (push VClass m) r'))
    else if (c =? 100) || (c =? 125) || (c =? 115) || (c =? 117) then SFail RUnsupported
    else if c =? 101 then
      match split_mark (stk m) [] with
      | Some (items, VList xs :: r) => SNext (set_stk (VList (xs ++ items) :: r) m) s
      | _ => SFail RErr
      end
    else if c =? 103 then
      with_line s (fun l r => match memo_get l (memo m) with Some v => SNext (push v m) r | None => SFail RErr end)
    else if c =? 104 then
      with_take 1 s (fun a r => match memo_get (N_to_dec (le_num a)) (memo m) with
                                | Some v => SNext (push v m) r | None => SFail RErr end)
    else if c =? 106 then
      with_take 4 s (fun a r => match memo_get (N_to_dec (le_num a)) (memo m) with
                                | Some v => SNext (push v m) r | None => SFail RErr end)
    else if c =? 108 then
      match split_mark (stk m) [] with
      | Some (items, r) => SNext (set_stk (VList items :: r) m) s
      | None => SFail RErr
      end
    else if c =? 93 then SNext (push (VList []) m) s
    else if c =? 112 then
      with_line s (fun l r =>
        match stk m with
        | [] => SFail RErr
        | v :: _ => SNext {| stk := stk m; memo := memo_put l v (memo m) |} r
        end)
    else if c =? 113 then
      match stk m with
      | [] => SFail RErr
      | v :: _ => with_take 1 s (fun a r =>
                    SNext {| stk := stk m; memo := memo_put (N_to_dec (le_num a)) v (memo m) |} r)
      end
    else if c =? 114 then
      match stk m with
      | [] => SFail RErr
      | v :: _ => with_take 4 s (fun a r =>
                    SNext {| stk := stk m; memo := memo_put (N_to_dec (le_num a)) v (memo m) |} r)
      end
    else if c =? 116 then
      match split_mark (stk m) [] with
      | Some (items, r) => SNext (set_stk (VTuple items :: r) m) s
      | None => SFail RErr
      end
    else if c =? 41 then SNext (push (VTuple []) m) s
    else if c =? 133 then
      match stk m with a :: r => SNext (set_stk (VTuple [a] :: r) m) s | _ => SFail RErr end
    else if c =? 134 then
      match stk m with b :: a :: r => SNext (set_stk (VTuple [a; b] :: r) m) s | _ => SFail RErr end
    else if c =? 135 then
      match stk m with c' :: b :: a :: r => SNext (set_stk (VTuple [a; b; c'] :: r) m) s | _ => SFail RErr end
    else if c =? 136 then SNext (push (VBool true) m) s
    else if c =? 137 then SNext (push (VBool false) m) s
    else if c =? 138 then
      with_take 1 s (fun a r =>
        if 127 <? le_num a then SNext (push (VLong 0) m) r
        else with_take_n (le_num a) r (fun b r' => SNext (push (VLong (twos b)) m) r'))
    else if c =? 71 then with_take 8 s (fun a r => SNext (push (VFloat (be_num a)) m) r)
    else if c =? 149 then with_take 8 s (fun _ r => SNext m r)
    else if c =? 148 then
      match stk m with
      | [] => SFail RErr
      | v :: _ => SNext {| stk := stk m; memo := memo_put (N_to_dec (N.of_nat (length (memo m)))) v (memo m) |} s
      end
    else if c =? 128 then SNext m (tl s)
    else SFail RErr.

  Fixpoint run (fuel : nat) (m : vm) (s : bytes) (first : bool) : vm_res :=
    match fuel with
    | O => RFuel
    | S f =>
        match s with
        | [] => if first then REOF0 else RErrEOF
        | c :: r =>
            match step m c r with
            | SNext m' r' => run f m' r' false
            | SStop => match stk m with [] => RErr | v :: _ => RDone v end
            | SFail e => e
            end
        end
    end.

  Definition unpickle (s : bytes) : vm_res := run (S (length s)) vm0 s true.
End VM.
