(* carbon20.ValidatePacket and the level maps of validate/validate.go.
   strconv.ParseFloat is an oracle: the two booleans say whether the value and
   timestamp tokens parse (err == nil). *)
From CRNG Require Import Base.Bytes Model.Fields.

Inductive level_legacy := StrictLegacy | MediumLegacy | NoneLegacy.
Inductive level_m20 := MediumM20 | NoneM20.
Inductive version := Legacy | M20 | M20NoEquals.

(* error classes (the report shows err.Error(); we keep the constant texts
   apart, the formatted ones carry their argument) *)
Inductive verr :=
| ErrWrongNumFields | ErrValNotNumber | ErrTsNotTs | ErrEmptyNode | ErrEmptyKey
| ErrMixEqualsTypes | ErrNoUnit | ErrNoMType | ErrNotEnoughTags | ErrInvalidTagAppendix
| ErrNullAt (pos : nat) | ErrIllegalChar (c : N) | ErrNonAscii (c : N).

(* GetVersionB *)
Fixpoint get_version (s : bytes) : version :=
  match s with
  | [] => Legacy
  | 61 :: _ => M20
  | 95 :: s' => match s' with
                | 105 :: 115 :: 95 :: _ => M20NoEquals
                | _ => get_version s'
                end
  | 46 :: _ => Legacy
  | _ :: s' => get_version s'
  end.

(* ValidateTagAppendixB; fuel = number of sections *)
(* after ';': scan to '=', reject ; and ! ; returns what follows '=' *)
Fixpoint tag_key (s : bytes) : option bytes :=
  match s with
  | [] => None
  | c :: s' => if c =? 61 then Some s'
               else if (c =? 59) || (c =? 33) then None
               else tag_key s'
  end.

(* scan the value: Some None = reached the end, Some (Some rest) = stopped at ';' (rest starts with it), None = '=' found *)
Fixpoint tag_val (s : bytes) : option (option bytes) :=
  match s with
  | [] => Some None
  | c :: s' => if c =? 59 then Some (Some s)
               else if c =? 61 then None
               else tag_val s'
  end.

Fixpoint tag_appendix (fuel : nat) (tags : bytes) : bool :=
  match fuel with
  | O => false
  | S f =>
      if Nat.ltb (length tags) 4 then false else
      match tags with
      | [] => false
      | c :: rest =>
          if negb (c =? 59) then false else
          match rest with
          | [] => false
          | c1 :: _ =>
              if c1 =? 61 then false else
              match tag_key rest with
              | None => false
              | Some v =>
                  match v with
                  | [] => false
                  | c2 :: _ =>
                      if c2 =? 59 then false else
                      match tag_val v with
                      | None => false
                      | Some None => true
                      | Some (Some rest') => tag_appendix f rest'
                      end
                  end
              end
          end
      end
  end.

Definition sensible (c : N) : bool :=
  ((97 <=? c) && (c <=? 122)) || ((65 <=? c) && (c <=? 90)) || ((48 <=? c) && (c <=? 57))
  || (c =? 95) || (c =? 45) || (c =? 46).

Fixpoint first_illegal (s : bytes) : option N :=
  match s with [] => None | c :: s' => if sensible c then first_illegal s' else Some c end.

Fixpoint not_null_ascii (s : bytes) (i : nat) : option verr :=
  match s with
  | [] => None
  | c :: s' => if c =? 0 then Some (ErrNullAt i)
               else if 128 <=? c then Some (ErrNonAscii c)
               else not_null_ascii s' (S i)
  end.

Definition validate_key_legacy (id : bytes) (lv : level_legacy) : option verr :=
  match lv with
  | NoneLegacy => None
  | _ =>
      let '(key, app) := cut 59 id in
      match (match app with
             | None => None
             | Some a => match key with
                         | [] => Some ErrEmptyKey
                         | _ => if tag_appendix (S (length a)) (59 :: a) then None else Some ErrInvalidTagAppendix
                         end
             end) with
      | Some e => Some e
      | None =>
          match (match lv with
                 | StrictLegacy =>
                     if contains [46; 46] key then Some ErrEmptyNode
                     else match first_illegal key with Some c => Some (ErrIllegalChar c) | None => None end
                 | _ => None
                 end) with
          | Some e => Some e
          | None => not_null_ascii id 0
          end
      end
  end.

Definition S_is : bytes := [95; 105; 115; 95].
Definition S_unit_pre : bytes := [117; 110; 105; 116; 61].
Definition S_mtype_pre : bytes := [109; 116; 121; 112; 101; 61].
Definition S_unit_is : bytes := [117; 110; 105; 116; 95; 105; 115; 95].
Definition S_mtype_is : bytes := [109; 116; 121; 112; 101; 95; 105; 115; 95].

Definition validate_key_m20 (id : bytes) (lv : level_m20) : option verr :=
  match lv with
  | NoneM20 => None
  | MediumM20 =>
      if contains S_is id then Some ErrMixEqualsTypes
      else if negb (has_prefix S_unit_pre id) && negb (contains (46 :: S_unit_pre) id) then Some ErrNoUnit
      else if negb (has_prefix S_mtype_pre id) && negb (contains (46 :: S_mtype_pre) id) then Some ErrNoMType
      else if Nat.ltb (count_byte 46 id) 2 then Some ErrNotEnoughTags
      else None
  end.

Definition validate_key_m20ne (id : bytes) (lv : level_m20) : option verr :=
  match lv with
  | NoneM20 => None
  | MediumM20 =>
      if contains [61] id then Some ErrMixEqualsTypes
      else if negb (has_prefix S_unit_is id) && negb (contains (46 :: S_unit_is) id) then Some ErrNoUnit
      else if negb (has_prefix S_mtype_is id) && negb (contains (46 :: S_mtype_is) id) then Some ErrNoMType
      else if Nat.ltb (count_byte 46 id) 2 then Some ErrNotEnoughTags
      else None
  end.

Definition strip_dot (s : bytes) : bytes := match s with 46 :: s' => s' | _ => s end.

(* returns (key, None) when valid, (key, Some err) otherwise *)
Definition validate_packet (buf : bytes) (ll : level_legacy) (lm : level_m20)
           (val_ok ts_ok : bool) : bytes * option verr :=
  match fields buf with
  | [f0; f1; f2] =>
      let ver := get_version f0 in
      let key := strip_dot f0 in
      match (match ver with
             | Legacy => validate_key_legacy key ll
             | M20 => validate_key_m20 key lm
             | M20NoEquals => validate_key_m20ne key lm
             end) with
      | Some e => (key, Some e)
      | None => if negb val_ok then (key, Some ErrValNotNumber)
                else if negb ts_ok then (key, Some ErrTsNotTs)
                else (key, None)
      end
  | _ => ([], Some ErrWrongNumFields)
  end.

(* validate.LevelLegacy.UnmarshalText / LevelM20.UnmarshalText *)
Definition str_strict : bytes := [115; 116; 114; 105; 99; 116].
Definition str_medium : bytes := [109; 101; 100; 105; 117; 109].
Definition str_none : bytes := [110; 111; 110; 101].
Definition parse_level_legacy (t : bytes) : option level_legacy :=
  if beqb t str_strict then Some StrictLegacy
  else if beqb t str_medium then Some MediumLegacy
  else if beqb t str_none then Some NoneLegacy else None.
Definition parse_level_m20 (t : bytes) : option level_m20 :=
  if beqb t str_medium then Some MediumM20
  else if beqb t str_none then Some NoneM20 else None.
