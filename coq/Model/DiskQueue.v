(* nsqd/diskqueue.go: the I/O loop as a step function over an explicit file
   system (segment files, metadata file and its .tmp, .bad files), the open
   read handle with its bufio buffer, and a trace of every file-system
   mutation (the crash points). *)
From CRNG Require Import Base.Bytes Base.Decimal.

(* ---- files ---------------------------------------------------------------- *)
Record fsys := {
  f_segs : list (N * bytes);      (* <name>.diskqueue.%06d.dat *)
  f_bad : list (N * bytes);       (* ... .dat.bad *)
  f_meta : option bytes;          (* <name>.diskqueue.meta.dat *)
  f_tmp : option bytes }.         (* ... .meta.dat.tmp *)

Definition fs_empty : fsys := {| f_segs := []; f_bad := []; f_meta := None; f_tmp := None |}.

Fixpoint seg_get (l : list (N * bytes)) (n : N) : option bytes :=
  match l with [] => None | (k, c) :: l' => if n =? k then Some c else seg_get l' n end.
Fixpoint seg_set (l : list (N * bytes)) (n : N) (c : bytes) : list (N * bytes) :=
  match l with
  | [] => [(n, c)]
  | (k, c') :: l' => if n =? k then (k, c) :: l' else if n <? k then (n, c) :: l else (k, c') :: seg_set l' n c
  end.
Fixpoint seg_del (l : list (N * bytes)) (n : N) : list (N * bytes) :=
  match l with [] => [] | (k, c) :: l' => if n =? k then l' else (k, c) :: seg_del l' n end.

(* pwrite without truncation: overwrite in place, extend as needed (holes are zeros) *)
Definition write_at (content : bytes) (pos : nat) (data : bytes) : bytes :=
  firstn pos content ++ repeat 0 (pos - length content) ++ data ++ skipn (pos + length data) content.

(* ---- framing and metadata text ---------------------------------------------- *)
Definition be32 (n : N) : bytes :=
  [N.land (N.shiftr n 24) 255; N.land (N.shiftr n 16) 255; N.land (N.shiftr n 8) 255; N.land n 255].
Definition frame (m : bytes) : bytes := be32 (N.of_nat (length m)) ++ m.
Definition un_be32 (b : bytes) : N :=
  match b with [a; b; c; d] => a * 16777216 + b * 65536 + c * 256 + d | _ => 0 end.

(* "%d\n%d,%d\n%d,%d\n" depth, readFileNum, readPos, writeFileNum, writePos *)
Definition print_meta (depth : Z) (rf rp wf wp : N) : bytes :=
  Z_to_dec depth ++ [10] ++ N_to_dec rf ++ [44] ++ N_to_dec rp ++ [10] ++ N_to_dec wf ++ [44] ++ N_to_dec wp ++ [10].

Fixpoint span_digits (s : bytes) : bytes * bytes :=
  match s with
  | c :: s' => if is_digit c then let '(a, b) := span_digits s' in (c :: a, b) else ([], s)
  | [] => ([], [])
  end.
Definition scan_nat (s : bytes) : option (N * bytes) :=
  let '(d, rest) := span_digits s in
  match dec_parse d with Some n => Some (n, rest) | None => None end.
Definition scan_int (s : bytes) : option (Z * bytes) :=
  match s with
  | c :: s' =>
      if c =? 45 then match scan_nat s' with Some (n, r) => Some ((- Z.of_N n)%Z, r) | None => None end
      else match scan_nat s with Some (n, r) => Some (Z.of_N n, r) | None => None end
  | [] => None
  end.
Definition expect (c : N) (s : bytes) : option bytes :=
  match s with x :: s' => if x =? c then Some s' else None | [] => None end.

Definition parse_meta (s : bytes) : option (Z * N * N * N * N) :=
  match scan_int s with
  | Some (d, s1) =>
    match expect 10 s1 with Some s2 =>
    match scan_nat s2 with Some (rf, s3) =>
    match expect 44 s3 with Some s4 =>
    match scan_nat s4 with Some (rp, s5) =>
    match expect 10 s5 with Some s6 =>
    match scan_nat s6 with Some (wf, s7) =>
    match expect 44 s7 with Some s8 =>
    match scan_nat s8 with Some (wp, s9) =>
    match expect 10 s9 with Some _ => Some (d, rf, rp, wf, wp) | None => None end
    | None => None end | None => None end | None => None end | None => None end
    | None => None end | None => None end | None => None end | None => None end
  | None => None
  end.

(* ---- the open read handle: an os.File offset behind a 4096-byte bufio.Reader --- *)
Record rhandle := { h_num : N; h_buf : bytes; h_off : nat }.   (* buffered unread bytes; offset of the underlying file *)

Definition BUFSZ : nat := 4096.

(* io.ReadFull(reader, n bytes): None = EOF / unexpected EOF.  fuel: each round either
   consumes buffered bytes or performs one read system call that returns data *)
Fixpoint bread (fuel : nat) (content : bytes) (h : rhandle) (n : nat) (acc : bytes) : option (bytes * rhandle) :=
  match n with
  | O => Some (acc, h)
  | _ =>
    match fuel with
    | O => None
    | S f =>
      match h_buf h with
      | _ :: _ =>
          let k := Nat.min n (length (h_buf h)) in
          bread f content {| h_num := h_num h; h_buf := skipn k (h_buf h); h_off := h_off h |} (n - k) (acc ++ firstn k (h_buf h))
      | [] =>
          let avail := skipn (h_off h) content in
          match avail with
          | [] => None
          | _ =>
            if Nat.leb BUFSZ n then                      (* large read with an empty buffer bypasses it *)
              let k := Nat.min n (length avail) in
              bread f content {| h_num := h_num h; h_buf := []; h_off := h_off h + k |} (n - k) (acc ++ firstn k avail)
            else
              let k := Nat.min BUFSZ (length avail) in
              bread f content {| h_num := h_num h; h_buf := firstn k avail; h_off := h_off h + k |} n acc
          end
      end
    end
  end.

(* ---- the queue -------------------------------------------------------------- *)
Record cfg := { c_max : N; c_syncevery : Z }.     (* maxBytesPerFile, syncEvery *)

Record dq := {
  readPos : N; writePos : N; readFileNum : N; writeFileNum : N; depth : Z;
  nextReadPos : N; nextReadFileNum : N;
  needSync : bool; count : Z;
  rfile : option rhandle; wopen : bool;
  pending : bytes; ready : bool;            (* dataRead and whether r = readChan in the select *)
  fs : fsys;
  trace : list (N * fsys) }.                (* crash points, newest first: (label, file system after the mutation) *)

(* labels *)
Definition L_seg_write : N := 1.   Definition L_seg_fsync : N := 2.  Definition L_tmp_write : N := 3.
Definition L_meta_rename : N := 4. Definition L_seg_remove : N := 5. Definition L_bad_rename : N := 6.

Definition mutate (d : dq) (label : N) (f : fsys) : dq :=
  {| readPos := readPos d; writePos := writePos d; readFileNum := readFileNum d; writeFileNum := writeFileNum d; depth := depth d;
     nextReadPos := nextReadPos d; nextReadFileNum := nextReadFileNum d; needSync := needSync d; count := count d;
     rfile := rfile d; wopen := wopen d; pending := pending d; ready := ready d; fs := f; trace := (label, f) :: trace d |}.

Definition with_segs (f : fsys) (s : list (N * bytes)) : fsys :=
  {| f_segs := s; f_bad := f_bad f; f_meta := f_meta f; f_tmp := f_tmp f |}.

(* persistMetaData *)
Definition persist_meta (d : dq) : dq :=
  let txt := print_meta (depth d) (readFileNum d) (readPos d) (writeFileNum d) (writePos d) in
  let f := fs d in
  let tmp := write_at (match f_tmp f with Some t => t | None => [] end) 0 txt in      (* O_CREATE without O_TRUNC *)
  let f1 := {| f_segs := f_segs f; f_bad := f_bad f; f_meta := f_meta f; f_tmp := Some tmp |} in
  let d1 := mutate d L_tmp_write f1 in
  let f2 := {| f_segs := f_segs f; f_bad := f_bad f; f_meta := Some tmp; f_tmp := None |} in
  mutate d1 L_meta_rename f2.

Definition set_needsync (d : dq) (b : bool) : dq :=
  {| readPos := readPos d; writePos := writePos d; readFileNum := readFileNum d; writeFileNum := writeFileNum d; depth := depth d;
     nextReadPos := nextReadPos d; nextReadFileNum := nextReadFileNum d; needSync := b; count := count d;
     rfile := rfile d; wopen := wopen d; pending := pending d; ready := ready d; fs := fs d; trace := trace d |}.

(* sync *)
Definition do_sync (d : dq) : dq :=
  let d1 := if wopen d then mutate d L_seg_fsync (fs d) else d in
  set_needsync (persist_meta d1) false.

(* writeOne *)
Definition write_one (c : cfg) (d : dq) (data : bytes) : dq :=
  let f := fs d in
  let old := match seg_get (f_segs f) (writeFileNum d) with Some x => x | None => [] end in
  let content := write_at old (N.to_nat (writePos d)) (frame data) in
  let f1 := with_segs f (seg_set (f_segs f) (writeFileNum d) content) in
  let wp := writePos d + 4 + N.of_nat (length data) in
  let d1 := {| readPos := readPos d; writePos := wp; readFileNum := readFileNum d; writeFileNum := writeFileNum d; depth := depth d + 1;
               nextReadPos := nextReadPos d; nextReadFileNum := nextReadFileNum d; needSync := needSync d; count := count d;
               rfile := rfile d; wopen := true; pending := pending d; ready := ready d; fs := f1; trace := (L_seg_write, f1) :: trace d |} in
  if c_max c <? wp then
    let d2 := {| readPos := readPos d1; writePos := 0; readFileNum := readFileNum d1; writeFileNum := writeFileNum d1 + 1; depth := depth d1;
                 nextReadPos := nextReadPos d1; nextReadFileNum := nextReadFileNum d1; needSync := needSync d1; count := count d1;
                 rfile := rfile d1; wopen := true; pending := pending d1; ready := ready d1; fs := fs d1; trace := trace d1 |} in
    let d3 := do_sync d2 in
    {| readPos := readPos d3; writePos := writePos d3; readFileNum := readFileNum d3; writeFileNum := writeFileNum d3; depth := depth d3;
       nextReadPos := nextReadPos d3; nextReadFileNum := nextReadFileNum d3; needSync := needSync d3; count := count d3;
       rfile := rfile d3; wopen := false; pending := pending d3; ready := ready d3; fs := fs d3; trace := trace d3 |}
  else d1.

Inductive rd_result := RdOk (d : dq) (msg : bytes) | RdErr (d : dq) | RdPanic.

Definition set_rfile (d : dq) (h : option rhandle) : dq :=
  {| readPos := readPos d; writePos := writePos d; readFileNum := readFileNum d; writeFileNum := writeFileNum d; depth := depth d;
     nextReadPos := nextReadPos d; nextReadFileNum := nextReadFileNum d; needSync := needSync d; count := count d;
     rfile := h; wopen := wopen d; pending := pending d; ready := ready d; fs := fs d; trace := trace d |}.

(* readOne *)
Definition read_one (c : cfg) (d : dq) : rd_result :=
  let hopt := match rfile d with
              | Some h => Some h
              | None => match seg_get (f_segs (fs d)) (readFileNum d) with
                        | Some _ => Some {| h_num := readFileNum d; h_buf := []; h_off := N.to_nat (readPos d) |}
                        | None => None                                 (* open fails: no such file *)
                        end
              end in
  match hopt with
  | None => RdErr (set_rfile d None)
  | Some h =>
    let content := match seg_get (f_segs (fs d)) (h_num h) with Some x => x | None => [] end in
    match bread (8 + length content) content h 4 [] with
    | None => RdErr (set_rfile d None)
    | Some (szb, h1) =>
      let sz := un_be32 szb in
      if 2147483648 <=? sz then RdPanic                              (* negative int32: make([]byte, n) panics *)
      else
        match bread (8 + length content + N.to_nat sz) content h1 (N.to_nat sz) [] with
        | None => RdErr (set_rfile d None)
        | Some (msg, h2) =>
          let np := readPos d + 4 + sz in
          if c_max c <? np then
            RdOk {| readPos := readPos d; writePos := writePos d; readFileNum := readFileNum d; writeFileNum := writeFileNum d; depth := depth d;
                    nextReadPos := 0; nextReadFileNum := readFileNum d + 1; needSync := needSync d; count := count d;
                    rfile := None; wopen := wopen d; pending := pending d; ready := ready d; fs := fs d; trace := trace d |} msg
          else
            RdOk {| readPos := readPos d; writePos := writePos d; readFileNum := readFileNum d; writeFileNum := writeFileNum d; depth := depth d;
                    nextReadPos := np; nextReadFileNum := readFileNum d; needSync := needSync d; count := count d;
                    rfile := Some h2; wopen := wopen d; pending := pending d; ready := ready d; fs := fs d; trace := trace d |} msg
        end
    end
  end.

(* handleReadError *)
Definition handle_read_error (d : dq) : dq :=
  let same := readFileNum d =? writeFileNum d in
  let wf := if same then writeFileNum d + 1 else writeFileNum d in
  let wp := if same then 0 else writePos d in
  let wo := if same then false else wopen d in
  let f := fs d in
  let f1 := match seg_get (f_segs f) (readFileNum d) with
            | Some cnt => {| f_segs := seg_del (f_segs f) (readFileNum d); f_bad := seg_set (f_bad f) (readFileNum d) cnt;
                             f_meta := f_meta f; f_tmp := f_tmp f |}
            | None => f                                               (* rename fails: nothing changes *)
            end in
  {| readPos := 0; writePos := wp; readFileNum := readFileNum d + 1; writeFileNum := wf; depth := depth d;
     nextReadPos := 0; nextReadFileNum := readFileNum d + 1; needSync := true; count := count d;
     rfile := rfile d; wopen := wo; pending := pending d; ready := ready d; fs := f1;
     trace := match seg_get (f_segs f) (readFileNum d) with Some _ => (L_bad_rename, f1) :: trace d | None => trace d end |}.

(* skipToNextRWFile (from checkTailCorruption) *)
Definition skip_to_next (d : dq) : dq :=
  let f := fs d in
  let nums := map (fun i => readFileNum d + N.of_nat i) (seq 0 (S (N.to_nat (writeFileNum d - readFileNum d)))) in
  let '(segs, tr) := fold_left (fun st n =>
                        let '(segs, tr) := st in
                        match seg_get segs n with
                        | Some _ => let segs' := seg_del segs n in (segs', (L_seg_remove, with_segs f segs') :: tr)
                        | None => (segs, tr)
                        end) (if readFileNum d <=? writeFileNum d then nums else []) (f_segs f, trace d) in
  {| readPos := 0; writePos := 0; readFileNum := writeFileNum d + 1; writeFileNum := writeFileNum d + 1; depth := 0;
     nextReadPos := 0; nextReadFileNum := writeFileNum d + 1; needSync := needSync d; count := count d;
     rfile := None; wopen := false; pending := pending d; ready := ready d; fs := with_segs f segs; trace := tr |}.

(* checkTailCorruption *)
Definition check_tail (d : dq) (dep : Z) : dq :=
  if (readFileNum d <? writeFileNum d) || (readPos d <? writePos d) then d
  else
    let d1 := if (dep =? 0)%Z then d
              else {| readPos := readPos d; writePos := writePos d; readFileNum := readFileNum d; writeFileNum := writeFileNum d; depth := 0;
                      nextReadPos := nextReadPos d; nextReadFileNum := nextReadFileNum d; needSync := true; count := count d;
                      rfile := rfile d; wopen := wopen d; pending := pending d; ready := ready d; fs := fs d; trace := trace d |} in
    if negb (readFileNum d1 =? writeFileNum d1) || negb (readPos d1 =? writePos d1)
    then set_needsync (skip_to_next d1) true
    else d1.

(* moveForward *)
Definition move_forward (d : dq) : dq :=
  let old := readFileNum d in
  let dep := (depth d - 1)%Z in
  let changed := negb (old =? nextReadFileNum d) in
  let f := fs d in
  let f1 := if changed then with_segs f (seg_del (f_segs f) old) else f in
  let removed := changed && match seg_get (f_segs f) old with Some _ => true | None => false end in
  check_tail {| readPos := nextReadPos d; writePos := writePos d; readFileNum := nextReadFileNum d; writeFileNum := writeFileNum d; depth := dep;
                nextReadPos := nextReadPos d; nextReadFileNum := nextReadFileNum d; needSync := needSync d || changed; count := count d;
                rfile := rfile d; wopen := wopen d; pending := pending d; ready := ready d; fs := f1;
                trace := if removed then (L_seg_remove, f1) :: trace d else trace d |} dep.

(* the top of one ioLoop iteration, up to the select; None = panic (negative record length) *)
Fixpoint loop_top (c : cfg) (fuel : nat) (d : dq) : option dq :=
  match fuel with
  | O => Some d
  | S f =>
    let cnt := (count d + 1)%Z in
    let hit := (cnt =? c_syncevery c)%Z in
    let d1 := {| readPos := readPos d; writePos := writePos d; readFileNum := readFileNum d; writeFileNum := writeFileNum d; depth := depth d;
                 nextReadPos := nextReadPos d; nextReadFileNum := nextReadFileNum d; needSync := needSync d || hit;
                 count := if hit then 0%Z else cnt;
                 rfile := rfile d; wopen := wopen d; pending := pending d; ready := ready d; fs := fs d; trace := trace d |} in
    let d2 := if needSync d1 then do_sync d1 else d1 in
    let setr (x : dq) (p : bytes) (r : bool) :=
        {| readPos := readPos x; writePos := writePos x; readFileNum := readFileNum x; writeFileNum := writeFileNum x; depth := depth x;
           nextReadPos := nextReadPos x; nextReadFileNum := nextReadFileNum x; needSync := needSync x; count := count x;
           rfile := rfile x; wopen := wopen x; pending := p; ready := r; fs := fs x; trace := trace x |} in
    if (readFileNum d2 <? writeFileNum d2) || (readPos d2 <? writePos d2) then
      if nextReadPos d2 =? readPos d2 then
        match read_one c d2 with
        | RdOk d3 msg => Some (setr d3 msg true)
        | RdErr d3 => loop_top c f (handle_read_error d3)
        | RdPanic => None
        end
      else Some (setr d2 (pending d2) true)
    else Some (setr d2 (pending d2) false)
  end.

Definition LOOP_FUEL : nat := 64.

Inductive dop := Put (m : bytes) | Get | SyncTick | CloseReopen.
Inductive dout := OPut | OGet (m : option bytes) | OTick | OReopen (depth_at_rest : Z) | OPanic.

(* NewDiskQueue on an existing directory *)
Definition dq_open (c : cfg) (f : fsys) (tr : list (N * fsys)) : option dq :=
  let '(dep, rf, rp, wf, wp) :=
      match f_meta f with
      | Some txt => match parse_meta txt with Some x => x | None => (0%Z, 0, 0, 0, 0) end
      | None => (0%Z, 0, 0, 0, 0)
      end in
  loop_top c LOOP_FUEL
    {| readPos := rp; writePos := wp; readFileNum := rf; writeFileNum := wf; depth := dep;
       nextReadPos := rp; nextReadFileNum := rf; needSync := false; count := 0%Z;
       rfile := None; wopen := false; pending := []; ready := false; fs := f; trace := tr |}.

(* Close: leave the loop, close the files, sync (metadata only: the write file is closed) *)
Definition dq_close (d : dq) : dq :=
  persist_meta {| readPos := readPos d; writePos := writePos d; readFileNum := readFileNum d; writeFileNum := writeFileNum d; depth := depth d;
                  nextReadPos := nextReadPos d; nextReadFileNum := nextReadFileNum d; needSync := needSync d; count := count d;
                  rfile := None; wopen := false; pending := pending d; ready := ready d; fs := fs d; trace := trace d |}.

(* one operation of the environment = one select branch, then the loop runs up to the next select *)
Definition dq_step (c : cfg) (d : dq) (o : dop) : option dq * dout :=
  match o with
  | Put m => (loop_top c LOOP_FUEL (write_one c d m), OPut)
  | Get => if ready d then (loop_top c LOOP_FUEL (move_forward d), OGet (Some (pending d)))
           else (Some d, OGet None)
  | SyncTick => (loop_top c LOOP_FUEL (set_needsync d true), OTick)
  | CloseReopen => let d1 := dq_close d in
                   (dq_open c (fs d1) (trace d1), OReopen (depth d1))
  end.

Fixpoint dq_run (c : cfg) (d : option dq) (ops : list dop) : list dout * option dq :=
  match ops with
  | [] => ([], d)
  | o :: r =>
      match d with
      | None => ([OPanic], None)
      | Some d0 => let '(d1, out) := dq_step c d0 o in
                   let '(outs, dl) := dq_run c d1 r in (out :: outs, dl)
      end
  end.

(* read everything a (re)opened queue delivers *)
Fixpoint dq_drain (c : cfg) (fuel : nat) (d : dq) : list bytes :=
  match fuel with
  | O => []
  | S f => if ready d then
             match loop_top c LOOP_FUEL (move_forward d) with
             | Some d' => pending d :: dq_drain c f d'
             | None => [pending d]
             end
           else []
  end.
