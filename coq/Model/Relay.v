(* destination.relay(): one event per branch of its select (plus the liveness test that precedes it).
   The environment supplies a single fact per hand-off: whether the channel the line is offered to
   (conn.In while a conn is up, spool.InRT otherwise) has room.  Every output is tagged with whether the
   Go statement it stands for can wait for another party. *)
From CRNG Require Import Base.Bytes.
Local Open Scope N_scope.

Inductive rev :=
| EvSig                       (* setSignalConnOnline *)
| EvUpdStart | EvUpdEnd       (* inConnUpdate true / false *)
| EvConnUp                    (* connUpdates: a new conn *)
| EvTick
| EvFlush | EvShutdown
| EvUnspool (room : bool)     (* a line from spool.Out *)
| EvIn (room : bool)          (* a line from dest.In *)
| EvDead.                     (* the conn is found dead at the top of the loop *)

Inductive rout :=
| OEnq | OSlow | OSpool | OSlowSpool | ONoConn      (* what happened to the line *)
| ORedo | OClear                                     (* go collectRedo(conn) / conn.clearRedo() *)
| OReconnect                                         (* go updateConn(addr) *)
| OFlushConn | OCloseConn.                           (* calls that wait for the conn's goroutines *)

Definition may_wait (o : rout) : bool :=
  match o with OFlushConn | OCloseConn => true | _ => false end.

Record rst := {
  r_conn : bool; r_spool : bool; r_slow_now : bool; r_slow_last : bool; r_upd : Z; r_stopped : bool;
  n_in : N; n_unspooled : N; n_enq : N; n_slow : N; n_spooled : N; n_slowspool : N; n_noconn : N }.

Definition rinit (spool : bool) : rst :=
  {| r_conn := false; r_spool := spool; r_slow_now := false; r_slow_last := false; r_upd := 0; r_stopped := false;
     n_in := 0; n_unspooled := 0; n_enq := 0; n_slow := 0; n_spooled := 0; n_slowspool := 0; n_noconn := 0 |}.

Definition upd (s : rst) conn now last u stopped : rst :=
  {| r_conn := conn; r_spool := r_spool s; r_slow_now := now; r_slow_last := last; r_upd := u; r_stopped := stopped;
     n_in := n_in s; n_unspooled := n_unspooled s; n_enq := n_enq s; n_slow := n_slow s; n_spooled := n_spooled s;
     n_slowspool := n_slowspool s; n_noconn := n_noconn s |}.

Definition send (s : rst) (room : bool) (di du : N) : rst * list rout :=
  if room then
    ({| r_conn := r_conn s; r_spool := r_spool s; r_slow_now := r_slow_now s; r_slow_last := r_slow_last s; r_upd := r_upd s;
        r_stopped := r_stopped s; n_in := n_in s + di; n_unspooled := n_unspooled s + du; n_enq := n_enq s + 1; n_slow := n_slow s;
        n_spooled := n_spooled s; n_slowspool := n_slowspool s; n_noconn := n_noconn s |}, [OEnq])
  else
    ({| r_conn := r_conn s; r_spool := r_spool s; r_slow_now := true; r_slow_last := r_slow_last s; r_upd := r_upd s;
        r_stopped := r_stopped s; n_in := n_in s + di; n_unspooled := n_unspooled s + du; n_enq := n_enq s; n_slow := n_slow s + 1;
        n_spooled := n_spooled s; n_slowspool := n_slowspool s; n_noconn := n_noconn s |}, [OSlow]).

(* None: the event cannot happen in this state *)
Definition rstep (s : rst) (e : rev) : option (rst * list rout) :=
  if r_stopped s then None else
  match e with
  | EvSig => Some (s, [])
  | EvUpdStart => Some (upd s (r_conn s) (r_slow_now s) (r_slow_last s) (r_upd s + 1)%Z false, [])
  | EvUpdEnd => Some (upd s (r_conn s) (r_slow_now s) (r_slow_last s) (r_upd s - 1)%Z false, [])
  | EvConnUp => Some (upd s true false false (r_upd s) false, [])
  | EvTick =>
      Some (upd s (r_conn s) false (r_slow_now s) (r_upd s) false,
            if negb (r_conn s) && (r_upd s =? 0)%Z then [OReconnect] else [])
  | EvFlush => Some (s, if r_conn s then [OFlushConn] else [])
  | EvShutdown => Some (upd s (r_conn s) (r_slow_now s) (r_slow_last s) (r_upd s) true,
                        if r_conn s then [OFlushConn; OCloseConn] else [])
  | EvDead =>
      if r_conn s then Some (upd s false (r_slow_now s) (r_slow_last s) (r_upd s) false, [if r_spool s then ORedo else OClear])
      else None
  | EvUnspool room =>
      if r_conn s && r_spool s && negb (r_slow_last s) && negb (r_slow_now s) then Some (send s room 0 1) else None
  | EvIn room =>
      if r_conn s then Some (send s room 1 0)
      else if r_spool s then
        Some (if room
              then ({| r_conn := false; r_spool := true; r_slow_now := r_slow_now s; r_slow_last := r_slow_last s; r_upd := r_upd s;
                       r_stopped := false; n_in := n_in s + 1; n_unspooled := n_unspooled s; n_enq := n_enq s; n_slow := n_slow s;
                       n_spooled := n_spooled s + 1; n_slowspool := n_slowspool s; n_noconn := n_noconn s |}, [OSpool])
              else ({| r_conn := false; r_spool := true; r_slow_now := r_slow_now s; r_slow_last := r_slow_last s; r_upd := r_upd s;
                       r_stopped := false; n_in := n_in s + 1; n_unspooled := n_unspooled s; n_enq := n_enq s; n_slow := n_slow s;
                       n_spooled := n_spooled s; n_slowspool := n_slowspool s + 1; n_noconn := n_noconn s |}, [OSlowSpool]))
      else
        Some ({| r_conn := false; r_spool := false; r_slow_now := r_slow_now s; r_slow_last := r_slow_last s; r_upd := r_upd s;
                 r_stopped := false; n_in := n_in s + 1; n_unspooled := n_unspooled s; n_enq := n_enq s; n_slow := n_slow s;
                 n_spooled := n_spooled s; n_slowspool := n_slowspool s; n_noconn := n_noconn s + 1 |}, [ONoConn])
  end.

Fixpoint rrun (s : rst) (evs : list rev) : option rst :=
  match evs with
  | [] => Some s
  | e :: r => match rstep s e with Some (s', _) => rrun s' r | None => None end
  end.

(* ---- replaying the event marks of the real loop ---- *)
Definition out_code (o : rout) : N :=
  match o with OEnq => 101 | OSlow => 115 | OSpool => 112 | OSlowSpool => 113 | ONoConn => 110 | _ => 0 end.

Fixpoint replay (fuel : nat) (s : rst) (log : bytes) : option rst :=
  match fuel with
  | O => None
  | S f =>
      match log with
      | [] => Some s
      | [105] => Some s | [117] => Some s                 (* the snapshot fell between a receive and its outcome *)
      | 105 :: o :: rest =>
          match rstep s (EvIn ((o =? 101) || (o =? 112))) with
          | Some (s', [x]) => if out_code x =? o then replay f s' rest else None
          | _ => None
          end
      | 117 :: o :: rest =>
          match rstep s (EvUnspool (o =? 101)) with
          | Some (s', [x]) => if out_code x =? o then replay f s' rest else None
          | _ => None
          end
      | c :: rest =>
          let ev :=
            if c =? 83 then Some (EvSig, @nil rout)
            else if c =? 43 then Some (EvUpdStart, [])
            else if c =? 45 then Some (EvUpdEnd, [])
            else if c =? 85 then Some (EvConnUp, [])
            else if c =? 116 then Some (EvTick, [OReconnect])
            else if c =? 84 then Some (EvTick, [])
            else if c =? 82 then Some (EvDead, [ORedo])
            else if c =? 67 then Some (EvDead, [OClear])
            else if c =? 70 then Some (EvFlush, if r_conn s then [OFlushConn] else [])
            else if c =? 88 then Some (EvShutdown, if r_conn s then [OFlushConn; OCloseConn] else [])
            else None in
          match ev with
          | Some (e, want) =>
              match rstep s e with
              | Some (s', outs) =>
                  if Nat.eqb (length outs) (length want) && forallb (fun p => out_code (fst p) =? out_code (snd p)) (combine outs want)
                     && match outs, want with
                        | [ORedo], [ORedo] | [OClear], [OClear] | [OReconnect], [OReconnect] | [], [] => true
                        | [OFlushConn], [OFlushConn] | [OFlushConn; OCloseConn], [OFlushConn; OCloseConn] => true
                        | _, _ => false
                        end
                  then replay f s' rest else None
              | None => None
              end
          | None => None
          end
      end
  end.
