(* strconv.Itoa / %d for naturals and integers *)
From CRNG Require Import Base.Bytes.

Fixpoint dec_fuel (fuel : nat) (n : N) (acc : bytes) : bytes :=
  match fuel with
  | O => acc
  | S f => let acc' := (48 + n mod 10) :: acc in
           if n / 10 =? 0 then acc' else dec_fuel f (n / 10) acc'
  end.

Definition N_to_dec (n : N) : bytes := dec_fuel (S (N.to_nat (N.size n))) n [].
Definition nat_to_dec (n : nat) : bytes := N_to_dec (N.of_nat n).
Definition Z_to_dec (z : Z) : bytes :=
  match z with
  | Zneg p => 45 :: N_to_dec (Npos p)
  | _ => N_to_dec (Z.to_N z)
  end.

(* parse a non-empty run of decimal digits *)
Definition is_digit (c : N) : bool := (48 <=? c) && (c <=? 57).
Fixpoint dec_parse_acc (s : bytes) (acc : N) : option N :=
  match s with
  | [] => Some acc
  | c :: s' => if is_digit c then dec_parse_acc s' (acc * 10 + (c - 48)) else None
  end.
Definition dec_parse (s : bytes) : option N :=
  match s with [] => None | _ => dec_parse_acc s 0 end.
