(* Byte strings as lists of N, with the handful of string primitives the Go
   code uses (bytes.HasPrefix, bytes.Contains, bytes.IndexByte, bytes.Join,
   strings.Split ...).  Definitions only need the stdlib. *)
From Coq Require Export List NArith ZArith Bool Lia.
Export ListNotations.
Open Scope N_scope.

Definition byte := N.
Definition bytes := list N.

Fixpoint beqb (a b : bytes) : bool :=
  match a, b with
  | [], [] => true
  | x :: a', y :: b' => (x =? y) && beqb a' b'
  | _, _ => false
  end.

Lemma beqb_eq a b : beqb a b = true <-> a = b.
Proof.
  revert b; induction a as [|x a IH]; intros [|y b]; simpl; split; intro H;
    try reflexivity; try discriminate.
  - apply andb_true_iff in H as [H1 H2]. apply N.eqb_eq in H1. apply IH in H2. congruence.
  - inversion H; subst. rewrite N.eqb_refl. simpl. apply IH. reflexivity.
Qed.

Lemma beqb_refl a : beqb a a = true.
Proof. apply beqb_eq; reflexivity. Qed.

Lemma beqb_neq a b : beqb a b = false <-> a <> b.
Proof.
  split; intro H.
  - intro E. apply beqb_eq in E. congruence.
  - destruct (beqb a b) eqn:E; [apply beqb_eq in E; contradiction | reflexivity].
Qed.

(* bytes.HasPrefix s p *)
Fixpoint has_prefix (p s : bytes) : bool :=
  match p, s with
  | [], _ => true
  | x :: p', y :: s' => (x =? y) && has_prefix p' s'
  | _ :: _, [] => false
  end.

Lemma has_prefix_spec p s : has_prefix p s = true <-> exists t, s = p ++ t.
Proof.
  revert s; induction p as [|x p IH]; intros s; simpl.
  - split; [intros _; exists s; reflexivity | reflexivity].
  - destruct s as [|y s].
    + split; [discriminate | intros [t Ht]; discriminate].
    + rewrite andb_true_iff, N.eqb_eq, IH. split.
      * intros [-> [t ->]]. exists t. reflexivity.
      * intros [t Ht]. inversion Ht; subst. split; [reflexivity | exists t; reflexivity].
Qed.

(* bytes.Contains s sub *)
Fixpoint contains (sub s : bytes) : bool :=
  has_prefix sub s ||
  match s with
  | [] => false
  | _ :: s' => contains sub s'
  end.

Lemma contains_spec sub s : contains sub s = true <-> exists a b, s = a ++ sub ++ b.
Proof.
  induction s as [|y s IH].
  - simpl. rewrite orb_false_r, has_prefix_spec. split.
    + intros [t Ht]. exists [], t. exact Ht.
    + intros [a [b H]]. destruct a; simpl in H.
      * exists b. exact H.
      * discriminate.
  - cbn [contains]. rewrite orb_true_iff, has_prefix_spec, IH. split.
    + intros [[t Ht] | [a [b Hab]]].
      * exists [], t. exact Ht.
      * exists (y :: a), b. simpl. congruence.
    + intros [a [b H]]. destruct a as [|z a]; simpl in H.
      * left. exists b. exact H.
      * right. inversion H; subst. exists a, b. reflexivity.
Qed.

(* bytes.IndexByte: position of the first c, None if absent *)
Fixpoint index_byte (c : N) (s : bytes) : option nat :=
  match s with
  | [] => None
  | x :: s' => if x =? c then Some O else option_map S (index_byte c s')
  end.

(* split at the first c: (before, Some after) or (s, None) *)
Fixpoint cut (c : N) (s : bytes) : bytes * option bytes :=
  match s with
  | [] => ([], None)
  | x :: s' => if x =? c then ([], Some s')
               else let '(a, b) := cut c s' in (x :: a, b)
  end.

Lemma cut_none c s r : cut c s = (r, None) -> r = s /\ ~ In c s.
Proof.
  revert r; induction s as [|x s IH]; simpl; intros r H.
  - inversion H. split; [reflexivity | intros []].
  - destruct (x =? c) eqn:E; [discriminate|].
    destruct (cut c s) as [a b] eqn:Ec. inversion H; subst.
    destruct (IH a eq_refl) as [-> Hn]. split; [reflexivity|].
    intros [->|Hi]; [rewrite N.eqb_refl in E; discriminate | contradiction].
Qed.

Lemma cut_some c s a b : cut c s = (a, Some b) -> s = a ++ c :: b /\ ~ In c a.
Proof.
  revert a; induction s as [|x s IH]; simpl; intros a H.
  - discriminate.
  - destruct (x =? c) eqn:E.
    + inversion H; subst. apply N.eqb_eq in E. subst. split; [reflexivity | intros []].
    + destruct (cut c s) as [a' b'] eqn:Ec. inversion H; subst.
      destruct (IH a' eq_refl) as [-> Hn]. split; [reflexivity|].
      intros [->|Hi]; [rewrite N.eqb_refl in E; discriminate | contradiction].
Qed.

(* strings.Split s sep for a single-byte separator (never empty result) *)
Fixpoint split_on (c : N) (s : bytes) : list bytes :=
  match s with
  | [] => [[]]
  | x :: s' =>
      if x =? c then [] :: split_on c s'
      else match split_on c s' with
           | [] => [[x]]   (* unreachable *)
           | h :: t => (x :: h) :: t
           end
  end.

Fixpoint count_byte (c : N) (s : bytes) : nat :=
  match s with
  | [] => O
  | x :: s' => ((if N.eqb x c then 1 else 0) + count_byte c s')%nat
  end.

(* bytes.Join *)
Fixpoint join (sep : bytes) (l : list bytes) : bytes :=
  match l with
  | [] => []
  | [x] => x
  | x :: l' => x ++ sep ++ join sep l'
  end.

(* lexicographic order on byte strings = Go's string comparison *)
Fixpoint bleb (a b : bytes) : bool :=
  match a, b with
  | [], _ => true
  | _ :: _, [] => false
  | x :: a', y :: b' => (x <? y) || ((x =? y) && bleb a' b')
  end.

Lemma bleb_total a b : bleb a b = true \/ bleb b a = true.
Proof.
  revert b; induction a as [|x a IH]; intros [|y b]; simpl; auto.
  destruct (N.ltb_spec x y), (N.ltb_spec y x), (N.eqb_spec x y), (N.eqb_spec y x); simpl; auto; try lia.
Qed.

Lemma bleb_antisym a b : bleb a b = true -> bleb b a = true -> a = b.
Proof.
  revert b; induction a as [|x a IH]; intros [|y b]; simpl; auto; try discriminate.
  destruct (N.ltb_spec x y), (N.ltb_spec y x), (N.eqb_spec x y), (N.eqb_spec y x); simpl;
    intros Ha Hb; try discriminate; try lia.
  subst. f_equal. apply IH; assumption.
Qed.

Lemma bleb_trans a b c : bleb a b = true -> bleb b c = true -> bleb a c = true.
Proof.
  revert b c; induction a as [|x a IH]; intros [|y b] [|z c]; simpl; auto; try discriminate.
  destruct (N.ltb_spec x y), (N.ltb_spec y z), (N.ltb_spec x z),
    (N.eqb_spec x y), (N.eqb_spec y z), (N.eqb_spec x z); simpl; intros Ha Hb;
    try discriminate; try reflexivity; try lia.
  eapply IH; eassumption.
Qed.

Definition ch (n : N) : N := n.
Definition SP : N := 32.
Definition NL : N := 10.
