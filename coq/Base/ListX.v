From Coq Require Export List Arith Lia.
Export ListNotations.

Lemma In_firstn {A} n (l : list A) x : In x (firstn n l) -> In x l.
Proof. revert l; induction n; intros [|y l]; simpl; try tauto. intros [->|H]; auto. Qed.

Lemma In_skipn {A} n (l : list A) x : In x (skipn n l) -> In x l.
Proof. revert l; induction n; intros [|y l]; simpl; try tauto. intros H; right; auto. Qed.

Lemma nth_error_skipn {A} n (l : list A) i : nth_error (skipn n l) i = nth_error l (n + i).
Proof. revert l; induction n; intros [|y l]; simpl; auto. destruct i; reflexivity. Qed.

Lemma nth_error_firstn {A} n (l : list A) m : (m < n)%nat -> nth_error (firstn n l) m = nth_error l m.
Proof.
  revert l m; induction n; intros l m H; [lia|].
  destruct l as [|y l]; [destruct m; reflexivity|]. destruct m; simpl; [reflexivity|]. apply IHn. lia.
Qed.
