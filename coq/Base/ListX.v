From Coq Require Export List Arith Lia.
Export ListNotations.

Lemma In_firstn {A} n (l : list A) x : In x (firstn n l) -> In x l.
Proof. revert l; induction n; intros [|y l]; simpl; try tauto. intros [->|H]; auto. Qed.

Lemma In_skipn {A} n (l : list A) x : In x (skipn n l) -> In x l.
Proof. revert l; induction n; intros [|y l]; simpl; try tauto. intros H; right; auto. Qed.

Lemma nth_error_skipn {A} n (l : list A) i : nth_error (skipn n l) i = nth_error l (n + i).
Proof. revert l; induction n; intros [|y l]; simpl; auto. destruct i; reflexivity. Qed.

Lemma nth_error_firstn {A} n (l : list A) m : (m < n)%nat -> nth_error (firstn n l) m = nth_error l m.
Proof.
  revert l m; induction n; intros l m H; [lia|].
  destruct l as [|y l]; [destruct m; reflexivity|]. destruct m; simpl; [reflexivity|]. apply IHn. lia.
Qed.

Lemma NoDup_app_intro {A} (l1 l2 : list A) :
  NoDup l1 -> NoDup l2 -> (forall x, In x l1 -> In x l2 -> False) -> NoDup (l1 ++ l2).
Proof.
  induction l1 as [|a l1 IH]; simpl; intros H1 H2 H; [exact H2|].
  inversion H1; subst. constructor.
  - intros Hin. apply in_app_or in Hin as [Hin|Hin]; [contradiction|]. eapply H; [left; reflexivity|exact Hin].
  - apply IH; [assumption|assumption|]. intros x Hx1 Hx2. eapply H; [right; exact Hx1|exact Hx2].
Qed.

Lemma NoDup_app_singleton {A} (l : list A) a : NoDup l -> ~ In a l -> NoDup (l ++ [a]).
Proof.
  intros H Hn. apply NoDup_app_intro; [exact H|constructor; [intros []|constructor]|].
  intros x Hx [<-|[]]. contradiction.
Qed.

Lemma firstn_add_skipn {A} (l : list A) a b : firstn (a + b) l = firstn a l ++ firstn b (skipn a l).
Proof.
  revert l; induction a as [|a IH]; intros l; simpl; [reflexivity|].
  destruct l as [|x l]; [destruct b; reflexivity|]. simpl. f_equal. apply IH.
Qed.
