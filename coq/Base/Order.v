(* Boolean total orders, lexicographic products, insertion sort, and the
   uniqueness of sorted permutations (what makes a sorted ring a function of
   the *set* of its entries). *)
From CRNG Require Import Base.Bytes.
From Coq Require Import Permutation Sorted.

Section Order.
  Context {A : Type} (le : A -> A -> bool).

  Record total_order : Prop := {
    to_total : forall a b, le a b = true \/ le b a = true;
    to_trans : forall a b c, le a b = true -> le b c = true -> le a c = true;
    to_antisym : forall a b, le a b = true -> le b a = true -> a = b }.

  Fixpoint insert (x : A) (l : list A) : list A :=
    match l with
    | [] => [x]
    | y :: l' => if le x y then x :: l else y :: insert x l'
    end.

  Definition isort (l : list A) : list A := fold_right insert [] l.

  Inductive sorted : list A -> Prop :=
  | sorted_nil : sorted []
  | sorted_cons x l : (forall y, In y l -> le x y = true) -> sorted l -> sorted (x :: l).

  Lemma insert_perm x l : Permutation (x :: l) (insert x l).
  Proof.
    induction l as [|y l IH]; simpl; [reflexivity|].
    destruct (le x y); [reflexivity|].
    rewrite perm_swap. constructor. exact IH.
  Qed.

  Lemma isort_perm l : Permutation l (isort l).
  Proof.
    induction l as [|x l IH]; simpl; [reflexivity|].
    rewrite <- insert_perm. constructor. exact IH.
  Qed.

  Hypothesis TO : total_order.

  Lemma insert_sorted x l : sorted l -> sorted (insert x l).
  Proof.
    induction 1 as [|y l Hy Hs IH]; simpl.
    - constructor; [intros ? []|constructor].
    - destruct (le x y) eqn:E.
      + constructor; [|constructor; assumption].
        intros z [<-|Hz]; [exact E|]. eapply to_trans; eauto.
      + constructor; [|exact IH].
        intros z Hz. apply (Permutation_in _ (Permutation_sym (insert_perm x l))) in Hz.
        destruct Hz as [<-|Hz]; [|auto].
        destruct (to_total TO x y) as [H|H]; [congruence|exact H].
  Qed.

  Lemma isort_sorted l : sorted (isort l).
  Proof. induction l; simpl; [constructor | apply insert_sorted; assumption]. Qed.

  Lemma sorted_perm_eq l1 l2 : sorted l1 -> sorted l2 -> Permutation l1 l2 -> l1 = l2.
  Proof.
    intros H1; revert l2; induction H1 as [|x l1 Hx Hs IH]; intros l2 H2 P.
    - apply Permutation_nil in P. subst. reflexivity.
    - destruct H2 as [|y l2 Hy Hs2].
      + apply Permutation_sym, Permutation_nil in P. discriminate.
      + assert (x = y) as ->.
        { assert (Ix : In x (y :: l2)) by (eapply Permutation_in; [exact P | left; reflexivity]).
          assert (Iy : In y (x :: l1)) by (eapply Permutation_in; [exact (Permutation_sym P) | left; reflexivity]).
          destruct Ix as [->|Ix]; [reflexivity|].
          destruct Iy as [->|Iy]; [reflexivity|].
          apply (to_antisym TO); auto. }
        f_equal. apply IH; [assumption|]. eapply Permutation_cons_inv; exact P.
  Qed.

  Lemma isort_perm_invariant l1 l2 : Permutation l1 l2 -> isort l1 = isort l2.
  Proof.
    intros P. apply sorted_perm_eq; try apply isort_sorted.
    rewrite <- (isort_perm l1), <- (isort_perm l2). exact P.
  Qed.

  (* the minimum of a non-empty list *)
  Lemma sorted_hd_min x l y : sorted (x :: l) -> In y (x :: l) -> le x y = true.
  Proof.
    intros H [<-|Hy]; inversion H; subst; auto.
    destruct (to_total TO x x); assumption.
  Qed.

  Lemma sorted_filter f l : sorted l -> sorted (filter f l).
  Proof.
    induction 1 as [|x l Hx Hs IH]; simpl; [constructor|].
    destruct (f x); [|exact IH].
    constructor; [|exact IH]. intros y Hy. apply filter_In in Hy as [Hy _]. auto.
  Qed.

  Lemma sorted_app_inv l1 l2 : sorted (l1 ++ l2) -> sorted l1 /\ sorted l2.
  Proof.
    induction l1 as [|x l1 IH]; simpl; intros H; [split; [constructor|exact H]|].
    inversion H; subst. destruct (IH H3) as [S1 S2]. split; [|exact S2].
    constructor; [|exact S1]. intros y Hy. apply H2. apply in_or_app; auto.
  Qed.
End Order.

Arguments sorted {A} le l.

(* lexicographic product *)
Definition lex_le {A B} (leA : A -> A -> bool) (leB : B -> B -> bool) (x y : A * B) : bool :=
  if leA (fst x) (fst y) then (if leA (fst y) (fst x) then leB (snd x) (snd y) else true) else false.

Lemma lex_total_order {A B} (leA : A -> A -> bool) (leB : B -> B -> bool) :
  total_order leA -> total_order leB -> total_order (lex_le leA leB).
Proof.
  intros [tA rA aA] [tB rB aB]. split.
  - intros [a1 b1] [a2 b2]. unfold lex_le; simpl.
    destruct (leA a1 a2) eqn:E1, (leA a2 a1) eqn:E2; auto.
    destruct (tA a1 a2); congruence.
  - intros [a1 b1] [a2 b2] [a3 b3]. unfold lex_le; simpl.
    destruct (leA a1 a2) eqn:E12; [|discriminate].
    destruct (leA a2 a3) eqn:E23; [|intros _; discriminate].
    rewrite (rA _ _ _ E12 E23).
    destruct (leA a3 a1) eqn:E31; [|intros; reflexivity].
    assert (E32: leA a3 a2 = true) by (eapply rA; eauto).
    assert (E21: leA a2 a1 = true) by (eapply rA; eauto).
    rewrite E21, E32. apply rB.
  - intros [a1 b1] [a2 b2]. unfold lex_le; simpl.
    destruct (leA a1 a2) eqn:E1; [|discriminate].
    destruct (leA a2 a1) eqn:E2; [|intros _; discriminate].
    intros H1 H2. f_equal; auto.
Qed.

Lemma N_leb_total_order : total_order N.leb.
Proof.
  split; intros.
  - destruct (N.leb_spec a b), (N.leb_spec b a); auto; lia.
  - apply N.leb_le in H, H0. apply N.leb_le. lia.
  - apply N.leb_le in H, H0. lia.
Qed.

Lemma bleb_total_order : total_order bleb.
Proof. split; [apply bleb_total | apply bleb_trans | apply bleb_antisym]. Qed.
