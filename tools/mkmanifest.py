#!/usr/bin/env python3
"""Regenerates MANIFEST.json from the per-property plugin metadata (vlib/props/*.py: MANIFEST dict)."""
import importlib, json, os, sys
ROOT = os.path.dirname(os.path.dirname(os.path.abspath(__file__)))
sys.path.insert(0, ROOT)
ALL = ["C%02d" % i for i in range(1, 21)]
checks, na = [], []
for pid in ALL:
    try:
        m = importlib.import_module("vlib.props." + pid.lower())
    except ImportError:
        na.append({"property_id": pid, "reason": "check not built yet in this session (planned, see DESIGN.md section 4); nothing is claimed for it"})
        continue
    mf = m.MANIFEST
    checks.append({
        "property_id": pid,
        "quick_cmd": "./check %s quick" % pid,
        "thorough_cmd": "./check %s thorough" % pid,
        "evidence_file": "evidence/%s.json" % pid,
        "replay_cmd_template": "./check --replay {path}",
        "engine": "rocq-model+go-harness",
        "level_claimed": {"category": "proof", "text": mf["text"], "design_ref": mf.get("design_ref", "DESIGN.md section 4 (%s)" % pid)},
        "level_note": mf["note"],
        "technique": mf.get("technique", "machine-checked proof in Rocq (Coq 8.16) about a hand-written Gallina model + differential correspondence check (vm_compute) against the Go code"),
    })
man = {
    "version": 1,
    "setup_cmd": "./check --setup",
    "hooks": {
        "guard": "verif",
        "enable": "go build -tags verif (harness module with replace => /repo)",
        "baseline_off_cmd": "cd /repo && GOFLAGS=-mod=mod GOPROXY=off GOSUMDB=off GOTOOLCHAIN=local go test -vet=off -count=1 ./...",
        "source_commits": json.load(open(os.path.join(ROOT, "hooks.json")))["source_commits"] if os.path.exists(os.path.join(ROOT, "hooks.json")) else [],
        "add_only": True,
    },
    "engines": [{"name": "rocq-model+go-harness", "path": "check", "serves_properties": [c["property_id"] for c in checks],
                 "kind_free_text": "Gallina models + theorems (coq/), Go harness driving the real code (harness/), python3 pipeline (vlib/) evaluating the model on the observed cases with vm_compute"}],
    "checks": checks,
    "not_applicable": na,
    "notes": "All checks: exit 0 = held; exit 1 + VIOLATION line; KNOWN-FINDING lines for entries of known_findings.json. VERIF_SEED seeds all random choices.",
}
json.dump(man, open(os.path.join(ROOT, "MANIFEST.json"), "w"), indent=1)
print("checks:", len(checks), "not_applicable:", len(na))
