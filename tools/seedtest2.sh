#!/bin/bash
# usage: seedtest2.sh <ID> <worktree> <demo-dest-rel> <go test pkg> <run-pattern> [check ids...]   (demo file: _seed/seed_demo_test.go)
set -u
export GOFLAGS=-mod=mod GOPROXY=off GOSUMDB=off GOTOOLCHAIN=local
ID=$1; WT=$2; DEST=$3; PKG=$4; PAT=$5; shift 5
CHECKS=${@:-$ID}
cd $WT || exit 2
git checkout -q -- . ; git checkout -q --detach $(git -C /repo rev-parse HEAD); cp _seed/seed_demo_test.go $DEST
echo "== demo on unchanged tree"; go test -vet=off -count=1 -run "$PAT" $PKG 2>&1 | tail -3; BEFORE=${PIPESTATUS[0]}
git apply _seed/patch.diff || { echo "patch does not apply"; exit 2; }
echo "== build"; go build ./... && echo build ok
echo "== demo with change"; go test -vet=off -count=1 -run "$PAT" $PKG 2>&1 | tail -3; AFTER=${PIPESTATUS[0]}
rm -f $DEST
echo "== suite with change"; go test -vet=off -count=1 ./... 2>&1 | grep -v "no test files" | grep -v "^ok" | tail -5; SUITE=${PIPESTATUS[0]}
git checkout -q -- .
echo "RESULT before=$BEFORE after=$AFTER suite=$SUITE"
echo "== checks against /repo with the change applied"
git -C /repo apply $WT/_seed/patch.diff || { echo "patch does not apply to /repo"; exit 2; }
for c in $CHECKS; do (cd /verif && ./check $c quick 2>&1 | grep -v KNOWN | tail -3); done
git -C /repo checkout -- .
git -C /repo status --short | head -3
