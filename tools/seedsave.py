#!/usr/bin/env python3
"""seedsave.py <ID> <worktree> <name> <breaks> <needs> <ran> <caught_by>  -> /verif/seeded/<name>/"""
import json, os, shutil, sys
pid, wt, name, needs, ran, caught = sys.argv[1], sys.argv[2], sys.argv[3], sys.argv[4], sys.argv[5], sys.argv[6]
dst = os.path.join("/verif/seeded", name)
os.makedirs(dst, exist_ok=True)
for f in os.listdir(os.path.join(wt, "_seed")):
    shutil.copy(os.path.join(wt, "_seed", f), os.path.join(dst, f))
json.dump({"property": pid, "needs_to_manifest": needs, "what_i_ran": ran, "caught_by": caught,
           "origin": "written by an independent sub-agent given only the property text and a scratch worktree; confirmed by tools/seedtest.sh"},
          open(os.path.join(dst, "meta.json"), "w"), indent=1)
print("saved", dst, os.listdir(dst))
