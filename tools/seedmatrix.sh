#!/bin/bash
# seedmatrix.sh [seed] [id-regex]: apply every saved seeded change (of the properties matching id-regex, default all) to /repo in turn, run the quick check of its property, report which are detected.
# (regression suite for the machinery itself; needs exclusive use of /repo; leaves /repo clean)
cd /verif
SEED=${1:-1}
FILTER=${2:-.}
for d in seeded/*/; do
  n=$(basename $d); id=${n%%-*}
  echo $id | grep -Eq "$FILTER" || continue
  git -C /repo checkout -q -- . ; git -C /repo apply /verif/$d/patch.diff 2>/dev/null || { echo "$n: patch does not apply"; continue; }
  out=$(VERIF_NOSHRINK=1 VERIF_SEED=$SEED ./check $id quick 2>&1 | grep -v KNOWN | tail -1)
  case "$out" in VIOLATION*) echo "$n: detected";; *) echo "$n: MISSED ($out)";; esac
  git -C /repo checkout -q -- .
done
git -C /repo status --short | head -3
