from ..coqterm import *
from .. import gen_common as G, tablecase as T

ID = "C02"
RUNNER = "C02"
COQ_IMPORTS = T.COQ_IMPORTS + " Check.C02check"
CASE_TYPE = "c02_case"
VERDICT = "c02_verdict"
EXPECTED = None
SHARD = 40
RULE = ("two streams. (a) carbon20.ValidatePacket vs the model on lines built from structured names (plain, tag appendix, metrics2.0 with = and "
        "_is_) mutated at field, name, appendix and number level plus raw bytes (NUL, 8-bit, multi-byte spaces, tabs), for all 3x2 level "
        "pairs and some bogus level names; (b) end to end: the level names go through the real TOML decoder and cfg.Config into a real "
        "table with a capture route and a capture aggregation; forwarded-or-not, the in/invalid counters and the bad-metrics record are "
        "compared. non-trivial & distinct = distinct (levels, line) pairs")
ASSUMPTIONS = ["strconv.ParseFloat decides what a numeric token is (oracle: the harness asks it directly)",
               "bytes.Fields = Model/Fields.v (validated by this run)"]
TRUSTED = ["oracle: strconv.ParseFloat, BurntSushi/toml"]

VALUES = ["1", "1.5", "1e3", "0x1p-2", "+5", "1_0", "nan", "inf", "abc", "1e999", "-.5", ".", "0x", "1e", "Infinity", "infi", "-0", "1.", "0x1.8p1", "١"]
SPACES = [" ", " ", " ", "  ", "\t", " \t ", " ", " ", "　", "\r", "\x0b", "\u0085"]
LEVELS = [("strict", "medium"), ("strict", "none"), ("medium", "medium"), ("medium", "none"), ("none", "medium"), ("none", "none")]


def gen_tagapp(rng):
    parts = []
    for _ in range(rng.randrange(1, 4)):
        k = rng.choice(["k", "host", "dc", "", "a!b", "k;"])
        v = rng.choice(["v", "web1", "1", "", "a=b", "x y"]) if rng.random() < .3 else rng.choice(["v", "web1", "eu"])
        if rng.random() < .8:
            k = rng.choice(["k", "host", "dc"])
        parts.append(";" + k + rng.choice(["=", "=", "=", "", "=="]) + v if rng.random() < .25 else ";" + k + "=" + v)
    s = "".join(parts)
    if rng.random() < .15:
        s += ";"
    return s


def gen_vname(rng):
    r = rng.random()
    base = G.gen_name(rng)
    if r < .25:
        return base
    if r < .45:
        return base + gen_tagapp(rng)
    if r < .55:
        return rng.choice(["unit=B.mtype=gauge.host=a", "unit=B.host=a.mtype=rate", "unit=B.mtype=gauge", "host=a.unit=B", "a.unit=B.mtype=c",
                           "mtype=gauge.x=y.z=1", "unit=B.mtype=gauge.a_is_b"])
    if r < .65:
        return rng.choice(["unit_is_B.mtype_is_gauge.host_is_a", "unit_is_B.mtype_is_gauge", "a_is_b.unit_is_B.mtype_is_c", "x_is_y", "unit_is_B.mtype_is_g.h=1"])
    if r < .72:
        return "." + base
    if r < .78:
        return base + ".." + rng.choice(G.TOK)
    if r < .84:
        k = rng.randrange(len(base) + 1)
        return base[:k] + rng.choice(["\x00", "\xe9", "\x80", "*", "/", "%", "{", " "]) + base[k:]
    if r < .88:
        return ";" + base
    if r < .92:
        return base + ";"
    return rng.choice(["", ".", "..", "_is_", "=", "a_b", "a_is", "_", "a-b.c_d"])


def gen_line(rng):
    n = rng.choice([3, 3, 3, 3, 3, 3, 3, 2, 4, 1, 0])
    if n == 0:
        return b""
    toks = [gen_vname(rng)]
    if n >= 2:
        toks.append(rng.choice(VALUES) if rng.random() < .5 else "1")
    if n >= 3:
        toks.append(rng.choice(VALUES) if rng.random() < .3 else str(rng.randrange(1, 2 ** 31)))
    for _ in range(n - 3):
        toks.append("x")
    s = rng.choice(["", "", "", " ", "\t"])
    for i, t in enumerate(toks):
        s += t
        if i + 1 < len(toks):
            s += rng.choice(SPACES)
    s += rng.choice(["", "", "", " ", "\r"])
    # names may carry raw latin-1 bytes; multi-byte spaces are UTF-8
    out = b""
    for ch in s:
        out += ch.encode("utf-8") if ord(ch) > 255 or ch in " \u0085" else bytes([ord(ch)])
    return out


def gen(rng, tier):
    n = 80 if tier == "quick" else 800
    m = 36 if tier == "quick" else 300
    cases = []
    for k in range(n):
        ll, lm = LEVELS[k % 6] if rng.random() < .93 else (rng.choice(["Strict", "", "low", "medium "]), rng.choice(["medium", "strict", "none"]))
        cases.append({"kind": "validate", "ll": ll, "lm": lm, "lines": [gen_line(rng).hex() for _ in range(40)]})
    star = ('star', True, ('any',))
    for k in range(m):
        ll, lm = LEVELS[k % 6]
        if rng.random() < .08:
            ll = rng.choice(["Strict", "low", ""])
        c = {"kind": "table", "ll": ll, "lm": lm, "order": False, "via_toml": True, "blacklist": [], "rewriters": [],
             "aggs": [{"m": {"prefix": "", "notPrefix": "", "sub": "", "notSub": "", "regex": ".*", "regex_ast": star, "notRegex": ""},
                       "fun": "sum", "outfmt": "cap%d" % k, "cache": False, "interval": 10, "wait": 100, "dropraw": False}],
             "routes": [{"kind": "capture", "m": {"prefix": "", "notPrefix": "", "sub": "", "notSub": "", "regex": "", "notRegex": ""}, "dests": []}],
             "events": []}
        if rng.random() < .2:
            c["ll"] = ""   # omitted: the documented default (medium) applies
        if rng.random() < .2:
            c["lm"] = ""
        for _ in range(16):
            c["events"].append({"t": "line", "b": gen_line(rng).hex()})
        cases.append(c)
    return cases


MASK = T.MASK_COUNTERS | T.MASK_BAD | T.MASK_ROUTES | T.MASK_LINES | T.MASK_AGGS


def to_coq(case, obs):
    if case.get("kind") == "validate":
        if obs.get("rejected"):
            ob = []
        else:
            ob = []
            for l, (k, e), v, t in zip(case["lines"], obs["res"], obs["val_ok"], obs["ts_ok"]):
                code = T.err_code(e) if e else (0, 0)
                ob.append(ctuple(ctuple(ctuple(cbytes(bytes.fromhex(l)), cbytes(bytes.fromhex(k))), ctuple(cN(code[0]), cN(code[1]))),
                                 ctuple(cbool(v), cbool(t))))
        return ("CV {| vc_ll := %s; vc_lm := %s; vc_rejected := %s; vc_obs := %s |}"
                % (cbytes(case["ll"]), cbytes(case["lm"]), cbool(bool(obs.get("rejected"))), clist(ob, "v_obs")))
    if obs.get("rejected"):
        # the configuration was refused: right iff a level name is not one of the documented ones
        ok = case["ll"] in ("strict", "medium", "none", "") and case["lm"] in ("medium", "none", "")
        return ("CV {| vc_ll := %s; vc_lm := %s; vc_rejected := true; vc_obs := [] |}"
                % (cbytes(case["ll"] or "medium"), cbytes(case["lm"] or "medium")))
    c = dict(case, ll=case["ll"] or "medium", lm=case["lm"] or "medium")
    if c["ll"] not in T.LL or c["lm"] not in T.LM:
        # accepted although a level name is undocumented: report through the validate verdict (accepted bogus level)
        return ("CV {| vc_ll := %s; vc_lm := %s; vc_rejected := false; vc_obs := [] |}" % (cbytes(case["ll"]), cbytes(case["lm"])))
    return "CT2 " + T.case_coq(c, obs, MASK)


def nontrivial_key(case, obs):
    import json
    return json.dumps([case["ll"], case["lm"], case.get("lines") or case.get("events")])


def sample(case, obs):
    if case.get("kind") == "validate":
        return {"levels": [case["ll"], case["lm"]], "lines": [bytes.fromhex(l).decode("latin-1") for l in case["lines"][:4]],
                "observed": (obs.get("res") or [])[:4]}
    return {"levels": [case["ll"], case["lm"]], "first_line": bytes.fromhex(case["events"][0]["b"]).decode("latin-1"),
            "observed_first": (obs.get("events") or [None])[0]}


def distribution(cases):
    import collections
    d = collections.Counter()
    for c in cases:
        d["kind=" + c["kind"]] += 1
        d["levels=%s/%s" % (c["ll"], c["lm"])] += 1
    return dict(d)


def signature(case, obs, code, err):
    if err:
        return "C02:harness-error:" + err[:60]
    return "C02:" + case.get("kind", "?") + ":validation-differs"


def shrink(case):
    key = "lines" if case.get("kind") == "validate" else "events"
    xs = case[key]
    if len(xs) > 1:
        for i in range(len(xs)):
            yield dict(case, **{key: [xs[i]]})


MANIFEST = {
    "text": "Theorems (Props/C02.v): a rejected line is counted invalid once, forwarded to no route, destination or aggregation and reported under "
            "its key with the reason; anything forwarded passed validation; valid = three fields + acceptable name + numeric value and timestamp; "
            "the legacy name rules and the tag appendix loop equal the documented grammar (inductive predicate); the six level names; the report "
            "keeps the last record per name. Tie: ValidatePacket vs the model on a mutated byte stream for all level pairs; levels through the "
            "real TOML decoder into a real table with capture route and aggregation.",
    "note": "strconv.ParseFloat is an oracle (numeric grammar is the library's). Trusted: Coq kernel+VM, toml decoder. carbon20.ValidatePacket lives in a dependency; the repository's part is the gate in table.Dispatch, the level maps and defaults.",
}
