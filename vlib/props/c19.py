from ..coqterm import *
from .. import gen_common as G, tablecase as T

ID = "C19"
RUNNER = "C19"
COQ_IMPORTS = T.COQ_IMPORTS + " Check.C19check"
CASE_TYPE = "c19_case"
VERDICT = "c19_verdict"
EXPECTED = None
SHARD = 24
RULE = ("(a) sequential histories on a real table with validate_order=true and a capture route: per name increasing / equal / decreasing / "
        "interleaved timestamps, zero timestamps, names differing only by a leading dot, invalid lines in between; every call compared with "
        "the model (counters, bad-metrics record, forwarded or not). (b) concurrent histories: 2-8 dispatcher goroutines over shared and "
        "disjoint names; the per-call outcome is checked by the acceptor hist_ok (necessary conditions of a linearizable max register). "
        "non-trivial & distinct = distinct histories containing at least one rejection and one acceptance of the same name")
ASSUMPTIONS = ["FNV-1a-64 does not collide on the names of a history (stated hypothesis NoCollision of C19_max_register; no witness known)",
               "timestamps reach Ordered as uint32(ParseFloat(token)); generated timestamps are decimal integers < 2^32 (the harness reports the parsed value)",
               "linearizability of the mutex-guarded step is checked on sampled concurrent runs by necessary conditions, not proved"]
TRUSTED = ["oracle: sync.Mutex, hash/fnv, strconv.ParseFloat"]

_case = [0]


def uniq_prefix(rng):
    _case[0] += 1
    return "o%d%s" % (_case[0], rng.choice("abcdefgh"))


def gen_seq(rng):
    p = uniq_prefix(rng)
    names = [p + "." + G.gen_name(rng, 2) for _ in range(rng.choice([1, 2, 3]))]
    c = {"kind": "table", "ll": rng.choice(["none", "medium", "strict"]), "lm": "none", "order": True, "blacklist": [], "rewriters": [], "aggs": [],
         "routes": [{"kind": "capture", "m": {"prefix": "", "notPrefix": "", "sub": "", "notSub": "", "regex": "", "notRegex": ""}, "dests": []}],
         "events": []}
    cur = {n: rng.choice([0, 5, 1000]) for n in names}
    for _ in range(rng.randrange(8, 24)):
        n = rng.choice(names)
        r = rng.random()
        if r < .45:
            cur[n] += rng.randrange(1, 5)
            ts = cur[n]
        elif r < .65:
            ts = cur[n]
        elif r < .85:
            ts = max(0, cur[n] - rng.randrange(1, 4))
        elif r < .9:
            ts = 0
        else:
            ts = rng.choice([4294967295, 4294967294, 1])
            cur[n] = max(cur[n], ts)
        shown = ("." + n) if rng.random() < .25 else n
        if rng.random() < .06:
            line = shown + " nope " + str(ts)
        else:
            line = "%s %d %d" % (shown, rng.randrange(100), ts)
        c["events"].append({"t": "line", "b": line.encode().hex()})
    return c


def gen_conc(rng):
    p = uniq_prefix(rng)
    shared = [p + ".s%d" % i for i in range(rng.choice([1, 2]))]
    threads = []
    for g in range(rng.choice([2, 3, 4, 8])):
        own = p + ".t%d" % g
        pts, ts = [], rng.randrange(1, 4)
        for _ in range(rng.randrange(5, 30)):
            name = rng.choice(shared + [own]) if rng.random() < .8 else own
            r = rng.random()
            if r < .6:
                ts += rng.randrange(0, 3)
            elif r < .8:
                ts = max(0, ts - rng.randrange(0, 3))
            pts.append({"name": name, "ts": ts})
        threads.append(pts)
    return {"kind": "conc", "threads": threads}


def gen_stampede(rng, threads, n):
    """all threads offer the same increasing timestamps for one name at the same time: exactly one may win each"""
    p = uniq_prefix(rng)
    return {"kind": "conc", "threads": [[{"name": p + ".hot", "ts": 1 + i // 2} for i in range(n)] for _ in range(threads)]}


# names that share a register as soon as the 64-bit FNV-1a key is narrowed (32-bit FNV-1a / FNV-1, the low or high half of the
# 64-bit key, the two halves folded): distinct names, so each must keep its own newest timestamp.  Each pair is used by one
# case per run only (the order state is process-wide).
NARROW = {
    "fnv32a": [("costarring", "liquid"), ("declinate", "macallums"), ("altarage", "zinke"), ("lrktz", "mgfsbvpl"), ("gcxfvf", "aufiq")],
    "fnv32": [("tktdxgok", "lastt"), ("tplhwme", "kjerlad"), ("yawpuyyb", "mlysc")],
    "lo32_fnv64a": [("srv198878.cpu.load", "srv255542.cpu.load"), ("srv198879.cpu.load", "srv255543.cpu.load")],
    "hi32_fnv64a": [("srv59798.cpu.load", "srv139139.cpu.load"), ("srv25437.cpu.load", "srv161497.cpu.load")],
    "fold_fnv64a": [("srv57552.cpu.load", "srv82621.cpu.load"), ("srv187138.cpu.load", "srv232771.cpu.load")],
}


def gen_narrow(rng, kind):
    c = {"kind": "table", "ll": "none", "lm": "none", "order": True, "blacklist": [], "rewriters": [], "aggs": [],
         "routes": [{"kind": "capture", "m": {"prefix": "", "notPrefix": "", "sub": "", "notSub": "", "regex": "", "notRegex": ""}, "dests": []}],
         "events": [], "narrow": kind}
    pairs = list(NARROW[kind])
    rng.shuffle(pairs)
    for a, b in pairs:
        hi = rng.randrange(1000, 2000)
        lo = rng.randrange(10, 500)
        for n, ts in [(a, hi), (b, lo), (b, lo), (a, hi - 1), (a, hi + 1), (b, lo + 1), (b, hi), (a, hi + 1), (b, hi + 2)]:
            c["events"].append({"t": "line", "b": ("%s %d %d" % (n, rng.randrange(100), ts)).encode().hex()})
    return c


def gen(rng, tier):
    n = 150 if tier == "quick" else 1500
    m = 150 if tier == "quick" else 1500
    st = [gen_stampede(rng, 8, 100) for _ in range(12 if tier == "quick" else 120)]
    narrow = [gen_narrow(rng, k) for k in sorted(NARROW)]
    return narrow + [gen_seq(rng) for _ in range(n)] + [gen_conc(rng) for _ in range(m)] + st


MASK = T.MASK_COUNTERS | T.MASK_BAD | T.MASK_ROUTES | T.MASK_LINES


def to_coq(case, obs):
    if case["kind"] == "conc":
        h = []
        for th, acc in zip(case["threads"], obs["accepted"]):
            h.append(clist([ctuple(ctuple(cbytes(p["name"]), cN(p["ts"])), cbool(a)) for p, a in zip(th, acc)], "call"))
        return "CConc %s %s" % (clist(h, "(list call)"), cZ(obs["ooo"]))
    return "CSeq " + T.case_coq(case, obs, MASK)


def nontrivial_key(case, obs):
    import json
    if case["kind"] == "conc":
        flat = [a for th in obs["accepted"] for a in th]
        return json.dumps(case["threads"]) if (True in flat and False in flat) else None
    ev = obs.get("events") or []
    if any(e["cnt"][2] for e in ev) and any(e["routes"] for e in ev):
        return json.dumps(case["events"])
    return None


def sample(case, obs):
    if case["kind"] == "conc":
        return {"threads": [[(p["name"], p["ts"]) for p in th[:5]] for th in case["threads"][:3]], "accepted": [a[:5] for a in obs["accepted"][:3]], "out_of_order_delta": obs["ooo"]}
    return {"lines": [bytes.fromhex(e["b"]).decode() for e in case["events"][:6]], "out_of_order": [e["cnt"][2] for e in obs["events"][:6]]}


def distribution(cases):
    import collections
    d = collections.Counter()
    for c in cases:
        d["kind=" + c["kind"]] += 1
        if c.get("narrow"):
            d["names_colliding_under_" + c["narrow"]] += 1
        if c["kind"] == "conc":
            d["threads=%d" % len(c["threads"])] += 1
    return dict(d)


def signature(case, obs, code, err):
    if err:
        return "C19:harness-error:" + err[:60]
    return "C19:" + case["kind"] + ":order-validation-differs"


def shrink(case):
    if case["kind"] == "table":
        evs = case["events"]
        for i in range(len(evs)):
            if len(evs) > 1:
                yield dict(case, events=evs[:i] + evs[i + 1:])


MANIFEST = {
    "text": "Theorems (Props/C19.v): for every call history (every linearisation of the mutex-guarded step) over names without FNV collision a point "
            "is accepted iff its timestamp is positive and exceeds every timestamp accepted before for that name; accepted timestamps are strictly "
            "increasing; a rejected point is counted, reported and forwarded nowhere; leading-dot names share a register; and for every "
            "interleaving of any number of dispatchers the per-thread histories pass the concurrent acceptor hist_ok call by call (so the acceptor "
            "never rejects correct code, whatever the schedule). Tie: sequential histories compared call by call on a real table; concurrent "
            "dispatchers (stampedes on one name) checked by hist_ok.",
    "note": "That Go's mutex makes the step atomic is trusted (the model's interleavings are sequences of atomic steps); real interleavings are sampled. FNV collisions are a stated hypothesis.",
}
