from ..coqterm import *

ID = "C15"
COQ_IMPORTS = "Check.C15check"
CASE_TYPE = "(c15_case * list Z)"
VERDICT = "c15_verdict"
EXPECTED = "c15_expected"
SHARD = 4
RULE = ("cases = a set of 1..10 destinations with distinct (host,instance) (with/without port and instance, shuffled) plus a "
        "sequence of add/del-destination and name queries run on a real ConsistentHashing route whose destinations sit on "
        "refused loopback ports (the destination that counts the line in conn_down_no_spool is the observed choice); "
        "non-trivial & distinct = distinct (destination-node set, name) pairs queried on a ring of >= 2 destinations")
ASSUMPTIONS = ["crypto/md5 = Lib/Md5.v (RFC 1321), re-validated by every query of this run",
               "sort.Sort sorts and sort.Search returns the first index whose predicate holds (monotone on a sorted ring)",
               "carbon = the ConsistentHashRing the property describes (md5[:4], 100 replicas, insort, bisect_left on (pos, None), no collision bump)"]
TRUSTED = ["oracle: crypto/md5, sort.Sort, sort.Search (Go standard library)"]

HOSTS = ["127.0.0.%d" % i for i in range(1, 30)] + ["127.1.2.3", "127.0.1.1"]
INSTS = ["", "a", "b", "c", "aa", "1", "inst-01"]
WORDS = ["foo", "bar", "servers", "web01", "cpu", "load", "a", "b", "x.y", "prod", "eu-west", "metric_1", "42"]


def gen_addr(rng, used):
    while True:
        h = rng.choice(HOSTS)
        inst = rng.choice(INSTS)
        form = rng.randrange(4)
        if inst:
            addr = "%s:%d:%s" % (h, rng.randrange(1, 8), inst)
        elif form == 0:
            addr = h                      # no port at all
        elif form == 1:
            addr = "%s:%d:" % (h, rng.randrange(1, 8))   # empty instance
        else:
            addr = "%s:%d" % (h, rng.randrange(1, 8))
        node = (h, inst)
        if node not in used and all(addr != u for u in used.values()):
            used[node] = addr
            return addr


def node_of(addr):
    parts = addr.split(":")
    return (parts[0], parts[2] if len(parts) == 3 else "")


def py_positions(addrs):
    """carbon's replica positions, computed independently with hashlib: pos -> set of nodes"""
    import hashlib
    out = {}
    for a in addrs:
        h, inst = node_of(a)
        for i in range(100):
            k = "('%s', %s):%d" % (h, ("'%s'" % inst) if inst else "None", i)
            d = hashlib.md5(k.encode()).digest()
            out.setdefault(d[0] * 256 + d[1], set()).add((h, inst))
    return out


def boundary_names(rng, addrs, want=4):
    """names whose ring position equals an entry's position exactly (the >= / > boundary),
    preferring positions shared by two different nodes (tie-break by host, instance)"""
    import hashlib
    pos = py_positions(addrs)
    shared = {p for p, ns in pos.items() if len(ns) > 1}
    names, tries = [], 0
    base = "b%d." % rng.randrange(10 ** 6)
    got_shared = False
    while len(names) < want and tries < 400000:
        tries += 1
        nm = base + str(tries)
        d = hashlib.md5(nm.encode()).digest()
        p = d[0] * 256 + d[1]
        if p in shared and not got_shared:
            names.append(nm)
            got_shared = True
        elif p in pos and (not shared or got_shared or tries > 150000) and len(names) < want:
            names.append(nm)
    return names


def gen_name(rng):
    return ".".join(rng.choice(WORDS) for _ in range(rng.randrange(1, 5))) + (str(rng.randrange(1000)) if rng.random() < .5 else "")


def gen(rng, tier):
    ncases = 16 if tier == "quick" else 160
    cases = []
    for _ in range(ncases):
        used = {}
        n = rng.choice([1, 2, 2, 3, 3, 4, 5, 6, 8, 10]) if tier == "thorough" else rng.choice([1, 2, 2, 3, 3, 4, 5])
        addrs = [gen_addr(rng, used) for _ in range(n)]
        ops = []
        names = [gen_name(rng) for _ in range(9)] + boundary_names(rng, addrs, 3)
        cur = len(addrs)
        for _ in range(rng.randrange(1, 4)):
            for nm in rng.sample(names, 9):
                ops.append({"op": "q", "name": nm.encode().hex()})
            r = rng.random()
            if r < .4 and cur < 10:
                ops.append({"op": "add", "addr": gen_addr(rng, used)})
                cur += 1
            elif r < .8 and cur > 1:
                i = rng.randrange(cur)
                ops.append({"op": "del", "idx": i})
                cur -= 1
            elif r < .9:
                ops.append({"op": "del", "idx": cur + rng.randrange(3)})
            elif cur >= 1:
                # modDest addr=: one destination re-pointed at runtime (the harness supplies a live listener for the new address)
                ops.append({"op": "mod", "idx": rng.randrange(cur), "inst": rng.choice(["", "a", "b7", "inst"])})
        for nm in rng.sample(names, 6):
            ops.append({"op": "q", "name": nm.encode().hex()})
        cases.append({"addrs": addrs, "ops": ops})
    return cases


def enc_obs(o):
    if o == "ok" or (isinstance(o, str) and o.startswith("ok:")):
        return -2
    if o == "err":
        return -3
    return int(o)


def to_coq(case, obs):
    ops = []
    for op, ob in zip(case["ops"], obs):
        if op["op"] == "add":
            ops.append("Add " + cbytes(op["addr"]))
        elif op["op"] == "del":
            ops.append("Del " + cnat(op["idx"]))
        elif op["op"] == "mod":
            # the new address is what the harness' listener got (reported in the observation)
            ops.append("Mod %s %s" % (cnat(op["idx"]), cbytes(ob[3:] if isinstance(ob, str) and ob.startswith("ok:") else "127.0.0.1:1")))
        else:
            ops.append("Q " + cbytes(bytes.fromhex(op["name"])))
    c = ctuple(clist([cbytes(a) for a in case["addrs"]], "bytes"), clist(ops, "c15op"))
    return ctuple(c, clist([cZ(enc_obs(o)) for o in obs], "Z"))


def err_is_obs(case, err):
    return None


def nontrivial_key(case, obs):
    # number of distinct (ring, name) queries with >=2 destinations is approximated per case
    n = len(case["addrs"])
    qs = tuple(sorted(set(op["name"] for op in case["ops"] if op["op"] == "q")))
    return (tuple(sorted(case["addrs"])), qs) if n >= 2 or any(o["op"] == "add" for o in case["ops"]) else None


def sample(case, obs):
    return {"addrs": case["addrs"], "ops": case["ops"][:6], "observed": obs[:6]}


def distribution(cases):
    import collections
    d = collections.Counter()
    for c in cases:
        d["dests=%d" % len(c["addrs"])] += 1
        for op in c["ops"]:
            d["op=" + op["op"]] += 1
    return dict(d)


def signature(case, obs, code, err):
    if err:
        return "C15:harness-error:" + err[:40]
    return "C15:choice-differs-from-carbon-ring"


def shrink(case):
    ops = case["ops"]
    for i in range(len(ops)):
        yield {"addrs": case["addrs"], "ops": ops[:i] + ops[i + 1:]}
    for i in range(len(case["addrs"])):
        if len(case["addrs"]) > 1 and not any(o["op"] == "del" for o in ops):
            yield {"addrs": case["addrs"][:i] + case["addrs"][i + 1:], "ops": ops}

MANIFEST = {
    "text": "Theorems (Props/C15.v, no axioms, position function and replica count universally quantified): exactly one destination; "
            "the choice depends only on the name and the set of (host,instance) nodes; equality with a transcription of carbon's "
            "ConsistentHashRing; add/remove move only the keys they must (ties on equal positions included). Full strength: the property is a "
            "pure function of finite data. Tie to the code: real ConsistentHashing routes queried through Dispatch, compared with the model under "
            "the executable MD5 (exact boundary names included).",
    "note": "Trusted: Coq kernel+VM; crypto/md5, sort.Sort, sort.Search as oracles (MD5 engine re-validated by every query); model hand-written, tied by the per-run differential check only; carbon = ring as the property describes it.",
}
