import json
import math
import pickle
import struct

from ..coqterm import *

ID = "C13"
RUNNER = "C13"
COQ_IMPORTS = "Model.PickleVM Model.PickleIn Model.PyPickle Check.C13check"
CASE_TYPE = "c13_case"
VERDICT = "c13_verdict"
EXPECTED = None
SHARD = 24
RULE = ("one case = one connection: 1-4 frames, each the pickle that CPython's pickle.dumps(protocol 0..4) makes of a list of (name,(timestamp,value)) "
        "items (tuples or lists; int / long / float / str fields, BININT1/2/BININT/LONG1/'I'/'L' ranges, text and binary floats, unicode names "
        "incl. non-ASCII, 0..1200 items so that APPENDS batches, LONG_BINPUT and protocol-4 multi-frame pickles occur; shared string objects give "
        "BINGET/GET), plus hand-assembled Python-2 style pickles (STRING, BINSTRING, SHORT_BINSTRING, LONG), structurally invalid items, and "
        "corrupted / truncated / oversize frames; the stream reaches input.NewPickle(d).Handle through a scripted reader cut at every byte (short "
        "streams), at and around frame boundaries, inside the length prefix, or at random. The expected lines come from the Python-level data "
        "(str()/'%f'/'%.0f'), independently of the Coq model. non-trivial & distinct = distinct (stream, segmentation) pairs with a cut inside a frame")
ASSUMPTIONS = ["github.com/kisielk/og-rek (decoder), strconv.ParseFloat, fmt %f/%d and bufio.Reader are library code: Model/PickleVM.v models og-rek "
               "opcode by opcode and is validated by this differential run"]
TRUSTED = ["oracle: CPython 3 pickle.dumps (reference pickler), strconv.ParseFloat for FLOAT arguments",
           "generator: Python-2 style pickles are assembled by vlib/props/c13.py (no Python 2 here)"]

NAMES = ["foo.bar", "a", "web.cpu.0.user", "servers.web1.load;dc=us;env=prod", "x" * 300, "café.latte", "日本.tokyo", "emoji.\U0001F600",
         "m.with'quote", "tab\\slash", "b", "foo.bar"]


def go_f6(x):
    if math.isnan(x):
        return b"NaN"
    if math.isinf(x):
        return b"+Inf" if x > 0 else b"-Inf"
    return ("%f" % x).encode()


def go_f0(x):
    if math.isnan(x):
        return b"NaN"
    if math.isinf(x):
        return b"+Inf" if x > 0 else b"-Inf"
    return ("%.0f" % x).encode()


def f_of_bits(b):
    return struct.unpack(">d", struct.pack(">Q", b))[0]


def bits_of(x):
    return struct.unpack(">Q", struct.pack(">d", x))[0]


INTS = [0, 1, 5, 42, 255, 256, 65535, 65536, 1500000000, 2 ** 31 - 1]
BIGINTS = [2 ** 31, 2 ** 32 + 5, 2 ** 63, 2 ** 64 + 1, 2 ** 40, -2 ** 31 - 1, -2 ** 40, 2 ** 1000, -2 ** 1015]
HUGE = 2 ** 1030          # 129 bytes as LONG1: the length byte is above 127
NEGINTS = [-1, -5, -255, -65536, -2 ** 31]
FLOATS = [1.5, 0.0, -0.0, 3.14159, 1e16, 1e-7, 123456789.123456789, 2.5, 3.5, 1e300, 4.9e-324, 0.1, -17.25, float("inf"), float("-inf"), float("nan"),
          1500000000.5, 1500000000.0, 0.5, 1.0000005]


def gen_scalar(rng, role, feat):
    """returns descriptor {"k":..,"v":..}"""
    r = rng.random()
    if r < .45:
        pool = INTS
        if "neg_int" in feat and rng.random() < .4:
            pool = NEGINTS
        if role == "ts" and rng.random() < .15:
            pool = BIGINTS[:6]
        if role == "val" and "big_val" in feat and rng.random() < .5:
            pool = BIGINTS
        if role == "ts" and "huge_long" in feat and rng.random() < .4:
            return {"k": "i", "v": str(HUGE)}
        return {"k": "i", "v": str(rng.choice(pool) if rng.random() < .8 else rng.randrange(0, 2 ** 31))}
    if r < .8:
        x = rng.choice(FLOATS) if rng.random() < .6 else rng.uniform(-1e6, 1e6)
        if role == "ts" and rng.random() < .5:
            x = float(rng.randrange(1, 2 ** 31)) + rng.choice([0.0, 0.5, 0.25])
        return {"k": "f", "v": str(bits_of(x))}
    s = rng.choice(["1", "1.5", "1500000000", "-3", "1e3", "12", "12"])
    return {"k": "s", "v": s.encode().hex()}


def gen_item(rng, feat):
    if rng.random() < .08:
        return {"bad": rng.choice(["3tuple", "name_int", "data_int", "data_3", "val_none", "ts_none", "item_none", "item_str", "name_none", "one"])}
    name = rng.choice(NAMES)
    if "latin1_p0" not in feat and any(128 <= ord(ch) < 256 for ch in name):
        name = "cafe.latte"
    d = {"outer": rng.choice("ttl"), "inner": rng.choice("ttl"),
         "name": {"k": "u", "v": name.encode("utf-8").hex()},
         "ts": gen_scalar(rng, "ts", feat), "val": gen_scalar(rng, "val", feat)}
    if "bytes_name" in feat and rng.random() < .3:
        d["name"]["k"] = "b"
    return d


def py_scalar(d):
    if d["k"] == "i":
        return int(d["v"])
    if d["k"] == "f":
        return f_of_bits(int(d["v"]))
    return bytes.fromhex(d["v"]).decode("utf-8")


def py_item(d, share):
    if "bad" in d:
        b = d["bad"]
        return {"3tuple": ("n", 1, 2), "name_int": (5, (1, 2)), "data_int": ("n", 5), "data_3": ("n", (1, 2, 3)), "val_none": ("n", (1, None)),
                "ts_none": ("n", (None, 1)), "item_none": None, "item_str": "n 1 2", "name_none": (None, (1, 2)), "one": ("n",)}[b]
    nb = bytes.fromhex(d["name"]["v"])
    name = nb if d["name"]["k"] == "b" else nb.decode("utf-8")
    if share is not None and d["name"]["k"] == "u":
        name = share.setdefault(name, name)            # the same str object for equal names: the pickler emits GET / BINGET
    inner = (py_scalar(d["ts"]), py_scalar(d["val"]))
    inner = list(inner) if d["inner"] == "l" else inner
    outer = (name, inner)
    return list(outer) if d["outer"] == "l" else outer


def spec_event(d, defect=None, proto=None):
    """the line the item must become; with defect = the name of a recorded finding, what the relay is known to make of it instead"""
    if "bad" in d:
        return None
    if defect == "bytes_name" and d["name"]["k"] == "b":
        return None                      # protocols 0-2: _codecs.encode REDUCE -> not a string -> counted invalid
    if defect == "neg_int" and proto >= 1:
        d = dict(d)
        for k in ("ts", "val"):
            if d[k]["k"] == "i" and -2 ** 31 <= int(d[k]["v"]) < 0:
                d[k] = {"k": "i", "v": str(int(d[k]["v"]) + 2 ** 32)}      # BININT read as unsigned
    if defect == "latin1_p0" and proto == 0:
        nm = bytes.fromhex(d["name"]["v"]).decode("utf-8")
        nm = "".join("\ufffd" if 128 <= ord(ch) < 256 else ch for ch in nm)    # Latin-1 bytes of a 'V' string read as UTF-8
        d = dict(d, name={"k": d["name"]["k"], "v": nm.encode("utf-8").hex()})
    def txt(s, f):
        if s["k"] == "i":
            return s["v"].encode()
        if s["k"] == "f":
            return f(f_of_bits(int(s["v"])))
        return bytes.fromhex(s["v"])
    return bytes.fromhex(d["name"]["v"]) + b" " + txt(d["val"], go_f6) + b" " + txt(d["ts"], go_f0)


# ---- a Python-2 style pickler for the shapes cPickle produced (str = byte string) ----
def py2_pickle(items, proto, rng):
    out = bytearray()
    memo = [0]

    def put():
        i = memo[0]
        memo[0] += 1
        if proto == 0:
            return b"p%d\n" % i
        return b"q" + bytes([i]) if i < 256 else b"r" + struct.pack("<I", i)

    def s(b):
        if proto == 0:
            return b"S'" + b + b"'\n" + put()
        if len(b) < 256:
            return b"U" + bytes([len(b)]) + b + put()
        return b"T" + struct.pack("<I", len(b)) + b + put()

    def num(d):
        if d["k"] == "s":
            return s(bytes.fromhex(d["v"]))
        if d["k"] == "f":
            x = f_of_bits(int(d["v"]))
            return (b"F" + repr(x).encode() + b"\n") if proto == 0 else b"G" + struct.pack(">d", x)
        v = int(d["v"])
        if -2 ** 31 <= v < 2 ** 31:
            if proto == 0:
                return b"I%d\n" % v
            if 0 <= v < 256:
                return b"K" + bytes([v])
            if 0 <= v < 65536:
                return b"M" + struct.pack("<H", v)
            return b"J" + struct.pack("<i", v)
        if proto < 2:
            return b"L%dL\n" % v
        nb = (v.bit_length() >> 3) + 1
        enc = v.to_bytes(nb, "little", signed=True)
        if v < 0 and nb > 1 and enc[-1] == 0xff and (enc[-2] & 0x80):
            enc = enc[:-1]
        return b"\x8a" + bytes([len(enc)]) + enc

    if proto == 2:
        out += b"\x80\x02"
    if proto == 0:
        out += b"(l" + put()
    else:
        out += b"]" + put()
    if proto != 0 and len(items) > 1:
        out += b"("
    for d in items:
        body = s(bytes.fromhex(d["name"]["v"]))
        inner = num(d["ts"]) + num(d["val"])
        if proto == 2:
            body += inner + b"\x86" + put() + b"\x86" + put()
            out += body
        else:
            out += b"(" + body + b"(" + inner + b"t" + put() + b"t" + put()
        if proto == 0 or len(items) == 1:
            out += b"a"
    if proto != 0 and len(items) > 1:
        out += b"e"
    return bytes(out + b".")


def frame(p):
    return struct.pack(">I", len(p)) + p


def chop(rng, s, bounds, mode):
    if mode == "whole" or len(s) < 2:
        cuts = []
    elif mode == "bytes":
        cuts = list(range(1, len(s)))
    elif mode == "bounds":
        cuts = sorted(set(c for b in bounds for c in (b - 1, b, b + 1, b + 2, b + 4, b + 5) if 0 < c < len(s)))
    else:
        cuts = sorted(set(rng.randrange(1, len(s)) for _ in range(rng.randrange(1, 6))))
    steps, prev = [], 0
    for c in cuts + [len(s)]:
        steps.append({"t": "data", "b": s[prev:c].hex()})
        prev = c
    if rng.random() < .3:
        steps[-1]["t"] = "dataeof"
    return steps


def float_probes(stream):
    """texts whose ParseFloat value the model may ask for: the argument of every possible FLOAT opcode, read the way
    og-rek reads it (to the next newline, or to the end of the frame's payload)"""
    out, seen = [], set()

    def scan(buf):
        i = 0
        while len(out) < 20000:
            i = buf.find(b"F", i)
            if i < 0:
                break
            j = buf.find(b"\n", i)
            t = buf[i + 1:] if j < 0 else buf[i + 1:j]
            if j >= 0 and t.endswith(b"\r"):
                t = t[:-1]
            if 0 < len(t) <= 40 and t not in seen:
                out.append(t)
                seen.add(t)
            i += 1
    scan(stream)
    k = 0
    while k + 4 <= len(stream):
        n = struct.unpack(">I", stream[k:k + 4])[0]
        if n > 500 * 1024 * 1024:
            break
        scan(stream[k + 4:k + 4 + n])
        k += 4 + n
    return [t.hex() for t in out]


def make_case(rng, tier, feat=(), corrupt=None, mode=None, py2=False, nframes=None, big=False, modelable=False):
    frames, events, bounds, descs = [], [], [0], []
    nframes = nframes or rng.choice([1, 1, 2, 3, 4])
    for _ in range(nframes):
        n = rng.choice([0, 1, 1, 2, 3, 5, 8]) if not big else rng.choice([90, 300, 1001, 1200])
        items = [gen_item(rng, feat) for _ in range(n)]
        if modelable:
            # the shapes Model/PyPickle.v describes: tuples, fresh unicode names, 0 <= int < 2^31 or float, protocol 2/3/4
            # (protocol 4 bodies below 64 KiB: one FRAME)
            items = [d for d in items if "bad" not in d]
            for d in items:
                d["outer"] = d["inner"] = "t"
                if len(bytes.fromhex(d["name"]["v"]).decode("utf-8")) < 2:
                    d["name"]["v"] = b"ab".hex()
                for k in ("ts", "val"):
                    if d[k]["k"] == "s" or (d[k]["k"] == "i" and not 0 <= int(d[k]["v"]) < 2 ** 31):
                        d[k] = {"k": "i", "v": str(rng.choice(INTS))}
        if py2:
            items = [d for d in items if "bad" not in d]
            for d in items:
                d["name"]["v"] = rng.choice(["foo.bar", "a.b;x=y", "n" * 300, "web.cpu"]).encode().hex()
            proto = rng.choice([0, 1, 2])
            p = py2_pickle(items, proto, rng)
        else:
            proto = rng.choice([0, 1, 2, 3, 4]) if not modelable else (rng.choice([1, 2, 3]) if big else rng.choice([0, 1, 2, 3, 4, 4]))
            if modelable and proto == 0:
                # protocol 0 writes these names verbatim (ASCII without NUL, LF, CR, SUB, backslash)
                for j, d in enumerate(items):
                    d["name"]["v"] = ("p0.%d.%s" % (j, rng.choice(["cpu", "a b", "q'x", "t;k=v", "x" * 200]))).encode().hex()
            if modelable and proto in (2, 3, 4) and items and rng.random() < .6:
                # integers beyond int32: LONG1 (Model/PyPickle.py_dumpsL / py_dumps4L, C13_decode_what_python_encodes_long[_protocol4]),
                # every byte length up to 127
                for d in items:
                    for k in ("ts", "val"):
                        if d[k]["k"] == "i" and rng.random() < .5:
                            bl = rng.choice([32, 33, 39, 40, 41, 63, 64, 65, 127, 128, 1000, 1014, 1015, rng.randrange(32, 1016)])
                            d[k] = {"k": "i", "v": str(rng.choice([2 ** (bl - 1), 2 ** bl - 1, rng.randrange(2 ** (bl - 1), 2 ** bl)]))}
            if "latin1_p0" in feat:
                proto = 0
            share = {} if rng.random() < .3 and not modelable else None
            p = pickle.dumps([py_item(d, share) for d in items], protocol=proto)
        frames.append(frame(p))
        descs.append({"proto": proto, "py2": py2, "items": items, "pickle": p.hex() if modelable else None})
        events.append([spec_event(d) for d in items])
        bounds.append(bounds[-1] + len(frames[-1]))
    stream = b"".join(frames)
    spec = {"events": [e.hex() if e is not None else None for fr in events for e in fr], "err": False}
    known = None
    if feat and not corrupt:
        kev, kerr = [], False
        for fd in descs:
            if feat[0] == "bytes_name" and fd["proto"] >= 3 and any("bad" not in d and d["name"]["k"] == "b" for d in fd["items"]):
                kerr = True              # BINBYTES / SHORT_BINBYTES are unknown opcodes: the connection ends here
                break
            if feat[0] == "huge_long" and fd["proto"] >= 2 and any("bad" not in d and d["ts"]["v"] == str(HUGE) for d in fd["items"]):
                kerr = True              # LONG1 with a length byte above 127: nothing is read, the payload is taken for opcodes
                break
            kev += [spec_event(d, feat[0], fd["proto"]) for d in fd["items"]]
        known = {"events": [e.hex() if e is not None else None for e in kev], "err": kerr}
        if known == spec:
            known = None
    prefix = None
    if corrupt:
        k = rng.randrange(nframes)                         # the frame that gets damaged
        head, tail = b"".join(frames[:k]), b"".join(frames[k + 1:])
        f = frames[k]
        if corrupt == "truncate_stream":
            f, tail = f[:rng.randrange(1, len(f))], b""
        elif corrupt == "oversize":
            f = struct.pack(">I", rng.choice([500 * 1024 * 1024 + 1, 2 ** 32 - 1])) + f[4:]
        elif corrupt == "garbage":
            g = bytes(rng.randrange(256) for _ in range(rng.randrange(1, 12)))
            f = frame(g)
        elif corrupt == "short_len":
            cut = rng.randrange(1, max(2, len(f) - 4))
            f = struct.pack(">I", cut) + f[4:4 + cut]
        elif corrupt == "flip":
            i = rng.randrange(4, len(f))
            f = f[:i] + bytes([f[i] ^ (1 << rng.randrange(8))]) + f[i + 1:]
        elif corrupt == "tuple_top":
            f = frame(pickle.dumps(tuple(("a", (1, 2)) for _ in range(2)), protocol=rng.choice([0, 1, 2, 3, 4])))
        elif corrupt == "zero_len":
            f = struct.pack(">I", 0)
        stream = head + f + tail
        prefix = [e.hex() if e is not None else None for fr in events[:k] for e in fr]
        spec = None
        bounds = [b for b in bounds if b <= len(head)] + [len(head) + len(f)]
    mode = mode or rng.choice(["whole", "rand", "rand", "bounds", "bytes" if len(stream) < 300 else "rand"])
    return {"script": chop(rng, stream, bounds, mode), "probes": float_probes(stream), "spec": spec, "prefix": prefix or [],
            "known_spec": known, "feat": list(feat), "corrupt": corrupt, "mode": mode, "frames": descs if len(stream) < 4000 else []}


def gen(rng, tier):
    n = 260 if tier == "quick" else 2600
    cases = []
    for i in range(n):
        r = rng.random()
        if r < .62:
            cases.append(make_case(rng, tier))
        elif r < .72:
            cases.append(make_case(rng, tier, py2=True))
        elif r < .9:
            cases.append(make_case(rng, tier, corrupt=rng.choice(["truncate_stream", "oversize", "garbage", "short_len", "flip", "flip", "tuple_top",
                                                                  "zero_len"])))
        else:
            cases.append(make_case(rng, tier))
    for k in range(4 if tier == "quick" else 60):
        cases.append(make_case(rng, tier, big=True, nframes=1, mode=rng.choice(["whole", "rand"])))
    for k in range(30 if tier == "quick" else 300):
        cases.append(make_case(rng, tier, modelable=True, big=(k % 15 == 14)))
    for feat in FEATS:
        for _ in range(6 if tier == "quick" else 40):
            cases.append(make_case(rng, tier, feat=(feat,)))
    return cases


FEATS = ["neg_int", "big_val", "latin1_p0", "bytes_name", "huge_long"]


def pynum_coq(d):
    return "(PyInt %s)" % cN(int(d["v"])) if d["k"] == "i" else "(PyFloat %s)" % cN(int(d["v"]))


def reprs_coq(case):
    """repr() of the floats of the modelled protocol-0 frames, by bits (the oracle of Model/PyPickle.py_dumps0)"""
    out, seen = [], set()
    for fd in case["frames"]:
        if fd.get("pickle") and fd["proto"] == 0:
            for d in fd["items"]:
                for k in ("ts", "val"):
                    if d[k]["k"] != "i" and d[k]["v"] not in seen:
                        seen.add(d[k]["v"])
                        x = struct.unpack(">d", struct.pack(">Q", int(d[k]["v"])))[0]
                        out.append(ctuple(cN(int(d[k]["v"])), cbytes(repr(x).encode())))
    return clist(out, "(N * bytes)")


def pymodel_coq(case):
    out = []
    for fd in case["frames"]:
        if fd.get("pickle"):
            ds = clist(["{| d_name := %s; d_ts := %s; d_val := %s |}" % (cbytes(bytes.fromhex(d["name"]["v"])), pynum_coq(d["ts"]), pynum_coq(d["val"]))
                        for d in fd["items"]], "pydp")
            out.append(ctuple(cN(fd["proto"]), ds, cbytes(bytes.fromhex(fd["pickle"]))))
    return clist(out, "(N * list pydp * bytes)")


def ev_coq(e):
    return "EvInvalid" if e is None else "(EvLine %s)" % cbytes(bytes.fromhex(e))


def to_coq(case, obs):
    stream = b"".join(bytes.fromhex(s.get("b", "")) for s in case["script"])
    floats = clist([ctuple(cbytes(bytes.fromhex(p)), copt(cN(int(o["bits"])) if o["ok"] else None, "N"))
                    for p, o in zip(case["probes"], obs["probes"])], "(bytes * option N)")
    evs = clist([ev_coq(e.get("l")) for e in obs["events"]], "ev")
    spec = None
    if case["spec"] is not None:
        spec = ctuple(clist([ev_coq(e) for e in case["spec"]["events"]], "ev"), cbool(case["spec"]["err"]))
    return ("{| p_stream := %s; p_floats := %s; p_events := %s; p_err := %s; p_spec := %s; p_prefix := %s; p_py := %s; p_reprs := %s |}"
            % (cbytes(stream), floats, evs, cbool(obs["err"]), copt(spec, "(list ev * bool)"),
               clist([ev_coq(e) for e in case["prefix"]], "ev"), pymodel_coq(case), reprs_coq(case)))


def nontrivial_key(case, obs):
    if len(case["script"]) > 1:
        return json.dumps(case["script"])[:20000]
    return None


def sample(case, obs):
    return {"reads": [len(s.get("b", "")) // 2 for s in case["script"][:8]], "corrupt": case["corrupt"], "feat": case["feat"],
            "events": [(bytes.fromhex(e["l"]).decode("latin-1")[:50] if "l" in e else "INVALID") for e in obs["events"][:5]], "err": obs["err"],
            "errtext": obs.get("errtext", "")[:80]}


def distribution(cases):
    import collections
    d = collections.Counter()
    for c in cases:
        d["mode=" + c["mode"]] += 1
        d["corrupt=" + str(c["corrupt"])] += 1
        for f in c["frames"]:
            d["proto=%d%s" % (f["proto"], "-py2" if f["py2"] else "")] += 1
            d["items"] += len(f["items"])
        for f in c["feat"]:
            d["feat=" + f] += 1
    return dict(d)


def coverage_extra(cases, obss):
    import collections
    d = collections.Counter()
    for c, o in zip(cases, obss):
        d["lines"] += sum(1 for e in o["events"] if "l" in e)
        d["invalid_items"] += sum(1 for e in o["events"] if "inv" in e)
        d["connections_ended_with_error"] += int(o["err"])
    return {"observed": dict(d)}


def signature(case, obs, code, err):
    if err:
        return "C13:harness-error:" + err[:60]
    k = case.get("known_spec")
    if code == 2 and k is not None and obs is not None and k["err"] == obs["err"] and \
            k["events"] == [e.get("l") for e in obs["events"]]:
        return "C13:known:" + case["feat"][0]          # exactly the recorded defect, nothing else
    return "C13:code%d:%s" % (code, "+".join(case["feat"]) or (case["corrupt"] or "wellformed"))


def shrink(case):
    return []


MANIFEST = {
    "text": "Theorems (Props/C13.v): decoding (og-rek machine model) what CPython's pickler writes in protocols 0, 1, 2, 3 and 4 (Gallina models "
            "of the pickler per protocol, compared byte for byte with pickle.dumps on every run) gives back the datapoints, and a connection of any "
            "number of such frames, protocols 1-4 mixed, hands on exactly the equivalent plain-text lines in order (induction over items and "
            "frames; protocol 0 per frame, given that ParseFloat(repr(x)) = x for the two float oracles); in protocols 2/3/4 also every non-negative "
            "integer beyond int32 up to 2^1015 (LONG1: C13_decode_what_python_encodes_long[_protocol4], C13_frames_become_lines_long[_mixed_protocols]); per-item conversion and invalid-item "
            "counting. Tie: real input.NewPickle(d).Handle behind a scripted reader, fed CPython pickles of protocols 0-4, Python-2 style "
            "pickles, corrupted frames, every segmentation; expected lines computed from the Python-level data.",
    "note": "partial: str fields, longs in protocols 0/1, negative integers (recorded finding for int32; negative longs differential only), non-ASCII names in protocol 0 (recorded finding), shared objects, "
            "multi-frame protocol-4 pickles and segmentation are covered by the differential run against the VM model and the Python-level "
            "expectation, not by the round-trip theorems (non-negative int32 and float fields, names below 2^31 bytes; protocol 0: names of "
            "verbatim ASCII). bufio and og-rek are library code modelled in Model/PickleVM.v. Four library-level defects are recorded as known "
            "findings. Trusted: Coq kernel+VM; for protocol 0 the premise pf (frepr b) = Some b about CPython's repr and Go's ParseFloat.",
}
