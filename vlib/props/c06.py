import json

from ..coqterm import *

ID = "C06"
RUNNER = "C06"
COQ_IMPORTS = "Model.Relay Check.C06check"
CASE_TYPE = "c06_case"
VERDICT = "c06_verdict"
EXPECTED = None
SHARD = 6
CONFIRM = True          # wall-clock bounds: a failure must repeat when the case is run again on its own
BOUND_US = 500000       # 0.5 s for one Route.Dispatch; the unchanged tree stays below ~10 ms
RULE = ("one case = a real carbon route (sendAllMatch / sendFirstMatch / consistentHashing) with real destinations against loopback endpoints: "
        "healthy, slow reader, absent (connection refused; also coming up later), black hole (accepts, never reads; 20 MB of traffic against 4 KB receive buffers), "
        "closing between phases (up / down / up again; also with a 2.5 s reconnect period) and closing under traffic, a healthy sibling next to a black-holed destination, a black-holed destination re-pointed "
        "to a healthy endpoint while its writer is stuck (modDest addr=), and a spooling "
        "destination whose 16 MB backlog from an outage is replayed into an endpoint that came back but never reads, with live traffic on top; "
        "connbuf 1..1000, iobuf 100..65536, 2k-20k lines per phase in bursts or paced. Measured: the slowest Route.Dispatch call, per steady phase "
        "handed = received + slow_conn (up) or = conn_down_no_spool (down), and the relay loop's own event marks (build tag verif), which are "
        "replayed through Model/Relay.v. non-trivial & distinct = distinct (scenario, sizes) with at least one drop or one outage")
ASSUMPTIONS = ["what a live conn does with a queued line (write, flush) is C05's model; TCP/loopback and the Go scheduler are the runtime",
               "the time bound itself (0.5 s per Dispatch call) is measured, not proved: the theorem is that the hand-off branch contains no waiting operation"]
TRUSTED = ["hook: destination.verifPoint event marks in relay() (build tag verif, no-op otherwise)", "loopback TCP endpoints of the harness"]


def gen(rng, tier):
    cases = []
    k = 1 if tier == "quick" else 6
    for _ in range(k):
        for scen, n, size in [("healthy", 5000, 60), ("slow_reader", 4000, 60), ("absent", 3000, 60), ("absent_then_up", 2000, 60), ("blackhole", 20000, 1000),
                              ("close_midstream", 2000, 60), ("close_under_traffic", 20000, 60), ("two_dests", 20000, 1000),
                              ("spool_backlog_blackhole", 2000, 8000)]:
            for route in (["sendAllMatch"] if tier == "quick" and scen not in ("healthy", "close_midstream") else
                          ["sendAllMatch", "sendFirstMatch", "consistentHashing"]):
                cases.append({"scenario": scen, "route": route, "connbuf": rng.choice([1, 10, 100, 1000]), "iobuf": rng.choice([100, 4096, 65536]),
                              "n": n if rng.random() < .7 or scen == "spool_backlog_blackhole" else n // 2, "size": size,
                              "pace": rng.choice([0, 0, 50]) if scen != "close_under_traffic" else 50})
        # the endpoint closes mid-stream while the reconnect period is long (the relay must notice the dead connection at once,
        # not at the next reconnect tick: every line handed off in between is counted conn_down_no_spool)
        cases.append({"scenario": "repoint_blackholed", "route": rng.choice(["sendAllMatch", "sendFirstMatch"]), "connbuf": rng.choice([10, 1000]),
                      "iobuf": rng.choice([4096, 65536]), "n": 20000, "size": 1000, "pace": 0})
        # the admin re-points a destination to an endpoint whose TCP handshake hangs: only the update call may wait for the connect
        cases.append({"scenario": "repoint_hung", "route": rng.choice(["sendAllMatch", "sendFirstMatch"]), "connbuf": 1000, "iobuf": 65536,
                      "n": 1000, "size": 60, "pace": rng.choice([0, 50])})
        cases.append({"scenario": "close_then_traffic", "route": "sendAllMatch", "connbuf": rng.choice([100, 1000, 30000]), "iobuf": 65536,
                      "n": 1000, "size": 60, "pace": rng.choice([0, 50]), "reconn_ms": 2500})
    return cases


KIND = {"up": "PUp", "down": "PDown", "transition": "PTransition"}


def to_coq(case, obs):
    dests = clist(["{| d_spool := %s; d_log := %s; d_slow := %s; d_noconn := %s; d_slowspool := %s |}"
                   % (cbool(d["spool"]), cbytes(bytes.fromhex(d["log"])), cN(d["slow"]), cN(d["noconn"]), cN(d["slowspool"])) for d in obs["dests"]],
                  "c06_dest")
    phases = clist(["{| ph_kind := %s; ph_handed := %s; ph_recv := %s; ph_slow := %s; ph_noconn := %s |}"
                    % (KIND[p["kind"]], cN(p["handed"]), cN(max(0, p["recv"])), cN(p["slow"]), cN(p["noconn"])) for p in obs["phases"]], "c06_phase")
    return "{| k_dests := %s; k_phases := %s; k_max_us := %s; k_bound_us := %s |}" % (dests, phases, cN(obs["max_dispatch_us"]), cN(BOUND_US))


def nontrivial_key(case, obs):
    if any(p["slow"] or p["noconn"] for p in obs["phases"]):
        return json.dumps([case["scenario"], case["route"], case["connbuf"], case["iobuf"], case["n"], case["pace"]])
    return None


def sample(case, obs):
    return {"case": case, "phases": obs["phases"], "max_dispatch_us": obs["max_dispatch_us"],
            "events_marked": [len(d["log"]) // 2 for d in obs["dests"]]}


def distribution(cases):
    import collections
    d = collections.Counter()
    for c in cases:
        d["scenario=" + c["scenario"]] += 1
        d["route=" + c["route"]] += 1
        d["lines_per_phase"] += c["n"]
    return dict(d)


def coverage_extra(cases, obss):
    return {"observed": {"slowest_dispatch_us": max([o["max_dispatch_us"] for o in obss] or [0]),
                         "relay_events_replayed": sum(len(d["log"]) // 2 for o in obss for d in o["dests"]),
                         "lines_dropped_slow": sum(p["slow"] for o in obss for p in o["phases"]),
                         "lines_dropped_noconn": sum(p["noconn"] for o in obss for p in o["phases"])}}


def signature(case, obs, code, err):
    if err:
        return "C06:harness-error:" + case["scenario"] + ":" + err[:50]
    if obs["max_dispatch_us"] > BOUND_US:
        return "C06:dispatch-stalled:" + case["scenario"]
    return "C06:code%d:%s" % (code, case["scenario"])


MANIFEST = {
    "text": "Theorems (Props/C06.v) over a transcription of relay()'s select loop: in every reachable state a line offered on dest.In is taken by a "
            "branch that contains no waiting operation (only flush/shutdown requests call into the conn); conservation for every event sequence; "
            "handed = queued + slow_conn while the conn is up and = conn_down_no_spool while it is down (spool off), by induction over events. "
            "Tie: the real loop's event marks replayed through the model + final counters; live routes against absent / black-holing / slow / "
            "healthy / closing endpoints with measured Dispatch latency and per-phase accounting.",
    "note": "partial: boundedness in wall-clock time is a runtime fact (measured, 0.5 s bound); the model proves the absence of waiting operations "
            "in the hand-off branch and the accounting identities. Trusted: Coq kernel+VM, the event-mark hook.",
}
