from ..coqterm import *

ID = "C17"
RUNNER = "C17"
COQ_IMPORTS = "Model.GrafanaNet Check.C17check"
CASE_TYPE = "c17_case"
VERDICT = "c17_verdict"
EXPECTED = None
SHARD = 10
CONFIRM = True
HARNESS_ENV = {"VERIF_CASE_TIMEOUT_S": "30"}
RULE = ("cases = a real grafanaNet route (route.NewGrafanaNet) against a local HTTP server that answers each POST to /metrics from a scripted fault "
        "sequence (2xx, 400, 500, hang past the client timeout, connection reset, a 503 or a 200 whose announced body is cut off) and decodes every body (snappy + msgpack MetricDataArray); "
        "concurrency 1-4, flushMaxNum 1-50, flushMaxWait 5-50 ms, buffer sizes from tiny to ample, blocking on/off, 20-200 lines over 1-12 "
        "series with unique values; half of the runs end with Shutdown (8 s deadline). The acceptor gn_ok decides: Shutdown returned; acknowledged "
        "points = sent minus the counted drops, none invented or repeated; per series in receive order; a body never mixes shards "
        "(FNV-1a-32 of the name mod concurrency); a failed body is posted again unchanged before anything else of its shard. "
        "non-trivial & distinct = distinct cases with at least one failed POST or one drop")
ASSUMPTIONS = ["fairness: the scripted fault sequences end (after them every POST is acknowledged)",
               "timing (flushMaxWait, backoff sleeps) is not modelled: batch boundaries are not compared"]
TRUSTED = ["oracle: net/http, snappy, msgp (metrictank schema), hash/fnv"]

SERIES = ["a.b", "c.d", "e", "web.cpu", "web.mem", "db1.q", "x.y.z", "s1", "s2", "s3", "host.load", "k"]


def gen(rng, tier):
    n = 24 if tier == "quick" else 240
    cases = []
    # backlog batches: few series, large batches, the first POSTs fail so that every batch holds many points of each series
    for k in range(3 if tier == "quick" else 24):
        names = rng.sample(SERIES, rng.choice([2, 3, 5, 7]))
        lines, ts = [], {}
        for i in range(rng.choice([60, 150, 300])):
            nm = names[i % len(names)] if k % 2 == 0 else rng.choice(names)
            ts[nm] = ts.get(nm, 1000) + 10
            lines.append("%s %d %d" % (nm, 7000000 + k * 100000 + i, ts[nm]))
        cases.append({"concurrency": rng.choice([1, 1, 2]), "bufsize": 1000, "flushmaxnum": rng.choice([14, 50, 150]), "flushmaxwait_ms": 50,
                      "blocking": True, "faults": [rng.choice(["500", "reset", "503trunc"]) for _ in range(rng.choice([1, 2]))], "lines": lines,
                      "pause_every": 0, "shutdown": True})
    # tagged series sent with their tags in varying order (the series is the name plus the SET of tags), workers delayed by failures
    for k in range(2 if tier == "quick" else 16):
        base = rng.sample(["t.s", "web.cpu", "x.y", "db.q"], rng.choice([1, 2]))
        tagsets = [["a=1", "b=2"], ["dc=us", "host=h1", "env=p"], ["k=v", "z=q"]]
        lines, ts = [], {}
        for i in range(rng.choice([40, 80])):
            nm, tg = rng.choice(base), list(rng.choice(tagsets))
            rng.shuffle(tg)
            key = nm + ";" + ";".join(sorted(tg))
            ts[key] = ts.get(key, 1000) + 10
            lines.append("%s;%s %d %d" % (nm, ";".join(tg), 8000000 + k * 100000 + i, ts[key]))
        cases.append({"concurrency": rng.choice([3, 5, 7]), "bufsize": 1000, "flushmaxnum": rng.choice([3, 5]), "flushmaxwait_ms": 20, "blocking": True,
                      "faults": [rng.choice(["hang", "500", "ok"]) for _ in range(4)], "lines": lines, "pause_every": 1, "shutdown": True})
    # Shutdown while hand-overs are still waiting on the full buffer of a stalled worker (blocking mode): every call that returns
    # was accepted, so its point must be acknowledged before Shutdown returns.  One series per line: the hand-overs are concurrent.
    for k in range(3 if tier == "quick" else 20):
        conc = rng.choice([1, 1, 2])
        buf = rng.choice([2, 4, 8]) * conc
        fmn = rng.choice([1, 2, 3])
        nl = conc * fmn + buf + rng.choice([3, 6, 12])
        lines = ["blk%d.s%d %d %d" % (k, i, 9000000 + k * 1000 + i, 2000 + i) for i in range(nl)]
        cases.append({"concurrency": conc, "bufsize": buf, "flushmaxnum": fmn, "flushmaxwait_ms": 50, "blocking": True,
                      "faults": ["hang", "hang", rng.choice(["hang", "500", "ok"])], "lines": lines, "pause_every": 0, "shutdown": True,
                      "shutdown_while_blocked": True})
    for k in range(n):
        conc = rng.choice([1, 1, 2, 3, 4])
        blocking = rng.random() < .3
        nl = rng.randrange(20, 200)
        names = rng.sample(SERIES, rng.randrange(1, len(SERIES)))
        lines, ts = [], {}
        for i in range(nl):
            nm = rng.choice(names)
            ts[nm] = ts.get(nm, 1000) + 10
            lines.append("%s %d %d" % (nm, k * 100000 + i, ts[nm]))
        faults = [rng.choice(["ok", "ok", "500", "400", "reset", "hang", "503trunc", "200trunc"]) for _ in range(rng.choice([0, 3, 8, 15]))]
        if sum(1 for f in faults if f == "hang") > 3:
            faults = [f if f != "hang" else "500" for f in faults]
        cases.append({"concurrency": conc, "bufsize": rng.choice([conc, 2 * conc, 10 * conc, 1000]) if not blocking else rng.choice([2 * conc, 1000]),
                      "flushmaxnum": rng.choice([1, 2, 5, 20, 50]), "flushmaxwait_ms": rng.choice([5, 20, 50]), "blocking": blocking,
                      "faults": faults, "lines": lines, "pause_every": rng.choice([0, 1, 5, 20]), "shutdown": k % 2 == 0})
    return cases


def canon(name):
    """the series a line belongs to: its name plus its tags, sorted (what the metric record carries)"""
    if ";" not in name:
        return name
    parts = name.split(";")
    return ";".join([parts[0]] + sorted(parts[1:]))


def pt(p):
    return ctuple(ctuple(cbytes(canon(p[0])), cbytes(p[1])), cbytes(p[2]))


def to_coq(case, obs):
    sent = clist([pt(l.split(" ")) for l in case["lines"]], "point")
    posts = clist([ctuple(clist([pt(p) for p in (po["points"] or [])], "point"), cbool(po["outcome"] in ("ok", "200trunc"))) for po in (obs["posts"] or [])],
                  "(list point * bool)")
    return ("{| g_conc := %s; g_sent := %s; g_drops := %s; g_posts := %s; g_shutdown := %s; g_returned := %s |}"
            % (cN(case["concurrency"]), sent, cnat(obs["drops"]), posts, cbool(case["shutdown"]), cbool(obs["shutdown_returned"])))


def nontrivial_key(case, obs):
    import json
    if obs["drops"] or any(p["outcome"] not in ("ok", "200trunc") for p in (obs["posts"] or [])):
        return json.dumps([case["concurrency"], case["faults"], case["lines"][:3], len(case["lines"])])
    return None


def sample(case, obs):
    return {"concurrency": case["concurrency"], "flushMaxNum": case["flushmaxnum"], "bufSize": case["bufsize"], "blocking": case["blocking"],
            "faults": case["faults"][:8], "lines": len(case["lines"]), "posts": [(len(p["points"] or []), p["outcome"]) for p in (obs["posts"] or [])[:10]],
            "drops": obs["drops"], "shutdown": case["shutdown"], "shutdown_returned": obs["shutdown_returned"], "max_dispatch_ms": obs["max_dispatch_ms"]}


def coverage_extra(cases, obs):
    return {"posts_observed": sum(len(o["posts"] or []) for o in obs), "failed_posts": sum(1 for o in obs for p in (o["posts"] or []) if p["outcome"] not in ("ok", "200trunc")),
            "lines_dropped_and_counted": sum(o["drops"] for o in obs), "max_dispatch_ms": max([o["max_dispatch_ms"] for o in obs] or [0])}


def distribution(cases):
    import collections
    d = collections.Counter()
    for c in cases:
        d["concurrency=%d" % c["concurrency"]] += 1
        d["blocking=%s" % c["blocking"]] += 1
        d["shutdown=%s" % c["shutdown"]] += 1
        for f in c["faults"]:
            d["fault=" + f] += 1
    return dict(d)


def signature(case, obs, code, err):
    if err:
        return "C17:harness-error:" + err[:60]
    if case["shutdown"] and not obs["shutdown_returned"]:
        return "C17:shutdown-does-not-return"
    return "C17:acknowledgement-discipline-violated"


MANIFEST = {
    "text": "Theorems (Props/C17.v): a flush re-posts the same body until the first 2xx and completes whenever one arrives; for every sequence of worker "
            "events and faults acknowledged++batch++queue is exactly what the shard received, in order (nothing skipped, series order kept); "
            "full buffer = counted drop (non-blocking) or wait (blocking); shutdown makes every worker drain its queue, flush and report done; "
            "the worker of a series does not depend on the order its tags are listed in (as repaired, 5b94d75). "
            "Tie: a real grafanaNet route against a scripted HTTP server, decoded bodies judged by the acceptor gn_ok.",
    "note": "Partial: eventual acknowledgement needs the fairness hypothesis that a 2xx eventually comes; timing (flushMaxWait, backoff) is not modelled; the live runs sample schedules. Trusted: net/http, snappy, msgp.",
}
