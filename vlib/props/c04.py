from ..coqterm import *
from .. import gen_common as G, tablecase as T
from . import c01

ID = "C04"
RUNNER = "TABLE"
COQ_IMPORTS = T.COQ_IMPORTS
CASE_TYPE = T.CASE_TYPE
VERDICT = T.VERDICT
EXPECTED = None
SHARD = 40
MASK = T.MASK_COUNTERS | T.MASK_ROUTES | T.MASK_LINES
RULE = ("cases = real table with 0-4 rewriters (literal rules with every max, /regex/ rules with ${n}, $n, $$ templates, substring and /regex/ "
        "not-clauses), 1-3 capture routes and, in half of the cases, a real aggregation whose inbox is kept from draining until all lines "
        "were dispatched; lines with tabs / runs of spaces and numeric spellings 1e3, 0x1p-2, +5; the input buffer is overwritten and reused "
        "after every Dispatch (as Plain.Handle reuses scanner.Bytes()). Observed: the text every route received (copied at call time and "
        "re-read at the end), the series names the stalled aggregation finally emits. non-trivial & distinct = distinct (rewriters, line) pairs "
        "where some rewriter changed the name or the layout was not single spaces")
ASSUMPTIONS = ["Go regexp (FindSubmatchIndex/ReplaceAll/Expand) = Lib/Regex.v on the generated subset (unambiguous capture shapes, ASCII)",
               "isolation across goroutines is exhibited by the harness (buffer overwrite + stalled aggregator), not proved: the theorems are about line content"]
TRUSTED = ["oracle: Go regexp, bytes.Replace, bytes.Fields, bytes.Join"]

TEMPLATES = ["${1}", "$1", "x${1}y", "$$", "${1}_${2}", "$2.$1", "new", "", "$1abc", "${1}abc", "a$", "$x", "${", "${2}"]


def gen_rw_regex(rng):
    """capturing regexes in unambiguous shapes"""
    word = ('plus', True, ('cls', False, [(97, 122), (48, 57)]))
    shapes = [
        ('cat', ('grp', 1, word), ('chr', 46)),
        ('cat', ('cat', ('bol',), ('grp', 1, word)), ('cat', ('chr', 46), ('grp', 2, word))),
        ('grp', 1, ('alt', G.lit("foo"), G.lit("bar"))),
        ('cat', ('chr', 46), ('grp', 1, ('plus', True, ('cls', True, [(46, 46)])))),
        ('star', True, ('chr', ord('x'))),
        ('cat', G.lit(rng.choice(G.TOK)), ('opt', True, ('grp', 1, ('chr', 46)))),
        ('cat', ('grp', 1, ('cls', False, [(97, 122)])), ('eol',)),
        ('grp', 1, ('rep', True, 1, 2, ('cls', False, [(48, 57)]))),
    ]
    return G.renumber(rng.choice(shapes))


def gen_rewriter(rng):
    r = {"old": "", "new": "", "not": "", "max": -1, "old_ast": None, "not_ast": None}
    if rng.random() < .45:
        a = gen_rw_regex(rng)
        r["old"], r["old_ast"] = "/" + G.pr(a) + "/", a
        r["new"] = rng.choice(TEMPLATES)
    elif rng.random() < .3:
        # self-overlapping literals over a tiny alphabet: the replacement (or its tail plus what follows) can look like the
        # searched text again, in names with runs of the same character
        ab = rng.choice(["._", ".a", "ab", "-_"])
        n = rng.choice([1, 2, 2, 3])
        r["old"] = "".join(rng.choice(ab) for _ in range(n))
        r["new"] = "".join(rng.choice(ab) for _ in range(rng.choice([n, n, n + 1, max(0, n - 1)])))
        r["max"] = rng.choice([-1, -1, 1, 2, 3])
        r["runs"] = ab
    else:
        r["old"] = rng.choice(G.TOK + [".", "o", "a.", ".."])
        r["new"] = rng.choice(G.TOK + ["", "_", "long.replacement", r["old"] + r["old"]])
        r["max"] = rng.choice([-1, -1, 0, 1, 1, 2, 3])
    k = rng.random()
    if k < .2:
        r["not"] = rng.choice(G.TOK)
    elif k < .3:
        a = G.renumber(G.gen_re(rng, 1))
        r["not"], r["not_ast"] = "/" + G.pr(a) + "/", a
    elif k < .33:
        r["not"] = "/"          # a lone slash is a substring, not a regex
    return r


def gen(rng, tier):
    n = 70 if tier == "quick" else 700
    cases = []
    star_all = ('grp', 1, ('star', True, ('any',)))
    for k in range(n):
        stall = rng.random() < .5
        c = {"ll": rng.choice(["none", "medium"]), "lm": "none", "order": False, "blacklist": [], "aggs": [], "events": [],
             "rewriters": [gen_rewriter(rng) for _ in range(rng.choice([0, 1, 1, 2, 2, 3, 4]))],
             "routes": [{"kind": "capture", "m": G.gen_matcher(rng, p_any=.6, p_regex=0), "dests": []} for _ in range(rng.choice([1, 2, 3]))],
             "reuse": True, "stall_aggs": stall}
        if stall:
            c["aggs"].append({"m": {"prefix": "", "notPrefix": "", "sub": "", "notSub": "", "regex": "(.*)", "regex_ast": star_all, "notRegex": ""},
                              "fun": "sum", "outfmt": "out.$1", "cache": rng.random() < .5, "interval": 10, "wait": 100, "dropraw": False})
        ts = 200000
        if stall:
            # warm-up point: its bucket is what the aggregator blocks on
            c["events"].append({"t": "line", "b": ("%s 1 1000" % G.gen_name(rng)).encode().hex()})
        for _ in range(rng.randrange(6, 14)):
            name = G.gen_name(rng)
            for rw in c["rewriters"]:
                if rng.random() < .3 and not rw["old"].startswith("/"):
                    name = name + "." + rw["old"] + rng.choice(["", rw["old"], "." + rw["old"]])
            runs = [rw["runs"] for rw in c["rewriters"] if rw.get("runs")]
            if runs and rng.random() < .6:
                ab = rng.choice(runs)
                name = name + "".join(rng.choice([ab[0] * rng.randrange(2, 6), ab[1], ab[0] + ab[1]]) for _ in range(rng.randrange(1, 4))) + "z"
            elif rng.random() < .7:
                name = name.replace("..", ".").strip(".")
            name = name or "n"
            ts += rng.randrange(1, 30)
            sp = lambda: rng.choice([" ", " ", "  ", "\t", " \t", "   "])
            line = (rng.choice(["", "", " "]) + name + sp() + rng.choice(["1", "1e3", "0x1p-2", "+5", "2.50", "-0.0", "1E+2", ".5"]) + sp()
                    + rng.choice([str(ts), str(ts), "%d.0" % ts, "%de0" % ts]) + rng.choice(["", "", " "]))
            c["events"].append({"t": "line", "b": line.encode().hex()})
        cases.append(c)
    return cases


def to_coq(case, obs):
    return T.case_coq(case, obs, MASK)


def discard(case, obs):
    return bool(obs.get("rejected"))


def nontrivial_key(case, obs):
    import json
    changed = False
    for ev, o in zip(case["events"], obs.get("events") or []):
        line = bytes.fromhex(ev["b"]).decode()
        toks = line.split()
        for _, l in o.get("routes") or []:
            if bytes.fromhex(l).decode() != line:
                changed = True
    return json.dumps([case["rewriters"], case["events"]], sort_keys=True, default=str) if changed else None


def sample(case, obs):
    return {"rewriters": [{k: r[k] for k in ("old", "new", "not", "max")} for r in case["rewriters"]],
            "line": bytes.fromhex(case["events"][0]["b"]).decode(), "delivered": [bytes.fromhex(l).decode() for _, l in (obs["events"][0].get("routes") or [])],
            "stalled_aggregator_series": [bytes.fromhex(k).decode() for k in (obs.get("agg_keys") or [])][:4]}


def distribution(cases):
    import collections
    d = collections.Counter()
    for c in cases:
        d["rewriters=%d" % len(c["rewriters"])] += 1
        d["stall_aggs=%s" % c["stall_aggs"]] += 1
        for r in c["rewriters"]:
            d["regex-rule" if r["old"].startswith("/") and len(r["old"]) > 1 else "literal-rule max=%d" % r["max"]] += 1
            if r["not"]:
                d["not-clause"] += 1
    return dict(d)


def signature(case, obs, code, err):
    if err:
        return "C04:harness-error:" + err[:60]
    if obs.get("mutated"):
        return "C04:delivered-buffer-altered"
    return "C04:delivered-line-differs"


def shrink(case):
    evs = case["events"]
    if len(evs) > 1:
        for i in range(len(evs)):
            yield dict(case, events=[evs[i]])
    for key in ("rewriters", "routes"):
        if len(case[key]) > (1 if key == "routes" else 0):
            for i in range(len(case[key])):
                yield dict(case, **{key: case[key][:i] + case[key][i + 1:]})


MANIFEST = {
    "text": "Theorems (Props/C04.v): every route and destination receives exactly rewrite_all(name) + ' ' + value + ' ' + timestamp with the value and "
            "timestamp tokens byte-identical to the input's (never re-formatted), all recipients the same text; tokens contain no space; rewriters "
            "compose in order; not-clause skips; literal max rules. Tie: real table, capture routes, buffer reuse after every hand-off, stalled real "
            "aggregator; delivered text compared byte for byte with the model (regex ReplaceAll/Expand transcribed in Lib/Regex.v).",
    "note": "Partial for isolation: retention/aliasing across goroutines is exhibited by the harness (overwrite + stalled aggregator + re-read at the end), the theorems cover content only. Trusted: Coq kernel+VM, Go regexp as oracle.",
}
