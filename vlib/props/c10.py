from ..coqterm import *
from .. import gen_common as G

ID = "C10"
RUNNER = "C10"
COQ_IMPORTS = "Lib.Regex Model.Matcher Model.Aggregator Check.C10check"
CASE_TYPE = "c10_case"
VERDICT = "c10_verdict"
EXPECTED = None
SHARD = 60
RULE = ("cases = one real aggregator (aggregator.NewMocked: unbuffered inbox, injected clock, harness-owned tick channel; Snapshot() is the barrier "
        "after every event) per history of 10-60 events: points on and around bucket boundaries and the now-wait boundary, out-of-order and late "
        "timestamps, several keys per bucket through capture groups, ticks exactly on / one second before a bucket's cutoff; all ten functions, "
        "cache on/off, intervals 1/10/60, waits 0/5/20/120. Observed per event: emitted lines (text), TooOld and direction=in deltas. "
        "The model runs on the kernel's binary64 floats and prints with Go's %f rule; lines of one bucket are compared as a multiset, bucket "
        "order is kept. non-trivial & distinct = distinct histories with at least one emitted bucket")
ASSUMPTIONS = ["binary64 arithmetic of the Go runtime on amd64 (no FMA contraction) = Coq's primitive floats; math.Pow(x,2) = x*x and math.Sqrt correctly rounded",
               "values never NaN / negative zero (sort.Float64s and min/max are only specified by the property for ordered values)",
               "clock hypothesis of the never-twice theorem: every now read is >= every tick value processed before it"]
TRUSTED = ["Coq kernel primitive floats (PrimFloat) and Uint63", "oracle: strconv.ParseFloat (value bits reported by the harness), fmt %f, sort.Float64s, Go regexp"]

FUNS = ["avg", "count", "delta", "derive", "last", "max", "min", "stdev", "sum", "percentiles"]
FN = {"avg": "FAvg", "count": "FCount", "delta": "FDelta", "derive": "FDerive", "last": "FLast", "max": "FMax", "min": "FMin",
      "stdev": "FStdev", "sum": "FSum", "percentiles": "FPercentiles"}
WORD = ('plus', True, ('cls', False, [(97, 122), (48, 57)]))
SHAPES = [
    (('cat', ('bol',), ('cat', G.lit("raw."), ('grp', 1, WORD))), "agg.$1"),
    (('cat', ('bol',), G.lit("raw.")), "agg.total"),
    (('cat', ('bol',), ('cat', G.lit("raw."), ('cat', ('grp', 1, WORD), ('cat', ('chr', 46), ('grp', 2, WORD))))), "agg.${2}.$1"),
    (('cat', ('grp', 1, WORD), ('cat', ('chr', 46), ('eol',))), "x$1"),
]
NAMES = ["raw.a", "raw.b", "raw.a.x", "raw.b.x", "raw.c.y", "other.z", "raw", "raw.", "xraw.a"]
VALS = ["1", "2", "0.5", "1.25", "-3", "10", "0.1", "3.3", "1e-7", "123456.789", "7", "2.5", "-0.75", "1e3", "0"]


def gen(rng, tier):
    n = 260 if tier == "quick" else 3000
    cases = []
    for k in range(n):
        ast, fmt = rng.choice(SHAPES)
        ast = G.renumber(ast)
        fun = FUNS[k % 10]
        interval = rng.choice([1, 10, 10, 60])
        wait = rng.choice([0, 5, 20, 120])
        m = {"prefix": rng.choice(["", "", "raw"]), "notPrefix": "", "sub": "", "notSub": rng.choice(["", "", "c.y"]), "regex": G.pr(ast), "regex_ast": ast, "notRegex": ""}
        a = {"m": m, "fun": fun, "outfmt": fmt, "cache": rng.random() < .5, "interval": interval, "wait": wait, "dropraw": rng.random() < .3}
        now = rng.choice([10000, 100000, 1500000000]) + rng.randrange(0, 100)
        evs = []
        last_tick = 0
        for _ in range(rng.randrange(10, 60)):
            r = rng.random()
            if r < .75:
                base = now - wait
                k2 = rng.random()
                if k2 < .3:
                    q = base - base % interval                 # the boundary bucket: quantized == now - wait or just below
                    ts = q + rng.randrange(0, interval)
                elif k2 < .5:
                    ts = base + rng.randrange(0, 2 * interval + 1)
                elif k2 < .8:
                    ts = now + rng.randrange(-interval, interval + 1)
                elif k2 < .9:
                    ts = max(0, now - wait - rng.randrange(0, 5 * interval + 5))   # late
                else:
                    ts = now + rng.randrange(0, 4 * interval)                     # ahead
                evs.append({"t": "p", "name": rng.choice(NAMES[:5]) if rng.random() < .85 else rng.choice(NAMES), "val": rng.choice(VALS),
                            "ts": max(0, ts), "now": now})
            elif r < .9:
                # tick exactly on / around a bucket's cutoff
                qs = sorted(set(e["ts"] - e["ts"] % interval for e in evs if e["t"] == "p"))
                if qs and rng.random() < .6:
                    t = rng.choice(qs) + wait + rng.choice([-1, 0, 0, 1, interval])
                    t = max(t, now)
                else:
                    t = now + rng.randrange(0, interval + 2)
                now = max(now, t)
                evs.append({"t": "tick", "now": t})
            else:
                now += rng.randrange(0, 3 * interval)
        evs.append({"t": "tick", "now": now + wait + 10 * interval})
        cases.append({"a": a, "events": evs})
    return cases


def to_coq(case, obs):
    a = case["a"]
    evs = []
    for ev, o in zip(case["events"], obs):
        ob = ctuple(ctuple(clist([cbytes(bytes.fromhex(l)) for l in o["out"]], "bytes"), cZ(o["tooold"])), cZ(o["in"]))
        if ev["t"] == "p":
            e = "EvPoint %s %s %s %s" % (cbytes(ev["name"]), cZ(int(o["bits"])), cN(ev["ts"]), cN(ev["now"]))
        else:
            e = "EvTick %s" % cN(ev["now"])
        evs.append(ctuple(e, ob))
    return ("{| ca_m := %s; ca_fun := %s; ca_outfmt := %s; ca_interval := %s; ca_wait := %s; ca_events := %s |}"
            % (G.matcher_coq(a["m"]), FN[a["fun"]], cbytes(a["outfmt"]), cN(a["interval"]), cN(a["wait"]), clist(evs, "(c10_ev * c10_obs)")))


def nontrivial_key(case, obs):
    import json
    if any(o["out"] for o in obs):
        return json.dumps([case["a"]["fun"], case["a"]["interval"], case["a"]["wait"], case["events"]])
    return None


def sample(case, obs):
    a = case["a"]
    return {"fun": a["fun"], "regex": a["m"]["regex"], "format": a["outfmt"], "interval": a["interval"], "wait": a["wait"],
            "events": case["events"][:5], "emitted": [bytes.fromhex(l).decode() for o in obs for l in o["out"]][:6]}


def distribution(cases):
    import collections
    d = collections.Counter()
    for c in cases:
        d["fun=" + c["a"]["fun"]] += 1
        d["wait=%d" % c["a"]["wait"]] += 1
        d["interval=%d" % c["a"]["interval"]] += 1
        d["points"] += sum(1 for e in c["events"] if e["t"] == "p")
        d["ticks"] += sum(1 for e in c["events"] if e["t"] == "tick")
    return dict(d)


def signature(case, obs, code, err):
    if err:
        return "C10:harness-error:" + err[:60]
    return "C10:aggregation-output-differs"


def shrink(case):
    evs = case["events"]
    for i in range(len(evs)):
        if len(evs) > 1:
            yield dict(case, events=evs[:i] + evs[i + 1:])


MANIFEST = {
    "text": "Theorems (Props/C10.v, float type abstract): ticks emit exactly the buckets at or before the cutoff, ascending, once, and remove them; a "
            "point contributes to exactly its (bucket, key); per-function state invariants give the emitted value as the plain fold of the "
            "contributed values; a bucket is never emitted twice under the clock hypothesis (late points are counted too old). Tie: a real "
            "aggregator with injected clock/ticks compared event by event with the model run on the kernel's binary64 floats, text-equal output.",
    "note": "Numeric results are exact binary64 by Coq's float primitives (trusted), not a theorem over reals. Trusted: Coq kernel+VM+PrimFloat; Go regexp, strconv, fmt as oracles.",
}
