from ..coqterm import *

ID = "C05"
RUNNER = "C05"
COQ_IMPORTS = "Model.BufWriter Check.C05check"
CASE_TYPE = "c05_case"
VERDICT = "c05_verdict"
EXPECTED = None
SHARD = 60
CONFIRM = True
RULE = ("writer: destination.NewWriter over a scripted io.Writer (takes all / takes k with an error / error / short write without error), "
        "capacities 1-64, writes of 0 .. 4x capacity interleaved with flushes; compared op by op (bytes taken, error, Buffered()) and the bytes "
        "the underlying writer accepted. live: a real Destination connected to a loopback endpoint, iobuf 1 B .. 4 KiB, connbuf 0 .. 200, flush "
        "periods 2-20 ms, 50-300 uniquely numbered lines of 5 B .. several x iobuf, sender pacing and endpoint read speed varied; the received "
        "byte stream and the slow_conn counter go through the acceptor stream_ok (whole lines, one newline each, hand-off order, no "
        "duplicates, exactly the counted drops missing); the same in pickle mode (names of 5 .. 300 bytes), where the received stream of "
        "length-prefixed pickles is decoded by CPython back into lines first. non-trivial & distinct = distinct writer scripts with an overflow or error, and live "
        "runs in which the buffer was smaller than some line")
ASSUMPTIONS = ["TCP delivers to the endpoint what a healthy peer wrote, in order", "the io.Writer contract (n < len(p) only with an error) for termination of Write"]
TRUSTED = ["oracle: net.TCPConn, Go scheduler"]


def gen_writer(rng):
    cap = rng.choice([1, 2, 3, 4, 8, 16, 64])
    script = []
    for _ in range(rng.randrange(0, 8)):
        r = rng.random()
        if r < .6:
            script.append({"n": None, "err": False})
        elif r < .8:
            script.append({"n": rng.randrange(0, cap + 3), "err": True})
        elif r < .9:
            script.append({"n": 0, "err": True})
        else:
            script.append({"n": rng.randrange(1, cap + 3), "err": False})      # short write without error
    ops = []
    for i in range(rng.randrange(1, 12)):
        if rng.random() < .75:
            n = rng.choice([0, 1, cap - 1, cap, cap + 1, 2 * cap, 3 * cap + 1, rng.randrange(0, 4 * cap + 2)])
            ops.append({"w": bytes((97 + (i * 7 + k) % 26) for k in range(max(0, n))).hex()})
        else:
            ops.append({})
    return {"kind": "writer", "cap": cap, "script": script, "ops": ops}


def gen_live(rng):
    iobuf = rng.choice([1, 2, 7, 16, 64, 200, 4096])
    n = rng.randrange(50, 300)
    lines = []
    for i in range(n):
        L = rng.choice([5, 12, 30, 60, iobuf + 1, 3 * iobuf + 2]) if rng.random() < .7 else rng.randrange(5, 80)
        L = min(L, 400)
        body = ("l%d " % i)
        body = body + "x" * max(0, L - len(body))
        lines.append(body.encode().hex())
    return {"kind": "live", "iobuf": iobuf, "connbuf": rng.choice([0, 1, 5, 50, 200]), "flush_ms": rng.choice([2, 5, 20]),
            "lines": lines, "pause_every": rng.choice([0, 0, 1, 10, 50]), "slow_read_us": rng.choice([0, 0, 100, 1000])}


def gen_live_pickle(rng):
    """pickle mode: one frame per line; integer values so that the line can be rebuilt from the decoded frame"""
    c = gen_live(rng)
    lines = []
    for i in range(len(c["lines"])):
        L = rng.choice([5, 30, 60, 99, 100, 101, 127, 128, 129, 300, rng.randrange(5, 200)])
        name = "p%d." % i
        name = name + "n" * max(0, L - len(name))
        lines.append(("%s %d %d" % (name, i, 1500000000 + i % 100)).encode().hex())
    c["lines"] = lines
    c["pickle"] = True
    return c


def unpickle_stream(b):
    """the plain-text stream equivalent to a stream of length-prefixed pickles; anything that is not such a stream ends in a marker
    that no acceptor takes for a line"""
    import pickle
    import struct
    out, k = b"", 0
    try:
        while k < len(b):
            if k + 4 > len(b):
                raise ValueError("torn length prefix")
            n = struct.unpack(">I", b[k:k + 4])[0]
            if n == 0 or k + 4 + n > len(b):
                raise ValueError("frame length %d at %d" % (n, k))
            (item,) = pickle.loads(b[k + 4:k + 4 + n], encoding="latin1")
            name, (ts, val) = item
            if float(val) != int(val):
                raise ValueError("value")
            out += ("%s %d %d\n" % (name, int(val), ts)).encode("latin1")
            k += 4 + n
    except Exception as e:
        out += b"<<not a sequence of length-prefixed pickles: %s>>" % str(e).encode()[:60]
    return out


def gen(rng, tier):
    nw = 600 if tier == "quick" else 6000
    nl = 24 if tier == "quick" else 200
    npk = 8 if tier == "quick" else 60
    return [gen_writer(rng) for _ in range(nw)] + [gen_live(rng) for _ in range(nl)] + [gen_live_pickle(rng) for _ in range(npk)]


def to_coq(case, obs):
    if case["kind"] == "writer":
        script = clist([ctuple(copt(None if r["n"] is None else cnat(r["n"]), "nat"), cbool(r["err"])) for r in case["script"]], "wresp")
        ops = []
        for op, o in zip(case["ops"], obs["ops"]):
            w = "WWrite %s" % cbytes(bytes.fromhex(op["w"])) if "w" in op else "WFlush"
            ops.append(ctuple(w, ctuple(ctuple(cnat(o["n"]), cbool(o["err"])), cnat(o["buffered"]))))
        return "KWriter %s %s %s %s" % (cnat(case["cap"]), script, clist(ops, "(wop * wobs)"), cbytes(bytes.fromhex(obs["emitted"])))
    received = bytes.fromhex(obs["received"])
    if case.get("pickle"):
        received = unpickle_stream(received)
    return "KLive %s %s %s" % (clist([cbytes(bytes.fromhex(l)) for l in case["lines"]], "bytes"), cbytes(received), cnat(obs["slow_conn"]))


def discard(case, obs):
    # lines counted in conn_down_no_spool were handed over before the connection was up: not a healthy-connection run
    return case["kind"] == "live" and obs.get("no_conn", 0) > 0


def nontrivial_key(case, obs):
    import json
    if case["kind"] == "writer":
        big = any("w" in o and len(o["w"]) // 2 > case["cap"] for o in case["ops"])
        return json.dumps(case) if (big or any(r["err"] for r in case["script"])) else None
    return json.dumps([case["iobuf"], case["connbuf"], case["lines"][:3], len(case["lines"])]) if case["iobuf"] < 80 else None


def sample(case, obs):
    if case["kind"] == "writer":
        return {"cap": case["cap"], "script": case["script"][:4], "ops": [len(o["w"]) // 2 if "w" in o else "flush" for o in case["ops"]], "observed": obs["ops"][:6]}
    return {"iobuf": case["iobuf"], "connbuf": case["connbuf"], "flush_ms": case["flush_ms"], "lines": len(case["lines"]),
            "received_bytes": len(obs["received"]) // 2, "slow_conn": obs["slow_conn"]}


def coverage_extra(cases, obs):
    live = [(c, o) for c, o in zip(cases, obs) if c["kind"] == "live"]
    return {"live_runs": len(live), "live_lines_sent": sum(len(c["lines"]) for c, _ in live), "live_lines_dropped_and_counted": sum(o["slow_conn"] for _, o in live)}


def distribution(cases):
    import collections
    d = collections.Counter()
    for c in cases:
        d["kind=" + c["kind"]] += 1
        if c["kind"] == "live":
            d["iobuf=%d" % c["iobuf"]] += 1
            d["connbuf=%d" % c["connbuf"]] += 1
        else:
            d["cap=%d" % c["cap"]] += 1
    return dict(d)


def signature(case, obs, code, err):
    if err:
        return "C05:harness-error:" + err[:60]
    return "C05:" + case["kind"] + ":stream-differs"


def shrink(case):
    if case["kind"] == "writer":
        ops = case["ops"]
        for i in range(len(ops)):
            if len(ops) > 1:
                yield dict(case, ops=ops[:i] + ops[i + 1:])
        for i in range(len(case["script"])):
            yield dict(case, script=case["script"][:i] + case["script"][i + 1:])


MANIFEST = {
    "text": "Theorems (Props/C05.v): the buffered writer's invariant accepted++buffered = everything reported taken, for all capacities, sizes and "
            "underlying-writer behaviours; termination of Write under the io.Writer contract; on a healthy connection any interleaving of lines "
            "and flushes yields the lines in order, once, one newline each; the bounded hand-off queue loses exactly the counted drops, order "
            "kept; length-prefixed frames parse back. Tie: the real Writer over a scripted io.Writer compared op by op; real destinations against "
            "a loopback endpoint judged by the acceptor stream_ok.",
    "note": "Partial for the live path: proved for every interleaving of the model's atomic steps; that the Go scheduler and TCP produce only those is sampled by the live runs. Trusted: Coq kernel+VM, TCP, Go runtime.",
}
