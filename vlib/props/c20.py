from ..coqterm import *

ID = "C20"
RUNNER = "C20"
COQ_IMPORTS = "Model.Config Check.C20check"
CASE_TYPE = "c20_case"
VERDICT = "c20_verdict"
EXPECTED = None
SHARD = 40
HARNESS_TIMEOUT = {"quick": 900, "thorough": 3000}
RULE = ("table: a list of entries (blacklist, rewriter, aggregation, carbon route with 1-3 destinations, grafanaNet route), each with a random "
        "subset of its documented options in random order and distinguishable values, printed either as init/admin commands (imperatives.Apply) "
        "or as TOML sections (toml.Decode + cfg.InitTable) and applied to a real table; the resulting entries are read back (Snapshot + accessors "
        "for unexported destination fields) and compared with 'documented defaults updated by the options given'. expand: readConfigFile on texts "
        "with documented variables and other '$' sequences ($1, ${1}, $$, ${, ${HOSTX} ...). non-trivial & distinct = distinct cases with at "
        "least one optional setting given and one omitted")
ASSUMPTIONS = ["the tokenizer (toki) and the TOML decoder are libraries: covered by this differential run only",
               "documented exceptions: aggregation cache defaults to true in commands and false in TOML sections; rewriter max has no default; "
               "command syntax has no 'not' for rewriters and no percentiles function"]
TRUSTED = ["oracle: toki, BurntSushi/toml, os.Hostname", "hooks: destination.VerifSettings, table.VerifConfigSlices, route.VerifDests, cmd TestVerifExpand (build tag verif)"]

MOPTS = ["prefix", "notPrefix", "sub", "notSub", "regex", "notRegex"]
DNUM = ["flush", "reconn", "connbuf", "iobuf", "spoolbuf", "spoolmaxbytesperfile", "spoolsyncevery", "spoolsyncperiod", "spoolsleep", "unspoolsleep"]
DBOOL = ["pickle", "spool"]
GNUM = ["concurrency", "bufSize", "flushMaxNum", "flushMaxWait", "timeout", "orgId", "errBackoffMin"]
GBOOL = ["sslverify", "blocking", "spool"]
_u = [0]


def uval(rng, kind):
    _u[0] += 1
    if kind == "num":
        return str(rng.randrange(2, 9000) * 7 + _u[0] % 7 + 1)
    if kind == "bool":
        return rng.choice(["true", "false"])
    if kind == "regex":
        return rng.choice(["^v%d" % _u[0], "v%d$" % _u[0], "a.*v%d" % _u[0], "^(x|y)%d\\." % _u[0]])
    return "v%d" % _u[0] + rng.choice(["", ".x", "_y", "-z"])


def gen_matcher_assigns(rng, p=.4):
    a = []
    for o in MOPTS:
        if rng.random() < p:
            a.append((o, uval(rng, "regex" if "egex" in o else "str")))
    rng.shuffle(a)
    return a


def gen_table_case(rng, via):
    entries = []      # (kind id, kind name, assigns, extra)
    cmds, toml = [], []
    top_toml = []
    # blacklist
    for _ in range(rng.choice([0, 1, 2])):
        o = rng.choice(MOPTS)
        v = uval(rng, "regex" if "egex" in o else "str")
        entries.append((1, [(o, v)]))
        cmds.append("addBlack %s %s" % (o, v))
        top_toml.append("%s %s" % (o, v))
    # rewriters
    for _ in range(rng.choice([0, 1])):
        old, new, mx = uval(rng, "str"), uval(rng, "str"), rng.choice([-1, 0, 1, 3])
        a = [("old", old), ("new", new), ("max", str(mx))]
        t = "[[rewriter]]\nold = '%s'\nnew = '%s'\nmax = %d\n" % (old, new, mx)
        if via == "toml" and rng.random() < .5:
            nt = uval(rng, "str")
            a.append(("not", nt))
            t += "not = '%s'\n" % nt
        entries.append((2, a))
        cmds.append("addRewriter %s %s %d" % (old, new, mx))
        toml.append(t)
    # aggregations
    for _ in range(rng.choice([0, 1, 2])):
        fun = rng.choice(["avg", "count", "delta", "derive", "last", "max", "min", "stdev", "sum"])
        ma = [x for x in gen_matcher_assigns(rng) if x[0] != "regex"] + [("regex", uval(rng, "regex"))]
        rng.shuffle(ma)
        fmt, interval, wait = uval(rng, "str"), rng.randrange(1, 600), rng.randrange(1, 900)
        opts = []
        if rng.random() < .5:
            opts.append(("cache", rng.choice(["true", "false"])))
        if rng.random() < .5:
            opts.append(("dropRaw", rng.choice(["true", "false"])))
        a = [("function", fun)] + ma + [("format", fmt), ("interval", str(interval)), ("wait", str(wait))] + opts
        entries.append((3 if via == "cmd" else 4, a))
        cmds.append("addAgg %s %s %s %d %d %s" % (fun, " ".join("%s=%s" % x for x in ma), fmt, interval, wait, " ".join("%s=%s" % x for x in opts)))
        subkey = lambda k: ("substr" if (k == "sub" and rng.random() < .5) else k)
        toml.append("[[aggregation]]\nfunction = '%s'\n%sformat = '%s'\ninterval = %d\nwait = %d\n%s"
                    % (fun, "".join("%s = '%s'\n" % (subkey(k), v) for k, v in ma), fmt, interval, wait,
                       "".join("%s = %s\n" % x for x in opts)))
    # carbon routes with destinations
    dest_tokens = None
    dest_entries = []
    nroutes = rng.choice([1, 1, 2])
    for ri in range(nroutes):
        rtype = rng.choice(["sendAllMatch", "sendFirstMatch", "consistentHashing"])
        key = "r%d" % rng.randrange(10 ** 6)
        ra = gen_matcher_assigns(rng, .3)
        entries.append((5, [("key", key), ("type", rtype)] + ra))
        nd = rng.choice([1, 2, 3]) if rtype != "consistentHashing" else rng.choice([2, 3])
        dstrs, toks = [], []
        for di in range(nd):
            addr = "127.0.%d.%d:%d" % (rng.randrange(1, 200), rng.randrange(1, 200), rng.randrange(1, 9))
            da = []
            if rtype != "consistentHashing":
                da += gen_matcher_assigns(rng, .2)
            for o in DNUM:
                if rng.random() < .35:
                    da.append((o, uval(rng, "num")))
            for o in DBOOL:
                if rng.random() < .4:
                    da.append((o, "false" if o == "spool" else rng.choice(["true", "false"])))   # spooling would need a writable dir: keep it off, the option still has to be honoured
            rng.shuffle(da)
            entries.append((6, [("addr", addr), ("route", key)] + da))
            dstrs.append(addr + "".join(" %s=%s" % x for x in da))
            if di:
                toks.append(("sep",))
            toks.append(("word", addr))
            for k, v in da:
                toks.append(("opt", k))
                toks.append(("num", v) if k in DNUM else ("bool", v) if k in DBOOL else ("word", v))
        if ri == 0:
            dest_tokens = toks
            dest_entries = [e for e in entries if e[0] == 6][-nd:]
        cmds.append("addRoute %s %s %s  %s" % (rtype, key, " ".join("%s=%s" % x for x in ra), "  ".join(dstrs)))
        subkey = lambda k: ("substr" if (k == "sub" and rng.random() < .5) else k)
        toml.append("[[route]]\nkey = '%s'\ntype = '%s'\n%sdestinations = [\n%s\n]\n"
                    % (key, rtype, "".join("%s = '%s'\n" % (subkey(k), v) for k, v in ra), ",\n".join("  '%s'" % d for d in dstrs)))
    # grafanaNet
    if rng.random() < .5:
        key = "g%d" % rng.randrange(10 ** 6)
        ra = gen_matcher_assigns(rng, .3)
        ga = []
        for o in GNUM:
            if rng.random() < .4:
                ga.append((o, uval(rng, "num") if o != "concurrency" else str(rng.randrange(2, 9))))
        for o in GBOOL:
            if rng.random() < .4:
                ga.append((o, rng.choice(["true", "false"])))
        if rng.random() < .3:
            ga.append(("errBackoffFactor", rng.choice(["2.5", "1.25", "3.5"])))
        rng.shuffle(ga)
        addr, apikey = "http://127.0.0.1:1/metrics", uval(rng, "str")
        entries.append((7, [("key", key), ("type", "grafanaNet"), ("addr", addr), ("apikey", apikey), ("schemasFile", "storage-schemas.conf"),
                            ("aggregationFile", "storage-aggregation.conf")] + ra + ga))
        cmds.append("addRoute grafanaNet %s %s  %s %s @DIR@/storage-schemas.conf @DIR@/storage-aggregation.conf %s"
                    % (key, " ".join("%s=%s" % x for x in ra), addr, apikey, " ".join("%s=%s" % x for x in ga)))
        toml.append("[[route]]\nkey = '%s'\ntype = 'grafanaNet'\naddr = '%s'\napikey = '%s'\nschemasFile = '@DIR@/storage-schemas.conf'\n"
                    "aggregationFile = '@DIR@/storage-aggregation.conf'\n%s%s"
                    % (key, addr, apikey, "".join("%s = '%s'\n" % x for x in ra),
                       "".join("%s = %s\n" % x for x in ga)))
    case = {"kind": "table", "via": via, "expected": [[k, a] for k, a in entries]}
    if via == "cmd":
        case["cmds"] = cmds
        case["dest_tokens"] = dest_tokens
        case["dest_expected"] = len(dest_entries)
    else:
        case["toml"] = ("blacklist = [\n%s\n]\n" % ",\n".join("  '%s'" % b for b in top_toml) if top_toml else "") + "\n".join(toml)
    return case


EXP_FRAGS = ["$HOST", "${HOST}", "$GRAFANA_NET_ADDR", "${GRAFANA_NET_API_KEY}", "${GRAFANA_NET_USER_ID}", "$1", "${1}", "${1}abc", "$$", "${",
             "$", "${}", "$HOSTX", "${HOSTX}", "$2.$1", "x", " ", "'", "\n", "stats.$1", "${name}", "$name_1", "$-", "${1", "}", "$GRAFANA_NET_ADDRx"]


def gen_expand_case(rng, n):
    texts = []
    for _ in range(n):
        texts.append("".join(rng.choice(EXP_FRAGS) for _ in range(rng.randrange(1, 8))).encode().hex())
    return {"kind": "expand", "texts": texts, "env": {"GRAFANA_NET_ADDR": "http://gn.example/metrics", "GRAFANA_NET_API_KEY": "k$1", "GRAFANA_NET_USER_ID": "42"}}


def gen(rng, tier):
    n = 120 if tier == "quick" else 1200
    cases = [gen_table_case(rng, rng.choice(["cmd", "toml"])) for _ in range(n)]
    cases.append(gen_expand_case(rng, 300 if tier == "quick" else 3000))
    return cases


KINDNAME = {1: "blacklist", 2: "rewriter", 3: "aggregation", 4: "aggregation", 5: "route", 6: "destination", 7: "route"}


def kvs_coq(pairs):
    return clist([ctuple(cbytes(k), cbytes(v)) for k, v in pairs], "kv")


def to_coq(case, obs):
    if case["kind"] == "expand":
        vars_ = [("HOST", obs["host"])] + sorted(case["env"].items())
        texts = clist([ctuple(cbytes(bytes.fromhex(t)), cbytes(bytes.fromhex(o))) for t, o in zip(case["texts"], obs["out"])], "(bytes * bytes)")
        return "KExpand %s %s" % (kvs_coq(vars_), texts)
    entries = obs.get("entries") or []
    # the observed entries come grouped by kind (blacklist, rewriters, aggregations, then routes each followed by its destinations): reorder the expected ones likewise
    exp = case["expected"]
    order = {1: 0, 2: 1, 3: 2, 4: 2}
    head = sorted([e for e in exp if e[0] in order], key=lambda e: order[e[0]])
    tail = [e for e in exp if e[0] not in order]
    exp = head + tail
    es = clist([ctuple(cN(k), kvs_coq(a)) for k, a in exp], "(N * list kv)")
    ob = clist([kvs_coq(sorted(e["kv"].items())) for e in entries], "(list kv)")
    toks, dobs = "(@None (list tok))", "(@nil (list kv))"
    if case.get("dest_tokens") and not obs.get("rejected"):
        tl = []
        for t in case["dest_tokens"]:
            if t[0] == "sep":
                tl.append("TSep")
            elif t[0] == "word":
                tl.append("TWord " + cbytes(t[1]))
            elif t[0] == "opt":
                tl.append("TOpt " + cbytes(t[1]))
            elif t[0] == "num":
                tl.append("TNum " + cN(int(t[1])))
            else:
                tl.append("TBool " + cbool(t[1] == "true"))
        toks = "(Some %s)" % clist(tl, "tok")
        dests = [e for e in entries if e["kind"] == "destination"][:case["dest_expected"]]
        dobs = clist([kvs_coq(sorted((k, v) for k, v in e["kv"].items() if k != "route")) for e in dests], "(list kv)")
    return "KTable %s %s %s %s" % (es, ob, toks, dobs)


def nontrivial_key(case, obs):
    import json
    return json.dumps(case.get("expected") or case.get("texts"))


def sample(case, obs):
    if case["kind"] == "expand":
        return {"texts": [bytes.fromhex(t).decode() for t in case["texts"][:5]], "out": [bytes.fromhex(t).decode() for t in obs["out"][:5]]}
    return {"via": case["via"], "input": (case.get("cmds") or case.get("toml"))[:3] if case["via"] == "cmd" else case["toml"][:400],
            "entries": [(e["kind"], {k: v for k, v in e["kv"].items() if v}) for e in (obs.get("entries") or [])[:3]]}


def distribution(cases):
    import collections
    d = collections.Counter()
    for c in cases:
        d["kind=%s via=%s" % (c["kind"], c.get("via"))] += 1
        for k, a in c.get("expected", []):
            d[KINDNAME[k]] += 1
    return dict(d)


def signature(case, obs, code, err):
    if err:
        return "C20:harness-error:" + err[:80]
    if case["kind"] == "expand":
        return "C20:expand:undocumented-dollar-sequence-changed"
    if obs.get("rejected"):
        return "C20:documented-configuration-rejected"
    return "C20:entry-differs-from-documentation" if code == 2 else "C20:destination-loop-differs-from-model"


def shrink(case):
    if case["kind"] == "expand":
        ts = case["texts"]
        if len(ts) > 1:
            for t in ts[:64]:
                yield dict(case, texts=[t])


MANIFEST = {
    "text": "Theorems (Props/C20.v): the destination option loop, for every set of options in every order and any number of destinations per route, "
            "yields exactly the documented defaults updated by those options, each on its own destination; interpolation leaves every text that "
            "refers to no documented variable unchanged. Tie: assignment lists printed as commands and as TOML, applied to a real table and read "
            "back, compared with the documentation's defaults tables typed into Coq; readConfigFile run on generated texts.",
    "note": "The tokenizer (toki) and the TOML decoder are trusted libraries covered only by the differential run; entry kinds other than the destination string are specified at the level of 'defaults updated by the given options' (no token-level theorem). kafkaMdm / pubsub / cloudWatch routes are not covered.",
}
