import json
import pickle
import re
import struct

from ..coqterm import *

ID = "C14"
RUNNER = "C14"
COQ_IMPORTS = "Model.Params Check.C14check"
CASE_TYPE = "c14_case"
VERDICT = "c14_verdict"
EXPECTED = None
SHARD = 4
HARNESS_TIMEOUT = {"quick": 900, "thorough": 3000}
CONFIRM = True          # a child that times out on a loaded machine must do so again when the case runs on its own
RULE = ("one sub-case = one relay in a child process (real table, admin TCP interface, plain TCP/UDP and pickle listeners, routes into a loopback "
        "sink): a TOML configuration and/or admin commands written to the admin port (grammar-generated with every numeric option at 0 / 1 / "
        "2^32 / 2^64-1 / out of range, documented examples mutated token by token, truncated and over-long commands, binary junk), then metric "
        "traffic that matches what was configured, raw byte streams for the inputs (over-long lines, NUL bytes, unterminated data, 64 KB "
        "datagrams, corrupted and hostile pickles), a wait long enough for tickers and aggregation flushes to fire; the parent records exit "
        "status and the panic message. For the modelled commands the accept/reject decision is compared with Model/Params.v. "
        "non-trivial & distinct = distinct sub-cases whose commands were (at least partly) accepted")
ASSUMPTIONS = ["crash-freedom of everything outside the modelled parameter checks (parsers, handlers, goroutines) is observed, not proved: the theorem "
               "covers the accepted-then-crash class (every parameter a later ticker, divisor or buffer depends on is checked at acceptance)"]
TRUSTED = ["child-process harness (exit status, stderr)", "the transcription of the panic sites into Model/Params.v"]

HUGE = ["4294967295", "4294967296", "9223372036854775807", "18446744073709551615", "99999999999999999999"]
WRAP = ["36028797018963968", "9223372036", "9223372037", "9223372036854775", "2147483647", "2147483648"]   # durations that wrap, int32 edge
NUMS = ["0", "1", "2", "10", "1000"] + HUGE + WRAP
NOW = 1500000000


def lines_for(prefix, n=6):
    import time
    t = int(time.time())
    return ["%s.m%d %d %d" % (prefix, i % 3, i, t - (i % 2)) for i in range(n)]


def agg_cmd(rng, interval=None, wait=None, regex=True):
    fn = rng.choice(["sum", "avg", "max", "min", "last", "count", "delta", "derive", "stdev"])
    m = []
    if regex:
        m.append("regex=^foo\\.(.*)")
    if rng.random() < .3:
        m.append("prefix=foo")
    if rng.random() < .2:
        m.append("sub=o")
    opts = []
    if rng.random() < .3:
        opts.append("cache=" + rng.choice(["true", "false"]))
    if rng.random() < .3:
        opts.append("dropRaw=" + rng.choice(["true", "false"]))
    return "addAgg %s %s agg.$1 %s %s %s" % (fn, " ".join(m), interval if interval is not None else rng.choice(["1", "2", "10"]),
                                             wait if wait is not None else rng.choice(["0", "1"]), " ".join(opts))


DEST_OPTS = ["flush", "reconn", "connbuf", "iobuf", "spoolbuf", "spoolmaxbytesperfile", "spoolsyncevery", "spoolsyncperiod", "spoolsleep", "unspoolsleep"]
GN_OPTS = ["concurrency", "bufSize", "flushMaxNum", "flushMaxWait", "timeout", "orgId", "errBackoffMin"]


def route_cmd(rng, typ=None, opts=None, ndest=1, key="r1", spool=None):
    typ = typ or rng.choice(["sendAllMatch", "sendFirstMatch", "consistentHashing"])
    if typ == "consistentHashing":
        ndest = max(ndest, 2)
    dests = []
    for i in range(ndest):
        d = "@SINK@" if i == 0 or rng.random() < .5 else "@DEAD@"
        o = dict(opts or {})
        if spool is not None:
            o["spool"] = spool
        elif rng.random() < .3:
            o["spool"] = rng.choice(["true", "false"])
        if rng.random() < .2:
            o["pickle"] = rng.choice(["true", "false"])
        dests.append(d + "".join(" %s=%s" % kv for kv in o.items()))
    return "addRoute %s %s prefix=foo  %s" % (typ, key, "  ".join(dests))


def gn_cmd(rng, opts=None, schemas="storage-schemas.conf"):
    o = "".join(" %s=%s" % kv for kv in (opts or {}).items())
    return "addRoute grafanaNet gn prefix=foo  http://@SINK@/metrics apikey @DIR@/%s @DIR@/storage-aggregation.conf%s" % (schemas, o)


EXAMPLES = [
    "addBlack prefix collectd.localhost",
    "addBlack regex ^foo\\..*\\.cpu+",
    "addRewriter old new 1",
    "addRewriter /fo(o)/ ba${1}r -1",
    "addAgg sum regex=^stats\\.timers\\.(app|proxy|static)[0-9]+\\.requests\\.(.*) stats.timers._sum_$1.requests.$2 10 20",
    "addAgg avg prefix=stats.timers. regex=^stats\\.timers\\.(app|proxy|static)[0-9]+\\.requests\\.(.*) stats.timers._avg_$1.requests.$2 5 10 dropRaw=true",
    "addRoute sendAllMatch carbon-default  @SINK@ spool=true pickle=false",
    "addRoute sendFirstMatch analytics regex=(Err/s|wait_time|logger)  @SINK@ prefix=(this|that)  @DEAD@ spool=true",
    "addRoute consistentHashing ch  @SINK@  @DEAD@",
    "addRoute grafanaNet grafanaNet  http://@SINK@/metrics your-grafana.net-api-key @DIR@/storage-schemas.conf @DIR@/storage-aggregation.conf",
    "modDest carbon-default 0 prefix=foo",
    "modRoute carbon-default prefix=bar",
    "delRoute carbon-default",
    "addDest carbon-default @SINK@",
    "view", "help",
]


def mutate_cmd(rng, cmd):
    toks = cmd.split(" ")
    k = rng.random()
    if k < .2 and len(toks) > 1:
        del toks[rng.randrange(len(toks))]
    elif k < .4:
        toks.insert(rng.randrange(len(toks) + 1), rng.choice(toks + ["", "0", "=", "regex=", "regex=(", "spool=maybe", "flush=", "##", "\"q\""]))
    elif k < .55:
        i = rng.randrange(len(toks))
        toks[i] = re.sub(r"[0-9]+", lambda m: rng.choice(NUMS + ["-1", "1.5", "1e3", ""]), toks[i]) or rng.choice(NUMS)
    elif k < .65:
        rng.shuffle(toks)
    elif k < .75:
        return cmd[:rng.randrange(1, len(cmd))]
    elif k < .85:
        return cmd + " " + " ".join(rng.choice(toks) for _ in range(rng.randrange(1, 300)))
    else:
        i = rng.randrange(len(toks))
        toks[i] = toks[i].replace("=", rng.choice(["==", " = ", "=\"", "="]))
    return " ".join(toks)


# tokens that are the shortest member (or a near miss) of every lexical class the command and config parsers distinguish
DEGEN = ["/", "//", "/x", "x/", "$", "${", "${1", "$1", "\\", "=", "(", ")", "[", "*", "-", "-1", "0", ".", ";", "'", ",", ":", "prefix=", "regex=/", "x=y", "@"]


def degenerate_cmds(rng, tier):
    """every documented command with one token (not the verb) replaced by a degenerate one"""
    out = []
    for ex in EXAMPLES:
        toks = ex.split(" ")
        for i in range(1, len(toks)):
            if toks[i] == "":
                continue
            for g in DEGEN:
                out.append(" ".join(toks[:i] + [g] + toks[i + 1:]))
    rng.shuffle(out)
    return out


def degenerate_tomls(rng, tier):
    """the TOML templates with one quoted string replaced by a degenerate token"""
    out = []
    for t in TOMLS + ['[[rewriter]]\nold = "foo"\nnew = "bar"\nnot = "baz"\nmax = -1\n', 'blacklist = ["prefix foo", "regex ^bar", "sub baz"]\n']:
        spans = [m.span(1) for m in re.finditer(r'"([^"@\n]*)"', t)]
        for (a, b) in spans:
            for g in ["/", "//", "$", "(", "", " ", "regex", "prefix"]:
                out.append(t[:a] + g + t[b:])
    rng.shuffle(out)
    if tier != "quick":
        return out
    # quick: every variant of the templates whose strings are parsed further (rewriter specs, blacklist entries), a sample of the rest
    first = [t for t in out if t.startswith("[[rewriter]]") or t.startswith("blacklist")]
    return first + [t for t in out if t not in first][:12]


def hostile_pickles(rng):
    out = []
    ok = pickle.dumps([("foo.a", (NOW, 1.5)), ("foo.b", (NOW, 2))], protocol=2)
    fr = lambda p: struct.pack(">I", len(p)) + p
    out.append(fr(ok))
    out.append(fr(b"\x80\x02]q\x00(T\x00\x00\x10\x00"))                 # BINSTRING claiming 1 MB
    out.append(fr(b"\x80\x02]q\x00(X\xff\xff\xff\x7f"))                 # BINUNICODE claiming 2 GB (read byte by byte: no allocation)
    out.append(fr(b"\x80\x02]" + b"(" * 5000 + b"."))                   # marks only
    out.append(fr(b"\x80\x02]" + b"2" * 20000 + b"."))                   # DUP storm
    out.append(fr(b"\x80\x02]q\x00h\x07."))                              # memo miss
    out.append(fr(b"\x80\x02]\x8a\xff."))                                # LONG1 with a length byte above 127
    out.append(fr(b"\x80\x02](]]]]a(ta(\x85\x86\x87."))                   # stack underflow attempts
    out.append(fr(b"\x80\x02]R."))
    out.append(fr(b"\x80\x02]cos\nsystem\n(S'x'\ntR."))                   # GLOBAL / REDUCE
    out.append(fr(b"\x80\x02]}(K\x01K\x02u."))                            # dict
    out.append(fr(b"\x80\x02]}(]K\x02u."))                                # unhashable dict key
    out.append(fr(b"(lI1\n."))
    out.append(fr(b"\x80\x02](K\x01(K\x02K\x03tt."[:-1]))
    out.append(struct.pack(">I", 600 * 1024 * 1024) + b"]")              # over the 500 MB cap
    out.append(struct.pack(">I", 100) + b"]")                            # promises more than it sends
    out.append(b"\x00\x00")
    out.append(fr(ok)[:-3])
    for _ in range(4):
        b = bytearray(fr(ok))
        for _ in range(rng.randrange(1, 6)):
            b[rng.randrange(4, len(b))] = rng.randrange(256)
        out.append(bytes(b))
    out.append(fr(bytes(rng.randrange(256) for _ in range(200))))
    # items of unexpected types
    out.append(fr(pickle.dumps([None, 5, "s", (1,), ("n", None), ("n", (None, None)), ("n", ({}, [])), (b"n", (1, 2)), ("n", (True, 2 ** 70))], protocol=2)))
    return out


def truncated_frames():
    out = []
    for proto in range(5):
        p = pickle.dumps([("foo.a", (NOW, 1.5)), ("foo.b", (NOW, 2))], protocol=proto)
        f = struct.pack(">I", len(p)) + p
        for n in list(range(0, 13)) + [len(f) // 2, len(f) - 1]:
            out.append(f[:n])
        out.append(struct.pack(">I", 64) + p[:1])          # a length prefix announcing more than is sent
        out.append(struct.pack(">I", 64) + p[:2])
    return out


def hostile_plain(rng):
    return [b"foo.a 1 2\n" * 5, b"a" * 70000 + b"\n", b"foo.a 1 2", b"\x00\x01\x02\xff\n", b"\n\n\n", b" \n", b"foo.a\t1\t2\n", b"foo.a 1\n", b"foo.a 1 2 3 4\n",
            b"foo.a nan nan\n", b"foo.a 1e999 99999999999999999999\n", b";;=;= 1 2\n", b"foo.a;t=v 1 2\n", bytes(rng.randrange(256) for _ in range(3000)),
            b"foo.a 1 2\r\n" * 3, b"foo..a 1 2\n", b".foo 1 2\n", b"foo.a -1 -1\n", b"foo.a 0x10 0x10\n"]


TOMLS = [
    'bad_metrics_max_age = "0s"\n', 'bad_metrics_max_age = "5ns"\n', 'bad_metrics_max_age = "-1h"\n', 'bad_metrics_max_age = "1ms"\n',
    '[[route]]\nkey = "cw"\ntype = "cloudWatch"\nregion = "us-east-1"\nnamespace = "x"\nflushMaxWait = -5\n',
    '[[route]]\nkey = "k"\ntype = "kafkaMdm"\nbrokers = ["@DEAD@"]\ntopic = "t"\ncodec = "snappy"\npartitionBy = "byOrg"\nschemasFile = "@DIR@/storage-schemas.conf"\nflushMaxWait = -5\n',
    '[[aggregation]]\nfunction = "sum"\nregex = "^foo"\nformat = "agg"\ninterval = 36028797018963968\nwait = 0\n',
    '[[aggregation]]\nfunction = "sum"\nregex = "^foo"\nformat = "agg"\ninterval = -1\nwait = -1\n',
    '[[route]]\nkey = "r"\ntype = "sendAllMatch"\ndestinations = ["@SINK@ connbuf=9223372036854775807"]\n',
    '[[aggregation]]\nfunction = "sum"\nprefix = "foo"\nformat = "agg.foo"\ninterval = 1\nwait = 0\n',                       # no regex
    '[[aggregation]]\nfunction = "sum"\nregex = "^foo\\\\.(.*)"\nformat = "agg.$1"\ninterval = 0\nwait = 0\n',
    '[[aggregation]]\nfunction = "avg"\nregex = "^foo\\\\.(.*)"\nformat = "agg.$1"\ninterval = 1\nwait = 1\ncache = true\ndropRaw = true\n',
    '[[aggregation]]\nfunction = "nope"\nregex = "^foo"\nformat = "x"\ninterval = 1\nwait = 1\n',
    '[[aggregation]]\nfunction = "sum"\nregex = "^foo("\nformat = "x"\ninterval = 1\nwait = 1\n',
    '[[route]]\nkey = "r"\ntype = "sendAllMatch"\ndestinations = ["@SINK@ flush=0"]\n',
    '[[route]]\nkey = "r"\ntype = "sendAllMatch"\ndestinations = ["@SINK@ reconn=0"]\n',
    '[[route]]\nkey = "r"\ntype = "sendAllMatch"\ndestinations = ["@SINK@ spool=true spoolsyncperiod=0"]\n',
    '[[route]]\nkey = "r"\ntype = "sendAllMatch"\ndestinations = ["@SINK@ iobuf=0 connbuf=0"]\n',
    '[[route]]\nkey = "r"\ntype = "consistentHashing"\ndestinations = ["@SINK@"]\n',
    '[[route]]\nkey = "r"\ntype = "consistentHashing"\ndestinations = []\n',
    '[[route]]\nkey = "r"\ntype = "sendAllMatch"\ndestinations = []\n',
    '[[route]]\nkey = "r"\ntype = "bogus"\ndestinations = ["@SINK@"]\n',
    '[[route]]\nkey = "gn"\ntype = "grafanaNet"\naddr = "http://@SINK@/metrics"\napikey = "k"\nschemasFile = "@DIR@/storage-schemas.conf"\naggregationFile = "@DIR@/storage-aggregation.conf"\nconcurrency = 0\n',
    '[[route]]\nkey = "gn"\ntype = "grafanaNet"\naddr = "http://@SINK@/metrics"\napikey = "k"\nschemasFile = "@DIR@/storage-schemas.conf"\naggregationFile = "@DIR@/storage-aggregation.conf"\nbufSize = 0\nflushMaxNum = 0\nflushMaxWait = 0\ntimeout = 0\n',
    '[[route]]\nkey = "gn"\ntype = "grafanaNet"\naddr = "http://@SINK@/metrics"\napikey = "k"\nschemasFile = "@DIR@/schemas-zero.conf"\naggregationFile = "@DIR@/storage-aggregation.conf"\n',
    '[[rewriter]]\nold = "/fo(/"\nnew = "x"\nmax = -1\n',
    '[[rewriter]]\nold = "foo"\nnew = "bar"\nmax = 0\n',
    'blacklist = ["regex ^foo(", "prefix x", "bogus y"]\n',
    'init = ["addAgg sum regex=^foo out 0 0"]\n',
    'validation_level_legacy = "bogus"\n',
    'max_procs = -5\nlisten_addr = "nonsense"\n',
]


def gen_subs(rng, tier):
    subs = []
    S = lambda **kw: dict({"toml": "", "cmds": [], "lines": [], "inputs": [], "dels": [], "wait_ms": 250}, **kw)
    # A. aggregator parameters
    for iv in NUMS:
        for w in (["0", rng.choice(["1", WRAP[0], HUGE[2]])] if tier == "quick" else ["0", "1", "5"] + HUGE[:3] + WRAP[:1]):
            subs.append(S(cmds=[agg_cmd(rng, iv, w)], lines=lines_for("foo"), wait_ms=1250 if iv in ("1", "2") else 300))
    subs.append(S(cmds=[agg_cmd(rng, "1", "0", regex=False)], lines=lines_for("foo"), wait_ms=1250))
    # aggregation traffic spread over several buckets, some due at the next flush and some not (timestamps relative to the moment of
    # sending), with several flush ticks following: flush bookkeeping across partial flushes runs on data from the network
    for fn in (["sum", "avg"] if tier == "quick" else ["sum", "avg", "max", "min", "last", "count", "delta", "derive", "stdev"]):
        subs.append(S(cmds=["addAgg %s regex=^foo\\.(.*) agg.$1 1 1" % fn],
                      lines=["foo.m%d %d @NOW%+d@" % (i % 2, i, off) for i, off in enumerate([-1, 0, 0, 1, 3, 3, 60, 600, 2, -1])], wait_ms=3400))

    # B. destination options
    for opt in DEST_OPTS:
        for v in (["0", "1", HUGE[3], HUGE[2], rng.choice(WRAP)] if tier == "quick" else NUMS):
            spool = "true" if opt.startswith("spool") or opt == "unspoolsleep" else None
            subs.append(S(cmds=[route_cmd(rng, opts={opt: v}, spool=spool)], lines=lines_for("foo", 20), wait_ms=300))
    # C. grafanaNet options
    for opt in GN_OPTS:
        for v in (["0", "1", HUGE[3], HUGE[2]] if tier == "quick" else NUMS):
            subs.append(S(cmds=[gn_cmd(rng, {opt: v})], lines=lines_for("foo", 20), wait_ms=300))
    subs.append(S(cmds=[gn_cmd(rng, {"errBackoffFactor": "0"})], lines=lines_for("foo")))
    subs.append(S(cmds=[gn_cmd(rng, schemas="schemas-zero.conf")], lines=lines_for("foo")))
    subs.append(S(cmds=[gn_cmd(rng, schemas="missing.conf")], lines=lines_for("foo")))
    for extra in ["flushMaxWait=0", "bufSize=%s" % HUGE[2], "flushMaxNum=0", "timeout=0", ""]:
        subs.append(S(cmds=["addRoute kafkaMdm k prefix=foo  @DEAD@ topic snappy @DIR@/storage-schemas.conf byOrg 1 " + extra], lines=lines_for("foo"), wait_ms=400))
        subs.append(S(cmds=["addRoute pubsub p prefix=foo  project topic " + extra], lines=lines_for("foo"), wait_ms=300))
    # D. routes with few destinations, route surgery
    subs.append(S(cmds=["addRoute consistentHashing ch prefix=foo  @SINK@  @DEAD@"], dels=[{"key": "ch", "index": 0}, {"key": "ch", "index": 0}], lines=lines_for("foo")))
    subs.append(S(cmds=["addRoute consistentHashing ch prefix=foo  @SINK@  @DEAD@", "addRoute sendAllMatch r prefix=foo  @SINK@"],
                  dels=[{"key": "ch", "index": -1}, {"key": "r", "index": 0}, {"key": "r", "index": 0}, {"key": "nokey", "index": 3}, {"key": "ch", "index": 7}],
                  lines=lines_for("foo")))
    subs.append(S(cmds=["addRoute consistentHashing ch prefix=foo  @SINK@"], lines=lines_for("foo")))
    subs.append(S(cmds=["addRoute consistentHashing ch prefix=foo  "], lines=lines_for("foo")))
    subs.append(S(cmds=["addRoute sendAllMatch r1 prefix=foo  "], lines=lines_for("foo")))
    subs.append(S(cmds=[route_cmd(rng, "consistentHashing"), "delRoute r1", "delRoute r1", "modRoute r1 prefix=x"], lines=lines_for("foo")))
    subs.append(S(cmds=[route_cmd(rng, "sendAllMatch"), "modDest r1 0 prefix=bar", "modDest r1 7 prefix=bar", "modDest r1 0 addr=@DEAD@",
                        "modDest nokey 0 prefix=x", "modRoute r1 regex=(", "modDest r1 0 regex=("], lines=lines_for("foo")))
    # E. documented examples, verbatim and mutated; junk
    subs.append(S(cmds=list(EXAMPLES), lines=lines_for("stats.timers.app1.requests") + lines_for("foo"), wait_ms=400))
    for _ in range(25 if tier == "quick" else 400):
        cmds = [mutate_cmd(rng, rng.choice(EXAMPLES)) for _ in range(rng.randrange(1, 5))]
        subs.append(S(cmds=cmds, lines=lines_for("foo") + lines_for("stats.timers.app1.requests"), wait_ms=300))
    subs.append(S(cmds=["", " ", "\x00\x01\x02", "a" * 5000, "addAgg", "addRoute", "addRoute grafanaNet", "addRoute kafkaMdm k  @DEAD@ t snappy @DIR@/storage-schemas.conf byOrg 1",
                        "addRoute pubsub p  proj topic", "addRewriter a b", "addRewriter /(/ b 1", "addBlack regex (", "addBlack bogus x"], lines=lines_for("foo")))
    # E2. degenerate tokens in every position of every documented command (40 commands per relay), and in the TOML strings
    dc = degenerate_cmds(rng, tier)
    for i in range(0, len(dc), 40):
        subs.append(S(cmds=dc[i:i + 40], lines=lines_for("foo") + lines_for("stats.timers.app1.requests"), wait_ms=300))
    for t in degenerate_tomls(rng, tier):
        subs.append(S(toml=t, lines=lines_for("foo"), wait_ms=300))
    # F. inputs
    subs.append(S(cmds=[route_cmd(rng, "sendAllMatch"), agg_cmd(rng, "1", "0")],
                  inputs=[{"kind": "pickle_tcp", "b": p.hex()} for p in hostile_pickles(rng)], wait_ms=600))
    subs.append(S(cmds=[route_cmd(rng, "sendAllMatch"), agg_cmd(rng, "1", "0")],
                  inputs=[{"kind": rng.choice(["plain_tcp", "plain_udp"]), "b": p.hex()} for p in hostile_plain(rng)], wait_ms=600))
    # F2. every short prefix of a well-formed frame of each protocol (a peer that closes, or a datagram that ends, inside the
    # length prefix, the protocol peek or the payload), over TCP and UDP
    subs.append(S(cmds=[route_cmd(rng, "sendAllMatch")],
                  inputs=[{"kind": k, "b": p.hex()} for p in truncated_frames() for k in ("pickle_tcp", "pickle_udp")], wait_ms=600))
    subs.append(S(toml='validation_level_legacy = "strict"\nvalidation_level_m20 = "strict"\nvalidate_order = true\n',
                  cmds=[route_cmd(rng, "sendFirstMatch", ndest=2)],
                  inputs=[{"kind": "plain_tcp", "b": p.hex()} for p in hostile_plain(rng)], wait_ms=400))
    # G. TOML
    for t in TOMLS:
        subs.append(S(toml=t, lines=lines_for("foo"), wait_ms=1250 if "interval = 1" in t else 300))
    return subs


PREALLOC = struct.pack(">I", 11) + b"\x80\x02]q\x00(T\xff\xff\xff\xff"       # a 15-byte frame: BINSTRING claiming 4 GB


def gen(rng, tier):
    subs = gen_subs(rng, tier)
    k = 24
    cases = [{"subs": subs[i:i + k]} for i in range(0, len(subs), k)]
    # the recorded finding, in a case of its own: under a 3 GB address-space limit the hostile frame kills the relay
    # (og-rek allocates the claimed length before reading); the same limit with ordinary traffic does not
    S = lambda **kw: dict({"toml": "", "cmds": [], "lines": [], "inputs": [], "dels": [], "wait_ms": 400}, **kw)
    ok = pickle.dumps([("foo.a", (NOW, 1.5))], protocol=2)
    cases.append({"known": "pickle-prealloc", "subs": [
        S(rlimit_kb=3000000, inputs=[{"kind": "pickle_tcp", "b": PREALLOC.hex()}]),
        S(rlimit_kb=3000000, cmds=["addRoute sendAllMatch r1 prefix=foo  @SINK@"], lines=lines_for("foo"),
          inputs=[{"kind": "pickle_tcp", "b": (struct.pack(">I", len(ok)) + ok).hex()}])]})
    return cases


# ---- what the model is told: the numeric parameters of the commands it knows ----
AGG_RE = re.compile(r"^addAgg (sum|avg|max|min|last|count|delta|derive|stdev) ((?:(?:regex|prefix|sub|notRegex|notPrefix|notSub)=\S+ )*)((?![\d.+-]*\s)[^\s=]+) (\d+) (\d+)((?: (?:cache|dropRaw)=(?:true|false))*) *$")
DEST_RE = re.compile(r"^addRoute (sendAllMatch|sendFirstMatch|consistentHashing) ((?![\d.+-]*\s)[^\s=]+) ((?:(?:regex|prefix|sub)=\S+ )*) (.+)$")   # a key with '=' is lexed as an option: not modelled


GN_RE = re.compile(r"^addRoute grafanaNet gn prefix=foo  http://@SINK@/metrics apikey @DIR@/storage-schemas\.conf @DIR@/storage-aggregation\.conf((?: (?:concurrency|bufSize|flushMaxNum|flushMaxWait|timeout|orgId|errBackoffMin)=\d+)*)$")
GN_DEFAULTS = {"concurrency": 100, "bufSize": 10000000, "flushMaxNum": 5000, "flushMaxWait": 500, "timeout": 10000, "orgId": 1, "errBackoffMin": 100}


def parse_cmd(cmd):
    """-> ('agg', has_regex, interval, wait) | ('route', type, [ {opt: int} per dest ]) | ('gn', {opt: int}) |
    None when the command is not one the model describes"""
    m = GN_RE.match(cmd)
    if m:
        o = dict(GN_DEFAULTS)
        for t in m.group(1).split():
            k, v = t.split("=")
            o[k] = int(v)
        return ("gn", o)
    m = AGG_RE.match(cmd)
    if m:
        return ("agg", "regex=" in m.group(2), int(m.group(4)), int(m.group(5)))
    m = DEST_RE.match(cmd)
    if m:
        dests = []
        for d in m.group(4).split("  "):
            toks = d.split(" ")
            if not toks or not re.match(r"^@(SINK|DEAD)@$", toks[0]):
                return None
            o = {}
            for t in toks[1:]:
                kv = t.split("=")
                if len(kv) != 2:
                    return None
                if kv[0] in DEST_OPTS:
                    if not re.match(r"^\d+$", kv[1]):
                        return None
                    o[kv[0]] = int(kv[1])
                elif kv[0] in ("spool", "pickle"):
                    if kv[1] not in ("true", "false"):
                        return None
                    o[kv[0]] = kv[1] == "true"
                else:
                    return None
            dests.append(o)
        return ("route", m.group(1), dests)
    return None


def crashed(r):
    return r["exit"] != 0 or r["timeout"] or not r.get("out") or not r["out"].get("done")


def sub_coq(sub, r):
    """one modelled command per sub-case (the parameter sweeps): the command, whether the relay accepted it, whether it survived"""
    items = []
    resp = (r.get("out") or {}).get("responses") or []
    for i, cmd in enumerate(sub["cmds"]):
        p = parse_cmd(cmd)
        if p is None:
            continue
        # an answer that did not arrive in time (loaded machine) says nothing about acceptance: the command is left out
        # of the comparison with the model (a crash of the child is judged separately)
        if i >= len(resp) or resp[i] == "":
            continue
        acc = resp[i] == "ok"
        if p[0] == "gn":
            o = p[1]
            items.append("(PGn {| g_concurrency := %s; g_bufsize := %s; g_flushmaxnum := %s; g_flushmaxwait := %s; g_timeout := %s; "
                         "g_orgid := %s; g_backoffmin := %s |}, %s)"
                         % (cZ(o["concurrency"]), cZ(o["bufSize"]), cZ(o["flushMaxNum"]), cZ(o["flushMaxWait"]), cZ(o["timeout"]), cZ(o["orgId"]),
                            cZ(o["errBackoffMin"]), cbool(acc)))
        elif p[0] == "agg":
            items.append("(PAgg %s %s %s, %s)" % (cbool(p[1]), cZ(p[2]), cZ(p[3]), cbool(acc)))
        else:
            ds = clist(["{| o_flush := %s; o_reconn := %s; o_connbuf := %s; o_iobuf := %s; o_spool := %s; o_spoolbuf := %s; o_maxbytes := %s; "
                        "o_syncevery := %s; o_syncperiod := %s; o_spoolsleep := %s; o_unspoolsleep := %s |}"
                        % (cZ(o.get("flush", 1000)), cZ(o.get("reconn", 10000)), cZ(o.get("connbuf", 30000)), cZ(o.get("iobuf", 2000000)),
                           cbool(o.get("spool", False)), cZ(o.get("spoolbuf", 10000)), cZ(o.get("spoolmaxbytesperfile", 200 * 1024 * 1024)),
                           cZ(o.get("spoolsyncevery", 10000)), cZ(o.get("spoolsyncperiod", 1000)), cZ(o.get("spoolsleep", 500)),
                           cZ(o.get("unspoolsleep", 10))) for o in p[2]], "dopts")
            items.append("(PRoute %s %s, %s)" % ({"sendAllMatch": "RAll", "sendFirstMatch": "RFirst", "consistentHashing": "RHash"}[p[1]], ds, cbool(acc)))
    return "{| u_cmds := %s; u_crashed := %s |}" % (clist(items, "(param * bool)"), cbool(crashed(r)))


def to_coq(case, obs):
    return "{| c_subs := %s |}" % clist([sub_coq(s, r) for s, r in zip(case["subs"], obs["subs"])], "c14_sub")


def nontrivial_key(case, obs):
    n = 0
    for s, r in zip(case["subs"], obs["subs"]):
        resp = (r.get("out") or {}).get("responses") or []
        if any(x == "ok" for x in resp) or (s["toml"] and not (r.get("out") or {}).get("init_rejected")):
            n += 1
    return json.dumps([s["cmds"][:2] + [s["toml"][:40]] for s in case["subs"]]) if n else None


def panic_site(r):
    s = r.get("stderr") or ""
    first = s.split("\n")[0][:120]
    m = re.search(r"\n(github\.com/grafana/carbon-relay-ng/[^\s(]+|github\.com/[^\s(]+|time\.[A-Za-z]+|runtime\.[a-z]+)[^\n]*\n\t(/[^\s]+?)(?::(\d+))", s)
    frames = re.findall(r"\n((?:github\.com|time|bytes|runtime)[^\s(]*)\(", s)
    frames = [f for f in frames if "runtime." not in f and "panic" not in f][:2]
    return first + " @ " + " < ".join(frames)


def sample(case, obs):
    out = []
    for s, r in list(zip(case["subs"], obs["subs"]))[:3]:
        out.append({"cmds": s["cmds"][:2], "toml": s["toml"][:60], "exit": r["exit"],
                    "responses": ((r.get("out") or {}).get("responses") or [])[:2], "init_rejected": (r.get("out") or {}).get("init_rejected")})
    return out


def distribution(cases):
    import collections
    d = collections.Counter()
    for c in cases:
        for s in c["subs"]:
            d["subcases"] += 1
            d["commands"] += len(s["cmds"])
            d["input_streams"] += len(s["inputs"])
            d["with_toml"] += int(bool(s["toml"]))
            for cmd in s["cmds"]:
                p = parse_cmd(cmd)
                d["modelled_commands"] += int(p is not None)
    return dict(d)


def coverage_extra(cases, obss):
    import collections
    d = collections.Counter()
    for c, o in zip(cases, obss):
        for s, r in zip(c["subs"], o["subs"]):
            resp = (r.get("out") or {}).get("responses") or []
            d["commands_accepted"] += sum(1 for x in resp if x == "ok")
            d["commands_rejected"] += sum(1 for x in resp if x != "ok")
            d["configs_rejected_at_start"] += int(bool((r.get("out") or {}).get("init_rejected")))
            d["children_crashed"] += int(crashed(r))
    return {"observed": dict(d)}


def signature(case, obs, code, err):
    if err:
        return "C14:harness-error:" + err[:60]
    if case.get("known") == "pickle-prealloc":
        r0, r1 = obs["subs"]
        if crashed(r0) and "out of memory" in (r0.get("stderr") or "") and "loadBinString" in (r0.get("stderr") or "") and not crashed(r1):
            return "C14:known:pickle-prealloc"       # exactly the recorded defect, nothing else
    for s, r in zip(case["subs"], obs["subs"]):
        if crashed(r):
            return "C14:crash:" + panic_site(r)
    return "C14:code%d" % code


def shrink(case):
    if case.get("known"):
        return
    for s in case["subs"]:
        yield {"subs": [s]}


MANIFEST = {
    "text": "Theorem (Props/C14.v): for every aggregation and every carbon route/destination parameter vector that the constructors accept, each "
            "later operation that depends on those values (AlignedTick's modulo, the three time.NewTicker calls, the buffered writer's and the "
            "channels' allocations, the hash ring's modulo) runs with a value for which it does not panic — durations computed with wrapping int64 "
            "arithmetic. Tie: a real relay in a child process per sub-case (admin TCP port, TOML config, plain/UDP/pickle listeners, routes into a "
            "loopback sink, DelDestination as the http api does it), grammar-generated / mutated / hostile commands, configurations and byte "
            "streams, then traffic and a wait for the tickers; exit status and panic message recorded; accept/reject compared with the model.",
    "note": "partial: crash-freedom over the unbounded space of byte streams and command strings is observed by the child-process runs, not proved; "
            "the theorem covers the accepted-then-crash class of the modelled parameters (aggregations, carbon destinations). grafanaNet / kafka / "
            "pubsub / cloudWatch parameter checks are exercised, not modelled. Trusted: Coq kernel+VM, the harness, the transcription of panic sites.",
}
