import json

from ..coqterm import *

ID = "C07"
RUNNER = "C07"
COQ_IMPORTS = "Model.Relay Check.C07check"
CASE_TYPE = "c07_case"
VERDICT = "c07_verdict"
EXPECTED = None
SHARD = 4
CONFIRM = True
BOUND_US = 500000
RULE = ("one case = one relay run of a real destination with spool=true against a loopback endpoint that goes down and comes back on a script: "
        "outage before the first connect, a single outage with traffic before/during/after, 2-6 repeated outages under continuous traffic, an "
        "outage while the backlog is being unspooled, outages noticed only by the next hand-off; uniquely numbered lines, paced or in bursts; "
        "keepSafe period 10 s (default) or 300 ms (so that rotation happens), connbuf 10..1000, spool files of 20 KB..1 MB (several roll-overs). "
        "At the end the endpoint stays up and the run waits for the backlog to drain. Checked: distinct lines never received <= slow_conn + "
        "slow_spool, no foreign/corrupted line, backlog 0, nothing counted as conn_down_no_spool, hand-off latency; the relay loop's event marks "
        "are replayed through Model/Relay.v (unspool gate, counters). non-trivial & distinct = distinct schedules with at least one outage under traffic")
ASSUMPTIONS = ["keepSafe forgets only what the endpoint has received (the code's 10 s retention assumption; on loopback detection is immediate)",
               "the spool's disk queue is a FIFO that loses nothing within one run (C08/C09)",
               "the conn / keepSafe / endpoint part of Model/Spooling.v is tied to the code only by the black-box acceptor, not by event marks"]
TRUSTED = ["hooks: destination.verifPoint marks, VerifSpoolBacklog, VerifSetKeepSafe (build tag verif)", "loopback TCP endpoints of the harness"]


def S(n):
    return {"op": "send", "n": n}


def gen(rng, tier):
    cases = []
    reps = 1 if tier == "quick" else 8
    for _ in range(reps):
        scheds = []
        # outage before the first connect
        scheds.append((False, [S(800), {"op": "sleep", "n": 50}, {"op": "up"}, S(800)]))
        # single outage, traffic before / during / after
        scheds.append((True, [S(1500), {"op": "down"}, S(1500), {"op": "up"}, S(1500)]))
        # outage noticed, steady down, recovery
        scheds.append((True, [S(1000), {"op": "down"}, {"op": "wait_offline"}, S(1000), {"op": "sleep", "n": 40}, {"op": "up"}, {"op": "wait_online"}, S(1000)]))
        # repeated outages under continuous traffic
        k = rng.randrange(2, 7)
        st = []
        for _ in range(k):
            st += [S(rng.randrange(300, 900)), {"op": "down"}, S(rng.randrange(200, 700)), {"op": "up"}]
        scheds.append((True, st + [S(500)]))
        # outage while the backlog is being unspooled
        scheds.append((True, [S(500), {"op": "down"}, {"op": "wait_offline"}, S(3000), {"op": "up"}, {"op": "wait_online"}, {"op": "sleep", "n": rng.choice([2, 5, 10])},
                              {"op": "down"}, S(300), {"op": "up"}, S(300)]))
        # short outages, back to back
        st = [S(400)]
        for _ in range(rng.randrange(3, 6)):
            st += [{"op": "down"}, {"op": "sleep", "n": rng.choice([1, 5, 30])}, {"op": "up"}, S(rng.randrange(100, 400))]
        scheds.append((True, st))
        # a second outage while the redo of the first is still being ingested (default spool pacing, traffic faster than it)
        cases.append({"steps": [S(1500), {"op": "down"}, {"op": "sleep", "n": 60}, {"op": "up"}, S(2500), {"op": "down"}, {"op": "sleep", "n": 60},
                                {"op": "up"}, S(1000)],
                      "start_up": True, "keepsafe_ms": 0, "connbuf": 1000, "iobuf": 4096, "spoolbuf": 10000, "pace_us": 200,
                      "file_bytes": 1000000, "spool_sleep_us": 500})
        # the endpoint accepts and stops reading, the writer blocks inside a socket write, then the connection is reset and a
        # reading endpoint takes over: nothing is dropped anywhere (buffers sized for all of it), so every line must arrive,
        # the one the writer was holding included
        nl = 12000
        cases.append({"steps": [{"op": "mode", "m": "blackhole"}, {"op": "up"}, {"op": "wait_online"}, S(nl), {"op": "sleep", "n": 600},
                                {"op": "down"}, {"op": "mode", "m": "read"}, {"op": "up"}],
                      "start_up": False, "keepsafe_ms": 0, "connbuf": nl + 1000, "iobuf": rng.choice([1024, 4096]), "spoolbuf": 20000, "pace_us": 0,
                      "file_bytes": 1000000, "spool_sleep_us": 10, "size": 400})
        # the same with a short keepSafe period P = 2 s: the lines are written 0.4 P after the connection came up and the reset comes
        # at 1.1 P, when they are about 0.65 P old — well within the period keepSafe promises to retain
        cases.append({"steps": [{"op": "mode", "m": "blackhole"}, {"op": "up"}, {"op": "wait_online"}, {"op": "sleep", "n": 800}, S(6000),
                                {"op": "sleep", "n": 1250}, {"op": "down"}, {"op": "mode", "m": "read"}, {"op": "up"}],
                      "start_up": False, "keepsafe_ms": 2000, "connbuf": 7000, "iobuf": 4096, "spoolbuf": 20000, "pace_us": 0,
                      "file_bytes": 1000000, "spool_sleep_us": 10, "size": 400})
        for start_up, steps in scheds:
            cases.append({"steps": steps, "start_up": start_up, "spool_sleep_us": rng.choice([10, 10, 500]), "keepsafe_ms": rng.choice([0, 300]), "connbuf": rng.choice([10, 100, 1000]),
                          "iobuf": rng.choice([4096, 65536]), "spoolbuf": rng.choice([100, 10000]), "pace_us": rng.choice([50, 100, 100, 0]),
                          # 44 = one spooled record of the default 40-byte line: segment sizes that records land on exactly
                          "file_bytes": rng.choice([20000, 200000, 1000000, 44 * 50, 44 * 333])})
        # spool segments whose size is a whole number of records: a record ends exactly at the size limit in every segment
        cases.append({"steps": [S(600), {"op": "down"}, {"op": "wait_offline"}, S(1500), {"op": "up"}, {"op": "wait_online"}, S(300)],
                      "start_up": True, "spool_sleep_us": 10, "keepsafe_ms": 0, "connbuf": 1000, "iobuf": 4096, "spoolbuf": 10000, "pace_us": 100,
                      "file_bytes": 44 * rng.choice([10, 25, 100])})
    return cases


def to_coq(case, obs):
    return ("{| q_sent := %s; q_missing := %s; q_foreign := %s; q_backlog := %s; q_slow := %s; q_slowspool := %s; q_noconn := %s; "
            "q_log := %s; q_max_us := %s; q_bound_us := %s |}"
            % (cN(obs["sent"]), cN(obs["missing"]), cN(obs["foreign"]), cN(max(0, obs["backlog"])), cN(obs["slow"]), cN(obs["slowspool"]),
               cN(obs["noconn"]), cbytes(bytes.fromhex(obs["log"])), cN(obs["max_in_us"]), cN(BOUND_US)))


def nontrivial_key(case, obs):
    ops = [s["op"] for s in case["steps"]]
    if "down" in ops:
        return json.dumps(case)
    return None


def sample(case, obs):
    return {"steps": case["steps"][:8], "tuning": {k: case[k] for k in ("keepsafe_ms", "connbuf", "spoolbuf", "pace_us", "file_bytes")},
            "spool_sleep_us": case.get("spool_sleep_us", 10), "obs": {k: v for k, v in obs.items() if k != "log"}, "relay_events": len(obs["log"]) // 2}


def distribution(cases):
    import collections
    d = collections.Counter()
    for c in cases:
        d["outages"] += sum(1 for s in c["steps"] if s["op"] == "down")
        d["lines"] += sum(s.get("n", 0) for s in c["steps"] if s["op"] == "send")
        d["keepsafe_ms=%d" % c["keepsafe_ms"]] += 1
        d["start_up=%s" % c["start_up"]] += 1
    return dict(d)


def coverage_extra(cases, obss):
    return {"observed": {"lines_sent": sum(o["sent"] for o in obss), "replayed_duplicates": sum(o["duplicated"] for o in obss),
                         "missing": sum(o["missing"] for o in obss), "slow_conn": sum(o["slow"] for o in obss),
                         "slow_spool": sum(o["slowspool"] for o in obss), "relay_events_replayed": sum(len(o["log"]) // 2 for o in obss),
                         "slowest_hand_off_us": max([o["max_in_us"] for o in obss] or [0])}}


def signature(case, obs, code, err):
    if err:
        return "C07:harness-error:" + err[:60]
    if code == 2:
        what = []
        if obs["missing"] > obs["slow"] + obs["slowspool"]:
            what.append("lines-lost-uncounted")
        if obs["foreign"]:
            what.append("corrupted-lines")
        if obs["backlog"]:
            what.append("backlog-not-drained")
        if obs["noconn"]:
            what.append("counted-as-no-spool")
        if obs["max_in_us"] > BOUND_US:
            what.append("hand-off-stalled")
        return "C07:" + "+".join(what)
    return "C07:relay-marks-differ-from-model"


MANIFEST = {
    "text": "Theorems (Props/C07.v) over a model of where a line can be (conn.In, keepSafe, wire, spool, received, dropped-and-counted) with the "
            "relay's view of the conn separated from its real state: for every schedule of hand-offs, breaks, late notices, recoveries, keepSafe "
            "rotations and interleavings no handed-off line is lost uncounted (invariant by induction), hence missing <= slow_conn + slow_spool "
            "once drained; redo replays conn.In and keepSafe; drain progress; unspool gate. Tie: real destination with spool=true against a scripted "
            "loopback endpoint (unique lines, duplicates allowed), backlog accessor, relay event marks replayed through Model/Relay.v.",
    "note": "partial: the conn/keepSafe half of the model is tied to the code by the black-box acceptor only; liveness is a progress lemma plus an "
            "observed drain, not a temporal theorem. The model's atomic hand-over from conn.In to keepSafe is what the code does since the "
            "repair 6f509d2 (getRedo waits for HandleData); before it, the check found lines lost in that window. Trusted: Coq kernel+VM, hooks.",
}
